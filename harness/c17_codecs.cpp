// C17 - displacement and immediate field codecs are exact for every value.
//
// Part A: CodeWriterUtils::write_offset for every OffsetFormat the backends construct (x86 / a64 / core embed_label_*)
//         and the Thumb / A32 split formats that fixup.h + codewriter.cpp define, x every offset in range + a band
//         outside + every misaligned residue (dense for ranges <= 2^29, 2^32 sweeps in the thorough tier, boundary
//         lattice for 64-bit fields), two backgrounds.  Oracle = extractor written from the Arm ARM / Intel SDM.
// Part B: arm::Utils immediates (logical bitmask, add/sub, fp8) against DecodeBitMasks / VFPExpandImm.
// Part C: immediates through the public a64::Assembler (mov sequences, movz/movn/movk, logical, add/sub, fmov,
//         bitfield aliases, pc-relative displacements) decoded by an independent decoder, plus fixups end-to-end.
//
// No randomness, no clocks in decisions.  Sharding: a global chunk counter, chunk i belongs to shard i % n.
#include "vh.h"
#include <asmjit/core.h>
#include <asmjit/a64.h>
#include <asmjit/x86.h>
#include <asmjit/core/codewriter_p.h>
#include <asmjit/arm/armutils.h>
#include <algorithm>
#include <cmath>
#include <cstdarg>
#include <climits>

using namespace asmjit;
typedef __int128 i128;

// ------------------------------------------------------------------------------------------------------------
// small helpers
// ------------------------------------------------------------------------------------------------------------
static inline uint64_t ones(unsigned n) { return n >= 64 ? ~0ull : ((1ull << n) - 1); }
static inline int64_t sext(uint64_t v, unsigned bits) {
  if (bits >= 64) return (int64_t)v;
  uint64_t m = 1ull << (bits - 1);
  v &= ones(bits);
  return (int64_t)((v ^ m) - m);
}
static inline uint32_t ror32(uint32_t v, unsigned n) { n &= 31; return n ? (v >> n) | (v << (32 - n)) : v; }
static inline uint32_t rol32(uint32_t v, unsigned n) { n &= 31; return n ? (v << n) | (v >> (32 - n)) : v; }

static std::string sfmt(const char* fmt, ...) {
  char b[900];
  va_list ap; va_start(ap, fmt); vsnprintf(b, sizeof b, fmt, ap); va_end(ap);
  return b;
}
static std::string i128s(i128 v) {
  if (v >= LLONG_MIN && v <= LLONG_MAX) return std::to_string((long long)v);
  bool neg = v < 0; unsigned __int128 u = neg ? (unsigned __int128)(-v) : (unsigned __int128)v;
  std::string s; while (u) { s += char('0' + int(u % 10)); u /= 10; }
  if (neg) s += '-';
  std::reverse(s.begin(), s.end());
  return s;
}

static long long g_chunk = 0;           // global chunk counter (identical in every shard)
static bool g_stop = false;             // deadline hit
static inline bool take_chunk() {
  vh::Ctx& c = vh::ctx();
  bool m = c.mine(g_chunk++);
  if (m && c.out_of_time()) g_stop = true;
  return m && !g_stop;
}
// item-level sharder for the small sections: 2^shift consecutive items form a chunk
struct Sharder {
  unsigned shift; long long i = 0; bool cur = false;
  explicit Sharder(unsigned s) : shift(s) {}
  inline bool next() { if ((i++ & ((1ll << shift) - 1)) == 0) cur = take_chunk(); return cur && !g_stop; }
};

// a test case in replayable form
struct Case { const char* kind; const char* s; uint64_t a, b, c, d; };
static std::string replay_text(const Case& cs) {
  return sfmt("harness=c17_codecs\nkind=%s\ns=%s\na=0x%llx\nb=0x%llx\nc=0x%llx\nd=0x%llx\n", cs.kind, cs.s,
              (unsigned long long)cs.a, (unsigned long long)cs.b, (unsigned long long)cs.c, (unsigned long long)cs.d);
}
static void fail(const std::string& key, const Case& cs, const std::string& desc) {
  vh::ctx().violation(key, desc, replay_text(cs));
}

// ------------------------------------------------------------------------------------------------------------
// reference decoders (Arm ARM pseudocode, written here; nothing below calls asmjit)
// ------------------------------------------------------------------------------------------------------------
// DecodeBitMasks(immN, imms, immr, immediate=TRUE, M) -> wmask.  false: reserved / UNDEFINED.
static bool decode_bit_masks(unsigned N, unsigned imms, unsigned immr, unsigned M, uint64_t& out) {
  unsigned v = ((N & 1) << 6) | (~imms & 0x3f);
  int len = -1;
  for (int i = 6; i >= 0; i--) if (v & (1u << i)) { len = i; break; }
  if (len < 1) return false;
  unsigned esize = 1u << len;
  if (M < esize) return false;
  unsigned levels = esize - 1;
  unsigned S = imms & levels, R = immr & levels;
  if (S == levels) return false;
  uint64_t welem = ones(S + 1);
  uint64_t emask = ones(esize);
  uint64_t e = R ? (((welem >> R) | (welem << (esize - R))) & emask) : welem;
  uint64_t r = 0;
  for (unsigned p = 0; p < M; p += esize) r |= e << p;
  out = r;
  return true;
}
// VFPExpandImm(imm8, N)
static uint64_t vfp_expand_imm(unsigned imm8, unsigned N) {
  unsigned E = N == 16 ? 5 : N == 32 ? 8 : 11, F = N - E - 1;
  uint64_t sign = (imm8 >> 7) & 1, b6 = (imm8 >> 6) & 1;
  uint64_t exp = ((b6 ^ 1) << (E - 1)) | ((b6 ? ones(E - 3) : 0) << 2) | ((imm8 >> 4) & 3);
  uint64_t frac = uint64_t(imm8 & 15) << (F - 4);
  return (sign << (N - 1)) | (exp << F) | frac;
}
// A32ExpandImm(imm12)
static uint32_t a32_expand_imm(unsigned imm12) { return ror32(imm12 & 0xff, 2 * ((imm12 >> 8) & 15)); }
static bool a32_is_modified_imm(uint32_t v) {
  for (unsigned rot = 0; rot < 16; rot++) if (rol32(v, 2 * rot) <= 0xffu) return true;
  return false;
}

static std::vector<uint64_t> g_lv[2];      // valid logical immediates: [0] 32-bit, [1] 64-bit (sorted)
static std::vector<uint64_t> g_fp[3];      // VFPExpandImm images: [0] half, [1] single, [2] double (sorted)
static inline bool in_sorted(const std::vector<uint64_t>& v, uint64_t x) { return std::binary_search(v.begin(), v.end(), x); }
static inline bool is_valid_logical(unsigned width, uint64_t v) { return in_sorted(g_lv[width == 64], v); }

static bool build_reference_sets() {
  for (int wi = 0; wi < 2; wi++) {
    unsigned M = wi ? 64 : 32;
    std::set<uint64_t> s;
    for (unsigned N = 0; N < 2; N++) for (unsigned imms = 0; imms < 64; imms++) for (unsigned immr = 0; immr < 64; immr++) {
      uint64_t m; if (decode_bit_masks(N, imms, immr, M, m)) s.insert(m);
    }
    g_lv[wi].assign(s.begin(), s.end());
  }
  for (int t = 0; t < 3; t++) {
    std::set<uint64_t> s;
    for (unsigned i = 0; i < 256; i++) s.insert(vfp_expand_imm(i, 16u << t));
    g_fp[t].assign(s.begin(), s.end());
  }
  // self check against the numbers the architecture implies: sum esize*(esize-1)
  return g_lv[1].size() == 5334 && g_lv[0].size() == 1302 && g_fp[0].size() == 256 && g_fp[1].size() == 256 && g_fp[2].size() == 256 &&
         !is_valid_logical(64, 0) && !is_valid_logical(64, ~0ull) && !is_valid_logical(32, 0) && !is_valid_logical(32, 0xffffffffu);
}

// ------------------------------------------------------------------------------------------------------------
// Part A: offset formats
// ------------------------------------------------------------------------------------------------------------
enum Kind { K_SIGNED, K_UNSIGNED, K_A64_ADR, K_A64_ADRP, K_T32_ADR, K_T32_B, K_T32_BLX, K_T32_BCOND, K_A32_ADR, K_A32_U23, K_A32_U23_SPLIT, K_A32_BLX };
struct Fmt {
  const char* name; OffsetType type; Kind kind;
  unsigned vs, lead, trail, bs, bc, dl;
  bool full32;        // 2^32-class range: dense sweep in the thorough tier
  const char* origin;
};
#define ST OffsetType
static const Fmt kFmts[] = {
  // --- constructed by the backends ---------------------------------------------------------------------------
  {"simple-s8",  ST::kSignedOffset,   K_SIGNED,   1, 0, 0, 0,  8, 0, false, "x86 EmitRel rel8, embed_label_delta(1)"},
  {"simple-s16", ST::kSignedOffset,   K_SIGNED,   2, 0, 0, 0, 16, 0, false, "embed_label_delta(2)"},
  {"simple-s32", ST::kSignedOffset,   K_SIGNED,   4, 0, 0, 0, 32, 0, true,  "x86 EmitRel rel32, embed_label_delta(4)"},
  {"simple-s64", ST::kSignedOffset,   K_SIGNED,   8, 0, 0, 0, 64, 0, false, "embed_label_delta(8)"},
  {"simple-u8",  ST::kUnsignedOffset, K_UNSIGNED, 1, 0, 0, 0,  8, 0, false, "embed_label_address(1)"},
  {"simple-u16", ST::kUnsignedOffset, K_UNSIGNED, 2, 0, 0, 0, 16, 0, false, "embed_label_address(2)"},
  {"simple-u32", ST::kUnsignedOffset, K_UNSIGNED, 4, 0, 0, 0, 32, 0, true,  "embed_label_address(4)"},
  {"simple-u64", ST::kUnsignedOffset, K_UNSIGNED, 8, 0, 0, 0, 64, 0, false, "embed_label_address(8)"},
  {"x86-s8+lead1+trail0",  ST::kSignedOffset,   K_SIGNED,   1, 1, 0, 0,  8, 0, false, "x86assembler jmp/call abs->rel8 reloc"},
  {"x86-s32+lead1+trail0", ST::kSignedOffset,   K_SIGNED,   4, 1, 0, 0, 32, 0, true,  "x86assembler jmp/call abs->rel32 reloc"},
  {"x86-s32+lead2+trail0", ST::kSignedOffset,   K_SIGNED,   4, 2, 0, 0, 32, 0, true,  "x86assembler 0F 8x / REX reloc"},
  {"x86-s32+lead3+trail4", ST::kSignedOffset,   K_SIGNED,   4, 3, 4, 0, 32, 0, true,  "x86assembler rip-rel mem + imm32"},
  {"x86-s32+lead4+trail1", ST::kSignedOffset,   K_SIGNED,   4, 4, 1, 0, 32, 0, true,  "x86assembler rip-rel mem + imm8"},
  {"x86-s32+lead7+trail2", ST::kSignedOffset,   K_SIGNED,   4, 7, 2, 0, 32, 0, true,  "x86assembler long prefix + imm16"},
  {"x86-u32+lead1+trail0", ST::kUnsignedOffset, K_UNSIGNED, 4, 1, 0, 0, 32, 0, true,  "x86assembler abs32 moffs"},
  {"x86-u32+lead2+trail1", ST::kUnsignedOffset, K_UNSIGNED, 4, 2, 1, 0, 32, 0, true,  "x86assembler abs32 mem + imm8"},
  {"x86-u32+lead3+trail4", ST::kUnsignedOffset, K_UNSIGNED, 4, 3, 4, 0, 32, 0, true,  "x86assembler abs32 mem + imm32"},
  {"a64-imm19-sh5-d2", ST::kSignedOffset, K_SIGNED,   4, 0, 0, 5, 19, 2, false, "a64assembler b.cond/cbz/ldr literal"},
  {"a64-imm26-sh0-d2", ST::kSignedOffset, K_SIGNED,   4, 0, 0, 0, 26, 2, false, "a64assembler b/bl"},
  {"a64-imm14-sh5-d2", ST::kSignedOffset, K_SIGNED,   4, 0, 0, 5, 14, 2, false, "a64assembler tbz/tbnz"},
  {"a64-adr",          ST::kAArch64_ADR,  K_A64_ADR,  4, 0, 0, 5, 21, 0, false, "a64assembler adr"},
  {"a64-adrp",         ST::kAArch64_ADRP, K_A64_ADRP, 4, 0, 0, 5, 21, 12, false, "a64assembler adrp"},
  // --- defined by fixup.h / codewriter.cpp (parameters as documented in fixup.h) ---------------------------------
  {"t32-adr",          ST::kThumb32_ADR,   K_T32_ADR,   4, 0, 0, 0, 12, 0, false, "fixup.h kThumb32_ADR"},
  {"t32-b",            ST::kThumb32_B,     K_T32_B,     4, 0, 0, 0, 24, 1, false, "fixup.h kThumb32_B"},
  {"t32-blx",          ST::kThumb32_BLX,   K_T32_BLX,   4, 0, 0, 0, 23, 2, false, "fixup.h kThumb32_BLX"},
  {"t32-bcond",        ST::kThumb32_BCond, K_T32_BCOND, 4, 0, 0, 0, 20, 1, false, "fixup.h kThumb32_BCond"},
  {"a32-adr",          ST::kAArch32_ADR,   K_A32_ADR,   4, 0, 0, 0, 32, 0, true,  "fixup.h kAArch32_ADR"},
  {"a32-u23-imm12",    ST::kAArch32_U23_SignedOffset, K_A32_U23, 4, 0, 0, 0, 12, 0, false, "fixup.h kAArch32_U23_SignedOffset (ldr literal)"},
  {"a32-u23-imm8-d2",  ST::kAArch32_U23_SignedOffset, K_A32_U23, 4, 0, 0, 0,  8, 2, false, "fixup.h kAArch32_U23_SignedOffset (vldr literal)"},
  {"a32-u23-split8",   ST::kAArch32_U23_0To3At0_4To7At8, K_A32_U23_SPLIT, 4, 0, 0, 0, 8, 0, false, "fixup.h kAArch32_U23_0To3At0_4To7At8"},
  {"a32-blx",          ST::kAArch32_1To24At0_0At24, K_A32_BLX, 4, 0, 0, 0, 25, 1, false, "fixup.h kAArch32_1To24At0_0At24"},
  {"a32-b-imm24-d2",   ST::kSignedOffset,   K_SIGNED,   4, 0, 0, 0, 24, 2, false, "generic (A32 b/bl)"},
  {"t16-b-imm11-d1",   ST::kSignedOffset,   K_SIGNED,   2, 0, 0, 0, 11, 1, false, "generic value_size 2 (T16 b)"},
  {"t16-bcond-imm8-d1",ST::kSignedOffset,   K_SIGNED,   2, 0, 0, 0,  8, 1, false, "generic value_size 2 (T16 b<c>)"},
  {"t16-ldr-u8-d2",    ST::kUnsignedOffset, K_UNSIGNED, 2, 0, 0, 0,  8, 2, false, "generic value_size 2 unsigned (T16 ldr literal)"},
  {"gen-s64-sh8-bc40-d3", ST::kSignedOffset,   K_SIGNED,   8, 0, 0, 8, 40, 3, false, "generic value_size 8 signed with shift/discard"},
  {"gen-u64-sh4-bc33-d1", ST::kUnsignedOffset, K_UNSIGNED, 8, 0, 0, 4, 33, 1, false, "generic value_size 8 unsigned with shift/discard"},
};
#undef ST
static const size_t kNumFmts = sizeof(kFmts) / sizeof(kFmts[0]);

static inline bool is_sign_magnitude(Kind k) { return k == K_T32_ADR || k == K_A32_ADR || k == K_A32_U23 || k == K_A32_U23_SPLIT; }
static inline bool is_u64_carrier(const Fmt& f) { return f.kind == K_UNSIGNED && f.bc + f.dl >= 64; }

// mathematically valid offsets of a format (architecture definition / OffsetFormat documentation)
static bool oracle_valid(const Fmt& f, int64_t off) {
  i128 o = off;
  auto sgn = [&](unsigned align_bits, unsigned total_bits) -> bool {
    if (o & ((i128(1) << align_bits) - 1)) return false;
    i128 lim = i128(1) << (total_bits - 1);
    return o >= -lim && o < lim;
  };
  i128 m = o < 0 ? -o : o;
  switch (f.kind) {
    case K_SIGNED: return sgn(f.dl, f.bc + f.dl);
    case K_UNSIGNED: {
      if (is_u64_carrier(f)) {   // 64-bit address carried in an int64_t
        uint64_t u = uint64_t(off);
        if (u & ones(f.dl)) return false;
        return (u >> f.dl) <= ones(f.bc);
      }
      if (o < 0 || (o & ((i128(1) << f.dl) - 1))) return false;
      return (o >> f.dl) < (i128(1) << f.bc);
    }
    case K_A64_ADR: return sgn(0, 21);
    case K_A64_ADRP: return sgn(12, 33);
    case K_T32_ADR: return m <= 4095;
    case K_T32_B: return sgn(1, 25);
    case K_T32_BLX: return sgn(2, 25);
    case K_T32_BCOND: return sgn(1, 21);
    case K_A32_ADR: return m <= 0xffffffffll && a32_is_modified_imm(uint32_t(m));
    case K_A32_U23: return (m & ((i128(1) << f.dl) - 1)) == 0 && (m >> f.dl) < (i128(1) << f.bc);
    case K_A32_U23_SPLIT: return m <= 255;
    case K_A32_BLX: return sgn(1, 26);
  }
  return false;
}
static void oracle_range(const Fmt& f, i128& lo, i128& hi) {
  auto sgn = [&](unsigned align_bits, unsigned total_bits) { lo = -(i128(1) << (total_bits - 1)); hi = (i128(1) << (total_bits - 1)) - (i128(1) << align_bits); };
  switch (f.kind) {
    case K_SIGNED: sgn(f.dl, f.bc + f.dl); break;
    case K_UNSIGNED: lo = 0; hi = ((i128(1) << f.bc) - 1) << f.dl; break;
    case K_A64_ADR: sgn(0, 21); break;
    case K_A64_ADRP: sgn(12, 33); break;
    case K_T32_ADR: hi = 4095; lo = -hi; break;
    case K_T32_B: sgn(1, 25); break;
    case K_T32_BLX: sgn(2, 25); break;
    case K_T32_BCOND: sgn(1, 21); break;
    case K_A32_ADR: hi = 0xff000000ll; lo = -hi; break;
    case K_A32_U23: hi = ((i128(1) << f.bc) - 1) << f.dl; lo = -hi; break;
    case K_A32_U23_SPLIT: hi = 255; lo = -hi; break;
    case K_A32_BLX: sgn(1, 26); break;
  }
}
// bits of the patched word that belong to the displacement
static uint64_t oracle_mask(const Fmt& f) {
  switch (f.kind) {
    case K_SIGNED: case K_UNSIGNED: return ones(f.bc) << f.bs;
    case K_A64_ADR: case K_A64_ADRP: return (3ull << 29) | (0x7ffffull << 5);
    case K_T32_ADR: return (1ull << 26) | (1ull << 23) | (1ull << 21) | (7ull << 12) | 0xff;
    case K_T32_B: case K_T32_BLX: return (1ull << 26) | (0x3ffull << 16) | (1ull << 13) | (1ull << 11) | 0x7ff;
    case K_T32_BCOND: return (1ull << 26) | (0x3full << 16) | (1ull << 13) | (1ull << 11) | 0x7ff;
    case K_A32_ADR: return 0xfffull | (3ull << 22);
    case K_A32_U23: return (ones(f.bc) << f.bs) | (1ull << 23);
    case K_A32_U23_SPLIT: return 0xf0full | (1ull << 23);
    case K_A32_BLX: return 0x1ffffffull;
  }
  return 0;
}
// the displacement an architectural decoder reads from word w; false = no consistent displacement
static bool oracle_decode(const Fmt& f, uint64_t w, i128& out) {
  switch (f.kind) {
    case K_SIGNED: out = i128(sext(w >> f.bs, f.bc)) * (i128(1) << f.dl); return true;
    case K_UNSIGNED: out = i128((w >> f.bs) & ones(f.bc)) * (i128(1) << f.dl); return true;
    case K_A64_ADR: case K_A64_ADRP: {
      uint64_t immlo = (w >> 29) & 3, immhi = (w >> 5) & 0x7ffff;
      out = i128(sext((immhi << 2) | immlo, 21)) * (f.kind == K_A64_ADRP ? 4096 : 1);
      return true;
    }
    case K_T32_ADR: {   // ADR.W T2 (sub, bits 23,21 set) / T3 (add): imm32 = ZeroExtend(i:imm3:imm8)
      uint64_t mg = (((w >> 26) & 1) << 11) | (((w >> 12) & 7) << 8) | (w & 0xff);
      unsigned n23 = (w >> 23) & 1, n21 = (w >> 21) & 1;
      if (n23 != n21) return false;
      out = n23 ? -i128(mg) : i128(mg);
      return true;
    }
    case K_T32_B: case K_T32_BLX: {   // B T4 / BLX T2: imm32 = SignExtend(S:I1:I2:imm10:imm11:'0'), I = NOT(J EOR S)
      uint64_t S = (w >> 26) & 1, imm10 = (w >> 16) & 0x3ff, J1 = (w >> 13) & 1, J2 = (w >> 11) & 1, imm11 = w & 0x7ff;
      if (f.kind == K_T32_BLX && (imm11 & 1)) return false;   // H must be 0
      uint64_t I1 = (J1 ^ S) ^ 1, I2 = (J2 ^ S) ^ 1;
      out = i128(sext((S << 23) | (I1 << 22) | (I2 << 21) | (imm10 << 11) | imm11, 24)) * 2;
      return true;
    }
    case K_T32_BCOND: {   // B<c>.W T3: imm32 = SignExtend(S:J2:J1:imm6:imm11:'0')
      uint64_t S = (w >> 26) & 1, imm6 = (w >> 16) & 0x3f, J1 = (w >> 13) & 1, J2 = (w >> 11) & 1, imm11 = w & 0x7ff;
      out = i128(sext((S << 19) | (J2 << 18) | (J1 << 17) | (imm6 << 11) | imm11, 20)) * 2;
      return true;
    }
    case K_A32_ADR: {     // ADR A1 = ADD (bits 23:22 = 10), A2 = SUB (01); imm32 = A32ExpandImm(imm12)
      uint64_t mg = a32_expand_imm(unsigned(w & 0xfff));
      unsigned op = (w >> 22) & 3;
      if (op == 2) out = i128(mg); else if (op == 1) out = -i128(mg); else return false;
      return true;
    }
    case K_A32_U23: {
      i128 mg = i128((w >> f.bs) & ones(f.bc)) << f.dl;
      out = ((w >> 23) & 1) ? mg : -mg;
      return true;
    }
    case K_A32_U23_SPLIT: {
      i128 mg = (((w >> 8) & 0xf) << 4) | (w & 0xf);
      out = ((w >> 23) & 1) ? mg : -mg;
      return true;
    }
    case K_A32_BLX: {     // BLX A2: imm32 = SignExtend(imm24:H:'0')
      uint64_t imm24 = w & 0xffffff, H = (w >> 24) & 1;
      out = i128(sext((imm24 << 1) | H, 25)) * 2;
      return true;
    }
  }
  return false;
}

enum { CL_OK = 0, CL_OOB, CL_ACC_INV, CL_REF_VALID, CL_OTHER, CL_VALUE, CL_N };
static const char* kClause[CL_N] = {"ok", "wrote-outside-word", "accepted-out-of-range", "refused-in-range", "other-bits-changed", "value-not-recovered"};
static const unsigned G = 8;   // guard bytes on both sides of the region

struct FmtRt {
  const Fmt* f; OffsetFormat of; uint64_t mask; unsigned wpos;
  uint8_t before[2][64];
  long long viol[CL_N]; long long evals, accepted, refused;
};
static std::vector<FmtRt> g_rt;

static inline uint64_t ldw(const uint8_t* p, unsigned n) { uint64_t v = 0; for (unsigned i = 0; i < n; i++) v |= uint64_t(p[i]) << (8 * i); return v; }
static inline void stw(uint8_t* p, unsigned n, uint64_t v) { for (unsigned i = 0; i < n; i++) p[i] = uint8_t(v >> (8 * i)); }

static void init_formats() {
  g_rt.resize(kNumFmts);
  for (size_t i = 0; i < kNumFmts; i++) {
    const Fmt& f = kFmts[i];
    FmtRt& rt = g_rt[i];
    memset(&rt, 0, sizeof rt);
    rt.f = &f;
    if (f.bs == 0 && f.dl == 0 && f.bc == f.vs * 8 && (f.kind == K_SIGNED || f.kind == K_UNSIGNED)) rt.of.reset_to_simple_value(f.type, f.vs);
    else if (f.kind == K_A64_ADRP) { rt.of.reset_to_imm_value(f.type, f.vs, f.bs, f.bc, 0); rt.of._imm_discard_lsb = uint8_t(f.dl); }   // as a64assembler does
    else rt.of.reset_to_imm_value(f.type, f.vs, f.bs, f.bc, f.dl);
    if (f.lead || f.trail) rt.of.set_leading_and_trailing_size(f.lead, f.trail);
    rt.mask = oracle_mask(f) & ones(f.vs * 8);
    rt.wpos = G + f.lead;
    memset(rt.before[0], 0x00, 64);
    memset(rt.before[1], 0xff, 64);
    stw(rt.before[1] + rt.wpos, f.vs, ~rt.mask);   // all ones except the (zero) field
  }
}

static inline int check_offset(FmtRt& rt, int bg, int64_t off, bool& accepted, uint64_t& w, uint64_t& w0) {
  const Fmt& f = *rt.f;
  alignas(8) uint8_t buf[64];
  memcpy(buf, rt.before[bg], 64);
  bool ok = CodeWriterUtils::write_offset(buf + G, off, rt.of);
  w = ldw(buf + rt.wpos, f.vs); w0 = ldw(rt.before[bg] + rt.wpos, f.vs);
  memcpy(buf + rt.wpos, rt.before[bg] + rt.wpos, f.vs);
  accepted = ok;
  if (memcmp(buf, rt.before[bg], 64) != 0) return CL_OOB;
  bool valid = oracle_valid(f, off);
  if (!ok) return valid ? CL_REF_VALID : CL_OK;
  if (!valid) return CL_ACC_INV;
  if ((w & ~rt.mask) != (w0 & ~rt.mask)) return CL_OTHER;
  i128 dec;
  if (!oracle_decode(f, w, dec)) return CL_VALUE;
  i128 want = is_u64_carrier(f) ? i128(uint64_t(off)) : i128(off);
  return dec == want ? CL_OK : CL_VALUE;
}

static void run_offset(FmtRt& rt, int bg, int64_t off, bool count_nontrivial) {
  bool acc; uint64_t w, w0;
  int cl = check_offset(rt, bg, off, acc, w, w0);
  rt.evals++;
  if (cl == CL_OK) {
    if (acc) { if (count_nontrivial) rt.accepted++; } else if (count_nontrivial) rt.refused++;
    return;
  }
  if (rt.viol[cl]++ == 0) {
    const Fmt& f = *rt.f;
    i128 dec = 0; bool dok = oracle_decode(f, w, dec);
    Case cs{"offset", f.name, uint64_t(bg), uint64_t(off), 0, 0};
    fail(std::string("offset:") + f.name + ":" + kClause[cl], cs,
         sfmt("write_offset(format %s {type=%u value_size=%u value_offset=%u region=%u bits=%u shift=%u discard_lsb=%u; %s}, offset=%lld, background=%s) %s; "
              "word 0x%llx -> 0x%llx (field mask 0x%llx); architectural decode of the patched word = %s; offset is %s",
              f.name, unsigned(f.type), f.vs, f.lead, f.lead + f.vs + f.trail, f.bc, f.bs, f.dl, f.origin, (long long)off,
              bg ? "ones-outside-field" : "zero", acc ? "returned true" : "returned false", (unsigned long long)w0, (unsigned long long)w,
              (unsigned long long)rt.mask, dok ? i128s(dec).c_str() : "(inconsistent)", oracle_valid(f, off) ? "encodable" : "not encodable (range/alignment)"));
  }
}

struct Seg { int64_t start; uint64_t count; uint64_t stride; };
struct Plan { std::vector<Seg> segs; std::vector<int64_t> pts; std::string bound; };
static bool seg_covers(const Seg& s, int64_t v) {
  i128 d = i128(v) - s.start;
  if (d < 0 || d % i128(s.stride)) return false;
  return uint64_t(d / i128(s.stride)) < s.count;
}
static Seg dense_seg(i128 lo, i128 hi) {
  if (lo < LLONG_MIN + 1) lo = LLONG_MIN + 1;
  if (hi > LLONG_MAX) hi = LLONG_MAX;
  return Seg{int64_t(lo), uint64_t(hi - lo + 1), 1};
}
static const std::vector<i128>& generic_lattice() {
  static std::vector<i128> L;
  if (!L.empty()) return L;
  const int ds[] = {-4096, -3, -2, -1, 0, 1, 2, 3, 4096};
  for (int n = 0; n <= 64; n++) for (int d : ds) { L.push_back((i128(1) << n) + d); L.push_back(-(i128(1) << n) + d); }
  const uint64_t pats[] = {0x5555555555555555ull, 0xaaaaaaaaaaaaaaaaull, 0x123456789abcdef0ull, 0xfedcba9876543210ull, 0x8000000180000001ull};
  for (unsigned n = 1; n <= 64; n++) for (uint64_t p : pats) { i128 v = i128(p & ones(n)); L.push_back(v); L.push_back(-v); }
  return L;
}

static Plan make_plan(const Fmt& f, bool thorough) {
  Plan pl;
  i128 lo, hi; oracle_range(f, lo, hi);
  i128 pmin = is_sign_magnitude(f.kind) ? i128(LLONG_MIN) + 1 : i128(LLONG_MIN);   // -INT64_MIN is UB inside encode_offset32: not exercised
  std::set<int64_t> P;
  auto addp = [&](i128 v) { if (v >= pmin && v <= LLONG_MAX) P.insert(int64_t(v)); };
  auto band = [&](i128 x, int r) { for (int d = -r; d <= r; d++) addp(x + d); };
  for (i128 v : generic_lattice()) addp(v);
  addp(LLONG_MAX); addp(pmin);
  i128 unit = i128(1) << f.dl;
  for (i128 x : {lo, hi, i128(0)}) for (int k = -3; k <= 3; k++) { addp(x + k * unit); addp(x + k * unit + 1); addp(x + k * unit - 1); }
  i128 width = hi - lo + 1;
  if (is_u64_carrier(f)) {
    pl.bound = "boundary lattice (+-2^n+-d, bit patterns) over all of int64";
    band(0, 4096);
  } else if (f.kind == K_A32_ADR) {
    if (thorough) { pl.segs.push_back(dense_seg(-(i128(1) << 32) - 4096, (i128(1) << 32) + 4096)); pl.bound = "every offset in [-2^32-4096, 2^32+4096]"; }
    else {
      pl.segs.push_back(dense_seg(-(i128(1) << 26), i128(1) << 26));
      for (unsigned e = 0; e < 4096; e++) {
        i128 v = a32_expand_imm(e);
        for (int s = -1; s <= 1; s += 2) { addp(s * v); addp(s * (v + 1)); addp(s * (v - 1)); for (unsigned k = 0; k <= 33; k++) addp(s * (v ^ (i128(1) << k))); }
      }
      pl.bound = "every offset in [-2^26, 2^26] + all 4096 A32 modified immediates, +-1 and every single-bit flip of them, both signs";
    }
  } else if (width <= (i128(1) << 29)) {
    pl.segs.push_back(dense_seg(lo - 4096, hi + 4096));
    pl.bound = "every offset in [min-4096, max+4096] (all residues)";
  } else if (f.kind == K_A64_ADRP) {
    const unsigned R[] = {0, 1, 2, 3, 4, 8, 16, 32, 64, 128, 256, 512, 1024, 2048, 2047, 4094, 4095, 0x555, 0xaaa};
    i128 q0 = (lo >> 12) - 4096, q1 = (hi >> 12) + 4096;
    for (unsigned r : R) pl.segs.push_back(Seg{int64_t(q0 * 4096 + r), uint64_t(q1 - q0 + 1), 4096});
    band(lo, 8192); band(hi, 8192); band(0, 8192);
    pl.bound = "every page in [min-4096 pages, max+4096 pages] x 19 residues + every offset within 8192 of min, max, 0";
  } else if (width <= (i128(1) << 34) && thorough && f.full32) {
    pl.segs.push_back(dense_seg(lo - 4096, hi + 4096));
    pl.bound = "every offset in [min-4096, max+4096] (2^32 sweep)";
  } else {
    band(lo, 4096); band(hi, 4096); band(0, 4096);
    pl.bound = "boundary lattice (+-2^n+-d, bit patterns) + every offset within 4096 of min, max, 0";
  }
  for (int64_t v : P) {
    bool cov = false;
    for (const Seg& s : pl.segs) if (seg_covers(s, v)) { cov = true; break; }
    if (!cov) pl.pts.push_back(v);
  }
  return pl;
}

static void section_offsets() {
  vh::Ctx& c = vh::ctx();
  std::string only = c.opt("fmt");
  std::string bounds;
  for (size_t fi = 0; fi < kNumFmts && !g_stop; fi++) {
    const Fmt& f = kFmts[fi];
    if (!only.empty() && only != f.name) continue;
    FmtRt& rt = g_rt[fi];
    Plan pl = make_plan(f, c.thorough());
    const uint64_t CH = 1ull << 18;
    for (const Seg& s : pl.segs) {
      for (uint64_t k = 0; k < s.count && !g_stop; k += CH) {
        if (!take_chunk()) continue;
        uint64_t n = std::min<uint64_t>(CH, s.count - k);
        int64_t off = int64_t(i128(s.start) + i128(k) * i128(s.stride));
        for (uint64_t i = 0; i < n; i++, off = int64_t(uint64_t(off) + s.stride)) { run_offset(rt, 0, off, true); run_offset(rt, 1, off, false); }
      }
    }
    for (size_t k = 0; k < pl.pts.size() && !g_stop; k += 4096) {
      if (!take_chunk()) continue;
      size_t n = std::min<size_t>(4096, pl.pts.size() - k);
      for (size_t i = 0; i < n; i++) { run_offset(rt, 0, pl.pts[k + i], true); run_offset(rt, 1, pl.pts[k + i], false); }
    }
    if (fi < 3 || f.kind == K_A64_ADRP) bounds += std::string(f.name) + ": " + pl.bound + "; ";
  }
  for (FmtRt& rt : g_rt) {
    c.n("evaluations") += rt.evals;
    c.n("offset_evaluations") += rt.evals;
    c.n("offset_values_encoded_and_decoded") += rt.accepted;
    c.n("offset_values_refused") += rt.refused;
    c.n("distinct_nontrivial") += rt.accepted;
    for (int cl = 1; cl < CL_N; cl++) if (rt.viol[cl] > 1) c.viol_count[std::string("offset:") + rt.f->name + ":" + kClause[cl]] += int(std::min<long long>(rt.viol[cl] - 1, INT_MAX / 2));
  }
  c.n("offset_formats") = c.shard_i == 0 ? (long long)kNumFmts : 0;
  c.strs["offset_bounds"] = bounds;
}

// ------------------------------------------------------------------------------------------------------------
// Part B: arm::Utils immediates
// ------------------------------------------------------------------------------------------------------------
static long long g_eval = 0, g_nontrivial = 0;

// accept <=> in the DecodeBitMasks image; an accepted value's N:immr:imms decodes back to it
static void check_logical(unsigned width, uint64_t v, bool primary) {
  g_eval++;
  bool want = is_valid_logical(width, v);
  arm::Utils::LogicalImm li{0xdeadu, 0xdeadu, 0xdeadu};
  bool got_enc = arm::Utils::encode_logical_imm(v, width, Out(li));
  bool got_is = arm::Utils::is_logical_imm(v, width);
  Case cs{"logical", "", width, v, 0, 0};
  if (got_is != want)
    fail(sfmt("logical-imm:is_logical_imm:%s:w%u", want ? "refused-valid" : "accepted-invalid", width), cs,
         sfmt("is_logical_imm(0x%llx, %u) = %d but the value %s a DecodeBitMasks image", (unsigned long long)v, width, int(got_is), want ? "is" : "is not"));
  if (got_enc != want)
    fail(sfmt("logical-imm:encode_logical_imm:%s:w%u", want ? "refused-valid" : "accepted-invalid", width), cs,
         sfmt("encode_logical_imm(0x%llx, %u) = %d but the value %s a DecodeBitMasks image", (unsigned long long)v, width, int(got_enc), want ? "is" : "is not"));
  if (got_enc && want) {
    uint64_t back = 0;
    bool dok = li.n <= 1 && li.s <= 63 && li.r <= 63 && decode_bit_masks(li.n, li.s, li.r, width, back);
    if (!dok || back != v)
      fail(sfmt("logical-imm:encode_logical_imm:roundtrip:w%u", width), cs,
           sfmt("encode_logical_imm(0x%llx, %u) -> N=%u immr=%u imms=%u which decodes to %s0x%llx", (unsigned long long)v, width, li.n, li.r, li.s,
                dok ? "" : "(reserved) ", (unsigned long long)back));
    else if (primary) g_nontrivial++;
  }
}

static void check_addsub(uint64_t v, bool primary) {
  g_eval++;
  bool want = v < 4096 || ((v & 0xfff) == 0 && (v >> 12) < 4096);   // imm12 or imm12 LSL #12
  bool got = arm::Utils::is_add_sub_imm(v);
  if (got != want)
    fail(std::string("addsub-imm:is_add_sub_imm:") + (want ? "refused-valid" : "accepted-invalid"), Case{"addsub", "", 0, v, 0, 0},
         sfmt("is_add_sub_imm(0x%llx) = %d, but the value %s imm12 or imm12<<12", (unsigned long long)v, int(got), want ? "is" : "is not"));
  else if (want && primary) g_nontrivial++;
}

// t: 0 half, 1 single, 2 double
static void check_fp(unsigned t, uint64_t bits, bool primary) {
  g_eval++;
  bool want = in_sorted(g_fp[t], bits);
  bool got = t == 0 ? arm::Utils::is_fp16_imm8(uint32_t(bits)) : t == 1 ? arm::Utils::is_fp32_imm8(uint32_t(bits)) : arm::Utils::is_fp64_imm8(uint64_t(bits));
  static const char* nm[3] = {"fp16", "fp32", "fp64"};
  Case cs{"fp", nm[t], t, bits, 0, 0};
  if (got != want) {
    fail(sfmt("fp8:is_%s_imm8:%s", nm[t], want ? "refused-valid" : "accepted-invalid"), cs,
         sfmt("is_%s_imm8(0x%llx) = %d, but the bit pattern %s a VFPExpandImm image", nm[t], (unsigned long long)bits, int(got), want ? "is" : "is not"));
    return;
  }
  if (!want) return;
  if (t == 2) {
    uint32_t imm8 = arm::Utils::encode_fp64_to_imm8(uint64_t(bits));
    if (imm8 > 255 || vfp_expand_imm(imm8, 64) != bits) {
      fail("fp8:encode_fp64_to_imm8:roundtrip", cs, sfmt("encode_fp64_to_imm8(0x%llx) = 0x%x which expands to 0x%llx", (unsigned long long)bits, imm8, (unsigned long long)vfp_expand_imm(imm8 & 255, 64)));
      return;
    }
    double dv; memcpy(&dv, &bits, 8);
    if (!arm::Utils::is_fp64_imm8(dv) || arm::Utils::encode_fp64_to_imm8(dv) != imm8) { fail("fp8:fp64-double-overload", cs, sfmt("double overloads disagree with the bit-pattern overloads for 0x%llx", (unsigned long long)bits)); return; }
  }
  if (t == 1) {
    uint32_t b32 = uint32_t(bits); float fv; memcpy(&fv, &b32, 4);
    if (!arm::Utils::is_fp32_imm8(fv)) { fail("fp8:fp32-float-overload", cs, sfmt("is_fp32_imm8(float) refuses 0x%x", b32)); return; }
  }
  if (primary) g_nontrivial++;
}

static void section_utils() {
  vh::Ctx& c = vh::ctx();
  long long e0 = g_eval;
  // (1) logical immediates: every valid value; every 1-bit and 2-bit neighbour; 0 and ~0
  for (int wi = 0; wi < 2 && !g_stop; wi++) {
    unsigned W = wi ? 64 : 32;
    Sharder sh(6);
    check_logical(W, 0, false); check_logical(W, ones(W), false);
    for (uint64_t v : g_lv[wi]) {
      if (!sh.next()) continue;
      check_logical(W, v, true);
      for (unsigned i = 0; i < W; i++) {
        check_logical(W, v ^ (1ull << i), false);
        for (unsigned j = i + 1; j < W; j++) check_logical(W, v ^ (1ull << i) ^ (1ull << j), false);
      }
      check_logical(W, (v + 1) & ones(W), false); check_logical(W, (v - 1) & ones(W), false); check_logical(W, ~v & ones(W), false);
    }
  }
  // (2) 64-bit: every circular pattern with exactly two runs of ones (valid only when periodic)
  {
    Sharder sh(0);
    for (unsigned a = 0; a < 64 && !g_stop; a++) {
      if (!sh.next()) continue;
      for (unsigned b = a + 1; b < 64; b++) for (unsigned cc = b + 1; cc < 64; cc++) for (unsigned d = cc + 1; d < 64; d++) {
        uint64_t v = (ones(b) ^ ones(a)) | (ones(d) ^ ones(cc));          // ones in [a,b) and [cc,d)
        check_logical(64, v, false);
        check_logical(64, ~v, false);
      }
    }
  }
  // (3) 32-bit: every 32-bit value (both tiers; 2^32 inlined evaluations)
  {
    for (uint64_t hi = 0; hi < (1ull << 14) && !g_stop; hi++) {
      if (!take_chunk()) continue;
      for (uint64_t lo = 0; lo < (1ull << 18); lo++) check_logical(32, (hi << 18) | lo, false);
    }
  }
  c.n("logical_imm_evaluations") = g_eval - e0; e0 = g_eval;
  // (4) add/sub immediates: every value below 2^26 and a lattice above
  for (uint64_t hi = 0; hi < (1ull << 8) && !g_stop; hi++) {
    if (!take_chunk()) continue;
    for (uint64_t lo = 0; lo < (1ull << 18); lo++) check_addsub((hi << 18) | lo, true);
  }
  if (take_chunk()) {
    for (unsigned k = 24; k < 64; k++) for (uint64_t base : {0ull, 1ull, 0xfffull, 0x1000ull, 0xfff000ull, 0xabc000ull, 0x800000ull}) {
      check_addsub(base | (1ull << k), false); check_addsub((base | (1ull << k)) - 1, false); check_addsub(base + (1ull << k), false);
    }
    check_addsub(~0ull, false); check_addsub(~0ull << 12, false); check_addsub(0xfffull << 13, false); check_addsub(0xfffull << 24, false);
  }
  c.n("addsub_imm_evaluations") = g_eval - e0; e0 = g_eval;
  // (5) fp8: all half patterns; all single patterns; double: all top-16-bit patterns x low-48 lattice, 1/2-bit neighbours
  if (take_chunk()) for (uint64_t v = 0; v < 65536; v++) check_fp(0, v, true);
  for (uint64_t hi = 0; hi < (1ull << 14) && !g_stop; hi++) {
    if (!take_chunk()) continue;
    for (uint64_t lo = 0; lo < (1ull << 18); lo++) check_fp(1, (hi << 18) | lo, true);
  }
  {
    Sharder sh(8);
    for (uint64_t top = 0; top < 65536 && !g_stop; top++) {
      if (!sh.next()) continue;
      check_fp(2, top << 48, true);
      for (unsigned k = 0; k < 48; k++) check_fp(2, (top << 48) | (1ull << k), false);
      check_fp(2, (top << 48) | ones(48), false);
    }
    Sharder sh2(2);
    for (uint64_t v : g_fp[2]) {
      if (!sh2.next()) continue;
      for (unsigned i = 0; i < 64; i++) { check_fp(2, v ^ (1ull << i), false); for (unsigned j = i + 1; j < 64; j++) check_fp(2, v ^ (1ull << i) ^ (1ull << j), false); }
    }
  }
  c.n("fp8_evaluations") = g_eval - e0;
}

// ------------------------------------------------------------------------------------------------------------
// Part C: immediates through the public a64::Assembler
// ------------------------------------------------------------------------------------------------------------
static const uint64_t kBase = 0x0000400000000000ull;   // page aligned base address for pc-relative tests

struct AsmA64 {
  CodeHolder code; a64::Assembler a;
  explicit AsmA64(uint64_t base) { code.init(Environment(Arch::kAArch64), base); code.attach(&a); }
  template<class F> Error run(F&& f, uint32_t* ws, size_t& n) {
    a.set_offset(0);
    Error e = f(a);
    size_t sz = a.offset();
    n = std::min<size_t>(sz / 4, 8);
    const uint8_t* p = a.buffer_data();
    for (size_t i = 0; i < n; i++) ws[i] = uint32_t(ldw(p + 4 * i, 4));
    if (sz & 3) n = 99;   // not a whole number of instructions
    return e;
  }
};
static AsmA64& asm_plain() { static AsmA64* x = new AsmA64(Globals::kNoBaseAddress); return *x; }
static AsmA64& asm_based() { static AsmA64* x = new AsmA64(kBase); return *x; }
static inline a64::Gp gp(bool x, unsigned id) { return x ? a64::Gp::make_r64(id) : a64::Gp::make_r32(id); }
static std::string words_str(const uint32_t* ws, size_t n) { std::string s; for (size_t i = 0; i < n && i < 8; i++) s += sfmt("%s%08x", i ? " " : "", ws[i]); return n ? s : "(nothing)"; }

// --- mov reg, imm: decode + simulate MOVZ/MOVN/MOVK/ORR(immediate) ---
static bool sim_mov(const uint32_t* ws, size_t n, unsigned rd, uint64_t& out, std::string& why) {
  bool defined = false; uint64_t X = 0;
  if (n == 0 || n > 4) { why = "sequence of " + std::to_string(n) + " instructions"; return false; }
  for (size_t i = 0; i < n; i++) {
    uint32_t w = ws[i]; unsigned sf = w >> 31, opc = (w >> 29) & 3;
    if ((w & 31) != rd) { why = sfmt("instruction %zu writes register %u", i, w & 31); return false; }
    if ((w & 0x1f800000u) == 0x12800000u) {          // move wide immediate
      unsigned hw = (w >> 21) & 3; uint64_t imm16 = (w >> 5) & 0xffff;
      if (opc == 1 || (!sf && hw >= 2)) { why = sfmt("instruction %zu (%08x) is unallocated", i, w); return false; }
      uint64_t r;
      if (opc == 2) r = imm16 << (16 * hw);
      else if (opc == 0) r = ~(imm16 << (16 * hw));
      else { if (!defined) { why = "MOVK on a register that was not written before"; return false; } r = (X & ~(0xffffull << (16 * hw))) | (imm16 << (16 * hw)); }
      X = sf ? r : (r & 0xffffffffu);
      defined = true;
    } else if ((w & 0x1f800000u) == 0x12000000u) {   // logical immediate
      unsigned N = (w >> 22) & 1, immr = (w >> 16) & 63, imms = (w >> 10) & 63, rn = (w >> 5) & 31;
      uint64_t m;
      if (opc != 1 || rn != 31 || rd == 31 || (!sf && N) || !decode_bit_masks(N, imms, immr, sf ? 64 : 32, m)) { why = sfmt("instruction %zu (%08x) is not ORR Rd, ZR, #bitmask", i, w); return false; }
      X = m; defined = true;
    } else { why = sfmt("instruction %zu (%08x) is not MOVZ/MOVN/MOVK/ORR-immediate", i, w); return false; }
  }
  out = X;
  return true;
}
// form: 0 = Imm(uint64 v), 1 = Imm(int64(int32(v)))  (W destinations written the way C code writes negative constants)
static void check_mov(bool x, unsigned rd, uint64_t v, unsigned form, bool primary) {
  g_eval++;
  uint32_t ws[8]; size_t n;
  Imm imm = form ? Imm(int64_t(int32_t(uint32_t(v)))) : Imm(v);
  Error e = asm_plain().run([&](a64::Assembler& a) { return a.mov(gp(x, rd), imm); }, ws, n);
  Case cs{"mov", "", x, rd, v, form};
  uint64_t want = x ? (form ? uint64_t(int64_t(int32_t(uint32_t(v)))) : v) : (v & 0xffffffffu);
  if (e != Error::kOk) { fail("mov:refused", cs, sfmt("mov %c%u, #0x%llx refused (error %u) although every constant is encodable", x ? 'x' : 'w', rd, (unsigned long long)v, unsigned(e))); return; }
  uint64_t got = 0; std::string why;
  if (!sim_mov(ws, n, rd, got, why)) { fail("mov:undecodable", cs, sfmt("mov %c%u, #0x%llx emitted [%s]: %s", x ? 'x' : 'w', rd, (unsigned long long)v, words_str(ws, n).c_str(), why.c_str())); return; }
  if (got != want) { fail("mov:value", cs, sfmt("mov %c%u, #0x%llx emitted [%s] which leaves 0x%llx in the register instead of 0x%llx", x ? 'x' : 'w', rd, (unsigned long long)v, words_str(ws, n).c_str(), (unsigned long long)got, (unsigned long long)want)); return; }
  if (primary) g_nontrivial++;
}

// --- movz / movn / movk with explicit shift; sh == 0xffff: no shift operand; sh bit 16 set: LSR instead of LSL ---
static void check_movw(const char* inst, bool x, uint64_t imm, uint64_t sh, bool primary) {
  g_eval++;
  unsigned opc = !strcmp(inst, "movn") ? 0 : !strcmp(inst, "movz") ? 2 : 3;
  bool has_sh = sh != 0xffff; bool lsr = has_sh && (sh & 0x10000); uint32_t shv = uint32_t(sh & 0xffff);
  uint32_t ws[8]; size_t n;
  Error e = asm_plain().run([&](a64::Assembler& a) {
    a64::Gp r = gp(x, 9);
    Imm s = lsr ? Imm(a64::lsr(shv)) : Imm(a64::lsl(shv));
    if (opc == 0) return has_sh ? a.movn(r, Imm(imm), s) : a.movn(r, Imm(imm));
    if (opc == 2) return has_sh ? a.movz(r, Imm(imm), s) : a.movz(r, Imm(imm));
    return has_sh ? a.movk(r, Imm(imm), s) : a.movk(r, Imm(imm));
  }, ws, n);
  bool valid = imm <= 0xffff && (!has_sh || (!lsr && (shv == 0 || shv == 16 || (x && (shv == 32 || shv == 48)))));
  Case cs{"movw", inst, x, 0, imm, sh};
  std::string what = sfmt("%s %c9, #0x%llx%s", inst, x ? 'x' : 'w', (unsigned long long)imm, has_sh ? sfmt(", %s #%u", lsr ? "lsr" : "lsl", shv).c_str() : "");
  if ((e == Error::kOk) != valid) { fail(sfmt("movw:%s:%s", inst, valid ? "refused-valid" : "accepted-unencodable"), cs, what + sfmt(" -> error %u, emitted [%s]", unsigned(e), words_str(ws, n).c_str())); return; }
  if (!valid) return;
  uint32_t want = (uint32_t(x) << 31) | (opc << 29) | 0x12800000u | ((has_sh ? shv / 16 : 0) << 21) | (uint32_t(imm) << 5) | 9;
  if (n != 1 || ws[0] != want) { fail(sfmt("movw:%s:encoding", inst), cs, what + sfmt(" emitted [%s], architecture says %08x", words_str(ws, n).c_str(), want)); return; }
  if (primary) g_nontrivial++;
}

// --- logical instructions with bitmask immediates ---
static void check_logical_inst(const char* inst, bool x, uint64_t v, bool primary) {
  g_eval++;
  unsigned W = x ? 64 : 32;
  int id = !strcmp(inst, "and") ? 0 : !strcmp(inst, "orr") ? 1 : !strcmp(inst, "eor") ? 2 : !strcmp(inst, "ands") ? 3 : !strcmp(inst, "tst") ? 4 : !strcmp(inst, "bic") ? 5 : 6;
  static const unsigned opcs[7] = {0, 1, 2, 3, 3, 0, 3};
  bool neg = id >= 5;
  unsigned rd = id == 4 ? 31 : 2, rn = 5;
  uint32_t ws[8]; size_t n;
  Error e = asm_plain().run([&](a64::Assembler& a) {
    switch (id) {
      case 0: return a.and_(gp(x, 2), gp(x, 5), Imm(v));
      case 1: return a.orr(gp(x, 2), gp(x, 5), Imm(v));
      case 2: return a.eor(gp(x, 2), gp(x, 5), Imm(v));
      case 3: return a.ands(gp(x, 2), gp(x, 5), Imm(v));
      case 4: return a.tst(gp(x, 5), Imm(v));
      case 5: return a.bic(gp(x, 2), gp(x, 5), Imm(v));
      default: return a.bics(gp(x, 2), gp(x, 5), Imm(v));
    }
  }, ws, n);
  uint64_t mask = (neg ? ~v : v) & ones(W);
  bool valid = is_valid_logical(W, mask);
  Case cs{"logical-inst", inst, x, 0, v, 0};
  std::string what = sfmt("%s (%u-bit) with immediate 0x%llx (effective mask 0x%llx)", inst, W, (unsigned long long)v, (unsigned long long)mask);
  if ((e == Error::kOk) != valid) { fail(sfmt("logical-inst:%s:%s", inst, valid ? "refused-valid" : "accepted-unencodable"), cs, what + sfmt(" -> error %u, emitted [%s]", unsigned(e), words_str(ws, n).c_str())); return; }
  if (!valid) return;
  uint32_t w = n == 1 ? ws[0] : 0;
  uint32_t fixed = (uint32_t(x) << 31) | (opcs[id] << 29) | 0x12000000u | (rn << 5) | rd;
  uint64_t back = 0;
  unsigned N = (w >> 22) & 1, immr = (w >> 16) & 63, imms = (w >> 10) & 63;
  bool ok = n == 1 && (w & 0xff8003ffu) == fixed && !(!x && N) && decode_bit_masks(N, imms, immr, W, back) && back == mask;
  if (!ok) { fail(sfmt("logical-inst:%s:encoding", inst), cs, what + sfmt(" emitted [%s]; fixed bits want %08x, bitmask decodes to 0x%llx", words_str(ws, n).c_str(), fixed, (unsigned long long)back)); return; }
  if (primary) g_nontrivial++;
}

// --- add/sub/cmp/cmn immediates; form 0: no shift operand, 1: lsl #0, 2: lsl #12, 3: lsl #1 (invalid), 4: lsr #12 (invalid) ---
static void check_addsub_inst(const char* inst, bool x, uint64_t imm, unsigned form, bool primary) {
  g_eval++;
  int id = !strcmp(inst, "add") ? 0 : !strcmp(inst, "adds") ? 1 : !strcmp(inst, "sub") ? 2 : !strcmp(inst, "subs") ? 3 : !strcmp(inst, "cmn") ? 4 : 5;
  static const unsigned opS[6] = {0, 1, 2, 3, 1, 3};   // op:S
  unsigned rd = id >= 4 ? 31 : 2, rn = 5;
  if (id >= 4) form = 0;
  uint32_t ws[8]; size_t n;
  Error e = asm_plain().run([&](a64::Assembler& a) {
    Imm s = form == 1 ? Imm(a64::lsl(0)) : form == 2 ? Imm(a64::lsl(12)) : form == 3 ? Imm(a64::lsl(1)) : Imm(a64::lsr(12));
    switch (id) {
      case 0: return form ? a.add(gp(x, 2), gp(x, 5), Imm(imm), s) : a.add(gp(x, 2), gp(x, 5), Imm(imm));
      case 1: return form ? a.adds(gp(x, 2), gp(x, 5), Imm(imm), s) : a.adds(gp(x, 2), gp(x, 5), Imm(imm));
      case 2: return form ? a.sub(gp(x, 2), gp(x, 5), Imm(imm), s) : a.sub(gp(x, 2), gp(x, 5), Imm(imm));
      case 3: return form ? a.subs(gp(x, 2), gp(x, 5), Imm(imm), s) : a.subs(gp(x, 2), gp(x, 5), Imm(imm));
      case 4: return a.cmn(gp(x, 5), Imm(imm));
      default: return a.cmp(gp(x, 5), Imm(imm));
    }
  }, ws, n);
  unsigned __int128 req = (unsigned __int128)imm << (form == 2 ? 12 : 0);   // the value the caller asked to add
  bool valid = form < 3 && (req < 4096 || ((req & 0xfff) == 0 && (req >> 12) < 4096));
  Case cs{"addsub-inst", inst, x, 0, imm, form};
  static const char* fs[5] = {"", ", lsl #0", ", lsl #12", ", lsl #1", ", lsr #12"};
  std::string what = sfmt("%s (%u-bit) #0x%llx%s", inst, x ? 64 : 32, (unsigned long long)imm, fs[form]);
  if ((e == Error::kOk) != valid) { fail(sfmt("addsub-inst:%s:%s", inst, valid ? "refused-valid" : "accepted-unencodable"), cs, what + sfmt(" -> error %u, emitted [%s]", unsigned(e), words_str(ws, n).c_str())); return; }
  if (!valid) return;
  uint32_t w = n == 1 ? ws[0] : 0;
  uint32_t fixed = (uint32_t(x) << 31) | (opS[id] << 29) | 0x11000000u | (rn << 5) | rd;
  uint64_t dec = uint64_t((w >> 10) & 0xfff) << (((w >> 22) & 1) ? 12 : 0);
  if (n != 1 || (w & 0xff8003ffu) != fixed || dec != uint64_t(req)) { fail(sfmt("addsub-inst:%s:encoding", inst), cs, what + sfmt(" emitted [%s]; fixed bits want %08x, immediate decodes to 0x%llx", words_str(ws, n).c_str(), fixed, (unsigned long long)dec)); return; }
  if (primary) g_nontrivial++;
}

// --- fmov (scalar, immediate); type 0 h, 1 s, 2 d; is_int: the immediate is passed as an integer ---
static double half_to_double(uint32_t h) {
  int s = (h >> 15) & 1, e = (h >> 10) & 31, f = h & 1023;
  double v = e == 0 ? std::ldexp(double(f), -24) : std::ldexp(1.0 + f / 1024.0, e - 15);
  return s ? -v : v;
}
static void check_fmov(unsigned type, uint64_t bits, bool is_int, bool primary) {
  g_eval++;
  double dv; if (is_int) dv = double(int64_t(bits)); else memcpy(&dv, &bits, 8);
  uint32_t ws[8]; size_t n;
  a64::Vec r = type == 0 ? a64::Vec::make_v16(3) : type == 1 ? a64::Vec::make_v32(3) : a64::Vec::make_v64(3);
  Error e = asm_plain().run([&](a64::Assembler& a) { return is_int ? a.fmov(r, Imm(int64_t(bits))) : a.fmov(r, Imm(dv)); }, ws, n);
  uint64_t db; memcpy(&db, &dv, 8);
  bool valid = in_sorted(g_fp[2], db);   // the representable set is the same set of reals for half / single / double
  static const char* tn[3] = {"h", "s", "d"};
  Case cs{"fmov", tn[type], type, bits, is_int, 0};
  std::string what = is_int ? sfmt("fmov %s3, #%lld (integer)", tn[type], (long long)bits) : sfmt("fmov %s3, #%.17g (0x%llx)", tn[type], dv, (unsigned long long)bits);
  if ((e == Error::kOk) != valid) { fail(sfmt("fp8:fmov-%s:%s", tn[type], valid ? "refused-valid" : "accepted-unencodable"), cs, what + sfmt(" -> error %u, emitted [%s]", unsigned(e), words_str(ws, n).c_str())); return; }
  if (!valid) return;
  uint32_t w = n == 1 ? ws[0] : 0;
  static const uint32_t ty[3] = {3, 0, 1};
  uint32_t fixed = 0x1e201000u | (ty[type] << 22) | 3;
  unsigned imm8 = (w >> 13) & 0xff;
  double back;
  if (type == 2) { uint64_t b = vfp_expand_imm(imm8, 64); memcpy(&back, &b, 8); }
  else if (type == 1) { uint32_t b = uint32_t(vfp_expand_imm(imm8, 32)); float f; memcpy(&f, &b, 4); back = f; }
  else back = half_to_double(uint32_t(vfp_expand_imm(imm8, 16)));
  if (n != 1 || (w & 0xffe01fffu) != fixed || back != dv) { fail(sfmt("fp8:fmov-%s:encoding", tn[type]), cs, what + sfmt(" emitted [%s]; fixed bits want %08x, imm8 expands to %.17g", words_str(ws, n).c_str(), fixed, back)); return; }
  if (primary) g_nontrivial++;
}

// --- bitfield aliases: p/q = lsb/width (bfi sbfiz ubfiz bfxil sbfx ubfx bfc), immr/imms (bfm sbfm ubfm), shift (lsl lsr asr ror extr) ---
static void check_bitfield(const char* inst, bool x, uint64_t p, uint64_t q, bool primary) {
  g_eval++;
  static const char* names[] = {"bfi", "sbfiz", "ubfiz", "bfxil", "sbfx", "ubfx", "bfc", "bfm", "sbfm", "ubfm", "lsl", "lsr", "asr", "ror", "extr"};
  int id = -1; for (int i = 0; i < 15; i++) if (!strcmp(inst, names[i])) id = i;
  unsigned size = x ? 64 : 32;
  a64::Gp d = gp(x, 2), s = gp(x, 5), s2 = gp(x, 7);
  uint32_t ws[8]; size_t n;
  Error e = asm_plain().run([&](a64::Assembler& a) {
    switch (id) {
      case 0: return a.bfi(d, s, Imm(p), Imm(q));
      case 1: return a.sbfiz(d, s, Imm(p), Imm(q));
      case 2: return a.ubfiz(d, s, Imm(p), Imm(q));
      case 3: return a.bfxil(d, s, Imm(p), Imm(q));
      case 4: return a.sbfx(d, s, Imm(p), Imm(q));
      case 5: return a.ubfx(d, s, Imm(p), Imm(q));
      case 6: return a.bfc(d, Imm(p), Imm(q));
      case 7: return a.bfm(d, s, Imm(p), Imm(q));
      case 8: return a.sbfm(d, s, Imm(p), Imm(q));
      case 9: return a.ubfm(d, s, Imm(p), Imm(q));
      case 10: return a.lsl(d, s, Imm(p));
      case 11: return a.lsr(d, s, Imm(p));
      case 12: return a.asr(d, s, Imm(p));
      case 13: return a.ror(d, s, Imm(p));
      default: return a.extr(d, s, s2, Imm(p));
    }
  }, ws, n);
  // architecture: alias definitions of BFM/SBFM/UBFM/EXTR (Arm ARM C6.2)
  bool valid; unsigned immr = 0, imms = 0, opc = 0; bool is_extr = false; unsigned rn = 5, rm = 0;
  switch (id) {
    case 0: case 1: case 2: case 6:   // <op> Rd, Rn, #lsb, #width == xBFM Rd, Rn, #(-lsb MOD size), #(width-1); lsb 0..size-1, width 1..size-lsb
      valid = p < size && q >= 1 && q <= size - p;
      if (valid) { immr = unsigned((size - p) % size); imms = unsigned(q - 1); }
      opc = id == 1 ? 0 : id == 2 ? 2 : 1; if (id == 6) rn = 31;
      break;
    case 3: case 4: case 5:           // <op> Rd, Rn, #lsb, #width == xBFM Rd, Rn, #lsb, #(lsb+width-1)
      valid = p < size && q >= 1 && q <= size - p;
      if (valid) { immr = unsigned(p); imms = unsigned(p + q - 1); }
      opc = id == 4 ? 0 : id == 5 ? 2 : 1;
      break;
    case 7: case 8: case 9:
      valid = p < size && q < size; immr = unsigned(p); imms = unsigned(q); opc = id == 8 ? 0 : id == 9 ? 2 : 1;
      break;
    case 10: valid = p < size; if (valid) { immr = unsigned((size - p) % size); imms = unsigned(size - 1 - p); } opc = 2; break;
    case 11: valid = p < size; immr = unsigned(p); imms = size - 1; opc = 2; break;
    case 12: valid = p < size; immr = unsigned(p); imms = size - 1; opc = 0; break;
    case 13: valid = p < size; is_extr = true; rm = 5; imms = unsigned(p); break;
    default: valid = p < size; is_extr = true; rm = 7; imms = unsigned(p); break;
  }
  Case cs{"bitfield", inst, x, 0, p, q};
  std::string what = sfmt("%s (%u-bit) #%llu, #%llu", inst, size, (unsigned long long)p, (unsigned long long)q);
  if ((e == Error::kOk) != valid) { fail(sfmt("bitfield:%s:%s", inst, valid ? "refused-valid" : "accepted-unencodable"), cs, what + sfmt(" -> error %u, emitted [%s]", unsigned(e), words_str(ws, n).c_str())); return; }
  if (!valid) return;
  uint32_t want = is_extr ? ((uint32_t(x) << 31) | 0x13800000u | (uint32_t(x) << 22) | (rm << 16) | (imms << 10) | (rn << 5) | 2)
                          : ((uint32_t(x) << 31) | (opc << 29) | 0x13000000u | (uint32_t(x) << 22) | (immr << 16) | (imms << 10) | (rn << 5) | 2);
  if (n != 1 || ws[0] != want) { fail(sfmt("bitfield:%s:encoding", inst), cs, what + sfmt(" emitted [%s], architecture says %08x", words_str(ws, n).c_str(), want)); return; }
  if (primary) g_nontrivial++;
}

// --- pc-relative displacements computed by the assembler (target given as absolute address, CodeHolder has a base address) ---
struct BranchInst { const char* name; const char* fmt; uint32_t fixed; };
static const BranchInst kBranch[] = {
  {"b", "a64-imm26-sh0-d2", 0x14000000u}, {"bl", "a64-imm26-sh0-d2", 0x94000000u},
  {"b.ne", "a64-imm19-sh5-d2", 0x54000001u}, {"cbz", "a64-imm19-sh5-d2", 0xb4000003u}, {"cbnz", "a64-imm19-sh5-d2", 0x35000003u},
  {"tbz", "a64-imm14-sh5-d2", 0xb6280003u}, {"tbnz", "a64-imm14-sh5-d2", 0x37280003u},
  {"adr", "a64-adr", 0x10000003u}, {"adrp", "a64-adrp", 0x90000003u},
};
static const size_t kNumBranch = sizeof(kBranch) / sizeof(kBranch[0]);
static const Fmt* fmt_by_name(const char* nm) { for (size_t i = 0; i < kNumFmts; i++) if (!strcmp(kFmts[i].name, nm)) return &kFmts[i]; return nullptr; }
static int branch_id(const char* nm) { for (size_t i = 0; i < kNumBranch; i++) if (!strcmp(kBranch[i].name, nm)) return int(i); return -1; }

static void check_branch(int bi, int64_t off, bool primary) {
  g_eval++;
  const BranchInst& b = kBranch[bi];
  const Fmt& f = *fmt_by_name(b.fmt);
  uint64_t target = kBase + uint64_t(off);
  uint32_t ws[8]; size_t n;
  Error e = asm_based().run([&](a64::Assembler& a) {
    switch (bi) {
      case 0: return a.b(Imm(target));
      case 1: return a.bl(Imm(target));
      case 2: return a.b_ne(Imm(target));
      case 3: return a.cbz(gp(true, 3), Imm(target));
      case 4: return a.cbnz(gp(false, 3), Imm(target));
      case 5: return a.tbz(gp(true, 3), Imm(37), Imm(target));
      case 6: return a.tbnz(gp(false, 3), Imm(5), Imm(target));
      case 7: return a.adr(gp(true, 3), Imm(target));
      default: return a.adrp(gp(true, 3), Imm(target));
    }
  }, ws, n);
  bool valid = oracle_valid(f, off);
  Case cs{"branch", b.name, 0, uint64_t(off), 0, 0};
  std::string what = sfmt("%s to pc%+lld (absolute target, base address set)", b.name, (long long)off);
  if ((e == Error::kOk) != valid) { fail(sfmt("branch:%s:%s", b.name, valid ? "refused-in-range" : "accepted-out-of-range"), cs, what + sfmt(" -> error %u, emitted [%s]", unsigned(e), words_str(ws, n).c_str())); return; }
  if (!valid) return;
  uint32_t w = n == 1 ? ws[0] : 0; uint32_t mask = uint32_t(oracle_mask(f));
  i128 dec = 0; oracle_decode(f, w, dec);
  if (n != 1 || (w & ~mask) != b.fixed || dec != i128(off)) { fail(sfmt("branch:%s:encoding", b.name), cs, what + sfmt(" emitted [%s]; opcode bits want %08x, displacement decodes to %s", words_str(ws, n).c_str(), b.fixed, i128s(dec).c_str())); return; }
  if (primary) g_nontrivial++;
}

// --- end to end: forward reference to an unbound label, `dist` bytes later the label is bound -> fixup patched by write_offset ---
static uint8_t g_zeros[(1u << 21) + 64];
struct FixInst { const char* name; const char* fmt; };
static const FixInst kFix[] = {{"b", "a64-imm26-sh0-d2"}, {"bl", "a64-imm26-sh0-d2"}, {"b.ne", "a64-imm19-sh5-d2"}, {"cbz", "a64-imm19-sh5-d2"}, {"tbnz", "a64-imm14-sh5-d2"}, {"adr", "a64-adr"}, {"ldr-literal", "a64-imm19-sh5-d2"}};
static const size_t kNumFix = sizeof(kFix) / sizeof(kFix[0]);
static int fix_id(const char* nm) { for (size_t i = 0; i < kNumFix; i++) if (!strcmp(kFix[i].name, nm)) return int(i); return -1; }
static void check_fixup(int fi, uint64_t dist, bool primary) {
  g_eval++;
  const Fmt& f = *fmt_by_name(kFix[fi].fmt);
  if (dist < 4 || dist > (1u << 21)) return;
  CodeHolder code; code.init(Environment(Arch::kAArch64));
  a64::Assembler a(&code);
  Label L = a.new_label();
  Error e0;
  switch (fi) {
    case 0: e0 = a.b(L); break;
    case 1: e0 = a.bl(L); break;
    case 2: e0 = a.b_ne(L); break;
    case 3: e0 = a.cbz(gp(true, 3), L); break;
    case 4: e0 = a.tbnz(gp(false, 3), Imm(5), L); break;
    case 5: e0 = a.adr(gp(true, 3), L); break;
    default: e0 = a.ldr(gp(true, 3), a64::ptr(L)); break;
  }
  Case cs{"fixup", kFix[fi].name, 0, dist, 0, 0};
  if (e0 != Error::kOk || a.offset() != 4) { fail(sfmt("fixup:%s:emit", kFix[fi].name), cs, sfmt("%s <unbound label> failed with error %u", kFix[fi].name, unsigned(e0))); return; }
  uint32_t w0 = uint32_t(ldw(a.buffer_data(), 4));
  if (dist > 4) a.embed(g_zeros, size_t(dist - 4));
  Error e = a.bind(L);
  uint32_t w = uint32_t(ldw(a.buffer_data(), 4));
  bool valid = oracle_valid(f, int64_t(dist));
  uint32_t mask = uint32_t(oracle_mask(f));
  std::string what = sfmt("%s <label>, label bound %llu bytes after the instruction", kFix[fi].name, (unsigned long long)dist);
  if ((e == Error::kOk) != valid) { fail(sfmt("fixup:%s:%s", kFix[fi].name, valid ? "refused-in-range" : "accepted-out-of-range"), cs, what + sfmt(" -> bind error %u, word %08x -> %08x", unsigned(e), w0, w)); return; }
  if (!valid) return;
  i128 dec = 0; oracle_decode(f, w, dec);
  if ((w0 & mask) != 0 || (w & ~mask) != (w0 & ~mask) || dec != i128(dist)) { fail(sfmt("fixup:%s:encoding", kFix[fi].name), cs, what + sfmt(": word %08x -> %08x, displacement decodes to %s", w0, w, i128s(dec).c_str())); return; }
  if (primary) g_nontrivial++;
}
// x86: kind 0 = short jmp (rel8), 1 = long jmp (rel32), 2 = lea rax,[rip+L], 3 = cmp dword [rip+L], imm32 (trailing immediate)
static const char* kX86Fix[] = {"jmp-short", "jmp-long", "lea-rip", "cmp-rip-imm32"};
static void check_x86_fixup(int k, uint64_t dist, bool primary) {
  g_eval++;
  if (dist > (1u << 21)) return;
  CodeHolder code; code.init(Environment(Arch::kX64));
  x86::Assembler a(&code);
  Label L = a.new_label();
  Error e0 = k == 0 ? a.short_().jmp(L) : k == 1 ? a.long_().jmp(L) : k == 2 ? a.lea(x86::rax, x86::ptr(L)) : a.cmp(x86::dword_ptr(L), Imm(0x12345678));
  size_t isz = a.offset();
  static const uint8_t want0[4][10] = {{0xeb, 0}, {0xe9, 0, 0, 0, 0}, {0x48, 0x8d, 0x05, 0, 0, 0, 0}, {0x81, 0x3d, 0, 0, 0, 0, 0x78, 0x56, 0x34, 0x12}};
  static const size_t sz[4] = {2, 5, 7, 10}, dpos[4] = {1, 1, 3, 2}, dsz[4] = {1, 4, 4, 4};
  Case cs{"x86-fixup", kX86Fix[k], uint64_t(k), dist, 0, 0};
  if (e0 != Error::kOk || isz != sz[k] || memcmp(a.buffer_data(), want0[k], sz[k]) != 0) { fail(sfmt("x86-fixup:%s:emit", kX86Fix[k]), cs, sfmt("unexpected bytes %s (error %u) before the label is bound", vh::hex(a.buffer_data(), isz).c_str(), unsigned(e0))); return; }
  if (dist) a.embed(g_zeros, size_t(dist));
  Error e = a.bind(L);
  bool valid = k == 0 ? dist <= 127 : true;
  std::string what = sfmt("%s <label>, label bound %llu bytes after the instruction", kX86Fix[k], (unsigned long long)dist);
  if ((e == Error::kOk) != valid) { fail(sfmt("x86-fixup:%s:%s", kX86Fix[k], valid ? "refused-in-range" : "accepted-out-of-range"), cs, what + sfmt(" -> bind error %u", unsigned(e))); return; }
  if (!valid) return;
  uint8_t exp[10]; memcpy(exp, want0[k], 10); stw(exp + dpos[k], unsigned(dsz[k]), dist);
  if (memcmp(a.buffer_data(), exp, sz[k]) != 0) { fail(sfmt("x86-fixup:%s:encoding", kX86Fix[k]), cs, what + sfmt(": bytes %s, expected %s", vh::hex(a.buffer_data(), sz[k]).c_str(), vh::hex(exp, sz[k]).c_str())); return; }
  if (primary) g_nontrivial++;
}

static std::vector<uint64_t> mov_values(bool x) {
  std::set<uint64_t> S;
  const uint64_t hw[] = {0x0000, 0xffff, 0x1234, 0x8000, 0x0001, 0xfffe, 0x7fff};
  unsigned W = x ? 64 : 32; uint64_t M = ones(W);
  if (x) { for (uint64_t a : hw) for (uint64_t b : hw) for (uint64_t c : hw) for (uint64_t d : hw) S.insert(a | (b << 16) | (c << 32) | (d << 48)); }
  for (uint64_t a : hw) for (uint64_t b : hw) S.insert(a | (b << 16));
  for (unsigned k = 0; k < W; k++) for (int d = -2; d <= 2; d++) { S.insert(((1ull << k) + uint64_t(d)) & M); S.insert((~(1ull << k) + uint64_t(d)) & M); S.insert((0 - (1ull << k) + uint64_t(d)) & M); }
  for (uint64_t v : g_lv[x ? 1 : 0]) S.insert(v);
  if (x) for (uint64_t v : g_lv[0]) { S.insert(v); S.insert(v << 32); S.insert(v | 0xffffffff00000000ull); }
  return std::vector<uint64_t>(S.begin(), S.end());
}

static void section_asm() {
  vh::Ctx& c = vh::ctx();
  bool T = c.thorough();
  long long e0 = g_eval;
  // mov sequences
  for (int x = 1; x >= 0 && !g_stop; x--) {
    std::vector<uint64_t> vals = mov_values(x);
    Sharder sh(8);
    for (uint64_t v : vals) {
      if (!sh.next()) continue;
      for (unsigned rd : {0u, 7u, 30u}) { check_mov(x, rd, v, 0, true); if (!x && (v >> 31)) check_mov(x, rd, v, 1, true); }
    }
  }
  c.n("mov_evaluations") = g_eval - e0; e0 = g_eval;
  // movz/movn/movk
  {
    Sharder sh(10);
    for (const char* inst : {"movz", "movn", "movk"}) for (int x = 0; x < 2; x++) for (uint64_t imm = 0; imm <= 0x10001 && !g_stop; imm++) {
      if (!sh.next()) continue;
      check_movw(inst, x, imm, 0xffff, true);
      for (uint64_t s : {0ull, 16ull, 32ull, 48ull}) check_movw(inst, x, imm, s, true);
      if ((imm & 0xff) == 0x34 || imm >= 0xffff) for (uint64_t s : {1ull, 8ull, 15ull, 17ull, 24ull, 31ull, 47ull, 49ull, 63ull, 64ull, 80ull, 0x10000ull | 16, 0x10000ull}) check_movw(inst, x, imm, s, false);
    }
    if (take_chunk()) for (const char* inst : {"movz", "movn", "movk"}) for (int x = 0; x < 2; x++) for (uint64_t imm : {~0ull, 1ull << 16, 1ull << 32, (1ull << 32) | 5, 1ull << 63}) { check_movw(inst, x, imm, 0xffff, false); check_movw(inst, x, imm, 16, false); }
  }
  c.n("movw_evaluations") = g_eval - e0; e0 = g_eval;
  // logical instructions
  for (int x = 1; x >= 0 && !g_stop; x--) {
    unsigned W = x ? 64 : 32;
    Sharder sh(5);
    for (uint64_t v : g_lv[x]) {
      if (!sh.next()) continue;
      for (const char* inst : {"and", "orr", "eor", "ands", "tst", "bic", "bics"}) {
        check_logical_inst(inst, x, v, true);
        if (!x) check_logical_inst(inst, x, v | 0xffffffff00000000ull, false);      // sign-extended style input for W registers
      }
      for (unsigned k = 0; k < W; k++) for (const char* inst : {"and", "orr", "tst", "bic"}) check_logical_inst(inst, x, v ^ (1ull << k), false);
    }
    if (take_chunk()) for (const char* inst : {"and", "orr", "eor", "ands", "tst", "bic", "bics"}) { check_logical_inst(inst, x, 0, false); check_logical_inst(inst, x, ones(W), false); check_logical_inst(inst, x, ~0ull, false); }
  }
  c.n("logical_inst_evaluations") = g_eval - e0; e0 = g_eval;
  // add/sub instructions
  {
    std::set<uint64_t> S;
    for (uint64_t v = 0; v <= 0x2100; v++) S.insert(v);
    for (uint64_t k = 0; k <= 0x1010; k++) { S.insert(k << 12); S.insert((k << 12) + 1); S.insert((k << 12) - 1); S.insert((k << 12) | 0x800); }
    for (unsigned k = 12; k < 64; k++) { S.insert(1ull << k); S.insert((1ull << k) | 0x1000); S.insert((1ull << k) | 1); S.insert((1ull << k) - 1); }
    S.insert(~0ull); S.insert(~0ull << 12);
    Sharder sh(7);
    for (uint64_t v : S) {
      if (!sh.next()) continue;
      for (int x = 0; x < 2; x++) {
        for (const char* inst : {"add", "adds", "sub", "subs", "cmn", "cmp"}) check_addsub_inst(inst, x, v, 0, true);
        for (const char* inst : {"add", "subs"}) for (unsigned form = 1; form <= 4; form++) check_addsub_inst(inst, x, v, form, form <= 2);
      }
    }
  }
  c.n("addsub_inst_evaluations") = g_eval - e0; e0 = g_eval;
  // fmov
  {
    Sharder sh(2);
    for (uint64_t v : g_fp[2]) {
      if (!sh.next()) continue;
      for (unsigned t = 0; t < 3; t++) {
        check_fmov(t, v, false, true);
        for (unsigned k = 0; k < 64; k++) check_fmov(t, v ^ (1ull << k), false, false);
      }
    }
    if (take_chunk()) {
      for (unsigned t = 0; t < 3; t++) {
        for (int64_t i = -70; i <= 70; i++) check_fmov(t, uint64_t(i), true, false);
        for (int64_t i : {int64_t(1) << 31, (int64_t(1) << 32) + 2, -(int64_t(1) << 32) + 2, int64_t(INT32_MIN), int64_t(INT32_MAX)}) check_fmov(t, uint64_t(i), true, false);
        for (double d : {0.0, -0.0, 0.1, 1.0 / 3, 0.1171875, 0.1328125, 32.0, 33.0, 1e300, (double)INFINITY, -(double)INFINITY, (double)NAN, 4.9e-324, 0.0625, 0.125}) { uint64_t b; memcpy(&b, &d, 8); check_fmov(t, b, false, false); }
      }
    }
  }
  c.n("fmov_evaluations") = g_eval - e0; e0 = g_eval;
  // bitfields
  {
    std::vector<uint64_t> ps; for (uint64_t v = 0; v <= 70; v++) ps.push_back(v);
    for (uint64_t v : {127ull, 128ull, 255ull, 256ull, 0xffffffffull, 0x100000000ull, 0x100000001ull, 0x100000020ull, ~0ull, ~0ull - 30}) ps.push_back(v);
    Sharder sh(2);
    for (const char* inst : {"bfi", "sbfiz", "ubfiz", "bfxil", "sbfx", "ubfx", "bfc", "bfm", "sbfm", "ubfm"}) for (int x = 0; x < 2; x++) for (uint64_t p : ps) {
      if (!sh.next()) continue;
      for (uint64_t q : ps) check_bitfield(inst, x, p, q, true);
    }
    if (take_chunk()) for (const char* inst : {"lsl", "lsr", "asr", "ror", "extr"}) for (int x = 0; x < 2; x++) for (uint64_t p : ps) check_bitfield(inst, x, p, 0, true);
  }
  c.n("bitfield_evaluations") = g_eval - e0; e0 = g_eval;
  // pc-relative displacement through the assembler
  for (size_t bi = 0; bi < kNumBranch && !g_stop; bi++) {
    const Fmt& f = *fmt_by_name(kBranch[bi].fmt);
    Plan pl = make_plan(f, T);
    i128 lo, hi; oracle_range(f, lo, hi);
    bool big = (hi - lo) > (i128(1) << 24) && !T && f.kind != K_A64_ADRP;     // imm26: dense only in the thorough tier
    if (big) {
      pl.segs.clear();
      std::set<int64_t> P(pl.pts.begin(), pl.pts.end());
      for (i128 x : {lo, hi, i128(0)}) for (int d = -8192; d <= 8192; d++) P.insert(int64_t(x + d));
      for (int64_t o = int64_t(lo) - 4096; o <= int64_t(hi) + 4096; o += 4 * 257) { P.insert(o); P.insert(o + 1); P.insert(o + 2); }
      pl.pts.assign(P.begin(), P.end());
    }
    if (f.kind == K_A64_ADRP && !T) for (Seg& s : pl.segs) if ((s.start & 4095) > 2 && (s.start & 4095) != 4095 && (s.start & 4095) != 2048) s.count = 0;   // quick: residues {0,1,2,2048,4095}
    for (const Seg& s : pl.segs) for (uint64_t k = 0; k < s.count && !g_stop; k += 1u << 14) {
      if (!take_chunk()) continue;
      uint64_t n = std::min<uint64_t>(1u << 14, s.count - k);
      for (uint64_t i = 0; i < n; i++) check_branch(int(bi), int64_t(i128(s.start) + i128(k + i) * i128(s.stride)), true);
    }
    for (size_t k = 0; k < pl.pts.size() && !g_stop; k += 4096) {
      if (!take_chunk()) continue;
      for (size_t i = k; i < std::min(pl.pts.size(), k + 4096); i++) check_branch(int(bi), pl.pts[i], true);
    }
  }
  c.n("branch_evaluations") = g_eval - e0; e0 = g_eval;
  // fixups end to end
  {
    Sharder sh(0);
    for (size_t fi = 0; fi < kNumFix; fi++) {
      const Fmt& f = *fmt_by_name(kFix[fi].fmt);
      i128 lo, hi; oracle_range(f, lo, hi);
      std::set<uint64_t> D;
      for (uint64_t d = 4; d <= 40; d++) D.insert(d);
      for (unsigned k = 2; k <= 21; k++) for (int dd = -4; dd <= 4; dd++) D.insert((1ull << k) + dd);
      for (int dd = -8; dd <= 8; dd++) D.insert(uint64_t(hi + 4 + dd));
      for (uint64_t d : D) { if (d < 4 || d > (1u << 21)) continue; if (!sh.next()) continue; check_fixup(int(fi), d, true); }
    }
    for (int k = 0; k < 4; k++) {
      std::set<uint64_t> D;
      for (uint64_t d = 0; d <= 300; d++) D.insert(d);
      for (unsigned kk = 9; kk <= 20; kk++) { D.insert(1ull << kk); D.insert((1ull << kk) - 1); }
      for (uint64_t d : D) { if (!sh.next()) continue; check_x86_fixup(k, d, true); }
    }
  }
  c.n("fixup_evaluations") = g_eval - e0;
}

// ------------------------------------------------------------------------------------------------------------
// replay + main
// ------------------------------------------------------------------------------------------------------------
static std::string g_rkind, g_rs;
static void run_replay(const std::string& text) {
  uint64_t v[4] = {0, 0, 0, 0};
  for (auto& line : vh::split(text, '\n')) {
    if (line.rfind("kind=", 0) == 0) g_rkind = line.substr(5);
    else if (line.rfind("s=", 0) == 0) g_rs = line.substr(2);
    else if (line.size() > 2 && line[1] == '=' && line[0] >= 'a' && line[0] <= 'd') v[line[0] - 'a'] = strtoull(line.c_str() + 2, nullptr, 0);
  }
  const char* s = g_rs.c_str();
  uint64_t a = v[0], b = v[1], cc = v[2], d = v[3];
  if (g_rkind == "offset") {
    for (size_t i = 0; i < kNumFmts; i++) if (g_rs == kFmts[i].name) { run_offset(g_rt[i], int(a), int64_t(b), false); return; }
    fprintf(stderr, "unknown format %s\n", s); exit(2);
  }
  else if (g_rkind == "logical") check_logical(unsigned(a), b, false);
  else if (g_rkind == "addsub") check_addsub(b, false);
  else if (g_rkind == "fp") check_fp(unsigned(a), b, false);
  else if (g_rkind == "mov") check_mov(a != 0, unsigned(b), cc, unsigned(d), false);
  else if (g_rkind == "movw") check_movw(s, a != 0, cc, d, false);
  else if (g_rkind == "logical-inst") check_logical_inst(s, a != 0, cc, false);
  else if (g_rkind == "addsub-inst") check_addsub_inst(s, a != 0, cc, unsigned(d), false);
  else if (g_rkind == "fmov") check_fmov(unsigned(a), b, cc != 0, false);
  else if (g_rkind == "bitfield") check_bitfield(s, a != 0, cc, d, false);
  else if (g_rkind == "branch") { int bi = branch_id(s); if (bi < 0) exit(2); check_branch(bi, int64_t(b), false); }
  else if (g_rkind == "fixup") { int fi = fix_id(s); if (fi < 0) exit(2); check_fixup(fi, b, false); }
  else if (g_rkind == "x86-fixup") check_x86_fixup(int(a), b, false);
  else { fprintf(stderr, "unknown replay kind '%s'\n", g_rkind.c_str()); exit(2); }
}

int main(int argc, char** argv) {
  vh::parse_args(argc, argv);
  vh::Ctx& c = vh::ctx();
  if (!build_reference_sets()) { fprintf(stderr, "reference decoder self-check failed (logical %zu/%zu)\n", g_lv[1].size(), g_lv[0].size()); return 2; }
  init_formats();
  if (c.replaying()) { run_replay(c.replay_text); return vh::finish(); }
  std::string only = c.opt("only");
  if (only.empty() || only == "offsets") section_offsets();
  if (only.empty() || only == "utils") section_utils();
  if (only.empty() || only == "asm") section_asm();
  c.n("evaluations") += g_eval;
  c.n("distinct_nontrivial") += g_nontrivial;
  c.n("immediate_values_encoded_and_decoded") = g_nontrivial;
  c.n("traces") = c.n("evaluations");
  c.n("chunks_total") = c.shard_i == 0 ? g_chunk : 0;
  // samples (deterministic, shard 0 only)
  if (c.shard_i == 0) {
    for (const char* nm : {"a64-imm19-sh5-d2", "a64-adrp", "simple-s32", "t32-adr"}) {
      for (size_t i = 0; i < kNumFmts; i++) if (!strcmp(kFmts[i].name, nm)) {
        i128 lo, hi; oracle_range(kFmts[i], lo, hi);
        bool acc; uint64_t w, w0; int cl = check_offset(g_rt[i], 1, int64_t(lo), acc, w, w0);
        c.sample(sfmt("offset fmt=%s off=%s bg=ones-outside-field: %s word 0x%llx -> 0x%llx clause=%s", nm, i128s(lo).c_str(), acc ? "accepted" : "refused", (unsigned long long)w0, (unsigned long long)w, kClause[cl]));
      }
    }
    arm::Utils::LogicalImm li{}; bool ok = arm::Utils::encode_logical_imm(0x00ff00ff00ff00ffull, 64, Out(li));
    c.sample(sfmt("logical 0x00ff00ff00ff00ff w64 -> ok=%d N=%u immr=%u imms=%u", int(ok), li.n, li.r, li.s));
    uint32_t ws[8]; size_t n; asm_plain().run([&](a64::Assembler& a) { return a.mov(gp(true, 0), Imm(0x1234ffff8000ffffull)); }, ws, n);
    c.sample("mov x0, #0x1234ffff8000ffff -> [" + words_str(ws, n) + "]");
  }
  c.strs["rule"] =
    "A: write_offset for " + std::to_string(kNumFmts) + " OffsetFormats (22 constructed by x86/a64/core, 15 defined by fixup.h/codewriter.cpp or generic) x offsets "
    "(dense = every integer in [min-4096,max+4096] for ranges <= 2^29; ADRP every page x residues; 32-bit fields lattice+bands in quick, 2^32 dense in thorough; "
    "64-bit lattice) x 2 backgrounds (zero / ones outside the zero field); oracle: Arm ARM / SDM extractor, (after&~mask)==(before&~mask), fail <=> out of range or misaligned. "
    "B: arm::Utils encode_logical_imm/is_logical_imm (all 5334+1302 DecodeBitMasks images, all 1- and 2-bit neighbours, all two-run 64-bit patterns, all 2^32 32-bit values), "
    "is_add_sub_imm (all < 2^26 + lattice), is_fp16/32/64_imm8 + encode_fp64_to_imm8 (all 2^16 halves, all 2^32 singles, doubles: all top-16 patterns x low-bit lattice + 1/2-bit neighbours). "
    "C: a64::Assembler mov x/w (halfword^4 lattice over 7 halfwords, single bits +-2, all logical immediates; decoded+simulated MOVZ/MOVN/MOVK/ORR), movz/movn/movk (all imm16 x shifts), "
    "and/orr/eor/ands/tst/bic/bics immediates, add/adds/sub/subs/cmp/cmn immediates (+lsl forms), fmov h/s/d immediates, bfi/sbfiz/ubfiz/bfxil/sbfx/ubfx/bfc/bfm/sbfm/ubfm/lsl/lsr/asr/ror/extr "
    "(all lsb,width in 0..70 + wide values), b/bl/b.ne/cbz/cbnz/tbz/tbnz/adr/adrp to absolute targets (dense except imm26 in quick), forward-label fixups a64 + x86 end to end";
  c.strs["bound"] = std::string(c.thorough() ? "thorough" : "quick") + ": fields <= 26 bits (ranges <= 2^29) exhaustive incl. +-4096 band and all residues; " +
                    (c.thorough() ? "32-bit fields: all 2^32 values (+band) for simple-s32/u32, x86-s32+lead3+trail4, x86-u32+lead2+trail1, a32-adr (2^33); b/bl via assembler dense"
                                  : "32-bit fields: boundary lattice + bands of 4096 around min/max/0; a32-adr dense in [-2^26,2^26] + all modified immediates") +
                    "; 64-bit fields: boundary lattice";
  c.assumptions.push_back("Thumb/A32 formats are not constructed by any backend in this tree: their OffsetFormat parameters are taken from the fixup.h documentation and the 32-bit word layout (first halfword in bits 31:16) from the same comments");
  c.assumptions.push_back("the patched field is zero before patching (write_offset ORs into the word; the assemblers always emit a zero field); backgrounds with ones inside the field are not tested");
  c.assumptions.push_back("for 64-bit unsigned fields the int64_t carrier is read as a 64-bit address (every value encodable); INT64_MIN is not fed to sign-magnitude formats (negation overflow inside encode_offset32)");
  c.assumptions.push_back("sanitizers are not active (fast variant)");
  return vh::finish();
}
