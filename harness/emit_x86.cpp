// emit_x86 - generic filter: reads x86/x64 instruction cases, emits each through the PUBLIC API
// asmjit::x86::Assembler::emit_inst() (-> BaseEmitter::_emit_op_array -> x86::Assembler::_emit) into a fresh
// CodeHolder and prints what happened.  It contains no oracle: the judging is done by the python side
// (checks/c01.py and later C12/C13/C14/C20), which is why the input language can express ARBITRARY - also
// invalid - instructions.
//
// Usage:   emit_x86 [--in FILE] [--out FILE]        (default stdin / stdout)
//
// INPUT: one case per line, blank lines and lines starting with '#' are ignored (but still numbered).
//
//   <arch> <diag> <inst> <options> <extra> [<pre-op>...] [<operand>...] [<post-op>...]
//
//   <arch>     32 | 64                     -> Environment(Arch::kX86) / Environment(Arch::kX64)
//   <diag>     v | n                       -> DiagnosticOptions::kValidateAssembler on / off
//   <inst>     mnemonic (resolved with InstAPI::string_to_inst_id for the arch; unknown -> error line "E_NAME")
//              or  #<decimal instruction id>  (any number, also out of range)
//   <options>  hex InstOptions bits or-ed together, e.g. 0, 2000 (lock), 4000 (rep), 40000000 (rex) ...
//   <extra>    -  |  <regtype>.<id>         extra register: {k} mask (mask.1) or rep count register (gp32.1)
//   <pre-op>   pad=<n>                      embed n bytes 0x90 before the instruction (not part of the result)
//              bind=<n>                     bind label n (0..7) at the current position before the instruction
//   <post-op>  +pad=<n> / +bind=<n>         same, executed after the instruction (a forward label reference is then
//                                           resolved and the reported bytes are the patched ones)
//   <operand>  -                            none operand (Operand())
//              r,<regtype>,<id>             register of any type with any id (0..255 and more)
//              i,<value>                    immediate, decimal (signed 64-bit) or 0x... (unsigned 64-bit)
//              l,<n>                        label n (0..7; all labels exist, unbound unless bind= is given)
//              m,<size>,<base>,<index>,<shift>,<offset>,<seg>,<bcst>,<addr>
//                     size    operand size in bytes 0..255 (0 = unspecified)
//                     base    -  |  <regtype>.<id>  |  L<n> (label n as base)  |
//                             abs (no base register: <offset> is a 64-bit absolute address)
//                     index   -  |  <regtype>.<id>
//                     shift   0..3
//                     offset  decimal signed (32-bit with a base, 64-bit with base 'abs' or '-')
//                     seg     0 none, 1 es, 2 cs, 3 ss, 4 ds, 5 fs, 6 gs (7 possible)
//                     bcst    0 none, 1..6 = {1to2}..{1to64} (7 possible)
//                     addr    0 default, 1 abs, 2 rel (3 possible)
//   <regtype>  decimal RegType value 0..31 or one of:  gp8lo gp8hi gp16 gp32 gp64 vec128 vec256 vec512 mask tile
//              seg cr dr mm st bnd pc label none
//   at most 6 operands.
//
// OUTPUT: one line per case
//   <line number (1-based)> <error code decimal> <error name> <hex of appended bytes or '-'> <section size delta>
//     r<reloc count> [cursor-delta=<n>] [post=<error name>]
//   post=<error> is present when a post-op failed (e.g. binding a label that a short jump cannot reach): the bytes
//   then still contain the unresolved placeholder.
//   The bytes are the .text buffer content from the position before the instruction (after the pre-ops) to the
//   position after it; the size delta is buffer.size() after the emit minus before it (so on a failed emit any
//   partially written garbage is visible: delta is 0 and bytes '-' when the failure was clean).
//   Malformed input lines produce "<line> -1 E_PARSE:<what> - 0 r0".
//
// On a fatal signal the line being processed is written to stderr as "VH-CURRENT-CASE: <line>" and the process
// exits with code 70; all result lines of earlier cases have been flushed before.
#include <asmjit/x86.h>
#include <cstdio>
#include <cstdlib>
#include <cstring>
#include <cstdint>
#include <csignal>
#include <cerrno>
#include <unistd.h>
#include <string>
#include <vector>

using namespace asmjit;

static char g_cur[4096];
static FILE* g_out = nullptr;

static void dump_current_case() {
  const char* p = "VH-CURRENT-CASE: ";
  (void)!write(2, p, strlen(p));
  (void)!write(2, g_cur, strlen(g_cur));
  (void)!write(2, "\n", 1);
}

static void on_signal(int sig) {
  dump_current_case();
  char b[64];
  int n = snprintf(b, sizeof b, "emit_x86: fatal signal %d\n", sig);
  (void)!write(2, b, n);
  _exit(70);
}

// Sanitizer builds (used by other checks): make the report name the case.
extern "C" void __asan_on_error() { dump_current_case(); }

struct RegName { const char* name; uint32_t type; };
static const RegName kRegNames[] = {
  {"none", 0}, {"label", 1}, {"gp8lo", 2}, {"gp8hi", 3}, {"gp16", 4}, {"gp32", 5}, {"gp64", 6},
  {"vec128", 11}, {"vec256", 12}, {"vec512", 13}, {"mask", 16}, {"tile", 17},
  {"seg", 25}, {"cr", 26}, {"dr", 27}, {"mm", 28}, {"st", 29}, {"bnd", 30}, {"pc", 31}
};

static bool parse_regtype(const std::string& s, uint32_t& out) {
  if (s.empty()) return false;
  if (s[0] >= '0' && s[0] <= '9') {
    char* e = nullptr;
    unsigned long v = strtoul(s.c_str(), &e, 10);
    if (*e || v > 31) return false;
    out = uint32_t(v);
    return true;
  }
  for (const RegName& r : kRegNames)
    if (s == r.name) { out = r.type; return true; }
  return false;
}

static bool parse_u32(const std::string& s, uint32_t& out) {
  if (s.empty()) return false;
  char* e = nullptr;
  errno = 0;
  unsigned long long v = strtoull(s.c_str(), &e, 0);
  if (*e || errno || v > 0xFFFFFFFFull) return false;
  out = uint32_t(v);
  return true;
}

static bool parse_i64(const std::string& s, int64_t& out) {
  if (s.empty()) return false;
  char* e = nullptr;
  errno = 0;
  if (s.size() > 2 && s[0] == '0' && (s[1] == 'x' || s[1] == 'X')) {
    unsigned long long v = strtoull(s.c_str(), &e, 16);
    if (*e || errno) return false;
    out = int64_t(v);
    return true;
  }
  long long v = strtoll(s.c_str(), &e, 10);
  if (*e || errno) return false;
  out = v;
  return true;
}

// "<regtype>.<id>"
static bool parse_typed_reg(const std::string& s, uint32_t& type, uint32_t& id) {
  size_t d = s.find('.');
  if (d == std::string::npos) return false;
  return parse_regtype(s.substr(0, d), type) && parse_u32(s.substr(d + 1), id);
}

static std::vector<std::string> split(const std::string& s, char sep) {
  std::vector<std::string> out;
  size_t i = 0;
  for (;;) {
    size_t j = s.find(sep, i);
    if (j == std::string::npos) { out.push_back(s.substr(i)); break; }
    out.push_back(s.substr(i, j - i));
    i = j + 1;
  }
  return out;
}

static std::vector<std::string> tokens(const char* line) {
  std::vector<std::string> out;
  const char* p = line;
  while (*p) {
    while (*p == ' ' || *p == '\t' || *p == '\r' || *p == '\n') p++;
    if (!*p) break;
    const char* q = p;
    while (*q && *q != ' ' && *q != '\t' && *q != '\r' && *q != '\n') q++;
    out.emplace_back(p, q - p);
    p = q;
  }
  return out;
}

static constexpr uint32_t kNumLabels = 8;

struct PrePost { bool bind; uint32_t n; };

static const char* parse_prepost(const std::string& t, PrePost& pp) {
  if (t.compare(0, 4, "pad=") == 0) { pp.bind = false; return parse_u32(t.substr(4), pp.n) && pp.n <= (1u << 20) ? nullptr : "pad"; }
  if (t.compare(0, 5, "bind=") == 0) { pp.bind = true; return parse_u32(t.substr(5), pp.n) && pp.n < kNumLabels ? nullptr : "bind"; }
  return "prepost";
}

static Error run_prepost(x86::Assembler& a, const Label* labels, const std::vector<PrePost>& ops) {
  static const std::vector<uint8_t> nops(1u << 20, 0x90);
  for (const PrePost& p : ops) {
    Error e = p.bind ? a.bind(labels[p.n]) : (p.n ? a.embed(nops.data(), p.n) : Error::kOk);
    if (e != Error::kOk) return e;
  }
  return Error::kOk;
}

int main(int argc, char** argv) {
  const char* in_path = nullptr;
  const char* out_path = nullptr;
  for (int i = 1; i < argc; i++) {
    if (!strcmp(argv[i], "--in") && i + 1 < argc) in_path = argv[++i];
    else if (!strcmp(argv[i], "--out") && i + 1 < argc) out_path = argv[++i];
    else { fprintf(stderr, "usage: emit_x86 [--in FILE] [--out FILE]\n"); return 2; }
  }
  FILE* in = in_path ? fopen(in_path, "r") : stdin;
  g_out = out_path ? fopen(out_path, "w") : stdout;
  if (!in || !g_out) { fprintf(stderr, "emit_x86: cannot open files\n"); return 2; }
  static char obuf[1 << 16];
  setvbuf(g_out, obuf, _IOFBF, sizeof obuf);

  for (int s : {SIGSEGV, SIGBUS, SIGILL, SIGFPE, SIGABRT}) signal(s, on_signal);

  CodeHolder code;
  char* line = nullptr;
  size_t cap = 0;
  unsigned long lineno = 0;
  std::string hex;

  while (getline(&line, &cap, in) > 0) {
    lineno++;
    {
      size_t n = strlen(line);
      while (n && (line[n - 1] == '\n' || line[n - 1] == '\r')) line[--n] = 0;
      snprintf(g_cur, sizeof g_cur, "%s", line);
    }
    std::vector<std::string> tk = tokens(line);
    if (tk.empty() || tk[0][0] == '#') continue;

    const char* bad = nullptr;
    Arch arch = Arch::kX64;
    bool validate = true;
    uint32_t inst_id = 0;
    bool unknown_name = false;
    uint32_t options = 0;
    RegOnly extra; extra.reset();
    std::vector<PrePost> pre, post;
    Operand_ ops[6];
    uint32_t mem_label[6];     // label number used as a memory base, or ~0u
    uint32_t op_label[6];      // label number used as a label operand, or ~0u
    size_t op_count = 0;
    for (int i = 0; i < 6; i++) { ops[i].reset(); mem_label[i] = op_label[i] = ~0u; }

    do {
      if (tk.size() < 5) { bad = "too-few-tokens"; break; }
      if (tk[0] == "32") arch = Arch::kX86; else if (tk[0] == "64") arch = Arch::kX64; else { bad = "arch"; break; }
      if (tk[1] == "v") validate = true; else if (tk[1] == "n") validate = false; else { bad = "diag"; break; }
      if (tk[2][0] == '#') {
        if (!parse_u32(tk[2].substr(1), inst_id)) { bad = "inst-id"; break; }
      }
      else {
        inst_id = InstAPI::string_to_inst_id(arch, tk[2].c_str(), tk[2].size());
        if (inst_id == 0) unknown_name = true;
      }
      {
        char* e = nullptr;
        errno = 0;
        unsigned long long v = strtoull(tk[3].c_str(), &e, 16);
        if (*e || errno || v > 0xFFFFFFFFull) { bad = "options"; break; }
        options = uint32_t(v);
      }
      if (tk[4] != "-") {
        uint32_t t, id;
        if (!parse_typed_reg(tk[4], t, id)) { bad = "extra"; break; }
        extra.init(Reg::from_type_and_id(RegType(t), id));
      }
      for (size_t i = 5; i < tk.size() && !bad; i++) {
        const std::string& t = tk[i];
        if (t[0] == '+') {
          PrePost pp;
          bad = parse_prepost(t.substr(1), pp);
          if (!bad) post.push_back(pp);
          continue;
        }
        if (t.compare(0, 4, "pad=") == 0 || t.compare(0, 5, "bind=") == 0) {
          PrePost pp;
          bad = parse_prepost(t, pp);
          if (!bad) pre.push_back(pp);
          continue;
        }
        if (op_count >= 6) { bad = "too-many-operands"; break; }
        if (t == "-") { op_count++; continue; }
        std::vector<std::string> f = split(t, ',');
        if (f[0] == "r") {
          uint32_t ty, id;
          if (f.size() != 3 || !parse_regtype(f[1], ty) || !parse_u32(f[2], id)) { bad = "reg-operand"; break; }
          ops[op_count++] = Reg::from_type_and_id(RegType(ty), id);
        }
        else if (f[0] == "i") {
          int64_t v;
          if (f.size() != 2 || !parse_i64(f[1], v)) { bad = "imm-operand"; break; }
          ops[op_count++] = Imm(v);
        }
        else if (f[0] == "l") {
          uint32_t n;
          if (f.size() != 2 || !parse_u32(f[1], n) || n >= kNumLabels) { bad = "label-operand"; break; }
          op_label[op_count++] = n;
        }
        else if (f[0] == "m") {
          if (f.size() != 9) { bad = "mem-operand-fields"; break; }
          uint32_t size, shift, seg, bcst, addr;
          int64_t off;
          if (!parse_u32(f[1], size) || size > 255 || !parse_u32(f[4], shift) || shift > 3 || !parse_i64(f[5], off) ||
              !parse_u32(f[6], seg) || seg > 7 || !parse_u32(f[7], bcst) || bcst > 7 || !parse_u32(f[8], addr) || addr > 3) {
            bad = "mem-operand-values";
            break;
          }
          uint32_t bt = 0, bid = 0, it = 0, iid = 0;
          bool is_abs = false;
          if (f[2] == "-" || f[2] == "abs") is_abs = true;
          else if (f[2][0] == 'L') {
            uint32_t n;
            if (!parse_u32(f[2].substr(1), n) || n >= kNumLabels) { bad = "mem-label"; break; }
            bt = uint32_t(RegType::kLabelTag);
            mem_label[op_count] = n;
          }
          else if (!parse_typed_reg(f[2], bt, bid)) { bad = "mem-base"; break; }
          if (f[3] != "-" && !parse_typed_reg(f[3], it, iid)) { bad = "mem-index"; break; }
          uint32_t sig = uint32_t(OperandType::kMem) | (bt << 3) | (it << 8) | (addr << 14) | (shift << 16) | (seg << 18) |
                         (bcst << 21) | (size << 24);
          if (is_abs) bid = uint32_t(uint64_t(off) >> 32);   // 64-bit absolute address: high half lives in the base id
          ops[op_count++] = x86::Mem(OperandSignature{sig}, bid, iid, int32_t(uint32_t(uint64_t(off) & 0xFFFFFFFFu)));
        }
        else { bad = "operand-kind"; break; }
      }
    } while (0);

    if (bad) {
      fprintf(g_out, "%lu -1 E_PARSE:%s - 0 r0\n", lineno, bad);
      continue;
    }
    if (unknown_name) {
      fprintf(g_out, "%lu -1 E_NAME - 0 r0\n", lineno);
      continue;
    }

    // fresh code holder + assembler for every case: cases are independent of each other and of the sharding
    code.reset(ResetPolicy::kSoft);
    Environment env(arch);
    if (code.init(env) != Error::kOk) { fprintf(stderr, "emit_x86: CodeHolder::init failed\n"); return 2; }
    x86::Assembler a;
    if (code.attach(&a) != Error::kOk) { fprintf(stderr, "emit_x86: attach failed\n"); return 2; }
    if (validate) a.add_diagnostic_options(DiagnosticOptions::kValidateAssembler);

    Label labels[kNumLabels];
    for (uint32_t i = 0; i < kNumLabels; i++) labels[i] = a.new_label();
    for (size_t i = 0; i < op_count; i++) {
      if (op_label[i] != ~0u) ops[i] = labels[op_label[i]];
      if (mem_label[i] != ~0u) ops[i]._base_id = labels[mem_label[i]].id();
    }

    Error perr = run_prepost(a, labels, pre);
    if (perr != Error::kOk) {
      fprintf(g_out, "%lu -1 E_PRE:%s - 0 r0\n", lineno, DebugUtils::error_as_string(perr));
      continue;
    }

    CodeBuffer& buf = code.text_section()->buffer();
    size_t size0 = buf.size();
    size_t off0 = a.offset();

    BaseInst inst(inst_id, InstOptions(options), extra);
    Error err = a.emit_inst(inst, ops, op_count);

    size_t size1 = buf.size();
    size_t off1 = a.offset();
    Error post_err = run_prepost(a, labels, post);

    long delta = long(size1) - long(size0);
    hex.clear();
    if (off1 > off0 && off1 <= buf.size()) {
      static const char* hx = "0123456789abcdef";
      const uint8_t* d = buf.data();
      for (size_t i = off0; i < off1; i++) { hex.push_back(hx[d[i] >> 4]); hex.push_back(hx[d[i] & 15]); }
    }
    if (hex.empty()) hex = "-";
    if (long(off1) - long(off0) != delta) {
      // cursor and section size disagree: show both (python treats this as a violation of "nothing else is appended")
      fprintf(g_out, "%lu %u %s %s %ld r%zu cursor-delta=%ld", lineno, unsigned(err), DebugUtils::error_as_string(err), hex.c_str(),
              delta, size_t(code.reloc_entries().size()), long(off1) - long(off0));
    }
    else {
      fprintf(g_out, "%lu %u %s %s %ld r%zu", lineno, unsigned(err), DebugUtils::error_as_string(err), hex.c_str(), delta,
              size_t(code.reloc_entries().size()));
    }
    if (post_err != Error::kOk) fprintf(g_out, " post=%s", DebugUtils::error_as_string(post_err));
    fputc('\n', g_out);
    code.detach(&a);
  }
  fflush(g_out);
  if (g_out != stdout) fclose(g_out);
  free(line);
  return 0;
}
