// emit_a64 - generic AArch64 "emit filter" (used by checks C02, C13, C14, C20).
//
// Reads one case per line, builds the operands through the *public* AsmJit API (a64::Gp / a64::Vec / a64::Mem /
// Imm / arm::Shift / Label, with arbitrary - also invalid - register ids), emits the instruction with
// a64::Assembler::_emit_op_array() into a FRESH CodeHolder(Environment(Arch::kAArch64)) and writes one result line.
// Nothing is judged here; the caller owns the oracle.
//
//   usage:  emit_a64 [--validate] [--format] [--base ADDR | --nobase] [--in FILE] [--out FILE]   |   emit_a64 --names
//       --validate   enable DiagnosticOptions::kValidateAssembler (strict validation before encoding)
//       --format     append the Formatter::format_instruction() text as a 5th column
//       --base ADDR  CodeHolder base address (default 0, so an immediate branch/adr target T is the pc-relative
//                    displacement T because every case is emitted at offset 0);  --nobase = Globals::kNoBaseAddress
//       --in/--out   files instead of stdin/stdout
//
// INPUT  (one case per line; empty lines and lines starting with ';' are skipped)
//       [<tag> TAB] <mnemonic>[.<cond>] [<operand> {, <operand>}]
//   <tag>       any text without TAB, copied to the output (default: 1-based input line number)
//   <mnemonic>  AsmJit instruction name (looked up in a table built with InstAPI::inst_id_to_string over all ids, not with
//               string_to_inst_id), or  inst#<N>  for a raw instruction id N;  `emit_a64 --names` lists the table.
//               Mnemonics with two ids (add: Inst::kIdAdd and Inst::kIdAdd_v) resolve like the typed C++ API does: the
//               `_v` id if any operand is a vector register, else the general-purpose id; "add/g" / "add/v" force one;
//               a ".<cond>" suffix (b.eq) is folded into the instruction id (BaseInst::compose_arm_inst_id)
//   operands    are split at top-level commas (commas inside [...] belong to the memory operand); at most 6
//     GP register      w<N> x<N> wzr xzr wsp sp                  N = any decimal id (w31 == wsp, w63 == wzr, w40 ... invalid ids)
//     vector register  b<N> h<N> s<N> d<N> q<N> v<N>             scalar views / plain 128-bit vector
//                      v<N>.<K><T>         K*T arrangement: 8b 16b 4h 8h 2s 4s 1d 2d, 2h 4b (32-bit), 1q (128-bit, element type none)
//                      v<N>.<T>[<I>]       element access T in b h s d 4b 2h, I = element index 0..15
//                      v<N>.<K><T>[<I>]    arrangement + element index (e.g. v3.4s[1])
//                      v<N>.<T>            128-bit vector with element type only
//     raw register     reg:<signature-hex>:<id>                  Operand with that signature word and id
//     immediate        #<int>  (decimal, -decimal, 0x hex up to 64 bit)   #<float> (contains '.', 'e', inf, nan -> double Imm)
//     shift / extend   lsl|lsr|asr|ror|rrx|msl|uxtb|uxth|uxtw|uxtx|sxtb|sxth|sxtw|sxtx [#<n>]   -> Imm(arm::Shift(op, n))
//     condition        eq ne cs hs cc lo mi pl vs vc hi ls ge lt gt le al nv                     -> Imm(CondCode)
//     memory           [<base>]  [<base>, #<off>]  [<base>, <index>]  [<base>, <index>, <shift|extend> #<n>]
//                      suffix '!' = pre-index, suffix '@' = post-index:  [x1, #8]!   [x1, #8]@   [x1, x2]@
//                      <base> = x<N> | sp | xzr | w<N> | $0 | $u | pc   (pc == $0),   <index> = x<N> | w<N> | xzr | wzr
//                      [#<addr>]  absolute address memory operand
//     label            $0 = label bound at offset 0 (= address of the emitted instruction),  $u = unbound label
//     none             _  (explicit empty operand slot)
//
// OUTPUT (one line per case, same order)
//       <tag> TAB <error code, decimal; -1 = unknown mnemonic, -2 = operand syntax error (nothing emitted)>
//             TAB <error name> TAB <hex of all bytes in .text after the emit call> [TAB <formatted text>]
#include <asmjit/core.h>
#include <asmjit/a64.h>

#include <cstdio>
#include <cstdlib>
#include <cstring>
#include <csignal>
#include <map>
#include <string>
#include <vector>
#include <unistd.h>

using namespace asmjit;

static char g_current[4096];

static void on_fatal(int sig) {
  const char* p = "VH-CURRENT-CASE: ";
  (void)!write(2, p, strlen(p));
  (void)!write(2, g_current, strlen(g_current));
  (void)!write(2, "\n", 1);
  signal(sig, SIG_DFL);
  raise(sig);
}

struct Ctx {
  CodeHolder* code;
  a64::Assembler* as;
  Label l0, lu;
  bool has_l0 = false, has_lu = false;
  std::string err;

  Label bound() {
    if (!has_l0) { l0 = as->new_label(); as->bind(l0); has_l0 = true; }
    return l0;
  }
  Label unbound() {
    if (!has_lu) { lu = as->new_label(); has_lu = true; }
    return lu;
  }
};

static std::string trim(const std::string& s) {
  size_t a = 0, b = s.size();
  while (a < b && (s[a] == ' ' || s[a] == '\t' || s[a] == '\r')) a++;
  while (b > a && (s[b - 1] == ' ' || s[b - 1] == '\t' || s[b - 1] == '\r')) b--;
  return s.substr(a, b - a);
}

static std::string lower(std::string s) {
  for (auto& c : s) if (c >= 'A' && c <= 'Z') c = char(c - 'A' + 'a');
  return s;
}

static bool parse_u64(const std::string& s, uint64_t& out) {
  if (s.empty()) return false;
  char* end = nullptr;
  errno = 0;
  if (s.size() > 2 && s[0] == '0' && (s[1] == 'x' || s[1] == 'X')) out = strtoull(s.c_str() + 2, &end, 16);
  else {
    for (char c : s) if (c < '0' || c > '9') return false;
    out = strtoull(s.c_str(), &end, 10);
  }
  return end && *end == 0 && errno == 0;
}

static bool parse_i64(const std::string& s, int64_t& out) {
  if (s.empty()) return false;
  bool neg = s[0] == '-';
  uint64_t u;
  if (!parse_u64((neg || s[0] == '+') ? s.substr(1) : s, u)) return false;
  out = neg ? int64_t(0 - u) : int64_t(u);
  return true;
}

static int shift_op_of(const std::string& s) {
  static const char* names[] = {"lsl", "lsr", "asr", "ror", "rrx", "msl", "uxtb", "uxth", "uxtw", "uxtx", "sxtb", "sxth", "sxtw", "sxtx"};
  for (int i = 0; i < 14; i++) if (s == names[i]) return i;
  return -1;
}

static int cond_of(const std::string& s) {
  static const struct { const char* n; int v; } t[] = {
    {"al", 0}, {"nv", 1}, {"eq", 2}, {"ne", 3}, {"cs", 4}, {"hs", 4}, {"cc", 5}, {"lo", 5}, {"mi", 6}, {"pl", 7}, {"vs", 8},
    {"vc", 9}, {"hi", 10}, {"ls", 11}, {"ge", 12}, {"lt", 13}, {"gt", 14}, {"le", 15}};
  for (auto& e : t) if (s == e.n) return e.v;
  return -1;
}

// "<op> [#n]" -> Shift
static bool parse_shift(const std::string& s, arm::Shift& out) {
  size_t sp = s.find_first_of(" #");
  std::string name = trim(sp == std::string::npos ? s : s.substr(0, sp));
  int op = shift_op_of(name);
  if (op < 0) return false;
  uint64_t n = 0;
  if (sp != std::string::npos) {
    std::string rest = trim(s.substr(sp));
    if (!rest.empty()) {
      if (rest[0] != '#') return false;
      if (!parse_u64(trim(rest.substr(1)), n) || n > 0xFFFFFFFFu) return false;
    }
  }
  out = arm::Shift(arm::ShiftOp(op), uint32_t(n));
  return true;
}

static bool elem_type_of(const std::string& t, a64::VecElementType& et, uint32_t& bits) {
  if (t == "b") { et = a64::VecElementType::kB; bits = 8; return true; }
  if (t == "h") { et = a64::VecElementType::kH; bits = 16; return true; }
  if (t == "s") { et = a64::VecElementType::kS; bits = 32; return true; }
  if (t == "d") { et = a64::VecElementType::kD; bits = 64; return true; }
  if (t == "q") { et = a64::VecElementType::kNone; bits = 128; return true; }
  return false;
}

// register token -> Reg operand; returns false if the token is not a register
static bool parse_reg(const std::string& s, Operand& out) {
  if (s == "wzr") { out = a64::Gp::make_w(a64::Gp::kIdZr); return true; }
  if (s == "xzr") { out = a64::Gp::make_x(a64::Gp::kIdZr); return true; }
  if (s == "wsp") { out = a64::Gp::make_w(a64::Gp::kIdSp); return true; }
  if (s == "sp")  { out = a64::Gp::make_x(a64::Gp::kIdSp); return true; }
  if (s.compare(0, 4, "reg:") == 0) {
    size_t c = s.find(':', 4);
    if (c == std::string::npos) return false;
    uint64_t sig, id;
    if (!parse_u64("0x" + s.substr(4, c - 4), sig) || !parse_u64(s.substr(c + 1), id)) return false;
    out = Operand(Globals::Init, OperandSignature{uint32_t(sig)}, uint32_t(id), 0, 0);
    return true;
  }
  if (s.size() < 2) return false;
  char k = s[0];
  if (!strchr("wxbhsdqv", k)) return false;
  size_t i = 1;
  while (i < s.size() && s[i] >= '0' && s[i] <= '9') i++;
  if (i == 1) return false;
  uint64_t id;
  if (!parse_u64(s.substr(1, i - 1), id) || id > 0xFFFFFFFFu) return false;
  std::string rest = s.substr(i);
  if (rest.empty()) {
    switch (k) {
      case 'w': out = a64::Gp::make_w(uint32_t(id)); return true;
      case 'x': out = a64::Gp::make_x(uint32_t(id)); return true;
      case 'b': out = a64::Vec::make_b(uint32_t(id)); return true;
      case 'h': out = a64::Vec::make_h(uint32_t(id)); return true;
      case 's': out = a64::Vec::make_s(uint32_t(id)); return true;
      case 'd': out = a64::Vec::make_d(uint32_t(id)); return true;
      case 'q': out = a64::Vec::make_q(uint32_t(id)); return true;
      case 'v': out = a64::Vec::make_v128(uint32_t(id)); return true;
    }
    return false;
  }
  if (k != 'v' || rest[0] != '.') return false;
  rest = rest.substr(1);
  // optional [idx]
  bool has_idx = false;
  uint64_t idx = 0;
  size_t br = rest.find('[');
  if (br != std::string::npos) {
    if (rest.back() != ']') return false;
    if (!parse_u64(trim(rest.substr(br + 1, rest.size() - br - 2)), idx) || idx > 15) return false;
    has_idx = true;
    rest = rest.substr(0, br);
  }
  // <K><T> or <T>
  size_t j = 0;
  while (j < rest.size() && rest[j] >= '0' && rest[j] <= '9') j++;
  uint64_t count = 0;
  if (j > 0 && !parse_u64(rest.substr(0, j), count)) return false;
  std::string t = rest.substr(j);
  a64::VecElementType et;
  uint32_t ebits;
  if (!elem_type_of(t, et, ebits)) return false;

  if (has_idx && j > 0 && (rest == "4b" || rest == "2h")) {
    // element groups used by dot products: v.4b[i] / v.2h[i]
    et = rest == "4b" ? a64::VecElementType::kB4 : a64::VecElementType::kH2;
    out = a64::Vec::make_v128_with_element_index(et, uint32_t(idx), uint32_t(id));
    return true;
  }

  a64::Vec v;
  if (j == 0) {
    if (t == "q") return false;
    v = a64::Vec::make_v128_with_element_type(et, uint32_t(id));
  }
  else {
    uint64_t total = count * ebits;
    if (total == 128) v = a64::Vec::make_v128_with_element_type(et, uint32_t(id));
    else if (total == 64) v = a64::Vec::make_v64_with_element_type(et, uint32_t(id));
    else if (total == 32) v = a64::Vec::make_v32_with_element_type(et, uint32_t(id));
    else return false;
  }
  if (has_idx) v.set_element_index(uint32_t(idx));
  out = v;
  return true;
}

static bool parse_mem(Ctx& c, const std::string& s0, Operand& out) {
  std::string s = s0;
  arm::OffsetMode mode = arm::OffsetMode::kFixed;
  if (s.back() == '!') { mode = arm::OffsetMode::kPreIndex; s.pop_back(); }
  else if (s.back() == '@') { mode = arm::OffsetMode::kPostIndex; s.pop_back(); }
  s = trim(s);
  if (s.size() < 2 || s[0] != '[' || s.back() != ']') return false;
  std::string in = s.substr(1, s.size() - 2);
  std::vector<std::string> parts;
  size_t p = 0;
  for (;;) {
    size_t q = in.find(',', p);
    parts.push_back(trim(in.substr(p, q == std::string::npos ? std::string::npos : q - p)));
    if (q == std::string::npos) break;
    p = q + 1;
  }
  if (parts.empty() || parts[0].empty() || parts.size() > 3) return false;

  a64::Mem m;
  if (parts[0][0] == '#') {
    uint64_t addr;
    int64_t sa;
    if (parse_u64(parts[0].substr(1), addr)) {}
    else if (parse_i64(parts[0].substr(1), sa)) addr = uint64_t(sa);
    else return false;
    if (parts.size() != 1) return false;
    m = a64::Mem(addr);
  }
  else {
    bool is_label = false;
    Label lbl;
    Operand base;
    if (parts[0] == "$0" || parts[0] == "pc") { lbl = c.bound(); is_label = true; }
    else if (parts[0] == "$u") { lbl = c.unbound(); is_label = true; }
    else if (!parse_reg(parts[0], base) || !base.is_reg()) return false;

    int64_t off = 0;
    bool has_index = false;
    Operand index;
    arm::Shift sh(arm::ShiftOp::kLSL, 0);
    bool has_shift = false;

    if (parts.size() >= 2) {
      if (parts[1].empty()) return false;
      if (parts[1][0] == '#') {
        if (!parse_i64(trim(parts[1].substr(1)), off) || off < INT32_MIN || off > INT32_MAX) return false;
        if (parts.size() > 2) return false;
      }
      else {
        if (!parse_reg(parts[1], index) || !index.is_reg()) return false;
        has_index = true;
        if (parts.size() == 3) {
          if (!parse_shift(parts[2], sh)) return false;
          has_shift = true;
        }
      }
    }

    if (is_label) {
      if (has_index) return false;
      m = a64::Mem(lbl, int32_t(off));
    }
    else if (has_index) {
      m = has_shift ? a64::Mem(base.as<Reg>(), index.as<Reg>(), sh) : a64::Mem(base.as<Reg>(), index.as<Reg>());
    }
    else {
      m = a64::Mem(base.as<Reg>(), int32_t(off));
    }
  }
  m.set_offset_mode(mode);
  out = m;
  return true;
}

static bool parse_operand(Ctx& c, const std::string& s, Operand& out) {
  if (s.empty()) return false;
  if (s == "_") { out = Operand(); return true; }
  if (s[0] == '[') return parse_mem(c, s, out);
  if (s == "$0") { out = c.bound(); return true; }
  if (s == "$u") { out = c.unbound(); return true; }
  if (s[0] == '#') {
    std::string v = trim(s.substr(1));
    uint64_t u;
    int64_t i;
    if (parse_u64(v, u)) { out = Imm(u); return true; }
    if (parse_i64(v, i)) { out = Imm(i); return true; }
    // floating point
    char* end = nullptr;
    double d = strtod(v.c_str(), &end);
    if (end && *end == 0 && end != v.c_str()) { out = Imm(d); return true; }
    return false;
  }
  if (parse_reg(s, out)) return true;
  arm::Shift sh;
  if (parse_shift(s, sh)) { out = Imm(sh); return true; }
  int cc = cond_of(s);
  if (cc >= 0) { out = Imm(uint32_t(cc)); return true; }
  return false;
}

// Name -> id table built from inst_id_to_string() over all ids (does not depend on string_to_inst_id()'s search).
// Several mnemonics have two ids (add = Inst::kIdAdd and Inst::kIdAdd_v); the ids are kept in ascending order, the
// general-purpose one first.
static std::map<std::string, std::vector<InstId>>& name_table() {
  static std::map<std::string, std::vector<InstId>> t;
  if (t.empty()) {
    for (InstId id = 1; id < a64::Inst::_kIdCount; id++) {
      String sb;
      if (InstAPI::inst_id_to_string(Arch::kAArch64, id, InstStringifyOptions::kNone, sb) == Error::kOk && sb.size())
        t[std::string(sb.data(), sb.size())].push_back(id);
    }
  }
  return t;
}

static std::vector<std::string> split_operands(const std::string& s) {
  std::vector<std::string> out;
  int depth = 0;
  std::string cur;
  for (char ch : s) {
    if (ch == '[') depth++;
    if (ch == ']') depth--;
    if (ch == ',' && depth == 0) { out.push_back(trim(cur)); cur.clear(); continue; }
    cur.push_back(ch);
  }
  if (!trim(cur).empty() || !out.empty()) out.push_back(trim(cur));
  return out;
}

int main(int argc, char** argv) {
  bool validate = false, format = false;
  uint64_t base = 0;
  const char* in_path = nullptr;
  const char* out_path = nullptr;
  for (int i = 1; i < argc; i++) {
    std::string a = argv[i];
    if (a == "--validate") validate = true;
    else if (a == "--format") format = true;
    else if (a == "--names") {
      for (auto& kv : name_table()) {
        printf("%s", kv.first.c_str());
        for (InstId id : kv.second) printf("\t%u", unsigned(id));
        printf("\n");
      }
      return 0;
    }
    else if (a == "--nobase") base = Globals::kNoBaseAddress;
    else if (a == "--base" && i + 1 < argc) { uint64_t b; if (!parse_u64(argv[++i], b)) { fprintf(stderr, "bad --base\n"); return 2; } base = b; }
    else if (a == "--in" && i + 1 < argc) in_path = argv[++i];
    else if (a == "--out" && i + 1 < argc) out_path = argv[++i];
    else { fprintf(stderr, "emit_a64: unknown argument %s\n", a.c_str()); return 2; }
  }
  FILE* fin = in_path ? fopen(in_path, "r") : stdin;
  FILE* fout = out_path ? fopen(out_path, "w") : stdout;
  if (!fin || !fout) { fprintf(stderr, "emit_a64: cannot open files\n"); return 2; }

  signal(SIGSEGV, on_fatal);
  signal(SIGABRT, on_fatal);
  signal(SIGFPE, on_fatal);
  signal(SIGBUS, on_fatal);
  signal(SIGILL, on_fatal);

  static char buf[1 << 16];
  size_t line_no = 0;
  std::string hex;
  while (fgets(buf, sizeof buf, fin)) {
    line_no++;
    std::string line(buf);
    while (!line.empty() && (line.back() == '\n' || line.back() == '\r')) line.pop_back();
    std::string tag, text;
    size_t tab = line.find('\t');
    if (tab != std::string::npos) { tag = line.substr(0, tab); text = trim(line.substr(tab + 1)); }
    else { tag = std::to_string(line_no); text = trim(line); }
    if (text.empty() || text[0] == ';') continue;
    snprintf(g_current, sizeof g_current, "%s", text.c_str());

    text = lower(text);
    size_t sp = text.find_first_of(" \t");
    std::string mn = sp == std::string::npos ? text : text.substr(0, sp);
    std::string ops_text = sp == std::string::npos ? std::string() : trim(text.substr(sp + 1));

    // instruction id (resolved after the operands are known, see below)
    InstId inst_id = 0;
    int parse_error = 0;
    std::string why;
    std::string name = mn;
    int cc = -1;
    char force = 0;   // 'g' / 'v' from a "/g" or "/v" suffix
    const std::vector<InstId>* ids = nullptr;
    {
      size_t sl = name.find('/');
      if (sl != std::string::npos) {
        if (name.size() == sl + 2 && (name[sl + 1] == 'g' || name[sl + 1] == 'v')) force = name[sl + 1];
        else { parse_error = -1; why = "bad /g /v suffix"; }
        name = name.substr(0, sl);
      }
      size_t dot = name.find('.');
      if (dot != std::string::npos) {
        cc = cond_of(name.substr(dot + 1));
        if (cc < 0) { parse_error = -1; why = "unknown condition suffix"; }
        name = name.substr(0, dot);
      }
      if (!parse_error) {
        if (name.compare(0, 5, "inst#") == 0) {
          uint64_t n;
          if (!parse_u64(name.substr(5), n)) { parse_error = -1; why = "bad raw instruction id"; }
          inst_id = InstId(n);
        }
        else {
          auto it = name_table().find(name);
          if (it == name_table().end()) { parse_error = -1; why = "unknown mnemonic"; }
          else ids = &it->second;
        }
      }
    }

    CodeHolder code;
    code.init(Environment(Arch::kAArch64), base);
    a64::Assembler as(&code);
    if (validate) as.add_diagnostic_options(DiagnosticOptions::kValidateAssembler);

    Ctx ctx;
    ctx.code = &code;
    ctx.as = &as;

    Operand ops[6];
    size_t nops = 0;
    if (!parse_error) {
      std::vector<std::string> toks = split_operands(ops_text);
      if (toks.size() > 6) { parse_error = -2; why = "more than 6 operands"; }
      for (size_t i = 0; i < toks.size() && !parse_error; i++) {
        if (!parse_operand(ctx, toks[i], ops[i])) { parse_error = -2; why = "cannot parse operand '" + toks[i] + "'"; }
      }
      nops = toks.size();
    }

    if (parse_error) {
      fprintf(fout, "%s\t%d\t%s\t\n", tag.c_str(), parse_error, why.c_str());
      continue;
    }

    if (ids) {
      // the typed emitter API (a64::EmitterExplicitT) selects the `_v` id when a vector register is passed
      bool any_vec = false;
      for (size_t i = 0; i < nops; i++)
        if (ops[i].is_reg() && ops[i].as<Reg>().is_vec()) any_vec = true;
      bool want_v = force ? force == 'v' : any_vec;
      inst_id = want_v ? ids->back() : ids->front();
    }
    if (cc >= 0) inst_id = BaseInst::compose_arm_inst_id(inst_id, arm::CondCode(cc));

    size_t before = as.offset();
    Error err = as._emit_op_array(inst_id, ops, nops);
    (void)before;

    hex.clear();
    const CodeBuffer& cb = code.text_section()->buffer();
    static const char* hx = "0123456789abcdef";
    for (size_t i = 0; i < cb.size(); i++) { hex.push_back(hx[cb.data()[i] >> 4]); hex.push_back(hx[cb.data()[i] & 15]); }

    if (format) {
      String sb;
      Formatter::format_instruction(sb, FormatFlags::kNone, &as, Arch::kAArch64, BaseInst(inst_id), Span<const Operand_>(ops, nops));
      fprintf(fout, "%s\t%u\t%s\t%s\t%s\n", tag.c_str(), unsigned(err), DebugUtils::error_as_string(err), hex.c_str(), sb.data());
    }
    else {
      fprintf(fout, "%s\t%u\t%s\t%s\n", tag.c_str(), unsigned(err), DebugUtils::error_as_string(err), hex.c_str());
    }
  }
  fflush(fout);
  if (out_path) fclose(fout);
  return 0;
}
