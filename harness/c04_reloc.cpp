// C04 - relocated code addresses its absolute targets correctly at any base address.
// Enumerates programs (1-2 absolute-reference items + label + optional extra section after the address table)
// x base addresses x {base known at init, base assigned by relocate_to_base} x {x64, x86, a64}; every site of the
// relocated image is evaluated the way the CPU would (harness-owned decoders), incl. loading address-table
// slots from the *copied image*.  Also: JitRuntime::add installs exactly the relocated image (and it runs).
#include "xplor.h"
#include <asmjit/core.h>
#include <asmjit/x86.h>
#include <asmjit/a64.h>
#include <climits>
#include <algorithm>

using namespace asmjit;

enum ArchSel { AX64 = 0, AX86 = 1, AA64 = 2 };
static const char* arch_name(int a) { return a == AX64 ? "x64" : a == AX86 ? "x86" : "a64"; }

enum ItemKind { I_JMP, I_CALL, I_JCC, I_MOV, I_CMP8, I_CMP32, I_EMBED4, I_EMBED8, I_MEM_LABEL, I_LEA_LABEL, I_B, I_BL, I_ADR, I_COUNT };
static const char* item_name(int k) { static const char* n[] = {"jmp", "call", "jnz", "mov", "cmp8", "cmp32", "embed4", "embed8", "mov[L]", "lea[L]", "b", "bl", "adr"}; return n[k]; }

struct Item { int kind; int addr_type; int tsel; };   // addr_type 0 default 1 abs 2 rel (mem items); tsel selects the target
struct Tgt { bool base_relative; int64_t v; const char* name; };
static const Tgt kTargets[] = {
  {true, 0x2000, "base+0x2000"}, {true, -0x3000, "base-0x3000"}, {true, 0x7FFFF000ll, "base+2GiB-4K"}, {true, 0x80001000ll, "base+2GiB+4K"},
  {true, -0x80002000ll, "base-2GiB-8K"}, {false, 0x1000, "0x1000"}, {false, 0xFFFFF000ll, "0xFFFFF000"}, {false, 0x7FFF00001000ll, "0x7FFF00001000"},
  {true, 0x7FFFFFCll, "base+128MiB-4"}, {true, 0x8000000ll, "base+128MiB"}, {true, 0xFFFFCll, "base+1MiB-4"}, {true, 0x100000ll, "base+1MiB"},
  // around the rel8 / rel32 form switch of a branch emitted near the start of the code
  {true, 0x7F, "base+0x7f"}, {true, 0x83, "base+0x83"}, {true, 0x84, "base+0x84"}, {true, 0x85, "base+0x85"}, {true, 0x86, "base+0x86"}, {true, 0x87, "base+0x87"},
  {true, 0x88, "base+0x88"}, {true, 0x89, "base+0x89"}, {true, 0x8A, "base+0x8a"}, {true, 0x8C, "base+0x8c"}, {true, 0x90, "base+0x90"},
  {true, -0x70, "base-0x70"}, {true, -0x78, "base-0x78"}, {true, -0x79, "base-0x79"}, {true, -0x7A, "base-0x7a"}, {true, -0x7B, "base-0x7b"}, {true, -0x7C, "base-0x7c"}, {true, -0x7D, "base-0x7d"}, {true, -0x80, "base-0x80"},
};
static const int kFirstNearTarget = 12;
static const int kNumTargets = sizeof(kTargets) / sizeof(kTargets[0]);
static const uint64_t kBases[] = {0x10000ull, 0x7FFFF000ull, 0x80000000ull, 0xFFFFF000ull, 0x100000000ull, 0x7FFFFFFFF000ull, 0x8000000000000000ull, 0xFFFFFFFFFFFF0000ull};

struct Site { int kind; int addr_type; uint32_t sec; size_t start, end; uint64_t target; bool is_label; int imm_size; };

struct Case {
  int arch; uint64_t base; bool known_base; std::vector<Item> items; bool extra_section; int label_mode = 0;   // 0 text/after 1 text/before 2 .data/after 3 .data/before
  int code_sec = 0;   // 0: the items are assembled into .text; 1: into a second executable section that is laid out behind .text
  std::string str() const {
    char b[128]; snprintf(b, sizeof b, "arch=%s base=%llu known=%d extra=%d label=%d csec=%d items=", arch_name(arch), (unsigned long long)base, known_base, extra_section, label_mode, code_sec);
    std::string s = b;
    for (auto& it : items) s += std::to_string(it.kind) + ":" + std::to_string(it.addr_type) + ":" + std::to_string(it.tsel) + ",";
    s += " #";
    for (auto& it : items) s += std::string(" ") + item_name(it.kind) + (it.kind >= I_MOV && it.kind <= I_CMP32 ? (it.addr_type == 0 ? ".dflt" : it.addr_type == 1 ? ".abs" : ".rel") : "") + "->" + (it.kind >= I_EMBED4 && it.kind <= I_LEA_LABEL ? "L" : kTargets[it.tsel].name);
    return s;
  }
};

static std::string g_why, g_clause;
#define FAIL(cl, ...) do { char _b[500]; snprintf(_b, sizeof _b, __VA_ARGS__); g_why = _b; g_clause = cl; return false; } while (0)

static uint64_t resolve_target(const Tgt& t, uint64_t base, int arch) {
  uint64_t v = t.base_relative ? base + uint64_t(t.v) : uint64_t(t.v);
  if (arch == AX86) v &= 0xFFFFFFFFull;
  return v;
}

struct Built {
  CodeHolder code; x86::Assembler xa; a64::Assembler aa; BaseAssembler* a = nullptr;
  std::vector<Site> sites; Label L; uint64_t label_off = 0; uint32_t label_sec = 0; Section* extra = nullptr;
  int emit_errors = 0;
};

// builds the program; returns false on a harness-detected violation during emission
static bool build(const Case& cs, Built& b, uint64_t init_base) {
  Environment env(cs.arch == AX64 ? Arch::kX64 : cs.arch == AX86 ? Arch::kX86 : Arch::kAArch64);
  if (b.code.init(env, init_base) != Error::kOk) FAIL("init", "init failed");
  if (cs.arch == AA64) { b.code.attach(&b.aa); b.a = &b.aa; } else { b.code.attach(&b.xa); b.a = &b.xa; }
  b.L = b.a->new_label();
  uint8_t nops[16]; memset(nops, cs.arch == AA64 ? 0x1F : 0x90, sizeof nops);
  if (cs.arch == AA64) { uint32_t nop = 0xD503201F; for (int i = 0; i < 4; i++) memcpy(nops + 4 * i, &nop, 4); }
  Section* data = nullptr;
  if (cs.label_mode >= 2) { if (b.code.new_section(Out(data), ".data", SIZE_MAX, SectionFlags::kNone, 16, 1) != Error::kOk) FAIL("new_section", "new_section failed"); }
  auto bind_label = [&]() -> bool {
    if (data) b.a->section(data);
    b.a->embed(nops, 8);
    b.label_off = b.a->current_section()->buffer_size(); b.label_sec = b.a->current_section()->section_id();
    bool ok = b.a->bind(b.L) == Error::kOk;
    b.a->embed(nops, 8);
    if (data) b.a->section(b.code.text_section());
    return ok;
  };
  if (cs.label_mode == 1 || cs.label_mode == 3) { if (!bind_label()) FAIL("bind", "bind failed"); }
  b.a->embed(nops, cs.arch == AA64 ? 4 : 3);
  Section* text2 = nullptr;
  if (cs.code_sec) {
    if (b.code.new_section(Out(text2), ".text2", SIZE_MAX, SectionFlags::kExecutable, 16, 0) != Error::kOk) FAIL("new_section", "new_section failed");
    // code_sec 2: the layout is fixed (flatten) BEFORE the items are assembled into the second section, so that an
    // assembler that knows the base address computes displacements from the section's final offset right away
    // (the section already holds bytes at that moment: an empty section would be re-aligned by the final flatten)
    b.a->section(text2); b.a->embed(nops, cs.arch == AA64 ? 4 : 1);
    if (cs.code_sec == 2 && b.code.flatten() != Error::kOk) FAIL("flatten", "early flatten failed");
  }
  Section* isec = text2 ? text2 : b.code.text_section();
  for (auto& it : cs.items) {
    Site s; s.kind = it.kind; s.addr_type = it.addr_type; s.sec = isec->section_id(); s.start = isec->buffer_size(); s.is_label = false; s.imm_size = 0;
    uint64_t T = resolve_target(kTargets[it.tsel], cs.base, cs.arch);
    s.target = T;
    Error e = Error::kOk;
    if (cs.arch != AA64) {
      x86::Mem m = it.addr_type == 1 ? x86::ptr_abs(T) : it.addr_type == 2 ? x86::ptr_rel(T) : x86::ptr(T);
      switch (it.kind) {
        case I_JMP: e = b.xa.jmp(Imm(T)); break;
        case I_CALL: e = b.xa.call(Imm(T)); break;
        case I_JCC: e = b.xa.jnz(Imm(T)); break;
        case I_MOV: e = b.xa.mov(x86::ecx, m); break;
        case I_CMP8: m.set_size(1); e = b.xa.cmp(m, 0x55); s.imm_size = 1; break;
        case I_CMP32: m.set_size(4); e = b.xa.cmp(m, 0x11223344); s.imm_size = 4; break;
        case I_EMBED4: e = b.a->embed_label(b.L, 4); s.is_label = true; break;
        case I_EMBED8: e = b.a->embed_label(b.L, 8); s.is_label = true; break;
        case I_MEM_LABEL: e = b.xa.mov(x86::ecx, x86::ptr(b.L, 8)); s.is_label = true; break;
        case I_LEA_LABEL: e = cs.arch == AX64 ? b.xa.lea(x86::rcx, x86::ptr(b.L, 8)) : b.xa.lea(x86::ecx, x86::ptr(b.L, 8)); s.is_label = true; break;
        default: FAIL("harness", "bad item for x86");
      }
    } else {
      switch (it.kind) {
        case I_B: e = b.aa.b(Imm(T)); break;
        case I_BL: e = b.aa.bl(Imm(T)); break;
        case I_ADR: e = b.aa.adr(a64::x3, Imm(T)); break;
        case I_EMBED4: e = b.a->embed_label(b.L, 4); s.is_label = true; break;
        case I_EMBED8: e = b.a->embed_label(b.L, 8); s.is_label = true; break;
        default: FAIL("harness", "bad item for a64");
      }
    }
    s.end = isec->buffer_size();
    if (e != Error::kOk) { b.emit_errors++; if (s.end != s.start) FAIL("failed-emit-appended", "%s failed but appended bytes", item_name(it.kind)); continue; }
    if (s.end == s.start) FAIL("emit-no-bytes", "%s succeeded without bytes", item_name(it.kind));
    b.sites.push_back(s);
  }
  b.a->embed(nops, cs.arch == AA64 ? 8 : 5);
  if (text2) b.a->section(b.code.text_section());
  if (cs.label_mode == 0 || cs.label_mode == 2) { if (!bind_label()) FAIL("bind", "bind failed"); }
  if (cs.extra_section) {
    // a user section ordered after the address table (same order value, higher id)
    if (b.code.new_section(Out(b.extra), ".after", SIZE_MAX, SectionFlags::kNone, 16, INT_MAX) != Error::kOk) FAIL("new_section", "new_section failed");
    b.a->section(b.extra); b.a->embed(nops, 16); b.a->section(b.code.text_section());
  }
  return true;
}

static int64_t sext(uint64_t v, int bits) { uint64_t m = 1ull << (bits - 1); v &= (bits == 64 ? ~0ull : ((1ull << bits) - 1)); return int64_t((v ^ m) - m); }

// evaluates all sites of the image; image covers [base, base+img.size())
static bool evaluate(const Case& cs, Built& b, const std::vector<uint8_t>& img, uint64_t base, int& checked) {
  bool is64 = cs.arch != AX86;
  uint64_t amask = is64 ? ~0ull : 0xFFFFFFFFull;
  for (auto& s : b.sites) {
    uint64_t secoff = b.code.section_by_id(s.sec)->offset();
    if (secoff + s.end > img.size()) FAIL("site-outside-image", "site beyond image");
    const uint8_t* p = img.data() + secoff + s.start; size_t n = s.end - s.start;
    uint64_t site = base + secoff + s.start;
    uint64_t target = s.is_label ? (base + b.code.section_by_id(b.label_sec)->offset() + b.label_off + ((s.kind == I_MEM_LABEL || s.kind == I_LEA_LABEL) ? 8 : 0)) : s.target;
    target &= amask;
    uint64_t got; const char* how = "";
    if (cs.arch == AA64) {
      if (s.kind == I_EMBED4 || s.kind == I_EMBED8) { uint64_t v = 0; memcpy(&v, p, n); got = v; if (n == 4 && target > 0xFFFFFFFFull) FAIL("abs-truncated", "embed4 of address %llx succeeded", (unsigned long long)target); how = "data"; }
      else {
        if (n != 4) FAIL("encoding", "a64 item is not one word");
        uint32_t w; memcpy(&w, p, 4);
        if (s.kind == I_B || s.kind == I_BL) { if ((w & 0x7C000000u) != 0x14000000u || ((w >> 31) != (s.kind == I_BL))) FAIL("encoding", "unexpected b/bl word %08x", w); got = site + uint64_t(sext(w & 0x3FFFFFF, 26) * 4); how = "imm26"; }
        else { if ((w & 0x9F00001Fu) != 0x10000003u) FAIL("encoding", "unexpected adr word %08x", w); got = site + uint64_t(sext((((w >> 5) & 0x7FFFF) << 2) | ((w >> 29) & 3), 21)); how = "adr"; }
      }
    } else if (s.kind == I_EMBED4 || s.kind == I_EMBED8) {
      uint64_t v = 0; memcpy(&v, p, n); got = v; how = "data";
      if (n == 4 && is64 && target > 0xFFFFFFFFull) FAIL("abs-truncated", "embed4 of address %llx succeeded", (unsigned long long)target);
    } else {
      size_t i = 0; bool a32 = false;
      if (p[i] == 0x67) { a32 = true; i++; }
      if (is64 && (p[i] & 0xF0) == 0x40) i++;
      uint64_t end = site + n;
      auto rd32 = [&](size_t at) { uint32_t v; memcpy(&v, p + at, 4); return v; };
      if (s.kind == I_JMP || s.kind == I_CALL) {
        uint8_t direct = s.kind == I_JMP ? 0xE9 : 0xE8, modrm = s.kind == I_JMP ? 0x25 : 0x15;
        if (p[i] == direct && n == i + 5) { got = end + uint64_t(sext(rd32(i + 1), 32)); how = "rel32"; }
        else if (s.kind == I_JMP && p[i] == 0xEB && n == i + 2) { got = end + uint64_t(sext(p[i + 1], 8)); how = "rel8"; }
        else if (p[i] == 0xFF && p[i + 1] == modrm && n == i + 6 && is64) {
          uint64_t slot = end + uint64_t(sext(rd32(i + 2), 32));
          if (slot < base || slot + 8 > base + img.size()) FAIL("slot-outside-image", "%s routed through an address-table slot at %llx outside the image [%llx,+%zu)", item_name(s.kind), (unsigned long long)slot, (unsigned long long)base, img.size());
          memcpy(&got, img.data() + (slot - base), 8); how = "address-table slot";
        } else FAIL("encoding", "unexpected %s encoding %s", item_name(s.kind), vh::hex(p, n).c_str());
      } else if (s.kind == I_JCC) {
        if (p[i] == 0x0F && p[i + 1] == 0x85 && n == i + 6) { got = end + uint64_t(sext(rd32(i + 2), 32)); how = "rel32"; }
        else if (p[i] == 0x75 && n == i + 2) { got = end + uint64_t(sext(p[i + 1], 8)); how = "rel8"; }
        else FAIL("encoding", "unexpected jnz encoding %s", vh::hex(p, n).c_str());
      } else {
        // memory operand: opcode, modrm, [sib], disp32, [imm]
        uint8_t op = p[i], modrm = p[i + 1];
        uint8_t want_op = s.kind == I_MOV || s.kind == I_MEM_LABEL ? 0x8B : s.kind == I_LEA_LABEL ? 0x8D : s.kind == I_CMP8 ? 0x80 : 0x81;
        if (s.kind == I_MOV && op == 0xA1) FAIL("encoding", "unexpected moffs form");
        if (op != want_op) FAIL("encoding", "unexpected opcode in %s", vh::hex(p, n).c_str());
        if ((modrm & 0xC7) == 0x05) {
          if (n != i + 6 + s.imm_size) FAIL("encoding", "unexpected length %s", vh::hex(p, n).c_str());
          if (is64) { got = end + uint64_t(sext(rd32(i + 2), 32)); if (a32) got &= 0xFFFFFFFFull; how = "rip+disp32"; }
          else { got = rd32(i + 2); how = "abs32"; }
        } else if ((modrm & 0xC7) == 0x04 && p[i + 2] == 0x25) {
          if (n != i + 7 + s.imm_size) FAIL("encoding", "unexpected length %s", vh::hex(p, n).c_str());
          got = a32 ? uint64_t(rd32(i + 3)) : uint64_t(sext(rd32(i + 3), 32)); if (!is64) got &= 0xFFFFFFFFull; how = "sib abs32";
        } else FAIL("encoding", "unexpected modrm in %s", vh::hex(p, n).c_str());
        if (s.imm_size == 1 && p[n - 1] != 0x55) FAIL("imm-damaged", "trailing imm8 damaged in %s", vh::hex(p, n).c_str());
        if (s.imm_size == 4 && rd32(n - 4) != 0x11223344u) FAIL("imm-damaged", "trailing imm32 damaged in %s", vh::hex(p, n).c_str());
      }
    }
    got &= amask;
    if (got != target) FAIL("wrong-target", "%s%s (%s) designates %llx, expected %llx (%s)", item_name(s.kind), s.is_label ? "" : (s.addr_type == 1 ? ".abs" : s.addr_type == 2 ? ".rel" : ""), how, (unsigned long long)got, (unsigned long long)target, s.is_label ? "base+section+label" : "requested absolute target");
    checked++;
  }
  return true;
}

static bool run_case(const Case& cs) {
  vh::Ctx& c = vh::ctx();
  vh::set_case("harness=c04_reloc\n" + cs.str() + "\n");
  Built b;
  if (!build(cs, b, cs.known_base ? cs.base : Globals::kNoBaseAddress)) return false;
  if (b.code.flatten() != Error::kOk) FAIL("flatten", "flatten failed");
  if (b.code.resolve_cross_section_fixups() != Error::kOk) FAIL("resolve", "resolve failed");
  size_t est = b.code.code_size();
  Error re = b.code.relocate_to_base(cs.base);
  c.n("evaluations")++;
  if (re != Error::kOk) { c.outcomes.insert("reloc-error"); c.n("reported_unreachable")++; return true; }   // reported
  size_t cs_after = b.code.code_size();
  if (cs_after > est) FAIL("size-grew", "code size grew in relocation");
  std::vector<uint8_t> img(cs_after, 0xCC);
  if (b.code.copy_flattened_data(img.data(), img.size(), CopySectionFlags::kPadSectionBuffer | CopySectionFlags::kPadTargetBuffer) != Error::kOk) FAIL("copy", "copy_flattened_data failed");
  int checked = 0;
  if (!evaluate(cs, b, img, cs.base, checked)) return false;
  c.n("sites_checked") += checked;
  c.outcomes.insert(std::string("ok") + std::to_string(checked) + "e" + std::to_string(b.emit_errors));
  if (b.emit_errors) c.n("reported_unreachable") += b.emit_errors;
  return true;
}

static void report(const Case& cs) {
  std::string w = g_why.substr(0, g_why.find_first_of(" ("));
  vh::ctx().violation(std::string("reloc:") + arch_name(cs.arch) + ":" + g_clause + ":" + w + (cs.extra_section ? ":addrtab-not-last" : ""), g_why + " :: " + cs.str(), "harness=c04_reloc\n" + cs.str() + "\n");
}

static std::vector<Item> item_alphabet(int arch) {
  std::vector<Item> v;
  if (arch == AA64) {
    for (int k : {I_B, I_BL, I_ADR}) for (int t = 0; t < kNumTargets; t++) v.push_back({k, 0, t});
    v.push_back({I_EMBED8, 0, 0}); v.push_back({I_EMBED4, 0, 0});
    return v;
  }
  for (int k : {I_JMP, I_CALL, I_JCC}) for (int t = 0; t < 8; t++) v.push_back({k, 0, t});
  for (int k : {I_JMP, I_JCC}) for (int t = kFirstNearTarget; t < kNumTargets; t++) v.push_back({k, 0, t});
  for (int k : {I_MOV, I_CMP8, I_CMP32}) for (int at = 0; at < 3; at++) for (int t = 0; t < 8; t++) v.push_back({k, at, t});
  v.push_back({I_EMBED4, 0, 0}); if (arch == AX64) v.push_back({I_EMBED8, 0, 0});
  v.push_back({I_MEM_LABEL, 0, 0}); v.push_back({I_LEA_LABEL, 0, 0});
  return v;
}

// JitRuntime::add installs exactly the relocated image and the code runs (x86-64 host)
static void jit_runtime_cases() {
  vh::Ctx& c = vh::ctx();
  for (int variant = 0; variant < 4; variant++) {
    JitRuntime rt;
    auto gen = [&](CodeHolder& code) {
      code.init(rt.environment(), rt.cpu_features());
      x86::Assembler a(&code);
      Label data = a.new_label(), fn2 = a.new_label();
      a.mov(x86::eax, x86::dword_ptr(data));            // rip-relative label load
      if (variant & 1) { a.lea(x86::rcx, x86::ptr(data)); a.add(x86::eax, x86::dword_ptr(x86::rcx, 4)); }
      if (variant & 2) { a.call(fn2); }
      a.ret();
      a.bind(fn2); a.add(x86::eax, 1000); a.ret();
      a.align(AlignMode::kData, 8);
      a.bind(data); a.embed_uint32(41); a.embed_uint32(1); a.embed_label(data, 8);
    };
    CodeHolder code; gen(code);
    int (*fn)() = nullptr;
    c.n("evaluations")++;
    std::string rp = "harness=c04_reloc\njit=" + std::to_string(variant) + "\n";
    if (rt.add(&fn, &code) != Error::kOk || !fn) { c.violation("reloc:jit:add-failed", "JitRuntime::add failed", rp); continue; }
    CodeHolder ref; gen(ref);
    ref.flatten(); ref.resolve_cross_section_fixups(); ref.relocate_to_base(uint64_t(uintptr_t(fn)));
    std::vector<uint8_t> img(ref.code_size());
    ref.copy_flattened_data(img.data(), img.size(), CopySectionFlags::kPadSectionBuffer);
    if (memcmp(img.data(), (void*)fn, img.size()) != 0) c.violation("reloc:jit:image-differs", "bytes installed by JitRuntime::add differ from the relocated image of an identical holder", rp);
    int want = 41 + ((variant & 1) ? 1 : 0) + ((variant & 2) ? 1000 : 0);
    int got = fn();
    if (got != want) c.violation("reloc:jit:wrong-result", "installed function returned " + std::to_string(got) + ", expected " + std::to_string(want), rp);
    uint64_t stored; memcpy(&stored, (uint8_t*)fn + img.size() - 8, 8);
    if (stored != uint64_t(uintptr_t(fn)) + img.size() - 16) c.violation("reloc:jit:embedded-address", "embedded label address in installed code is wrong", rp);
    rt.release(fn);
    c.outcomes.insert("jit" + std::to_string(variant));
  }
}


// JitRuntime::add with an address table that is NOT the last section: the span the allocator keeps for the function must cover
// the whole relocated image (the size reduction for unused address-table slots applies only when the table is last), the
// installed bytes equal the relocated image of an identical holder, and they survive the next add().
static void jit_addrtab_cases() {
  vh::Ctx& c = vh::ctx();
  static const int kTail[] = {4, 8, 16, 40, 52, 56, 60, 64, 100, 4000};
  for (int rtopt = 0; rtopt < 3; rtopt++)   // 0 default runtime, 1 dual mapping (rx != rw), 2 fill pattern (allocator memory is not zero)
  for (int near_target = 0; near_target < 2; near_target++) for (int with_tail = 0; with_tail < 2; with_tail++) for (int tail : kTail) for (int ncalls = 1; ncalls <= 2; ncalls++) {
    if (!with_tail && tail != 4) continue;
    if (rtopt && tail != 4 && tail != 60 && tail != 100) continue;
    JitAllocator::CreateParams params;
    params.options = rtopt == 1 ? JitAllocatorOptions::kUseDualMapping : rtopt == 2 ? JitAllocatorOptions::kFillUnusedMemory : JitAllocatorOptions::kNone;
    JitRuntime rt(&params);
    bool with_bss = true;
    std::string rp = "harness=c04_reloc\njit=100\n";   // replay runs the whole (small) family
    char desc[160]; snprintf(desc, sizeof desc, "runtime=%s near=%d tail_section=%d tail=%d calls=%d", rtopt == 1 ? "dual-mapping" : rtopt == 2 ? "fill" : "default", near_target, with_tail, tail, ncalls);
    int (*helper)() = nullptr;
    { CodeHolder h; h.init(rt.environment(), rt.cpu_features()); x86::Assembler a(&h); a.mov(x86::eax, 7); a.ret(); if (rt.add(&helper, &h) != Error::kOk) { c.violation("reloc:jit:add-failed", "JitRuntime::add of the helper failed", rp); continue; } }
    uint64_t target = near_target ? uint64_t(uintptr_t(helper)) : 0x00007F0012345000ull;
    auto gen = [&](CodeHolder& code) -> Error {
      code.init(rt.environment(), rt.cpu_features());
      x86::Assembler a(&code);
      Label tl = a.new_label(), skip = a.new_label();
      a.xor_(x86::eax, x86::eax);
      if (!near_target) a.jmp(skip);                       // the far target is never called
      for (int i = 0; i < ncalls; i++) a.call(Imm(target)); // absolute target: reserves an address-table slot
      a.bind(skip);
      if (with_tail) a.add(x86::eax, x86::dword_ptr(tl));
      a.ret();
      if (with_tail) {
        Section* t = nullptr;
        ASMJIT_PROPAGATE(code.new_section(Out(t), ".tail", SIZE_MAX, SectionFlags::kNone, 4, INT_MAX));   // same order as .addrtab, created later: sorts behind it
        a.section(t);
        a.bind(tl); a.embed_uint32(1000);
        for (int i = 4; i + 4 <= tail; i += 4) a.embed_uint32(0xA5000000u + uint32_t(i));
        a.align(AlignMode::kData, 8);
        a.embed_label(tl, 8);                               // base-dependent absolute address: must be the address in the executable view
      }
      if (with_bss) {
        Section* b = nullptr;
        ASMJIT_PROPAGATE(code.new_section(Out(b), ".bss", SIZE_MAX, SectionFlags::kNone, 8, 1));   // no data, virtual size only: must read as zeros
        b->set_virtual_size(40);
      }
      return Error::kOk;
    };
    CodeHolder code; if (gen(code) != Error::kOk) { c.violation("reloc:jit:harness", "generator failed", rp); continue; }
    int (*fn)() = nullptr;
    c.n("evaluations")++;
    if (rt.add(&fn, &code) != Error::kOk || !fn) { c.violation("reloc:jit:add-failed", std::string("JitRuntime::add failed: ") + desc, rp); continue; }
    CodeHolder ref; gen(ref);
    ref.flatten(); ref.resolve_cross_section_fixups(); ref.relocate_to_base(uint64_t(uintptr_t(fn)));
    std::vector<uint8_t> img(ref.code_size());
    ref.copy_flattened_data(img.data(), img.size(), CopySectionFlags::kPadSectionBuffer);
    // every section must lie inside the span
    size_t image_end = 0;
    for (Section* s : ref.sections()) image_end = std::max<size_t>(image_end, size_t(s->offset()) + size_t(s->real_size()));
    JitAllocator::Span span;
    if (rt.allocator().query(Out(span), (void*)fn) != Error::kOk) { c.violation("reloc:jit:query", std::string("the allocator does not know the installed function: ") + desc, rp); continue; }
    if (span.size() < image_end)
      c.violation("reloc:jit:span-too-small", "the allocator keeps " + std::to_string(span.size()) + " bytes for a function whose last section ends at " + std::to_string(image_end) + " (" + desc + ")", rp);
    if (memcmp(img.data(), (void*)fn, image_end) != 0) c.violation("reloc:jit:image-differs", std::string("bytes installed by JitRuntime::add differ from the relocated image of an identical holder: ") + desc, rp);
    // the next functions must not land inside the image
    std::vector<uint8_t> before((uint8_t*)fn, (uint8_t*)fn + image_end);
    void* more[3] = {nullptr, nullptr, nullptr};
    for (int k = 0; k < 3; k++) { CodeHolder g; g.init(rt.environment(), rt.cpu_features()); x86::Assembler a(&g); for (int i = 0; i < 40 + 30 * k; i++) a.mov(x86::ecx, 0xEEEEEEEE); a.ret(); (void)rt.add(&more[k], &g); }
    if (memcmp(before.data(), (void*)fn, image_end) != 0) c.violation("reloc:jit:overwritten", std::string("a later JitRuntime::add overwrote bytes of the installed function: ") + desc, rp);
    int want = (near_target ? 7 : 0) + (with_tail ? 1000 : 0);
    int got = fn();
    if (got != want) c.violation("reloc:jit:wrong-result", "installed function returned " + std::to_string(got) + ", expected " + std::to_string(want) + " (" + desc + ")", rp);
    c.outcomes.insert(std::string("jit-at") + (near_target ? "n" : "f") + (with_tail ? "t" : "-") + std::to_string(rtopt));
  }
}

static Case parse_case(const std::string& t) {
  Case cs; cs.arch = AX64; cs.base = 0x10000; cs.known_base = false; cs.extra_section = false;
  for (auto& line : vh::split(t, '\n')) {
    if (line.rfind("arch=", 0) != 0) continue;
    char an[8]; unsigned long long base; int known, extra; char items[256] = {0};
    int lm = 0, csec = 0;
    if (line.find(" csec=") != std::string::npos) sscanf(line.c_str(), "arch=%7s base=%llu known=%d extra=%d label=%d csec=%d items=%255s", an, &base, &known, &extra, &lm, &csec, items);
    else sscanf(line.c_str(), "arch=%7s base=%llu known=%d extra=%d label=%d items=%255s", an, &base, &known, &extra, &lm, items);
    cs.label_mode = lm; cs.code_sec = csec;
    cs.arch = !strcmp(an, "x64") ? AX64 : !strcmp(an, "x86") ? AX86 : AA64; cs.base = base; cs.known_base = known; cs.extra_section = extra;
    for (auto& x : vh::split(items, ',')) if (!x.empty()) { Item it; if (sscanf(x.c_str(), "%d:%d:%d", &it.kind, &it.addr_type, &it.tsel) == 3) cs.items.push_back(it); }
  }
  return cs;
}

int main(int argc, char** argv) {
  vh::parse_args(argc, argv);
  vh::Ctx& c = vh::ctx();
  if (c.replaying()) {
    if (c.replay_text.find("jit=100") != std::string::npos) { jit_addrtab_cases(); for (auto& v : c.violations) v.replay = c.replay_text; return vh::finish(); }
    if (c.replay_text.find("jit=") != std::string::npos) { jit_runtime_cases(); for (auto& v : c.violations) v.replay = c.replay_text; return vh::finish(); }
    Case cs = parse_case(c.replay_text);
    if (!run_case(cs)) report(cs);
    return vh::finish();
  }
  if (c.shard_i == 0) jit_runtime_cases();
  if (c.shard_i == 1 % c.shard_n) jit_addrtab_cases();
  long long idx = 0;
  int max_items = c.thorough() ? 2 : 2;
  for (int arch = 0; arch < 3; arch++) {
    std::vector<Item> al = item_alphabet(arch);
    for (uint64_t base : kBases) {
      if (arch == AX86 && base > 0xFFFFFFFFull) continue;
      for (int known = 0; known < 2; known++) for (int extra = 0; extra < 2; extra++) for (int csec = 0; csec < 3; csec++) {
        // all single items; pairs: quick = first item from a reduced set, thorough = all pairs
        for (size_t i = 0; i < al.size(); i++) {
          for (int lm = 0; lm < 4; lm++) if (!(csec == 2 && !(lm & 1))) if (c.mine(idx++)) { Case cs{arch, base, (bool)known, {al[i]}, (bool)extra}; cs.label_mode = lm; cs.code_sec = csec; if (!run_case(cs)) report(cs); else c.sample(cs.str(), 8); }
          if (max_items < 2) continue;
          for (size_t j = 0; j < al.size(); j++) {
            if (c.mine(idx++)) {
              if (c.tick(256)) goto done;
              Case cs{arch, base, (bool)known, {al[i], al[j]}, (bool)extra}; cs.label_mode = int((i + 3 * j) & 3); cs.code_sec = csec; if (csec == 2) cs.label_mode |= 1;   // (the label is bound before the layout is fixed)
              if (!run_case(cs)) report(cs);
            }
            if (!c.thorough()) continue;
            // thorough: triples where the third item runs over every 5th symbol
            for (size_t k = (i + j) % 5; k < al.size(); k += 5) {
              if (!c.mine(idx++)) continue;
              if (c.tick(256)) goto done;
              Case cs{arch, base, (bool)known, {al[i], al[j], al[k]}, (bool)extra}; cs.code_sec = csec; if (csec == 2) cs.label_mode = 1;
              if (!run_case(cs)) report(cs);
            }
          }
        }
      }
    }
  }
done:
  c.n("distinct_nontrivial") = c.n("sites_checked");
  c.n("states") = c.n("evaluations"); c.n("transitions") = c.n("evaluations"); c.n("traces") = c.n("evaluations");
  c.strs["bound"] = "programs of 1 and 2 items (all pairs)" + std::string(c.thorough() ? " and 3 items (third item every 5th symbol)" : "") + " x 8 bases x {known base, relocate} x {addrtab last, user section after addrtab} x {items in .text, items in a second code section, the same with the layout fixed before assembling into it} x 3 archs";
  c.strs["rule"] = "items = jmp/call/jnz to absolute targets, mov/cmp8/cmp32 with absolute memory operands under default/abs/rel addressing, embed_label 4/8, label memory operands, "
                   "a64 b/bl/adr to absolute targets; targets near, just inside/outside +-2 GiB (+-128 MiB, +-1 MiB for a64), fixed low/high addresses; each site of the relocated "
                   "image is decoded and evaluated like the CPU would, address-table slots are read from the copied image; an error from emit or relocate counts as 'reported'";
  c.assumptions.push_back("x86-32 and AArch64 images are evaluated by harness decoders, only x86-64 JitRuntime code is executed; refusing a reachable target is not judged here");
  return vh::finish();
}
