// C03 - every label reference resolves to the bound position (+C04 core: relocation to a base).
// Enumerates ALL op histories up to a depth over {ref(kind,label), bind(label), pad(n), section(s)} on a real
// CodeHolder + Assembler (x86-32, x86-64, AArch64), then finalises (flatten, resolve_cross_section_fixups,
// relocate_to_base, copy_flattened_data) and checks every reference site of the image with harness-owned
// field extractors written from the ISA manuals.  A second phase enumerates the boundary family of every format.
#include "xplor.h"
#include <asmjit/core.h>
#include <asmjit/x86.h>
#include <asmjit/a64.h>
#include <algorithm>

using namespace asmjit;

enum ArchSel { AX64 = 0, AX86 = 1, AA64 = 2 };
static const char* arch_name(int a) { return a == AX64 ? "x64" : a == AX86 ? "x86" : "a64"; }

// reference kinds
enum Kind {
  // x86
  K_JMP, K_JMP_SHORT, K_JMP_LONG, K_JCC, K_JCC_SHORT, K_CALL, K_JECXZ, K_LOOP, K_MEM, K_MEM_IMM8, K_MEM_IMM32, K_LEA,
  // a64
  K_B, K_BL, K_BCOND, K_CBZ, K_TBZ, K_ADR, K_ADRP, K_LDR_LIT,
  // both
  K_EMBED1, K_EMBED2, K_EMBED4, K_EMBED8, K_DELTA1, K_DELTA2, K_DELTA4, K_DELTA8,
  K_COUNT
};
static const char* kind_name(int k) {
  static const char* n[] = {"jmp", "jmp.short", "jmp.long", "jnz", "jnz.short", "call", "jecxz", "loop", "mov[L+a]", "cmp8[L+a]", "cmp32[L+a]", "lea[L+a]",
                            "b", "bl", "b.ne", "cbz", "tbz", "adr", "adrp", "ldr.lit", "embed1", "embed2", "embed4", "embed8", "delta1", "delta2", "delta4", "delta8"};
  return n[k];
}
static std::vector<int> kinds_of(int arch) {
  if (arch == AA64) return {K_B, K_BCOND, K_CBZ, K_TBZ, K_ADR, K_ADRP, K_LDR_LIT, K_BL, K_EMBED8, K_EMBED4, K_DELTA4, K_DELTA1, K_EMBED2, K_DELTA8, K_DELTA2, K_EMBED1};
  std::vector<int> v = {K_JMP, K_JCC, K_CALL, K_JECXZ, K_MEM, K_MEM_IMM8, K_MEM_IMM32, K_JMP_SHORT, K_JMP_LONG, K_JCC_SHORT, K_LOOP, K_LEA,
                        K_EMBED4, K_DELTA4, K_DELTA1, K_EMBED1, K_EMBED2, K_DELTA2, K_DELTA8};
  if (arch == AX64) v.push_back(K_EMBED8);
  return v;
}

struct Ref {
  int kind, label, label2; int64_t addend;
  uint32_t sec; size_t start, end;           // bytes [start,end) of the section at emission time
  size_t foff; int fsize;                    // field location (x86) relative to start; a64: whole word
  bool pcrel; bool is_delta = false;
  std::vector<uint8_t> snap;
  bool emitted_unbound;                      // label was not bound in this section when the reference was emitted
};

struct LabelState { bool bound = false; uint32_t sec = 0; uint64_t off = 0; };

struct Prog {
  int arch;
  CodeHolder code;
  x86::Assembler xa; a64::Assembler aa;
  BaseAssembler* a;
  Label L[2];
  LabelState ls[2];
  Section* sec2 = nullptr;
  std::vector<Ref> refs;
  std::string why, clause;
  bool any_error = false;      // some call reported an error (a reference that cannot be represented was reported)
  int errors = 0;
  uint64_t far_off = 0;        // != 0: the user lays the sections out (Section::set_offset): .text at 0, .sec2 at far_off; no flatten()

  Prog(int arch_) : arch(arch_) {
    Environment env(arch == AX64 ? Arch::kX64 : arch == AX86 ? Arch::kX86 : Arch::kAArch64);
    code.init(env);
    if (arch == AA64) { code.attach(&aa); a = &aa; } else { code.attach(&xa); a = &xa; }
    L[0] = a->new_label(); L[1] = a->new_label();
    code.new_section(Out(sec2), ".sec2", SIZE_MAX, SectionFlags::kNone, 8, 1);
  }
  bool fail(const char* c, const std::string& w) { clause = c; why = w; return false; }
  Section* cur() { return a->current_section(); }
  size_t size() { return cur()->buffer_size(); }

  bool do_pad(size_t n) {
    static std::vector<uint8_t> zeros;
    if (zeros.size() < n) zeros.assign(n, 0);
    for (size_t i = 0; i < std::min<size_t>(n, 64); i++) zeros[i] = 0x90;
    size_t before = size();
    Error e = a->embed(zeros.data(), n);
    for (size_t i = 0; i < std::min<size_t>(n, 64); i++) zeros[i] = 0;
    if (e != Error::kOk) return fail("pad", "embed failed");
    if (size() != before + n) return fail("pad-size", "embed appended a different number of bytes");
    return true;
  }
  bool do_bind(int l) {
    if (ls[l].bound) { Error e = a->bind(L[l]); if (e == Error::kOk) return fail("rebind-accepted", "binding an already bound label succeeded"); return true; }
    uint64_t off = size();
    Error e = a->bind(L[l]);
    // bind may report kInvalidDisplacement when a pending reference cannot be represented; the label is bound regardless
    if (e != Error::kOk) { any_error = true; errors++; }
    if (!code.is_label_bound(L[l])) return fail("bind-not-bound", "label not bound after bind()");
    ls[l].bound = true; ls[l].sec = cur()->section_id(); ls[l].off = off;
    if (code.label_offset(L[l]) != off) return fail("bind-offset", "label_offset() differs from the position where the label was bound");
    if (size() != off) return fail("bind-bytes", "bind appended bytes");
    return true;
  }
  bool do_align(uint32_t n) {
    size_t before = size();
    Error e = a->align(AlignMode::kCode, n);
    if (e != Error::kOk) { any_error = true; errors++; if (size() != before) return fail("failed-align-appended", "align failed but appended bytes"); return true; }   // e.g. AArch64 code alignment from an odd offset
    if (size() % n) return fail("align-size", "section size not aligned after align()");
    if (size() - before >= n) return fail("align-size", "align() appended a whole alignment unit or more");
    return true;
  }
  bool do_section(int s) { Error e = a->section(s == 0 ? code.text_section() : sec2); if (e != Error::kOk) return fail("section", "section switch failed"); return true; }

  // emits one reference; returns false only on a violation
  bool do_ref(int kind, int l, int64_t addend) {
    Ref r; r.kind = kind; r.label = l; r.label2 = 1 - l; r.addend = addend; r.sec = cur()->section_id(); r.start = size(); r.pcrel = true; r.foff = 0; r.fsize = 4;
    r.emitted_unbound = !(ls[l].bound && ls[l].sec == r.sec);
    Error e = Error::kOk;
    bool is64 = arch == AX64;
    if (arch != AA64) {
      x86::Mem m = x86::ptr(L[l], int32_t(addend));
      switch (kind) {
        case K_JMP: e = xa.jmp(L[l]); break;
        case K_JMP_SHORT: e = xa.short_().jmp(L[l]); break;
        case K_JMP_LONG: e = xa.long_().jmp(L[l]); break;
        case K_JCC: e = xa.jnz(L[l]); break;
        case K_JCC_SHORT: e = xa.short_().jnz(L[l]); break;
        case K_CALL: e = xa.call(L[l]); break;
        case K_JECXZ: e = xa.jecxz(x86::ecx, L[l]); break;
        case K_LOOP: e = is64 ? xa.loop(x86::rcx, L[l]) : xa.loop(x86::ecx, L[l]); break;
        case K_MEM: e = xa.mov(x86::ecx, m); break;
        case K_MEM_IMM8: m.set_size(1); e = xa.cmp(m, 0x55); break;
        case K_MEM_IMM32: m.set_size(4); e = xa.cmp(m, 0x11223344); break;
        case K_LEA: e = is64 ? xa.lea(x86::rcx, m) : xa.lea(x86::ecx, m); break;
        default: break;
      }
    } else {
      switch (kind) {
        case K_B: e = aa.b(L[l]); break;
        case K_BL: e = aa.bl(L[l]); break;
        case K_BCOND: e = aa.b_ne(L[l]); break;
        case K_CBZ: e = aa.cbz(a64::x3, L[l]); break;
        case K_TBZ: e = aa.tbz(a64::x3, 5, L[l]); break;
        case K_ADR: e = aa.adr(a64::x3, L[l]); break;
        case K_ADRP: e = aa.adrp(a64::x3, L[l]); break;
        case K_LDR_LIT: e = aa.ldr(a64::x3, a64::ptr(L[l], int32_t(addend))); break;
        default: break;
      }
    }
    if (kind >= K_EMBED1 && kind <= K_EMBED8) { r.fsize = 1 << (kind - K_EMBED1); r.pcrel = false; e = a->embed_label(L[l], r.fsize); }
    if (kind >= K_DELTA1 && kind <= K_DELTA8) { r.fsize = 1 << (kind - K_DELTA1); r.pcrel = false; r.is_delta = true; e = a->embed_label_delta(L[l], L[1 - l], r.fsize); }
    r.end = size();
    if (e != Error::kOk) {
      any_error = true; errors++;
      if (r.end != r.start) return fail("failed-ref-appended", std::string(kind_name(kind)) + " failed but appended bytes");
      return true;   // reported: nothing to check later
    }
    if (r.end == r.start) return fail("ref-no-bytes", std::string(kind_name(kind)) + " succeeded without appending bytes");
    const uint8_t* p = cur()->data() + r.start; size_t n = r.end - r.start;
    r.snap.assign(p, p + n);
    // locate the field with a harness-owned mini decoder (the instruction is known)
    if (arch != AA64 && kind < K_B) {
      size_t i = 0;
      if (p[i] == 0x67) i++;                                   // address-size prefix (jecxz in 64-bit mode)
      if (is64 && (p[i] & 0xF0) == 0x40) i++;                  // REX
      auto rel8 = [&](size_t at) { r.foff = at; r.fsize = 1; };
      auto rel32 = [&](size_t at) { r.foff = at; r.fsize = 4; };
      switch (kind) {
        case K_JMP: case K_JMP_SHORT: case K_JMP_LONG:
          if (p[i] == 0xEB && n == i + 2) rel8(i + 1); else if (p[i] == 0xE9 && n == i + 5) rel32(i + 1); else return fail("encoding", "unexpected jmp encoding " + vh::hex(p, n));
          if (kind == K_JMP_SHORT && p[i] != 0xEB) return fail("encoding", "short jmp not encoded as EB");
          if (kind == K_JMP_LONG && p[i] != 0xE9) return fail("encoding", "long jmp not encoded as E9");
          break;
        case K_JCC: case K_JCC_SHORT:
          if (p[i] == 0x75 && n == i + 2) rel8(i + 1); else if (p[i] == 0x0F && p[i + 1] == 0x85 && n == i + 6) rel32(i + 2); else return fail("encoding", "unexpected jnz encoding " + vh::hex(p, n));
          if (kind == K_JCC_SHORT && p[i] != 0x75) return fail("encoding", "short jnz not encoded as 75");
          break;
        case K_CALL: if (p[i] == 0xE8 && n == i + 5) rel32(i + 1); else return fail("encoding", "unexpected call encoding " + vh::hex(p, n)); break;
        case K_JECXZ: if (p[i] == 0xE3 && n == i + 2) rel8(i + 1); else return fail("encoding", "unexpected jecxz encoding " + vh::hex(p, n)); break;
        case K_LOOP: if (p[i] == 0xE2 && n == i + 2) rel8(i + 1); else return fail("encoding", "unexpected loop encoding " + vh::hex(p, n)); break;
        case K_MEM: if (p[i] == 0x8B && p[i + 1] == 0x0D && n == i + 6) rel32(i + 2); else return fail("encoding", "unexpected mov ecx,[L] encoding " + vh::hex(p, n)); break;
        case K_MEM_IMM8: if (p[i] == 0x80 && p[i + 1] == 0x3D && n == i + 7 && p[i + 6] == 0x55) rel32(i + 2); else return fail("encoding", "unexpected cmp byte [L],imm encoding " + vh::hex(p, n)); break;
        case K_MEM_IMM32: if (p[i] == 0x81 && p[i + 1] == 0x3D && n == i + 10) rel32(i + 2); else return fail("encoding", "unexpected cmp dword [L],imm encoding " + vh::hex(p, n)); break;
        case K_LEA: if (p[i] == 0x8D && p[i + 1] == 0x0D && n == i + 6) rel32(i + 2); else return fail("encoding", "unexpected lea encoding " + vh::hex(p, n)); break;
      }
      // 32-bit mode: a label memory operand is an absolute disp32, not rip-relative
      if (!is64 && (kind == K_MEM || kind == K_MEM_IMM8 || kind == K_MEM_IMM32 || kind == K_LEA)) r.pcrel = false;
    } else if (arch == AA64 && kind >= K_B && kind <= K_LDR_LIT) {
      if (n != 4) return fail("encoding", "a64 instruction is not 4 bytes");
    } else {
      if (n != (size_t)r.fsize) return fail("embed-size", "embedded label data has the wrong size");
    }
    refs.push_back(r);
    return true;
  }

  static int64_t sext(uint64_t v, int bits) { uint64_t m = 1ull << (bits - 1); v &= (bits == 64 ? ~0ull : ((1ull << bits) - 1)); return int64_t((v ^ m) - m); }

  // a64 field description: returns byte displacement decoded from word, and mask of the field bits
  static bool a64_decode(int kind, uint32_t w, int64_t& disp, uint32_t& mask, bool& page) {
    page = false;
    switch (kind) {
      case K_B: case K_BL: mask = 0x03FFFFFFu; disp = sext(w & mask, 26) * 4; return true;
      case K_BCOND: case K_CBZ: case K_LDR_LIT: mask = 0x00FFFFE0u; disp = sext((w >> 5) & 0x7FFFF, 19) * 4; return true;
      case K_TBZ: mask = 0x0007FFE0u; disp = sext((w >> 5) & 0x3FFF, 14) * 4; return true;
      case K_ADR: case K_ADRP: mask = 0x60FFFFE0u; disp = sext((((w >> 5) & 0x7FFFF) << 2) | ((w >> 29) & 3), 21); page = kind == K_ADRP; return true;
    }
    return false;
  }

  // finalise and check every reference
  bool finish(uint64_t base, std::set<std::string>* outcomes) {
    size_t pending_model = 0;
    bool far = far_off != 0;
    if (far) { code.text_section()->set_offset(0); sec2->set_offset(far_off); }
    else if (code.flatten() != Error::kOk) return fail("flatten", "flatten failed");
    Error re = code.resolve_cross_section_fixups();
    if (re != Error::kOk) { any_error = true; errors++; }
    Error rb = code.relocate_to_base(base);
    bool reloc_failed = rb != Error::kOk;
    if (reloc_failed) { any_error = true; errors++; }
    size_t cs = far ? 0 : code.code_size();
    std::vector<uint8_t> img(cs + 16, 0xCC);
    if (!far && code.copy_flattened_data(img.data(), cs, CopySectionFlags::kPadSectionBuffer) != Error::kOk) return fail("copy", "copy_flattened_data failed");
    auto sec_off = [&](uint32_t id) { return code.section_by_id(id)->offset(); };
    int checked = 0, unresolved_ok = 0;
    for (auto& r : refs) {
      const LabelState& l = ls[r.label];
      bool both_bound = l.bound && (!r.is_delta || ls[r.label2].bound);
      if (!both_bound) { if (!r.is_delta) pending_model++; else if (!reloc_failed) return fail("delta-unbound-accepted", "relocation succeeded although a label of a label-delta is unbound"); continue; }
      uint64_t target = base + sec_off(l.sec) + l.off + uint64_t(r.addend);
      uint64_t site = base + sec_off(r.sec) + r.start;
      // user layout: the image would span gigabytes, the patched bytes are read from the section buffers instead
      const uint8_t* p = far ? code.section_by_id(r.sec)->data() + r.start : img.data() + sec_off(r.sec) + r.start; size_t n = r.end - r.start;
      if (r.is_delta) {
        int64_t delta = int64_t((sec_off(l.sec) + l.off) - (sec_off(ls[r.label2].sec) + ls[r.label2].off));
        bool fits_s = r.fsize == 8 || (delta >= -(1ll << (8 * r.fsize - 1)) && delta < (1ll << (8 * r.fsize - 1)));
        bool fits_u = r.fsize == 8 || (delta >= 0 && delta < (1ll << (8 * r.fsize)));
        if (reloc_failed) { if (fits_s || fits_u) { /* another reference may have failed relocation */ } continue; }
        uint64_t v = 0; memcpy(&v, p, r.fsize);
        if (!fits_s && !fits_u) { if (!any_error) return fail("delta-truncated", std::string(kind_name(r.kind)) + ": delta " + std::to_string(delta) + " does not fit " + std::to_string(r.fsize) + " byte(s) but no error was reported (stored " + std::to_string(v) + ")"); continue; }
        bool ok = (fits_s && sext(v, 8 * r.fsize) == delta) || (fits_u && int64_t(v) == delta);
        if (!ok) { if (any_error && !fits_s) continue; return fail("delta-wrong", std::string(kind_name(r.kind)) + ": stored " + std::to_string(v) + " does not recover delta " + std::to_string(delta)); }
        checked++; continue;
      }
      if (arch == AA64 && r.kind >= K_B && r.kind <= K_LDR_LIT) {
        uint32_t w, w0; memcpy(&w, p, 4); memcpy(&w0, r.snap.data(), 4);
        int64_t disp; uint32_t mask; bool page;
        a64_decode(r.kind, w, disp, mask, page);
        int64_t want = page ? int64_t((target & ~0xFFFull) - (site & ~0xFFFull)) : int64_t(target - site);
        int64_t got = page ? disp * 4096 : disp;
        bool representable; { int bits = (r.kind == K_B || r.kind == K_BL) ? 26 : r.kind == K_TBZ ? 14 : (r.kind == K_ADR || r.kind == K_ADRP) ? 21 : 19; int64_t unit = page ? 4096 : (r.kind == K_ADR ? 1 : 4);
          // adrp through a label is only supported when the byte distance itself is a multiple of the page size (the assembler works with
          // section-relative offsets); anything else must be *reported* (error or still counted), which is what the statement allows
          int64_t raw = int64_t(target - site); int64_t q = page ? raw : want;
          representable = (q % unit == 0) && (q / unit >= -(1ll << (bits - 1))) && (q / unit < (1ll << (bits - 1))); }
        if ((w & ~mask) != (w0 & ~mask)) return fail("other-bits", std::string(kind_name(r.kind)) + ": bits outside the displacement field changed (" + vh::hex(&w0, 4) + " -> " + vh::hex(&w, 4) + ")");
        if (!representable && r.emitted_unbound) { pending_model++; unresolved_ok++; continue; }   // must stay counted (checked below)
        if (got != want)
          return fail("wrong-target", std::string(kind_name(r.kind)) + (r.emitted_unbound ? " (forward/cross-section)" : " (backward)") + ": encodes displacement " + std::to_string(got) + ", bound position needs " + std::to_string(want));
        checked++; continue;
      }
      // x86 / data
      if (reloc_failed && !r.pcrel) continue;   // relocation reported an error: absolute fields are undefined
      for (size_t i = 0; i < n; i++) if ((i < r.foff || i >= r.foff + r.fsize) && p[i] != r.snap[i]) return fail("other-bits", std::string(kind_name(r.kind)) + ": byte " + std::to_string(i) + " outside the field changed");
      uint64_t v = 0; memcpy(&v, p + r.foff, r.fsize);
      if (r.pcrel) {
        int64_t want = int64_t(target - (site + n));
        int64_t got = sext(v, 8 * r.fsize);
        bool representable = want >= -(1ll << (8 * r.fsize - 1)) && want < (1ll << (8 * r.fsize - 1));
        if (!representable && r.emitted_unbound) { pending_model++; unresolved_ok++; continue; }   // must stay counted (checked below)
        if (got != want)
          return fail("wrong-target", std::string(kind_name(r.kind)) + (r.emitted_unbound ? " (forward/cross-section)" : " (backward)") + ": encodes displacement " + std::to_string(got) + ", bound position needs " + std::to_string(want));
      } else {
        uint64_t want = r.fsize == 8 ? target : (target & ((1ull << (8 * r.fsize)) - 1));
        bool fits = r.fsize == 8 || target < (1ull << (8 * r.fsize)) || arch == AX86;
        if (!fits) return fail("abs-truncated", std::string(kind_name(r.kind)) + ": address " + std::to_string(target) + " does not fit " + std::to_string(r.fsize) + " bytes but relocation reported no error");
        if (v != want) return fail("wrong-address", std::string(kind_name(r.kind)) + ": stores " + std::to_string(v) + ", bound position is " + std::to_string(want));
      }
      checked++;
    }
    size_t cnt = code.unresolved_fixup_count();
    if ((cnt == 0) != (pending_model == 0)) return fail("unresolved-count", "unresolved_fixup_count()=" + std::to_string(cnt) + " but the model has " + std::to_string(pending_model) + " unresolved reference(s)");
    if (outcomes) outcomes->insert(std::to_string(checked > 3 ? 3 : checked) + "/" + std::to_string(pending_model > 2 ? 2 : pending_model) + "/" + std::to_string(errors > 2 ? 2 : errors));
    vh::ctx().n("references_checked") += checked;
    vh::ctx().n("references_left_unresolved_and_reported") += unresolved_ok;
    return true;
  }
};

// ---- op alphabet for histories ---------------------------------------------------------------------------
struct OpDef { int type; int a, b; };   // type 0 ref(kind a, label b), 1 bind(a), 2 pad(a), 3 section(a), 4 align(a), 5 layout(far index a)
// section offsets of the user-layout family: both sides of 2^15, 2^20, 2^27 (AArch64 field limits), 2^31, 2^32 (rel32 / adrp / 32-bit fields), 2^33
static std::vector<uint64_t> far_offsets() {
  std::vector<uint64_t> v;
  for (int sh : {15, 20, 27, 31, 32, 33}) for (int d : {-4096, -16, -8, -4, 0, 4, 8, 16, 4096}) v.push_back((1ull << sh) + uint64_t(int64_t(d)));
  return v;
}
static std::vector<OpDef> alphabet(int arch, bool thorough) {
  std::vector<OpDef> v;
  std::vector<int> ks = kinds_of(arch);
  size_t nk = ks.size();
  for (size_t i = 0; i < nk; i++) { v.push_back({0, ks[i], 0}); if (i < 5 || thorough) v.push_back({0, ks[i], 1}); }
  v.push_back({1, 0, 0}); v.push_back({1, 1, 0});
  v.push_back({2, arch == AA64 ? 4 : 1, 0}); v.push_back({2, arch == AA64 ? 128 : 126, 0}); v.push_back({2, arch == AA64 ? 32768 : 130, 0}); v.push_back({2, 70000, 0});
  v.push_back({3, 0, 0}); v.push_back({3, 1, 0});
  v.push_back({4, 16, 0});
  return v;
}
static std::string op_str(const OpDef& o) {
  char b[64];
  if (o.type == 0) snprintf(b, sizeof b, "ref(%s,L%d)", kind_name(o.a), o.b); else if (o.type == 1) snprintf(b, sizeof b, "bind(L%d)", o.a);
  else if (o.type == 2) snprintf(b, sizeof b, "pad(%d)", o.a); else if (o.type == 3) snprintf(b, sizeof b, "section(%d)", o.a); else if (o.type == 4) snprintf(b, sizeof b, "align(%d)", o.a);
  else snprintf(b, sizeof b, "layout(.sec2@%#llx)", (unsigned long long)far_offsets()[o.a]);
  return b;
}
static bool run_ops(Prog& p, const std::vector<OpDef>& ops) {
  for (auto& o : ops) {
    if (o.type == 5) { p.far_off = far_offsets()[o.a]; continue; }
    bool ok = o.type == 0 ? p.do_ref(o.a, o.b, (o.a == K_MEM || o.a == K_LEA || o.a == K_MEM_IMM8 || o.a == K_LDR_LIT) ? 8 : 0) : o.type == 1 ? p.do_bind(o.a) : o.type == 2 ? p.do_pad(o.a) : o.type == 3 ? p.do_section(o.a) : p.do_align(o.a);
    if (!ok) return false;
  }
  return true;
}
static std::string prog_text(int arch, uint64_t base, const std::vector<OpDef>& ops) {
  std::string s = std::string("harness=c03_labels\narch=") + arch_name(arch) + "\nbase=" + std::to_string(base) + "\nops=";
  for (auto& o : ops) s += std::to_string(o.type) + ":" + std::to_string(o.a) + ":" + std::to_string(o.b) + ",";
  s += "\n# ";
  for (auto& o : ops) s += op_str(o) + ";";
  return s + "\n";
}
static bool run_program(int arch, uint64_t base, const std::vector<OpDef>& ops, std::set<std::string>* outcomes) {
  vh::Ctx& c = vh::ctx();
  vh::set_case(prog_text(arch, base, ops));
  Prog p(arch);
  bool ok = run_ops(p, ops) && p.finish(base, outcomes);
  c.n("evaluations")++;
  if (!ok) {
    std::string names; for (auto& o : ops) names += op_str(o) + ";";
    c.violation(std::string("labels:") + arch_name(arch) + ":" + p.clause + ":" + p.why.substr(0, p.why.find_first_of(":( ")), p.why + " :: " + arch_name(arch) + " program " + names, prog_text(arch, base, ops));
  }
  return ok;
}

int main(int argc, char** argv) {
  vh::parse_args(argc, argv);
  vh::Ctx& c = vh::ctx();
  const uint64_t kBase = 0x100000;
  if (c.replaying()) {
    int arch = AX64; uint64_t base = kBase; std::vector<OpDef> ops;
    for (auto& line : vh::split(c.replay_text, '\n')) {
      if (line.rfind("arch=", 0) == 0) arch = line.substr(5) == "x64" ? AX64 : line.substr(5) == "x86" ? AX86 : AA64;
      if (line.rfind("base=", 0) == 0) base = strtoull(line.c_str() + 5, nullptr, 10);
      if (line.rfind("ops=", 0) == 0) for (auto& x : vh::split(line.substr(4), ',')) if (!x.empty()) { OpDef o; sscanf(x.c_str(), "%d:%d:%d", &o.type, &o.a, &o.b); ops.push_back(o); }
    }
    run_program(arch, base, ops, nullptr);
    return vh::finish();
  }
  int depth = c.thorough() ? 5 : 4;
  if (!c.opt("depth").empty()) depth = atoi(c.opt("depth").c_str());
  long long idx = 0;
  std::set<std::string> outcomes;
  std::string bounds;
  // phase 1: all histories up to depth.  thorough runs it twice: the larger alphabet to depth-1 before the boundary families, and
  // the quick alphabet to the full depth after them, so that a deadline can only cut the deepest layer short.
  auto histories = [&](bool big_alphabet, int dp) {
    for (int arch = 0; arch < 3; arch++) {
      std::vector<OpDef> al = alphabet(arch, big_alphabet);
      std::vector<int> h;
      long long count = 0;
      std::function<void()> rec = [&]() {
        if (c.capped) return;
        if (c.mine(idx++)) {
          if (c.tick(256)) return;
          std::vector<OpDef> ops; for (int i : h) ops.push_back(al[i]);
          if (run_program(arch, kBase, ops, &outcomes)) { if (h.size() >= 3) c.sample(std::string(arch_name(arch)) + ": " + [&] { std::string s; for (auto& o : ops) s += op_str(o) + ";"; return s; }(), 9); }
          count++;
        }
        if ((int)h.size() >= dp) return;
        for (int i = 0; i < (int)al.size(); i++) {
          // prune histories that cannot add information: two pads in a row of the same size, section switch to the current section twice
          if (!h.empty() && al[i].type == 3 && al[h.back()].type == 3) continue;
          h.push_back(i); rec(); h.pop_back();
        }
      };
      rec();
      bounds += std::string(arch_name(arch)) + ": all histories to depth " + std::to_string(dp) + " over " + std::to_string(al.size()) + " ops" + (c.capped ? " (cut short by the deadline)" : "") + "; ";
    }
  };
  if (c.thorough() && c.opt("depth").empty()) histories(true, depth - 1);
  else histories(c.thorough(), depth);
  // phase 2: boundary family of every format: [ref, pad(d), bind] (forward) and [bind, pad(d), ref] (backward), same section and across sections
  for (int arch = 0; arch < 3; arch++) {
    for (int k : kinds_of(arch)) {
      if (k >= K_EMBED1) continue;
      int64_t lim; int unit = arch == AA64 ? 4 : 1;
      switch (k) {
        case K_JMP_SHORT: case K_JCC_SHORT: case K_JECXZ: case K_LOOP: lim = 128; break;
        case K_JMP: case K_JCC: lim = 128; break;             // the switch between the short and the long form
        case K_TBZ: lim = 32768; break;
        case K_BCOND: case K_CBZ: case K_LDR_LIT: case K_ADR: lim = 1 << 20; break;
        case K_B: case K_BL: lim = c.thorough() ? (1 << 27) : 0; break;
        case K_ADRP: lim = 8192; break;
        default: lim = 0;
      }
      if (!lim) continue;
      for (int dir = 0; dir < 2; dir++) for (int cross = 0; cross < 2; cross++) for (int64_t d = lim - 3 * unit - 8; d <= lim + 3 * unit + 8; d += unit) {
        if (!c.mine(idx++)) continue;
        if (d < 0) continue;
        std::vector<OpDef> ops;
        if (dir == 0) { ops = {{0, k, 0}, {2, (int)d, 0}}; if (cross) ops.push_back({3, 1, 0}); ops.push_back({1, 0, 0}); }
        else { ops = {{1, 0, 0}, {2, (int)d, 0}}; if (cross) ops.push_back({3, 1, 0}); ops.push_back({0, k, 0}); }
        run_program(arch, kBase, ops, &outcomes);
        c.n("boundary_cases")++;
      }
    }
  }
  // phase 2b: user-layout family - sections placed far apart with Section::set_offset (no memory needed), every kind, reference in
  // .text to a label in .sec2 (label bound after / before the reference) and reference in .sec2 to a label in .text (negative distance)
  {
    std::vector<uint64_t> fo = far_offsets();
    for (int arch : {AX64, AA64}) for (int k : kinds_of(arch)) for (int fi = 0; fi < (int)fo.size(); fi++) for (int shape = 0; shape < 3; shape++) {
      if (!c.mine(idx++)) continue;
      std::vector<OpDef> ops;
      if (shape == 0) ops = {{0, k, 0}, {3, 1, 0}, {1, 0, 0}, {1, 1, 0}};
      else if (shape == 1) ops = {{3, 1, 0}, {1, 0, 0}, {1, 1, 0}, {3, 0, 0}, {0, k, 0}};
      else ops = {{1, 0, 0}, {1, 1, 0}, {3, 1, 0}, {0, k, 0}};
      ops.push_back({5, fi, 0});
      run_program(arch, kBase, ops, &outcomes);
      c.n("user_layout_cases")++;
    }
  }
  if (c.thorough() && c.opt("depth").empty()) histories(false, depth);
  for (auto& o : outcomes) c.outcomes.insert(o);
  c.n("distinct_nontrivial") = c.n("evaluations");
  c.n("states") = c.n("evaluations"); c.n("transitions") = c.n("evaluations"); c.n("traces") = c.n("evaluations");
  c.strs["bound"] = bounds + "boundary family: every pad distance within +-(3 units + 8) of each format's range limit, forward/backward, same/cross section; user-layout family: every kind x .sec2 placed at 2^{15,20,27,31,32,33} +- {0,4,8,16,4096} x 3 shapes (x64, a64)";
  c.strs["rule"] = "every sequence of {ref(kind,label), bind(label), pad(n), section(s)} up to the depth is executed on a fresh CodeHolder+Assembler, finalised "
                   "(flatten, resolve_cross_section_fixups, relocate_to_base, copy_flattened_data) and every reference site of the image is decoded by the harness and "
                   "compared with base + section offset + bound offset + addend; each sequence is a distinct program";
  c.assumptions.push_back("two labels, two sections, one base address (C04 varies the base); displacement kinds limited to the listed instructions; rel32 range limits (2 GiB) are reached through user-placed sections only (Section::set_offset), not through 2 GiB of code");
  return vh::finish();
}
