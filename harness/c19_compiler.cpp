// C19 (leg 2) - constants handed out by BaseCompiler::_new_const (local and global scope) stay valid, deduplicated and
// exact through every short history of requests, including rejected ones (sizes 0, 3, 128) and function boundaries.
//
// Every history over the alphabet below (all sequences up to the depth, no sampling) is run on a fresh Compiler:
//   new_const(scope in {local, global}, pattern/size in {A/4, A/8, B/8, A/16, B/1, A/32} or invalid size {3, 0, 128}),
//   "end_func; add_func" (closes the local pool, opens a new one).
// Each accepted constant is referenced by one instruction (x86: lea), the program is finalized and then, for every
// operand that was returned: its label is bound, label offset + operand offset is aligned to the constant's size and
// inside the section, and the bytes there equal the constant; a repeated request within the same pool lifetime must
// have returned the identical operand; nothing may be left unresolved.  a64::Compiler runs the same histories without
// the referencing instruction (ldr literal cannot address byte-aligned constants).
#include "vh.h"
#include <asmjit/core.h>
#include <asmjit/x86.h>
#include <asmjit/a64.h>
#include <cstring>

using namespace asmjit;

static uint8_t PAT[2][64];
struct KV { int pat; int size; };
static const KV kReq[] = {{0, 4}, {0, 8}, {1, 8}, {0, 16}, {1, 1}, {0, 32}, {0, 3}, {0, 0}, {0, 128}};
static const int kNumReq = 9, kFirstInvalid = 6;
static const int kNumOps = 2 * kNumReq + 1;   // local reqs, global reqs, func boundary

static std::string op_name(int op) {
  if (op == 2 * kNumReq) return "end_func;add_func";
  const KV& r = kReq[op % kNumReq];
  char b[64]; snprintf(b, sizeof b, "new_const(%s,%c/%d)", op < kNumReq ? "local" : "global", 'A' + r.pat, r.size);
  return b;
}

struct Got { int scope; int func; int pat; int size; uint32_t label_id; int64_t off; };

template<typename CC, typename MemT>
static bool run_history(Arch arch, const std::vector<int>& h, std::string& why) {
  CodeHolder code; code.init(Environment(arch));
  CC cc(&code);
  std::vector<Got> got;
  int func = 0;
  cc.add_func(FuncSignature::build<void>());
  for (size_t i = 0; i < h.size(); i++) {
    int op = h[i];
    if (op == 2 * kNumReq) { if (cc.end_func() != Error::kOk) { why = "harness: end_func failed"; return false; } cc.add_func(FuncSignature::build<void>()); func++; continue; }
    int scope = op < kNumReq ? 0 : 1;
    const KV& r = kReq[op % kNumReq];
    MemT m = cc.new_const(scope ? ConstPoolScope::kGlobal : ConstPoolScope::kLocal, PAT[r.pat], size_t(r.size));
    bool invalid = (op % kNumReq) >= kFirstInvalid;
    if (invalid) {
      if (!m.is_none() && m.has_base_label()) { why = "a request with an invalid size returned a usable operand (" + op_name(op) + ")"; return false; }
      continue;
    }
    if (!m.has_base_label()) { why = "a valid request did not return a label based operand (" + op_name(op) + ")"; return false; }
    Got g{scope, scope ? -1 : func, r.pat, r.size, m.base_id(), m.offset()};
    for (auto& e : got)
      if (e.scope == g.scope && e.func == g.func && e.size == g.size && memcmp(PAT[e.pat], PAT[g.pat], size_t(g.size)) == 0 && (e.label_id != g.label_id || e.off != g.off)) {
        char b[200]; snprintf(b, sizeof b, "identical constant requested again in the same pool got a different operand: L%u+%lld then L%u+%lld (%s)", e.label_id, (long long)e.off, g.label_id, (long long)g.off, op_name(op).c_str());
        why = b; return false;
      }
    got.push_back(g);
    if constexpr (std::is_same<CC, x86::Compiler>::value) {
      x86::Gp t = cc.new_gp64();
      if (cc.lea(t, m) != Error::kOk) { why = "harness: lea failed"; return false; }
    }
  }
  if (cc.end_func() != Error::kOk) { why = "harness: end_func failed"; return false; }
  Error err = cc.finalize();
  if (err != Error::kOk) { why = std::string("finalize failed: ") + DebugUtils::error_as_string(err); return false; }
  if (code.has_unresolved_fixups()) { why = "unresolved fixups remain after finalize: an instruction references a constant whose pool was never emitted"; return false; }
  if (code.flatten() != Error::kOk || code.resolve_cross_section_fixups() != Error::kOk) { why = "flatten/resolve failed"; return false; }
  Section* text = code.text_section();
  for (auto& g : got) {
    char id[96]; snprintf(id, sizeof id, "%s %c/%d (func %d)", g.scope ? "global" : "local", 'A' + g.pat, g.size, g.func);
    if (!code.is_label_valid(g.label_id) || !code.is_label_bound(g.label_id)) { why = std::string("label of the pool holding ") + id + " is not bound after finalize"; return false; }
    LabelEntry& le = code.label_entry_of(g.label_id);
    if (le.section_id() != text->section_id()) { why = "harness: pool label in unexpected section"; return false; }
    uint64_t at = le.offset() + uint64_t(g.off);
    if (at % uint64_t(g.size)) { char b[160]; snprintf(b, sizeof b, "%s is at offset %llu, not aligned to its size", id, (unsigned long long)at); why = b; return false; }
    if (at + uint64_t(g.size) > text->buffer_size()) { why = std::string(id) + " lies outside the emitted section"; return false; }
    if (memcmp(text->data() + at, PAT[g.pat], size_t(g.size)) != 0) {
      why = std::string("bytes at the returned operand of ") + id + " are " + vh::hex(text->data() + at, size_t(g.size)) + ", the constant is " + vh::hex(PAT[g.pat], size_t(g.size)); return false;
    }
  }
  return true;
}

static bool run_one(int arch, const std::vector<int>& h, std::string& why) {
  return arch == 0 ? run_history<x86::Compiler, x86::Mem>(Arch::kX64, h, why) : run_history<a64::Compiler, a64::Mem>(Arch::kAArch64, h, why);
}

static std::string hist_str(const std::vector<int>& h) { std::string s; for (size_t i = 0; i < h.size(); i++) { if (i) s += ","; s += std::to_string(h[i]); } return s; }
static std::string names(const std::vector<int>& h) { std::string s; for (int op : h) s += op_name(op) + ";"; return s; }

int main(int argc, char** argv) {
  vh::parse_args(argc, argv);
  vh::Ctx& c = vh::ctx();
  for (int p = 0; p < 2; p++) for (int i = 0; i < 64; i++) PAT[p][i] = uint8_t(p == 0 ? 0x11 * (1 + (i / 4) % 14) + i % 4 : 0xA0 + i * 7);
  if (c.replaying()) {
    int arch = 0; std::vector<int> h;
    for (auto& line : vh::split(c.replay_text, '\n')) {
      if (line.rfind("arch=", 0) == 0) arch = atoi(line.c_str() + 5);
      if (line.rfind("ops=", 0) == 0) for (auto& x : vh::split(line.substr(4), ',')) if (!x.empty()) h.push_back(atoi(x.c_str()));
    }
    std::string why;
    if (!run_one(arch, h, why)) c.violation("replay", why + " :: " + names(h), c.replay_text);
    return vh::finish();
  }
  int depth = c.thorough() ? 5 : 4;
  if (!c.opt("cdepth").empty()) depth = atoi(c.opt("cdepth").c_str());
  long long idx = 0, runs = 0;
  for (int arch = 0; arch < 2; arch++) {
    int d = arch == 0 ? depth : depth - 1;
    std::vector<int> h;
    // all sequences of length 1..d, odometer order
    for (int len = 1; len <= d; len++) {
      h.assign(size_t(len), 0);
      for (;;) {
        if (c.mine(idx++)) {
          vh::set_case("harness=c19_compiler arch=" + std::to_string(arch) + " ops=" + hist_str(h));
          std::string why; runs++;
          if (!run_one(arch, h, why)) {
            int last_req = -1; for (int op : h) if (op != 2 * kNumReq) last_req = op;
            bool had_invalid = false; for (int op : h) if (op != 2 * kNumReq && (op % kNumReq) >= kFirstInvalid) had_invalid = true;
            std::string key = std::string("compiler-pool:") + (arch ? "a64" : "x64") + ":" + (had_invalid ? "after-rejected-request" : "valid-requests") + ":" + (last_req >= kNumReq ? "global" : "local");
            c.violation(key, why + " :: history " + names(h), "harness=c19_compiler\narch=" + std::to_string(arch) + "\nops=" + hist_str(h) + "\n# " + names(h) + "\n");
          }
          if (c.tick(256)) { c.exhaustive = false; c.capped = true; goto done; }
        }
        int k = len - 1;
        while (k >= 0 && ++h[size_t(k)] == kNumOps) { h[size_t(k)] = 0; k--; }
        if (k < 0) break;
      }
    }
  }
done:
  c.n("traces") += runs; c.n("evaluations") += runs; c.n("compiler_histories") += runs;
  c.strs["bound_compiler_leg"] = "BaseCompiler::_new_const: every sequence of up to " + std::to_string(depth) + " (a64: " + std::to_string(depth - 1) +
                                 ") ops over {new_const(local|global, 6 valid + 3 invalid requests), function boundary} on x86::Compiler and a64::Compiler, finalized, every returned operand checked";
  return vh::finish();
}
