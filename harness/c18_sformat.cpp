// C18 (leg) - Arena::sformat / Arena::dup: the arena's own string helpers behave like their abstract counterparts for
// every output length around the internal 512-byte staging buffer (ASan/UBSan are the memory oracle).
#include "vh.h"
#include <asmjit/core.h>
#include <asmjit/support/arena.h>
#include <string>

using namespace asmjit;

int main(int argc, char** argv) {
  vh::parse_args(argc, argv);
  vh::Ctx& c = vh::ctx();
  int lo = 0, hi = c.thorough() ? 4200 : 1100;
  if (c.replaying()) { int n = 0; for (auto& line : vh::split(c.replay_text, '\n')) if (line.rfind("len=", 0) == 0) n = atoi(line.c_str() + 4); lo = hi = n; }
  for (int mode = 0; mode < 2; mode++) for (int n = lo; n <= hi; n++) {
    vh::set_case("harness=c18_sformat\nlen=" + std::to_string(n) + "\nmode=" + std::to_string(mode) + "\n");
    uint8_t sbuf[256];
    memset(sbuf, 0xA5, sizeof sbuf);
    Arena heap_arena(4096);
    ArenaTmp<192> tmp_arena(1024);
    Arena& a = mode ? static_cast<Arena&>(tmp_arena) : heap_arena;
    std::string payload(size_t(n), 'x');
    for (int i = 0; i < n; i++) payload[size_t(i)] = char('a' + i % 23);
    char* guard_before = static_cast<char*>(a.dup("GUARD-BEFORE", 13));
    char* s = a.sformat("%s|%d", payload.c_str(), n);
    char* guard_after = static_cast<char*>(a.dup("GUARD-AFTER", 12));
    c.n("evaluations")++;
    std::string want = payload + "|" + std::to_string(n);
    std::string rp = "harness=c18_sformat\nlen=" + std::to_string(n) + "\nmode=" + std::to_string(mode) + "\n";
    if (!s) { c.violation("arena:sformat:null", "sformat returned null for an output of " + std::to_string(want.size()) + " characters", rp); continue; }
    size_t got_len = strnlen(s, want.size() + 8);
    // the documented staging buffer holds 511 characters: longer output may be truncated, but never overrun and always terminated
    if (want.size() <= 510) {
      if (std::string(s, got_len) != want) c.violation("arena:sformat:content", "sformat result differs from snprintf for an output of " + std::to_string(want.size()) + " characters", rp);
    } else {
      if (got_len > want.size() || want.compare(0, got_len, s, got_len) != 0) c.violation("arena:sformat:content", "sformat result is not a prefix of the formatted text (output " + std::to_string(want.size()) + " characters)", rp);
      if (got_len < 510) c.violation("arena:sformat:truncated", "sformat kept only " + std::to_string(got_len) + " of " + std::to_string(want.size()) + " characters", rp);
    }
    if (!guard_before || strcmp(guard_before, "GUARD-BEFORE") != 0 || !guard_after || strcmp(guard_after, "GUARD-AFTER") != 0) c.violation("arena:sformat:neighbour", "a neighbouring arena string was damaged by sformat", rp);
    c.outcomes.insert(want.size() <= 510 ? "exact" : "long");
  }
  c.n("states") = c.n("evaluations"); c.n("transitions") = c.n("evaluations"); c.n("traces") = c.n("evaluations"); c.n("distinct_nontrivial") = c.n("evaluations");
  c.strs["bound_sformat_leg"] = "Arena::sformat for every output length 0.." + std::to_string(hi) + " on a heap arena and on a static-block arena";
  return vh::finish();
}
