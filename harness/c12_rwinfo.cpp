// c12_rwinfo - query filter for property C12 (instruction read/write information).
//
// Reads one instruction case per line, builds the operands through the PUBLIC AsmJit API and prints, for every
// case, what the library says about it:
//   * x86::Assembler / a64::Assembler::emit (strict validation on)      -> error + appended bytes
//   * InstAPI::validate(arch, inst, operands)                           -> error
//   * InstAPI::query_rw_info(arch, inst, operands, &InstRWInfo)         -> error + the complete InstRWInfo
//   * InstAPI::query_features(arch, inst, operands, &CpuFeatures)       -> error + feature names
// It contains NO oracle; checks/c12.py judges the output against the ISA database.
//
// Usage: c12_rwinfo [--in FILE] [--out FILE]      |      c12_rwinfo --list-features
//
// INPUT
//   x86 line (same language as harness/emit_x86.cpp, so lib/x86cases.emit_line() can be used):
//       <32|64> <v|n> <mnemonic|#id> <options-hex> <extra|-> <operand>...
//       operand:  r,<regtype>,<id> | i,<value> | m,<size>,<base>,<index>,<shift>,<offset>,<seg>,<bcst>,<addr> | - |
//                 l,<n>  (a label bound 16 bytes before the instruction; pre/post ops of emit_x86 are not supported)
//   AArch64 line:
//       a64 <mnemonic> <operand>{, <operand>}
//       operand: w<N> x<N> sp wzr xzr | b/h/s/d/q<N> | v<N> | v<N>.<K><T> | v<N>.<T>[<I>] | #<int> |
//                [<base>] [<base>, #<off>] [<base>, <index>]  with suffix '!' (pre-index) or '@' (post-index)
//   Lines starting with '#' and empty lines are skipped (but numbered).
//
// OUTPUT: one line per case, space separated key=value tokens
//   <lineno> emit=<code>:<name> bytes=<hex|-> val=<code>:<name> rw=<code>:<name> [if=<hex> rf=<flags> wf=<flags>
//     rmf=<feature name|0> n=<op count> x=<op> o0=<op> o1=<op> ...] feat=<code>:<name[,name...]|->
//   <op>    = <op_flags hex>:<phys_id>:<rm_size>:<consecutive_lead_count>:<read mask hex>:<write mask hex>:<extend mask hex>
//   <flags> = comma separated CPU flag names (CF,OF,SF,ZF,AF,PF,DF,IF,AC,C0,C1,C2,C3) or '-'
//   malformed lines: "<lineno> parse=<what>";  unknown mnemonic: "<lineno> parse=E_NAME"
//
// On a fatal signal the current line is written to stderr as "VH-CURRENT-CASE: <line>" and the process exits 70.
#include <asmjit/core.h>
#include <asmjit/x86.h>
#include <asmjit/a64.h>

#include <cstdio>
#include <cstdlib>
#include <cstring>
#include <cstdint>
#include <csignal>
#include <cerrno>
#include <unistd.h>
#include <map>
#include <string>
#include <vector>

using namespace asmjit;

static char g_cur[4096];
static FILE* g_out = nullptr;

static void dump_current_case() {
  const char* p = "VH-CURRENT-CASE: ";
  (void)!write(2, p, strlen(p));
  (void)!write(2, g_cur, strlen(g_cur));
  (void)!write(2, "\n", 1);
}
static void on_signal(int sig) {
  dump_current_case();
  char b[64];
  int n = snprintf(b, sizeof b, "c12_rwinfo: fatal signal %d\n", sig);
  (void)!write(2, b, n);
  _exit(70);
}
extern "C" void __asan_on_error() { dump_current_case(); }

// ------------------------------------------------------------------------------------------------------------------
// names of public enum values (own tables, written from asmjit/core/cpuinfo.h and asmjit/core/inst.h)
// ------------------------------------------------------------------------------------------------------------------
struct FeatName { const char* name; uint32_t id; };
#define FX(N) { #N, uint32_t(CpuFeatures::X86::k##N) }
static const FeatName kX86Features[] = {
  FX(MT), FX(NX), FX(ADX), FX(ALTMOVCR8), FX(APX_F), FX(BMI), FX(BMI2), FX(CET_IBT), FX(CET_SS), FX(CET_SSS), FX(CLDEMOTE),
  FX(CLFLUSH), FX(CLFLUSHOPT), FX(CLWB), FX(CLZERO), FX(CMOV), FX(CMPCCXADD), FX(CMPXCHG16B), FX(CMPXCHG8B), FX(ENCLV),
  FX(ENQCMD), FX(ERMS), FX(FSGSBASE), FX(FSRM), FX(FSRC), FX(FSRS), FX(FXSR), FX(FXSROPT), FX(FZRM), FX(HRESET), FX(I486),
  FX(INVLPGB), FX(LAHFSAHF), FX(LAM), FX(LWP), FX(LZCNT), FX(MCOMMIT), FX(MONITOR), FX(MONITORX), FX(MOVBE), FX(MOVDIR64B),
  FX(MOVDIRI), FX(MOVRS), FX(MPX), FX(MSR), FX(MSRLIST), FX(MSR_IMM), FX(MSSE), FX(OSXSAVE), FX(OSPKE), FX(PCONFIG),
  FX(POPCNT), FX(PREFETCHI), FX(PREFETCHW), FX(PREFETCHWT1), FX(PTWRITE), FX(RAO_INT), FX(RMPQUERY), FX(RDPID), FX(RDPRU),
  FX(RDRAND), FX(RDSEED), FX(RDTSC), FX(RDTSCP), FX(RTM), FX(SEAM), FX(SERIALIZE), FX(SEV), FX(SEV_ES), FX(SEV_SNP),
  FX(SKINIT), FX(SMAP), FX(SME), FX(SMEP), FX(SMX), FX(SVM), FX(TBM), FX(TSE), FX(TSXLDTRK), FX(UINTR), FX(VMX), FX(WAITPKG),
  FX(WBNOINVD), FX(WRMSRNS), FX(XSAVE), FX(XSAVEC), FX(XSAVEOPT), FX(XSAVES), FX(FPU), FX(MMX), FX(MMX2), FX(3DNOW),
  FX(3DNOW2), FX(GEODE), FX(SSE), FX(SSE2), FX(SSE3), FX(SSSE3), FX(SSE4_1), FX(SSE4_2), FX(SSE4A), FX(PCLMULQDQ), FX(AVX),
  FX(AVX2), FX(AVX_IFMA), FX(AVX_NE_CONVERT), FX(AVX_VNNI), FX(AVX_VNNI_INT16), FX(AVX_VNNI_INT8), FX(F16C), FX(FMA),
  FX(FMA4), FX(XOP), FX(AVX512_BF16), FX(AVX512_BITALG), FX(AVX512_BW), FX(AVX512_CD), FX(AVX512_DQ), FX(AVX512_F),
  FX(AVX512_FP16), FX(AVX512_IFMA), FX(AVX512_VBMI), FX(AVX512_VBMI2), FX(AVX512_VL), FX(AVX512_VNNI),
  FX(AVX512_VP2INTERSECT), FX(AVX512_VPOPCNTDQ), FX(AESNI), FX(GFNI), FX(SHA), FX(SHA512), FX(SM3), FX(SM4), FX(VAES),
  FX(VPCLMULQDQ), FX(KL), FX(AESKLE), FX(AESKLEWIDE_KL), FX(AVX10_1), FX(AVX10_2), FX(AMX_AVX512), FX(AMX_BF16),
  FX(AMX_COMPLEX), FX(AMX_FP16), FX(AMX_FP8), FX(AMX_INT8), FX(AMX_MOVRS), FX(AMX_TF32), FX(AMX_TILE), FX(AMX_TRANSPOSE)
};
#undef FX

static std::string feature_name(uint32_t id) {
  for (const FeatName& f : kX86Features) if (f.id == id) return f.name;
  char b[32]; snprintf(b, sizeof b, "#%u", id); return b;
}

struct FlagName { const char* name; CpuRWFlags bit; };
static const FlagName kFlagNames[] = {
  {"CF", CpuRWFlags::kX86_CF}, {"OF", CpuRWFlags::kX86_OF}, {"SF", CpuRWFlags::kX86_SF}, {"ZF", CpuRWFlags::kX86_ZF},
  {"AF", CpuRWFlags::kX86_AF}, {"PF", CpuRWFlags::kX86_PF}, {"DF", CpuRWFlags::kX86_DF}, {"IF", CpuRWFlags::kX86_IF},
  {"AC", CpuRWFlags::kX86_AC}, {"C0", CpuRWFlags::kX86_C0}, {"C1", CpuRWFlags::kX86_C1}, {"C2", CpuRWFlags::kX86_C2},
  {"C3", CpuRWFlags::kX86_C3}
};

static std::string flags_text(CpuRWFlags f) {
  std::string s;
  uint32_t rest = uint32_t(f);
  for (const FlagName& n : kFlagNames)
    if (uint32_t(f) & uint32_t(n.bit)) { if (!s.empty()) s += ","; s += n.name; rest &= ~uint32_t(n.bit); }
  if (rest) { char b[32]; snprintf(b, sizeof b, "%s?%x", s.empty() ? "" : ",", rest); s += b; }
  return s.empty() ? "-" : s;
}

static std::string op_text(const OpRWInfo& o) {
  char b[160];
  snprintf(b, sizeof b, "%x:%u:%u:%u:%llx:%llx:%llx", unsigned(o.op_flags()), unsigned(o.phys_id()), unsigned(o.rm_size()),
           unsigned(o.consecutive_lead_count()), (unsigned long long)o.read_byte_mask(), (unsigned long long)o.write_byte_mask(),
           (unsigned long long)o.extend_byte_mask());
  return b;
}

// ------------------------------------------------------------------------------------------------------------------
// small parsing helpers
// ------------------------------------------------------------------------------------------------------------------
struct RegName { const char* name; uint32_t type; };
static const RegName kRegNames[] = {
  {"none", 0}, {"label", 1}, {"gp8lo", 2}, {"gp8hi", 3}, {"gp16", 4}, {"gp32", 5}, {"gp64", 6},
  {"vec128", 11}, {"vec256", 12}, {"vec512", 13}, {"mask", 16}, {"tile", 17},
  {"seg", 25}, {"cr", 26}, {"dr", 27}, {"mm", 28}, {"st", 29}, {"bnd", 30}, {"pc", 31}
};

static bool parse_u32(const std::string& s, uint32_t& out) {
  if (s.empty()) return false;
  char* e = nullptr; errno = 0;
  unsigned long long v = strtoull(s.c_str(), &e, 0);
  if (*e || errno || v > 0xFFFFFFFFull) return false;
  out = uint32_t(v); return true;
}
static bool parse_i64(const std::string& s, int64_t& out) {
  if (s.empty()) return false;
  char* e = nullptr; errno = 0;
  if (s.size() > 2 && s[0] == '0' && (s[1] == 'x' || s[1] == 'X')) {
    unsigned long long v = strtoull(s.c_str(), &e, 16);
    if (*e || errno) return false;
    out = int64_t(v); return true;
  }
  long long v = strtoll(s.c_str(), &e, 10);
  if (*e || errno) return false;
  out = v; return true;
}
static bool parse_regtype(const std::string& s, uint32_t& out) {
  if (s.empty()) return false;
  if (s[0] >= '0' && s[0] <= '9') { uint32_t v; if (!parse_u32(s, v) || v > 31) return false; out = v; return true; }
  for (const RegName& r : kRegNames) if (s == r.name) { out = r.type; return true; }
  return false;
}
static bool parse_typed_reg(const std::string& s, uint32_t& type, uint32_t& id) {
  size_t d = s.find('.');
  if (d == std::string::npos) return false;
  return parse_regtype(s.substr(0, d), type) && parse_u32(s.substr(d + 1), id);
}
static std::vector<std::string> split(const std::string& s, char sep) {
  std::vector<std::string> out; size_t i = 0;
  for (;;) {
    size_t j = s.find(sep, i);
    if (j == std::string::npos) { out.push_back(s.substr(i)); break; }
    out.push_back(s.substr(i, j - i)); i = j + 1;
  }
  return out;
}
static std::vector<std::string> tokens(const char* line) {
  std::vector<std::string> out; const char* p = line;
  while (*p) {
    while (*p == ' ' || *p == '\t') p++;
    if (!*p) break;
    const char* q = p;
    while (*q && *q != ' ' && *q != '\t') q++;
    out.emplace_back(p, q - p); p = q;
  }
  return out;
}
static std::string trim(const std::string& s) {
  size_t a = 0, b = s.size();
  while (a < b && (s[a] == ' ' || s[a] == '\t')) a++;
  while (b > a && (s[b - 1] == ' ' || s[b - 1] == '\t')) b--;
  return s.substr(a, b - a);
}

static void print_err(const char* key, Error e) { fprintf(g_out, " %s=%u:%s", key, unsigned(e), DebugUtils::error_as_string(e)); }

// everything after the emit: validate + rw + features
static void report_queries(Arch arch, const BaseInst& inst, const Operand_* ops, size_t n, bool x86_features) {
  Error ve = InstAPI::validate(arch, inst, ops, n, ValidationFlags::kNone);
  print_err("val", ve);

  InstRWInfo rw;
  memset(&rw, 0xEE, sizeof rw);          // stale content would be visible
  Error re = InstAPI::query_rw_info(arch, inst, ops, n, &rw);
  print_err("rw", re);
  if (re == Error::kOk) {
    std::string rmf = "0";
    if (rw.rm_feature()) rmf = x86_features ? feature_name(rw.rm_feature()) : std::to_string(rw.rm_feature());
    fprintf(g_out, " if=%x rf=%s wf=%s rmf=%s n=%u x=%s", unsigned(rw.inst_flags()), flags_text(rw.read_flags()).c_str(),
            flags_text(rw.write_flags()).c_str(), rmf.c_str(), unsigned(rw.op_count()), op_text(rw.extra_reg()).c_str());
    uint32_t cnt = rw.op_count() <= Globals::kMaxOpCount ? rw.op_count() : Globals::kMaxOpCount;
    for (uint32_t i = 0; i < cnt; i++) fprintf(g_out, " o%u=%s", i, op_text(rw.operand(i)).c_str());
  }

  CpuFeatures cf;
  Error fe = InstAPI::query_features(arch, inst, ops, n, &cf);
  print_err("feat", fe);
  std::string fs;
  if (fe == Error::kOk) {
    CpuFeatures::Iterator it(cf.iterator());
    while (it.has_next()) {
      uint32_t id = uint32_t(it.next());
      if (!fs.empty()) fs += ",";
      fs += x86_features ? feature_name(id) : std::to_string(id);
    }
  }
  fprintf(g_out, ":%s", fs.empty() ? "-" : fs.c_str());
}

// ------------------------------------------------------------------------------------------------------------------
// x86
// ------------------------------------------------------------------------------------------------------------------
static void run_x86(unsigned long lineno, const std::vector<std::string>& tk, CodeHolder& code) {
  const char* bad = nullptr;
  Arch arch = Arch::kX64;
  bool validate = true;
  uint32_t inst_id = 0;
  bool unknown_name = false;
  uint32_t options = 0;
  RegOnly extra; extra.reset();
  Operand_ ops[6];
  uint32_t op_label[6];
  size_t op_count = 0;
  for (int i = 0; i < 6; i++) { ops[i].reset(); op_label[i] = ~0u; }

  do {
    if (tk.size() < 5) { bad = "too-few-tokens"; break; }
    if (tk[0] == "32") arch = Arch::kX86; else if (tk[0] == "64") arch = Arch::kX64; else { bad = "arch"; break; }
    if (tk[1] == "v") validate = true; else if (tk[1] == "n") validate = false; else { bad = "diag"; break; }
    if (tk[2][0] == '#') { if (!parse_u32(tk[2].substr(1), inst_id)) { bad = "inst-id"; break; } }
    else {
      inst_id = InstAPI::string_to_inst_id(arch, tk[2].c_str(), tk[2].size());
      if (inst_id == 0) unknown_name = true;
    }
    {
      char* e = nullptr; errno = 0;
      unsigned long long v = strtoull(tk[3].c_str(), &e, 16);
      if (*e || errno || v > 0xFFFFFFFFull) { bad = "options"; break; }
      options = uint32_t(v);
    }
    if (tk[4] != "-") {
      uint32_t t, id;
      if (!parse_typed_reg(tk[4], t, id)) { bad = "extra"; break; }
      extra.init(Reg::from_type_and_id(RegType(t), id));
    }
    for (size_t i = 5; i < tk.size() && !bad; i++) {
      const std::string& t = tk[i];
      if (op_count >= 6) { bad = "too-many-operands"; break; }
      if (t == "-") { op_count++; continue; }
      std::vector<std::string> f = split(t, ',');
      if (f[0] == "r") {
        uint32_t ty, id;
        if (f.size() != 3 || !parse_regtype(f[1], ty) || !parse_u32(f[2], id)) { bad = "reg-operand"; break; }
        ops[op_count++] = Reg::from_type_and_id(RegType(ty), id);
      }
      else if (f[0] == "i") {
        int64_t v;
        if (f.size() != 2 || !parse_i64(f[1], v)) { bad = "imm-operand"; break; }
        ops[op_count++] = Imm(v);
      }
      else if (f[0] == "l") {
        uint32_t n;
        if (f.size() != 2 || !parse_u32(f[1], n) || n >= 8) { bad = "label-operand"; break; }
        op_label[op_count++] = n;
      }
      else if (f[0] == "m") {
        if (f.size() != 9) { bad = "mem-operand-fields"; break; }
        uint32_t size, shift, seg, bcst, addr; int64_t off;
        if (!parse_u32(f[1], size) || size > 255 || !parse_u32(f[4], shift) || shift > 3 || !parse_i64(f[5], off) ||
            !parse_u32(f[6], seg) || seg > 7 || !parse_u32(f[7], bcst) || bcst > 7 || !parse_u32(f[8], addr) || addr > 3) {
          bad = "mem-operand-values"; break;
        }
        uint32_t bt = 0, bid = 0, it = 0, iid = 0;
        bool is_abs = false;
        if (f[2] == "-" || f[2] == "abs") is_abs = true;
        else if (!parse_typed_reg(f[2], bt, bid)) { bad = "mem-base"; break; }
        if (f[3] != "-" && !parse_typed_reg(f[3], it, iid)) { bad = "mem-index"; break; }
        uint32_t sig = uint32_t(OperandType::kMem) | (bt << 3) | (it << 8) | (addr << 14) | (shift << 16) | (seg << 18) |
                       (bcst << 21) | (size << 24);
        if (is_abs) bid = uint32_t(uint64_t(off) >> 32);
        ops[op_count++] = x86::Mem(OperandSignature{sig}, bid, iid, int32_t(uint32_t(uint64_t(off) & 0xFFFFFFFFu)));
      }
      else { bad = "operand-kind"; break; }
    }
  } while (0);

  if (bad) { fprintf(g_out, "%lu parse=%s\n", lineno, bad); return; }
  if (unknown_name) { fprintf(g_out, "%lu parse=E_NAME\n", lineno); return; }

  code.reset(ResetPolicy::kSoft);
  Environment env(arch);
  if (code.init(env) != Error::kOk) { fprintf(stderr, "c12_rwinfo: CodeHolder::init failed\n"); exit(2); }
  x86::Assembler a;
  if (code.attach(&a) != Error::kOk) { fprintf(stderr, "c12_rwinfo: attach failed\n"); exit(2); }
  if (validate) a.add_diagnostic_options(DiagnosticOptions::kValidateAssembler);

  // label operands: label n is bound right here, 16 bytes before the instruction (a short backward reference)
  for (size_t i = 0; i < op_count; i++) {
    if (op_label[i] == ~0u) continue;
    Label l = a.new_label();
    a.bind(l);
    static const uint8_t nops[16] = {0x90, 0x90, 0x90, 0x90, 0x90, 0x90, 0x90, 0x90, 0x90, 0x90, 0x90, 0x90, 0x90, 0x90, 0x90, 0x90};
    a.embed(nops, 16);
    ops[i] = l;
  }

  CodeBuffer& buf = code.text_section()->buffer();
  size_t off0 = a.offset();
  BaseInst inst(inst_id, InstOptions(options), extra);
  Error err = a.emit_inst(inst, ops, op_count);
  size_t off1 = a.offset();

  fprintf(g_out, "%lu", lineno);
  print_err("emit", err);
  std::string hex;
  if (err == Error::kOk && off1 > off0 && off1 <= buf.size()) {
    static const char* hx = "0123456789abcdef";
    for (size_t i = off0; i < off1; i++) { hex.push_back(hx[buf.data()[i] >> 4]); hex.push_back(hx[buf.data()[i] & 15]); }
  }
  fprintf(g_out, " bytes=%s", hex.empty() ? "-" : hex.c_str());
  code.detach(&a);

  report_queries(arch, inst, ops, op_count, true);
  fputc('\n', g_out);
}

// ------------------------------------------------------------------------------------------------------------------
// AArch64
// ------------------------------------------------------------------------------------------------------------------
static bool a64_elem(const std::string& t, a64::VecElementType& et, uint32_t& bits) {
  if (t == "b") { et = a64::VecElementType::kB; bits = 8; return true; }
  if (t == "h") { et = a64::VecElementType::kH; bits = 16; return true; }
  if (t == "s") { et = a64::VecElementType::kS; bits = 32; return true; }
  if (t == "d") { et = a64::VecElementType::kD; bits = 64; return true; }
  return false;
}

static bool a64_reg(const std::string& s, Operand& out) {
  if (s == "wzr") { out = a64::Gp::make_w(a64::Gp::kIdZr); return true; }
  if (s == "xzr") { out = a64::Gp::make_x(a64::Gp::kIdZr); return true; }
  if (s == "wsp") { out = a64::Gp::make_w(a64::Gp::kIdSp); return true; }
  if (s == "sp")  { out = a64::Gp::make_x(a64::Gp::kIdSp); return true; }
  if (s.size() < 2 || !strchr("wxbhsdqv", s[0])) return false;
  size_t i = 1;
  while (i < s.size() && s[i] >= '0' && s[i] <= '9') i++;
  if (i == 1) return false;
  uint32_t id;
  if (!parse_u32(s.substr(1, i - 1), id) || id > 63) return false;
  std::string rest = s.substr(i);
  if (rest.empty()) {
    switch (s[0]) {
      case 'w': out = a64::Gp::make_w(id); return true;
      case 'x': out = a64::Gp::make_x(id); return true;
      case 'b': out = a64::Vec::make_b(id); return true;
      case 'h': out = a64::Vec::make_h(id); return true;
      case 's': out = a64::Vec::make_s(id); return true;
      case 'd': out = a64::Vec::make_d(id); return true;
      case 'q': out = a64::Vec::make_q(id); return true;
      case 'v': out = a64::Vec::make_v128(id); return true;
    }
    return false;
  }
  if (s[0] != 'v' || rest[0] != '.') return false;
  rest = rest.substr(1);
  bool has_idx = false; uint32_t idx = 0;
  size_t br = rest.find('[');
  if (br != std::string::npos) {
    if (rest.back() != ']' || !parse_u32(rest.substr(br + 1, rest.size() - br - 2), idx) || idx > 15) return false;
    has_idx = true; rest = rest.substr(0, br);
  }
  size_t j = 0;
  while (j < rest.size() && rest[j] >= '0' && rest[j] <= '9') j++;
  uint32_t count = 0;
  if (j > 0 && !parse_u32(rest.substr(0, j), count)) return false;
  a64::VecElementType et; uint32_t ebits;
  if (!a64_elem(rest.substr(j), et, ebits)) return false;
  a64::Vec v;
  if (j == 0) v = a64::Vec::make_v128_with_element_type(et, id);
  else if (count * ebits == 128) v = a64::Vec::make_v128_with_element_type(et, id);
  else if (count * ebits == 64) v = a64::Vec::make_v64_with_element_type(et, id);
  else return false;
  if (has_idx) v.set_element_index(idx);
  out = v;
  return true;
}

static bool a64_mem(const std::string& s0, Operand& out) {
  std::string s = s0;
  arm::OffsetMode mode = arm::OffsetMode::kFixed;
  if (s.back() == '!') { mode = arm::OffsetMode::kPreIndex; s.pop_back(); }
  else if (s.back() == '@') { mode = arm::OffsetMode::kPostIndex; s.pop_back(); }
  s = trim(s);
  if (s.size() < 3 || s[0] != '[' || s.back() != ']') return false;
  std::vector<std::string> parts = split(s.substr(1, s.size() - 2), ',');
  for (auto& p : parts) p = trim(p);
  if (parts.empty() || parts.size() > 2) return false;
  Operand base;
  if (!a64_reg(parts[0], base)) return false;
  a64::Mem m;
  if (parts.size() == 1) m = a64::Mem(base.as<Reg>(), 0);
  else if (parts[1].size() > 1 && parts[1][0] == '#') {
    int64_t off;
    if (!parse_i64(parts[1].substr(1), off)) return false;
    m = a64::Mem(base.as<Reg>(), int32_t(off));
  }
  else {
    Operand index;
    if (!a64_reg(parts[1], index)) return false;
    m = a64::Mem(base.as<Reg>(), index.as<Reg>());
  }
  m.set_offset_mode(mode);
  out = m;
  return true;
}

static std::map<std::string, std::vector<InstId>>& a64_names() {
  static std::map<std::string, std::vector<InstId>> t;
  if (t.empty()) {
    for (InstId id = 1; id < a64::Inst::_kIdCount; id++) {
      String sb;
      if (InstAPI::inst_id_to_string(Arch::kAArch64, id, InstStringifyOptions::kNone, sb) == Error::kOk && sb.size())
        t[std::string(sb.data(), sb.size())].push_back(id);
    }
  }
  return t;
}

static void run_a64(unsigned long lineno, const char* line, CodeHolder& code) {
  // "a64 <mnemonic> ops"
  std::string s = trim(line + 3);
  size_t sp = s.find_first_of(" \t");
  std::string name = sp == std::string::npos ? s : s.substr(0, sp);
  std::string rest = sp == std::string::npos ? "" : trim(s.substr(sp));
  std::vector<std::string> optext;
  {
    int depth = 0; std::string cur;
    for (char ch : rest) {
      if (ch == '[') depth++;
      if (ch == ']') depth--;
      if (ch == ',' && depth == 0) { optext.push_back(trim(cur)); cur.clear(); continue; }
      cur.push_back(ch);
    }
    if (!trim(cur).empty()) optext.push_back(trim(cur));
  }
  if (optext.size() > 6) { fprintf(g_out, "%lu parse=too-many-operands\n", lineno); return; }
  Operand ops[6];
  bool any_vec = false;
  for (size_t i = 0; i < optext.size(); i++) {
    const std::string& t = optext[i];
    bool ok = false;
    if (t[0] == '[') ok = a64_mem(t, ops[i]);
    else if (t[0] == '#') { int64_t v; ok = parse_i64(t.substr(1), v); if (ok) ops[i] = Imm(v); }
    else ok = a64_reg(t, ops[i]);
    if (!ok) { fprintf(g_out, "%lu parse=operand-%zu\n", lineno, i); return; }
    if (ops[i].is_reg() && ops[i].as<Reg>().is_vec()) any_vec = true;
  }
  auto& names = a64_names();
  auto it = names.find(name);
  if (it == names.end()) { fprintf(g_out, "%lu parse=E_NAME\n", lineno); return; }
  InstId inst_id = it->second.front();
  if (it->second.size() > 1 && any_vec) inst_id = it->second.back();

  code.reset(ResetPolicy::kSoft);
  if (code.init(Environment(Arch::kAArch64)) != Error::kOk) { fprintf(stderr, "c12_rwinfo: CodeHolder::init failed\n"); exit(2); }
  a64::Assembler a;
  if (code.attach(&a) != Error::kOk) { fprintf(stderr, "c12_rwinfo: attach failed\n"); exit(2); }
  a.add_diagnostic_options(DiagnosticOptions::kValidateAssembler);
  CodeBuffer& buf = code.text_section()->buffer();
  size_t off0 = a.offset();
  BaseInst inst(inst_id);
  Error err = a.emit_inst(inst, ops, optext.size());
  size_t off1 = a.offset();
  fprintf(g_out, "%lu", lineno);
  print_err("emit", err);
  std::string hex;
  if (err == Error::kOk && off1 > off0 && off1 <= buf.size()) {
    static const char* hx = "0123456789abcdef";
    for (size_t i = off0; i < off1; i++) { hex.push_back(hx[buf.data()[i] >> 4]); hex.push_back(hx[buf.data()[i] & 15]); }
  }
  fprintf(g_out, " bytes=%s", hex.empty() ? "-" : hex.c_str());
  code.detach(&a);
  report_queries(Arch::kAArch64, inst, ops, optext.size(), false);
  fputc('\n', g_out);
}

int main(int argc, char** argv) {
  const char* in_path = nullptr;
  const char* out_path = nullptr;
  for (int i = 1; i < argc; i++) {
    if (!strcmp(argv[i], "--in") && i + 1 < argc) in_path = argv[++i];
    else if (!strcmp(argv[i], "--out") && i + 1 < argc) out_path = argv[++i];
    else if (!strcmp(argv[i], "--list-features")) {
      // names of the x86 CPU features this filter can print (python: db `ext` names outside this list are not judged)
      for (const FeatName& f : kX86Features) printf("%s\n", f.name);
      return 0;
    }
    else { fprintf(stderr, "usage: c12_rwinfo [--in FILE] [--out FILE] | --list-features\n"); return 2; }
  }
  FILE* in = in_path ? fopen(in_path, "r") : stdin;
  g_out = out_path ? fopen(out_path, "w") : stdout;
  if (!in || !g_out) { fprintf(stderr, "c12_rwinfo: cannot open files\n"); return 2; }
  static char obuf[1 << 16];
  setvbuf(g_out, obuf, _IOFBF, sizeof obuf);
  for (int s : {SIGSEGV, SIGBUS, SIGILL, SIGFPE, SIGABRT}) signal(s, on_signal);

  CodeHolder code;
  char* line = nullptr;
  size_t cap = 0;
  unsigned long lineno = 0;
  while (getline(&line, &cap, in) > 0) {
    lineno++;
    size_t n = strlen(line);
    while (n && (line[n - 1] == '\n' || line[n - 1] == '\r')) line[--n] = 0;
    snprintf(g_cur, sizeof g_cur, "%s", line);
    std::vector<std::string> tk = tokens(line);
    if (tk.empty() || tk[0][0] == '#') continue;
    if (tk[0] == "a64") run_a64(lineno, line + (strstr(line, "a64") - line), code);
    else run_x86(lineno, tk, code);
  }
  fflush(g_out);
  if (g_out != stdout) fclose(g_out);
  free(line);
  return 0;
}
