// c20_format - formatter / logger filter of check C20 (python driven: checks/c20.py owns the oracle, lib/c20parse.py the grammar).
//
// Reads instruction cases (x86: the operand descriptor syntax of harness/emit_x86.cpp, AArch64: the text syntax of
// harness/emit_a64.cpp - both documented there and NOT repeated here), emits each case through the public Assembler API
// with a StringLogger attached and, for every ACCEPTED case, prints what the library says about it:
//   * Formatter::format_instruction() for every requested FormatFlags set x register mode x label mode,
//   * Formatter::format_operand() of every operand (flags none),
//   * Formatter::format_node() of the InstNode a Compiler builds for the same request (virtual register mode 'v'),
//   * the StringLogger line of the emitting Assembler for every requested logger flag set.
// Nothing is judged here.
//
//   usage: c20_format --arch x86|a64 --flags F1,F2,.. [--logflags F1,F2,..] [--in FILE] [--out FILE]
//       --flags     hex FormatFlags sets given to Formatter::format_instruction (bit i of the bitmaps below = i-th set)
//       --logflags  hex FormatFlags sets of the StringLogger (default 1 = kMachineCode); the FIRST one is used for the run
//                   whose bytes are reported in the C record
//       input line: [<tag> TAB] <case>     (tag defaults to the 1-based line number)
//
// register modes   p  physical registers as given
//                  v  every gp / vector / mask / mm register replaced by a NAMED virtual register of the SAME register
//                     type, created through x86::Compiler / a64::Compiler (name: vg<id> vv<id> vk<id> vm<id>)
//                  u  same, but unnamed virtual registers (printed by index)
//                  c  same as v, but the virtual register is created with ANOTHER type of the same group (so that
//                     FormatFlags::kRegCasts has something to show; x86 only)
//                  one virtual register per (group, physical id) of the case; sp/zr (AArch64) stay physical
// label modes      -  the case has no label operand
//                  a  anonymous labels (new_label)                       n  global named labels  "glob<n>"
//                  x  LabelType::kAnonymous with a name "anon<n>"        l  local labels "loc<n>" under the named parent "par"
//                  m  local labels "loc<n>" under an anonymous parent
//
// OUTPUT (tab separated; text fields are raw, '\n' inside logger content is written as the two characters \n)
//   C <tag> <err> <errname> <hex of appended bytes|-> <section size delta> <info>      one per case; then, if err == 0:
//   B <lm> <n>=<label id>,...[,par=<id>]            label ids of label mode lm (cases with label operands)
//   V <rm> <group>.<phys id>=<virt index>:<RegType of the virtual register>,...
//   T <rm><lm> <bitmap hex> <text>                  format_instruction; bitmap = flag sets that produced exactly this text
//   N <rm><lm> <bitmap hex> <text>                  format_node of the compiler's InstNode (only rm = v)
//   O <lm> <op0>\x1f<op1>...                        format_operand, flags none, physical registers
//   G <lm> <logflags hex> <unbound 0|1> <hex> <content>   StringLogger content produced by the emit call (empty if nothing was
//                                                   logged); unbound = the case references a label that is not bound at that
//                                                   moment; hex = the bytes the call appended as they are right after the call
//   X <what>                                        a Formatter call returned an error
#include <asmjit/core.h>
#include <asmjit/x86.h>
#include <asmjit/a64.h>

#include <cstdio>
#include <cstdlib>
#include <cstring>
#include <cstdint>
#include <csignal>
#include <cerrno>
#include <unistd.h>
#include <string>
#include <vector>
#include <map>

using namespace asmjit;

// ---------------------------------------------------------------------------------------------------------------------
// plumbing
// ---------------------------------------------------------------------------------------------------------------------
static char g_cur[8192];
static FILE* g_out = nullptr;

static void dump_current_case() {
  const char* p = "VH-CURRENT-CASE: ";
  (void)!write(2, p, strlen(p));
  (void)!write(2, g_cur, strlen(g_cur));
  (void)!write(2, "\n", 1);
}
static void on_signal(int sig) {
  dump_current_case();
  char b[64];
  int n = snprintf(b, sizeof b, "c20_format: fatal signal %d\n", sig);
  (void)!write(2, b, n);
  _exit(70);
}
extern "C" void __asan_on_error() { dump_current_case(); }

static std::vector<uint32_t> g_flags;      // FormatFlags sets for the Formatter
static std::vector<uint32_t> g_logflags;   // FormatFlags sets for the logger

static std::string hex_of(const uint8_t* d, size_t n) {
  static const char* hx = "0123456789abcdef";
  std::string s;
  for (size_t i = 0; i < n; i++) { s.push_back(hx[d[i] >> 4]); s.push_back(hx[d[i] & 15]); }
  return s;
}

static std::string escape_nl(const char* p, size_t n) {
  std::string s;
  for (size_t i = 0; i < n; i++) {
    char c = p[i];
    if (c == '\n') s += "\\n"; else if (c == '\t') s += "\\t"; else if (c == '\r') s += "\\r"; else s.push_back(c);
  }
  return s;
}

static std::vector<std::string> split(const std::string& s, char sep) {
  std::vector<std::string> out;
  size_t i = 0;
  for (;;) {
    size_t j = s.find(sep, i);
    if (j == std::string::npos) { out.push_back(s.substr(i)); break; }
    out.push_back(s.substr(i, j - i));
    i = j + 1;
  }
  return out;
}

static std::string trim(const std::string& s) {
  size_t a = 0, b = s.size();
  while (a < b && (s[a] == ' ' || s[a] == '\t' || s[a] == '\r')) a++;
  while (b > a && (s[b - 1] == ' ' || s[b - 1] == '\t' || s[b - 1] == '\r')) b--;
  return s.substr(a, b - a);
}

// bitmap over g_flags as hex string (bit i = set i), most significant digit first
struct Bitmap {
  std::vector<uint8_t> bits;
  void set(size_t i) { if (bits.size() <= i / 4) bits.resize(i / 4 + 1, 0); bits[i / 4] |= uint8_t(1u << (i % 4)); }
  std::string hex() const {
    static const char* hx = "0123456789abcdef";
    std::string s;
    for (size_t i = bits.size(); i-- > 0;) s.push_back(hx[bits[i]]);
    return s.empty() ? "0" : s;
  }
};

// texts of one (kind, register mode, label mode), de-duplicated
struct TextSet {
  std::vector<std::pair<std::string, Bitmap>> items;
  void add(const std::string& t, size_t flag_index) {
    for (auto& it : items) if (it.first == t) { it.second.set(flag_index); return; }
    items.emplace_back(t, Bitmap());
    items.back().second.set(flag_index);
  }
  void print(char kind, char rm, char lm) const {
    for (auto& it : items) fprintf(g_out, "%c\t%c%c\t%s\t%s\n", kind, rm, lm, it.second.hex().c_str(), it.first.c_str());
  }
};

// ---------------------------------------------------------------------------------------------------------------------
// virtual registers
// ---------------------------------------------------------------------------------------------------------------------
struct VirtMap {
  struct Entry { char group; uint32_t phys; uint32_t virt_id; uint32_t vtype; };
  std::vector<Entry> entries;
  const Entry* find(char g, uint32_t phys) const {
    for (auto& e : entries) if (e.group == g && e.phys == phys) return &e;
    return nullptr;
  }
  std::string describe() const {
    std::string s;
    char b[64];
    for (auto& e : entries) {
      snprintf(b, sizeof b, "%s%c.%u=%u:%u", s.empty() ? "" : ",", e.group, e.phys, unsigned(Operand::virt_id_to_index(e.virt_id)), e.vtype);
      s += b;
    }
    return s;
  }
};

static char x86_group_of(RegType t) {
  switch (t) {
    case RegType::kGp8Lo: case RegType::kGp8Hi: case RegType::kGp16: case RegType::kGp32: case RegType::kGp64: return 'g';
    case RegType::kVec128: case RegType::kVec256: case RegType::kVec512: return 'v';
    case RegType::kMask: return 'k';
    case RegType::kX86_Mm: return 'm';
    default: return 0;
  }
}

static char a64_group_of(RegType t) {
  switch (t) {
    case RegType::kGp32: case RegType::kGp64: return 'g';
    case RegType::kVec8: case RegType::kVec16: case RegType::kVec32: case RegType::kVec64: case RegType::kVec128: return 'v';
    default: return 0;
  }
}

// Type of the virtual register created for an operand of type t in register mode rm.
static RegType x86_vreg_type(RegType t, char rm, bool is64) {
  if (rm != 'c') return t;
  switch (t) {
    case RegType::kGp32: return is64 ? RegType::kGp64 : RegType::kGp16;
    case RegType::kGp8Lo: case RegType::kGp8Hi: case RegType::kGp16: case RegType::kGp64: return RegType::kGp32;
    case RegType::kVec128: return RegType::kVec256;
    case RegType::kVec256: case RegType::kVec512: return RegType::kVec128;
    default: return t;
  }
}

// Returns the virtual id standing for (type, phys) or phys itself when the register stays physical.
static uint32_t virt_for(BaseCompiler& cc, VirtMap& vm, bool is_x86, bool is64, char rm, RegType t, uint32_t phys) {
  char g = is_x86 ? x86_group_of(t) : a64_group_of(t);
  if (!g) return phys;
  if (!is_x86 && g == 'g' && (phys == a64::Gp::kIdSp || phys == a64::Gp::kIdZr)) return phys;
  if (const VirtMap::Entry* e = vm.find(g, phys)) return e->virt_id;
  RegType vt = is_x86 ? x86_vreg_type(t, rm, is64) : t;
  if (is_x86 && vt == RegType::kGp8Hi) vt = RegType::kGp8Lo;      // there is no virtual register of type gp8hi
  char name[32];
  snprintf(name, sizeof name, "v%c%u", g, phys);
  VirtReg* vr = nullptr;
  Error err = cc.new_virt_reg(Out<VirtReg*>(vr), RegUtils::type_id_of(vt), RegUtils::signature_of(vt), rm == 'u' ? nullptr : name);
  if (err != Error::kOk || !vr) return phys;
  vm.entries.push_back(VirtMap::Entry{g, phys, vr->id(), uint32_t(vt)});
  return vr->id();
}

static void virtualize_ops(BaseCompiler& cc, VirtMap& vm, bool is_x86, bool is64, char rm, Operand_* ops, size_t n, RegOnly* extra) {
  for (size_t i = 0; i < n; i++) {
    Operand_& o = ops[i];
    if (o.is_reg()) {
      o._base_id = virt_for(cc, vm, is_x86, is64, rm, o.as<Reg>().reg_type(), o.as<Reg>().id());
    }
    else if (o.is_mem()) {
      BaseMem& m = o.as<BaseMem>();
      if (m.has_base_reg()) m.set_base_id(virt_for(cc, vm, is_x86, is64, rm, m.base_type(), m.base_id()));
      if (m.has_index_reg()) m.set_index_id(virt_for(cc, vm, is_x86, is64, rm, m.index_type(), m.index_id()));
    }
  }
  if (extra && extra->is_reg()) {
    uint32_t id = virt_for(cc, vm, is_x86, is64, rm, extra->type(), extra->id());
    extra->init(extra->signature(), id);
  }
}

// ---------------------------------------------------------------------------------------------------------------------
// labels
// ---------------------------------------------------------------------------------------------------------------------
static constexpr uint32_t kNumLabels = 8;

struct LabelSet {
  Label l[kNumLabels];
  uint32_t parent = Globals::kInvalidId;
  uint32_t count = 0;
};

static bool make_labels(BaseEmitter& e, char lm, uint32_t count, LabelSet& out) {
  out.count = count;
  char name[32];
  if (lm == 'l') { Label p = e.new_named_label("par"); out.parent = p.id(); }
  if (lm == 'm') { Label p = e.new_label(); out.parent = p.id(); }
  for (uint32_t i = 0; i < count; i++) {
    switch (lm) {
      case 'n': snprintf(name, sizeof name, "glob%u", i); out.l[i] = e.new_named_label(name); break;
      case 'x': snprintf(name, sizeof name, "anon%u", i); out.l[i] = e.new_named_label(name, SIZE_MAX, LabelType::kAnonymous); break;
      case 'l': case 'm': snprintf(name, sizeof name, "loc%u", i); out.l[i] = e.new_named_label(name, SIZE_MAX, LabelType::kLocal, out.parent); break;
      default: out.l[i] = e.new_label(); break;
    }
    if (!out.l[i].is_valid()) return false;
  }
  return true;
}

static void print_labels(char lm, const LabelSet& ls) {
  fprintf(g_out, "B\t%c\t", lm);
  for (uint32_t i = 0; i < ls.count; i++) fprintf(g_out, "%s%u=%u", i ? "," : "", i, ls.l[i].id());
  if (ls.parent != Globals::kInvalidId) fprintf(g_out, ",par=%u", ls.parent);
  fputc('\n', g_out);
}

// ---------------------------------------------------------------------------------------------------------------------
// generic case: operands with label placeholders
// ---------------------------------------------------------------------------------------------------------------------
struct Case {
  Arch arch = Arch::kX64;
  bool validate = true;
  InstId inst_id = 0;
  uint32_t options = 0;
  RegOnly extra;
  Operand_ ops[6];
  uint32_t mem_label[6];     // label number used as memory base, or ~0u
  uint32_t op_label[6];      // label number used as label operand, or ~0u
  size_t op_count = 0;
  bool has_label = false;
  // x86 pre/post
  struct PrePost { bool bind; uint32_t n; };
  std::vector<PrePost> pre, post;
  // a64: label 0 is bound at offset 0 before the instruction
  bool a64 = false;
  Case() { extra.reset(); for (int i = 0; i < 6; i++) { ops[i].reset(); mem_label[i] = op_label[i] = ~0u; } }
};

static void materialize(const Case& c, const LabelSet& ls, Operand_* out) {
  for (size_t i = 0; i < 6; i++) out[i] = c.ops[i];
  for (size_t i = 0; i < c.op_count; i++) {
    if (c.op_label[i] != ~0u) out[i] = ls.l[c.op_label[i]];
    if (c.mem_label[i] != ~0u) out[i]._base_id = ls.l[c.mem_label[i]].id();
  }
}

// ---------------------------------------------------------------------------------------------------------------------
// x86 case parser (syntax of harness/emit_x86.cpp)
// ---------------------------------------------------------------------------------------------------------------------
struct RegName { const char* name; uint32_t type; };
static const RegName kRegNames[] = {
  {"none", 0}, {"label", 1}, {"gp8lo", 2}, {"gp8hi", 3}, {"gp16", 4}, {"gp32", 5}, {"gp64", 6},
  {"vec128", 11}, {"vec256", 12}, {"vec512", 13}, {"mask", 16}, {"tile", 17},
  {"seg", 25}, {"cr", 26}, {"dr", 27}, {"mm", 28}, {"st", 29}, {"bnd", 30}, {"pc", 31}
};

static bool parse_regtype(const std::string& s, uint32_t& out) {
  if (s.empty()) return false;
  if (s[0] >= '0' && s[0] <= '9') {
    char* e = nullptr;
    unsigned long v = strtoul(s.c_str(), &e, 10);
    if (*e || v > 31) return false;
    out = uint32_t(v);
    return true;
  }
  for (const RegName& r : kRegNames)
    if (s == r.name) { out = r.type; return true; }
  return false;
}

static bool parse_u32(const std::string& s, uint32_t& out) {
  if (s.empty()) return false;
  char* e = nullptr;
  errno = 0;
  unsigned long long v = strtoull(s.c_str(), &e, 0);
  if (*e || errno || v > 0xFFFFFFFFull) return false;
  out = uint32_t(v);
  return true;
}

static bool parse_i64(const std::string& s, int64_t& out) {
  if (s.empty()) return false;
  char* e = nullptr;
  errno = 0;
  if (s.size() > 2 && s[0] == '0' && (s[1] == 'x' || s[1] == 'X')) {
    unsigned long long v = strtoull(s.c_str(), &e, 16);
    if (*e || errno) return false;
    out = int64_t(v);
    return true;
  }
  long long v = strtoll(s.c_str(), &e, 10);
  if (*e || errno) return false;
  out = v;
  return true;
}

static bool parse_typed_reg(const std::string& s, uint32_t& type, uint32_t& id) {
  size_t d = s.find('.');
  if (d == std::string::npos) return false;
  return parse_regtype(s.substr(0, d), type) && parse_u32(s.substr(d + 1), id);
}

static std::vector<std::string> tokens(const std::string& line) {
  std::vector<std::string> out;
  const char* p = line.c_str();
  while (*p) {
    while (*p == ' ' || *p == '\t' || *p == '\r' || *p == '\n') p++;
    if (!*p) break;
    const char* q = p;
    while (*q && *q != ' ' && *q != '\t' && *q != '\r' && *q != '\n') q++;
    out.emplace_back(p, q - p);
    p = q;
  }
  return out;
}

static const char* parse_prepost(const std::string& t, Case::PrePost& pp) {
  if (t.compare(0, 4, "pad=") == 0) { pp.bind = false; return parse_u32(t.substr(4), pp.n) && pp.n <= (1u << 20) ? nullptr : "pad"; }
  if (t.compare(0, 5, "bind=") == 0) { pp.bind = true; return parse_u32(t.substr(5), pp.n) && pp.n < kNumLabels ? nullptr : "bind"; }
  return "prepost";
}

// returns nullptr on success, "E_NAME" for an unknown mnemonic, otherwise the parse error
static const char* parse_x86_case(const std::string& line, Case& c) {
  std::vector<std::string> tk = tokens(line);
  if (tk.size() < 5) return "too-few-tokens";
  if (tk[0] == "32") c.arch = Arch::kX86; else if (tk[0] == "64") c.arch = Arch::kX64; else return "arch";
  if (tk[1] == "v") c.validate = true; else if (tk[1] == "n") c.validate = false; else return "diag";
  bool unknown_name = false;
  if (tk[2][0] == '#') {
    uint32_t id;
    if (!parse_u32(tk[2].substr(1), id)) return "inst-id";
    c.inst_id = id;
  }
  else {
    c.inst_id = InstAPI::string_to_inst_id(c.arch, tk[2].c_str(), tk[2].size());
    if (c.inst_id == 0) unknown_name = true;
  }
  {
    char* e = nullptr;
    errno = 0;
    unsigned long long v = strtoull(tk[3].c_str(), &e, 16);
    if (*e || errno || v > 0xFFFFFFFFull) return "options";
    c.options = uint32_t(v);
  }
  if (tk[4] != "-") {
    uint32_t t, id;
    if (!parse_typed_reg(tk[4], t, id)) return "extra";
    c.extra.init(Reg::from_type_and_id(RegType(t), id));
  }
  for (size_t i = 5; i < tk.size(); i++) {
    const std::string& t = tk[i];
    if (t[0] == '+') {
      Case::PrePost pp;
      if (const char* bad = parse_prepost(t.substr(1), pp)) return bad;
      c.post.push_back(pp);
      continue;
    }
    if (t.compare(0, 4, "pad=") == 0 || t.compare(0, 5, "bind=") == 0) {
      Case::PrePost pp;
      if (const char* bad = parse_prepost(t, pp)) return bad;
      c.pre.push_back(pp);
      continue;
    }
    if (c.op_count >= 6) return "too-many-operands";
    if (t == "-") { c.op_count++; continue; }
    std::vector<std::string> f = split(t, ',');
    if (f[0] == "r") {
      uint32_t ty, id;
      if (f.size() != 3 || !parse_regtype(f[1], ty) || !parse_u32(f[2], id)) return "reg-operand";
      c.ops[c.op_count++] = Reg::from_type_and_id(RegType(ty), id);
    }
    else if (f[0] == "i") {
      int64_t v;
      if (f.size() != 2 || !parse_i64(f[1], v)) return "imm-operand";
      c.ops[c.op_count++] = Imm(v);
    }
    else if (f[0] == "l") {
      uint32_t n;
      if (f.size() != 2 || !parse_u32(f[1], n) || n >= kNumLabels) return "label-operand";
      c.op_label[c.op_count++] = n;
      c.has_label = true;
    }
    else if (f[0] == "m") {
      if (f.size() != 9) return "mem-operand-fields";
      uint32_t size, shift, seg, bcst, addr;
      int64_t off;
      if (!parse_u32(f[1], size) || size > 255 || !parse_u32(f[4], shift) || shift > 3 || !parse_i64(f[5], off) ||
          !parse_u32(f[6], seg) || seg > 7 || !parse_u32(f[7], bcst) || bcst > 7 || !parse_u32(f[8], addr) || addr > 3)
        return "mem-operand-values";
      uint32_t bt = 0, bid = 0, it = 0, iid = 0;
      bool is_abs = false;
      if (f[2] == "-" || f[2] == "abs") is_abs = true;
      else if (f[2][0] == 'L') {
        uint32_t n;
        if (!parse_u32(f[2].substr(1), n) || n >= kNumLabels) return "mem-label";
        bt = uint32_t(RegType::kLabelTag);
        c.mem_label[c.op_count] = n;
        c.has_label = true;
      }
      else if (!parse_typed_reg(f[2], bt, bid)) return "mem-base";
      if (f[3] != "-" && !parse_typed_reg(f[3], it, iid)) return "mem-index";
      uint32_t sig = uint32_t(OperandType::kMem) | (bt << 3) | (it << 8) | (addr << 14) | (shift << 16) | (seg << 18) |
                     (bcst << 21) | (size << 24);
      if (is_abs) bid = uint32_t(uint64_t(off) >> 32);
      c.ops[c.op_count++] = x86::Mem(OperandSignature{sig}, bid, iid, int32_t(uint32_t(uint64_t(off) & 0xFFFFFFFFu)));
    }
    else return "operand-kind";
  }
  return unknown_name ? "E_NAME" : nullptr;
}

// ---------------------------------------------------------------------------------------------------------------------
// AArch64 case parser (syntax of harness/emit_a64.cpp); label 0 = "$0"/"pc" (bound at offset 0), label 1 = "$u"
// ---------------------------------------------------------------------------------------------------------------------
static std::string lower(std::string s) {
  for (auto& ch : s) if (ch >= 'A' && ch <= 'Z') ch = char(ch - 'A' + 'a');
  return s;
}

static bool a_parse_u64(const std::string& s, uint64_t& out) {
  if (s.empty()) return false;
  char* end = nullptr;
  errno = 0;
  if (s.size() > 2 && s[0] == '0' && (s[1] == 'x' || s[1] == 'X')) out = strtoull(s.c_str() + 2, &end, 16);
  else {
    for (char ch : s) if (ch < '0' || ch > '9') return false;
    out = strtoull(s.c_str(), &end, 10);
  }
  return end && *end == 0 && errno == 0;
}

static bool a_parse_i64(const std::string& s, int64_t& out) {
  if (s.empty()) return false;
  bool neg = s[0] == '-';
  uint64_t u;
  if (!a_parse_u64((neg || s[0] == '+') ? s.substr(1) : s, u)) return false;
  out = neg ? int64_t(0 - u) : int64_t(u);
  return true;
}

static int shift_op_of(const std::string& s) {
  static const char* names[] = {"lsl", "lsr", "asr", "ror", "rrx", "msl", "uxtb", "uxth", "uxtw", "uxtx", "sxtb", "sxth", "sxtw", "sxtx"};
  for (int i = 0; i < 14; i++) if (s == names[i]) return i;
  return -1;
}

static int cond_of(const std::string& s) {
  static const struct { const char* n; int v; } t[] = {
    {"al", 0}, {"nv", 1}, {"eq", 2}, {"ne", 3}, {"cs", 4}, {"hs", 4}, {"cc", 5}, {"lo", 5}, {"mi", 6}, {"pl", 7}, {"vs", 8},
    {"vc", 9}, {"hi", 10}, {"ls", 11}, {"ge", 12}, {"lt", 13}, {"gt", 14}, {"le", 15}};
  for (auto& e : t) if (s == e.n) return e.v;
  return -1;
}

static bool a_parse_shift(const std::string& s, arm::Shift& out) {
  size_t sp = s.find_first_of(" #");
  std::string name = trim(sp == std::string::npos ? s : s.substr(0, sp));
  int op = shift_op_of(name);
  if (op < 0) return false;
  uint64_t n = 0;
  if (sp != std::string::npos) {
    std::string rest = trim(s.substr(sp));
    if (!rest.empty()) {
      if (rest[0] != '#') return false;
      if (!a_parse_u64(trim(rest.substr(1)), n) || n > 0xFFFFFFFFu) return false;
    }
  }
  out = arm::Shift(arm::ShiftOp(op), uint32_t(n));
  return true;
}

static bool elem_type_of(const std::string& t, a64::VecElementType& et, uint32_t& bits) {
  if (t == "b") { et = a64::VecElementType::kB; bits = 8; return true; }
  if (t == "h") { et = a64::VecElementType::kH; bits = 16; return true; }
  if (t == "s") { et = a64::VecElementType::kS; bits = 32; return true; }
  if (t == "d") { et = a64::VecElementType::kD; bits = 64; return true; }
  if (t == "q") { et = a64::VecElementType::kNone; bits = 128; return true; }
  return false;
}

static bool a_parse_reg(const std::string& s, Operand& out) {
  if (s == "wzr") { out = a64::Gp::make_w(a64::Gp::kIdZr); return true; }
  if (s == "xzr") { out = a64::Gp::make_x(a64::Gp::kIdZr); return true; }
  if (s == "wsp") { out = a64::Gp::make_w(a64::Gp::kIdSp); return true; }
  if (s == "sp")  { out = a64::Gp::make_x(a64::Gp::kIdSp); return true; }
  if (s.compare(0, 4, "reg:") == 0) {
    size_t c = s.find(':', 4);
    if (c == std::string::npos) return false;
    uint64_t sig, id;
    if (!a_parse_u64("0x" + s.substr(4, c - 4), sig) || !a_parse_u64(s.substr(c + 1), id)) return false;
    out = Operand(Globals::Init, OperandSignature{uint32_t(sig)}, uint32_t(id), 0, 0);
    return true;
  }
  if (s.size() < 2) return false;
  char k = s[0];
  if (!strchr("wxbhsdqv", k)) return false;
  size_t i = 1;
  while (i < s.size() && s[i] >= '0' && s[i] <= '9') i++;
  if (i == 1) return false;
  uint64_t id;
  if (!a_parse_u64(s.substr(1, i - 1), id) || id > 0xFFFFFFFFu) return false;
  std::string rest = s.substr(i);
  if (rest.empty()) {
    switch (k) {
      case 'w': out = a64::Gp::make_w(uint32_t(id)); return true;
      case 'x': out = a64::Gp::make_x(uint32_t(id)); return true;
      case 'b': out = a64::Vec::make_b(uint32_t(id)); return true;
      case 'h': out = a64::Vec::make_h(uint32_t(id)); return true;
      case 's': out = a64::Vec::make_s(uint32_t(id)); return true;
      case 'd': out = a64::Vec::make_d(uint32_t(id)); return true;
      case 'q': out = a64::Vec::make_q(uint32_t(id)); return true;
      case 'v': out = a64::Vec::make_v128(uint32_t(id)); return true;
    }
    return false;
  }
  if (k != 'v' || rest[0] != '.') return false;
  rest = rest.substr(1);
  bool has_idx = false;
  uint64_t idx = 0;
  size_t br = rest.find('[');
  if (br != std::string::npos) {
    if (rest.back() != ']') return false;
    if (!a_parse_u64(trim(rest.substr(br + 1, rest.size() - br - 2)), idx) || idx > 15) return false;
    has_idx = true;
    rest = rest.substr(0, br);
  }
  size_t j = 0;
  while (j < rest.size() && rest[j] >= '0' && rest[j] <= '9') j++;
  uint64_t count = 0;
  if (j > 0 && !a_parse_u64(rest.substr(0, j), count)) return false;
  std::string t = rest.substr(j);
  a64::VecElementType et;
  uint32_t ebits;
  if (!elem_type_of(t, et, ebits)) return false;
  if (has_idx && j > 0 && (rest == "4b" || rest == "2h")) {
    et = rest == "4b" ? a64::VecElementType::kB4 : a64::VecElementType::kH2;
    out = a64::Vec::make_v128_with_element_index(et, uint32_t(idx), uint32_t(id));
    return true;
  }
  a64::Vec v;
  if (j == 0) {
    if (t == "q") return false;
    v = a64::Vec::make_v128_with_element_type(et, uint32_t(id));
  }
  else {
    uint64_t total = count * ebits;
    if (total == 128) v = a64::Vec::make_v128_with_element_type(et, uint32_t(id));
    else if (total == 64) v = a64::Vec::make_v64_with_element_type(et, uint32_t(id));
    else if (total == 32) v = a64::Vec::make_v32_with_element_type(et, uint32_t(id));
    else return false;
  }
  if (has_idx) v.set_element_index(uint32_t(idx));
  out = v;
  return true;
}

// label placeholder ids used while parsing (patched in materialize())
static bool a_parse_mem(Case& c, size_t opi, const std::string& s0, Operand& out) {
  std::string s = s0;
  arm::OffsetMode mode = arm::OffsetMode::kFixed;
  if (s.back() == '!') { mode = arm::OffsetMode::kPreIndex; s.pop_back(); }
  else if (s.back() == '@') { mode = arm::OffsetMode::kPostIndex; s.pop_back(); }
  s = trim(s);
  if (s.size() < 2 || s[0] != '[' || s.back() != ']') return false;
  std::string in = s.substr(1, s.size() - 2);
  std::vector<std::string> parts;
  size_t p = 0;
  for (;;) {
    size_t q = in.find(',', p);
    parts.push_back(trim(in.substr(p, q == std::string::npos ? std::string::npos : q - p)));
    if (q == std::string::npos) break;
    p = q + 1;
  }
  if (parts.empty() || parts[0].empty() || parts.size() > 3) return false;
  a64::Mem m;
  if (parts[0][0] == '#') {
    uint64_t addr;
    int64_t sa;
    if (a_parse_u64(parts[0].substr(1), addr)) {}
    else if (a_parse_i64(parts[0].substr(1), sa)) addr = uint64_t(sa);
    else return false;
    if (parts.size() != 1) return false;
    m = a64::Mem(addr);
  }
  else {
    int label = -1;
    Operand base;
    if (parts[0] == "$0" || parts[0] == "pc") label = 0;
    else if (parts[0] == "$u") label = 1;
    else if (!a_parse_reg(parts[0], base) || !base.is_reg()) return false;
    int64_t off = 0;
    bool has_index = false;
    Operand index;
    arm::Shift sh(arm::ShiftOp::kLSL, 0);
    bool has_shift = false;
    if (parts.size() >= 2) {
      if (parts[1].empty()) return false;
      if (parts[1][0] == '#') {
        if (!a_parse_i64(trim(parts[1].substr(1)), off) || off < INT32_MIN || off > INT32_MAX) return false;
        if (parts.size() > 2) return false;
      }
      else {
        if (!a_parse_reg(parts[1], index) || !index.is_reg()) return false;
        has_index = true;
        if (parts.size() == 3) {
          if (!a_parse_shift(parts[2], sh)) return false;
          has_shift = true;
        }
      }
    }
    if (label >= 0) {
      if (has_index) return false;
      Label placeholder;
      placeholder._base_id = 0;          // patched by materialize()
      m = a64::Mem(placeholder, int32_t(off));
      c.mem_label[opi] = uint32_t(label);
      c.has_label = true;
    }
    else if (has_index) {
      m = has_shift ? a64::Mem(base.as<Reg>(), index.as<Reg>(), sh) : a64::Mem(base.as<Reg>(), index.as<Reg>());
    }
    else {
      m = a64::Mem(base.as<Reg>(), int32_t(off));
    }
  }
  m.set_offset_mode(mode);
  out = m;
  return true;
}

static bool a_parse_operand(Case& c, size_t opi, const std::string& s, Operand& out) {
  if (s.empty()) return false;
  if (s == "_") { out = Operand(); return true; }
  if (s[0] == '[') return a_parse_mem(c, opi, s, out);
  if (s == "$0") { c.op_label[opi] = 0; c.has_label = true; out = Operand(); return true; }
  if (s == "$u") { c.op_label[opi] = 1; c.has_label = true; out = Operand(); return true; }
  if (s[0] == '#') {
    std::string v = trim(s.substr(1));
    uint64_t u;
    int64_t i;
    if (a_parse_u64(v, u)) { out = Imm(u); return true; }
    if (a_parse_i64(v, i)) { out = Imm(i); return true; }
    char* end = nullptr;
    double d = strtod(v.c_str(), &end);
    if (end && *end == 0 && end != v.c_str()) { out = Imm(d); return true; }
    return false;
  }
  if (a_parse_reg(s, out)) return true;
  arm::Shift sh;
  if (a_parse_shift(s, sh)) { out = Imm(sh); return true; }
  int cc = cond_of(s);
  if (cc >= 0) { out = Imm(uint32_t(cc)); return true; }
  return false;
}

static std::map<std::string, std::vector<InstId>>& a64_name_table() {
  static std::map<std::string, std::vector<InstId>> t;
  if (t.empty()) {
    for (InstId id = 1; id < a64::Inst::_kIdCount; id++) {
      String sb;
      if (InstAPI::inst_id_to_string(Arch::kAArch64, id, InstStringifyOptions::kNone, sb) == Error::kOk && sb.size())
        t[std::string(sb.data(), sb.size())].push_back(id);
    }
  }
  return t;
}

static std::vector<std::string> split_operands(const std::string& s) {
  std::vector<std::string> out;
  int depth = 0;
  std::string cur;
  for (char ch : s) {
    if (ch == '[') depth++;
    if (ch == ']') depth--;
    if (ch == ',' && depth == 0) { out.push_back(trim(cur)); cur.clear(); continue; }
    cur.push_back(ch);
  }
  if (!trim(cur).empty() || !out.empty()) out.push_back(trim(cur));
  return out;
}

// returns nullptr on success; "E_NAME" unknown mnemonic; other = syntax error
static const char* parse_a64_case(const std::string& text0, Case& c) {
  c.a64 = true;
  c.arch = Arch::kAArch64;
  c.validate = false;
  std::string text = lower(text0);
  size_t sp = text.find_first_of(" \t");
  std::string name = sp == std::string::npos ? text : text.substr(0, sp);
  std::string ops_text = sp == std::string::npos ? std::string() : trim(text.substr(sp + 1));
  int cc = -1;
  char force = 0;
  const std::vector<InstId>* ids = nullptr;
  size_t sl = name.find('/');
  if (sl != std::string::npos) {
    if (name.size() == sl + 2 && (name[sl + 1] == 'g' || name[sl + 1] == 'v')) force = name[sl + 1];
    else return "bad /g /v suffix";
    name = name.substr(0, sl);
  }
  size_t dot = name.find('.');
  if (dot != std::string::npos) {
    cc = cond_of(name.substr(dot + 1));
    if (cc < 0) return "unknown condition suffix";
    name = name.substr(0, dot);
  }
  if (name.compare(0, 5, "inst#") == 0) {
    uint64_t n;
    if (!a_parse_u64(name.substr(5), n)) return "bad raw instruction id";
    c.inst_id = InstId(n);
  }
  else {
    auto it = a64_name_table().find(name);
    if (it == a64_name_table().end()) return "E_NAME";
    ids = &it->second;
  }
  std::vector<std::string> toks = split_operands(ops_text);
  if (toks.size() > 6) return "more than 6 operands";
  for (size_t i = 0; i < toks.size(); i++) {
    Operand o;
    if (!a_parse_operand(c, i, toks[i], o)) return "cannot parse operand";
    c.ops[i] = o;
  }
  c.op_count = toks.size();
  if (ids) {
    bool any_vec = false;
    for (size_t i = 0; i < c.op_count; i++)
      if (c.ops[i].is_reg() && c.ops[i].as<Reg>().is_vec()) any_vec = true;
    bool want_v = force ? force == 'v' : any_vec;
    c.inst_id = want_v ? ids->back() : ids->front();
  }
  if (cc >= 0) c.inst_id = BaseInst::compose_arm_inst_id(c.inst_id, arm::CondCode(cc));
  return nullptr;
}

// ---------------------------------------------------------------------------------------------------------------------
// running one case
// ---------------------------------------------------------------------------------------------------------------------
static Error run_prepost(BaseAssembler& a, const LabelSet& ls, const std::vector<Case::PrePost>& ops) {
  static const std::vector<uint8_t> nops(1u << 20, 0x90);
  for (const Case::PrePost& p : ops) {
    Error e = p.bind ? a.bind(ls.l[p.n]) : (p.n ? a.embed(nops.data(), p.n) : Error::kOk);
    if (e != Error::kOk) return e;
  }
  return Error::kOk;
}

struct EmitResult {
  Error err = Error::kOk;
  Error post_err = Error::kOk;
  std::string hex;              // appended bytes after the post ops (forward references patched)
  std::string hex_at_emit;      // appended bytes right after the emit call
  long delta = 0;
  long cursor_delta = 0;
  size_t relocs = 0;
  std::string log;
  bool unbound_ref = false;     // the instruction references a label that is not bound when it is emitted
  bool ok_setup = true;
};

// One emission on a fresh CodeHolder.  `fmt` (optional) is called right after the emit call while the emitters and
// labels are alive; it receives the assembler, the label set and the materialized operands.
template<typename AssemblerT, typename Fn>
static void emit_once(CodeHolder& code, const Case& c, char lm, uint32_t logflags, EmitResult& r, Fn&& fmt) {
  code.reset(ResetPolicy::kSoft);
  Environment env(c.arch);
  if (code.init(env, c.a64 ? uint64_t(0) : Globals::kNoBaseAddress) != Error::kOk) { r.ok_setup = false; return; }
  AssemblerT a;
  StringLogger logger;
  logger.set_flags(FormatFlags(logflags));
  if (code.attach(&a) != Error::kOk) { r.ok_setup = false; return; }
  if (c.validate) a.add_diagnostic_options(DiagnosticOptions::kValidateAssembler);

  LabelSet ls;
  if (!make_labels(a, lm == '-' ? 'a' : lm, c.a64 ? 2 : kNumLabels, ls)) { r.ok_setup = false; code.detach(&a); return; }
  Operand_ ops[6];
  materialize(c, ls, ops);

  Error perr = c.a64 ? a.bind(ls.l[0]) : run_prepost(a, ls, c.pre);
  if (perr != Error::kOk) { r.err = perr; r.ok_setup = false; code.detach(&a); return; }

  for (size_t i = 0; i < c.op_count; i++) {
    uint32_t n = c.op_label[i] != ~0u ? c.op_label[i] : c.mem_label[i];
    if (n != ~0u && !code.is_label_bound(ls.l[n])) r.unbound_ref = true;
  }

  CodeBuffer& buf = code.text_section()->buffer();
  size_t size0 = buf.size();
  size_t off0 = a.offset();
  a.set_logger(&logger);
  logger.clear();
  BaseInst inst(c.inst_id, InstOptions(c.options), c.extra);
  r.err = a.emit_inst(inst, ops, c.op_count);
  r.log.assign(logger.data(), logger.data_size());
  a.set_logger(nullptr);
  size_t size1 = buf.size();
  size_t off1 = a.offset();

  if (off1 > off0 && off1 <= buf.size()) r.hex_at_emit = hex_of(buf.data() + off0, off1 - off0);

  fmt(a, ls, ops);

  if (!c.a64) r.post_err = run_prepost(a, ls, c.post);
  r.delta = long(size1) - long(size0);
  r.cursor_delta = long(off1) - long(off0);
  r.hex.clear();
  if (off1 > off0 && off1 <= buf.size()) r.hex = hex_of(buf.data() + off0, off1 - off0);
  r.relocs = code.reloc_entries().size();
  code.detach(&a);
}

static void fmt_error(const char* what, Error e) {
  fprintf(g_out, "X\t%s: %s\n", what, DebugUtils::error_as_string(e));
}

template<typename AssemblerT, typename CompilerT>
static void run_case(CodeHolder& code, const std::string& tag, const Case& c) {
  const bool is_x86 = !c.a64;
  const bool is64 = c.arch != Arch::kX86;
  std::vector<char> lms;
  if (c.has_label) lms = {'a', 'n', 'x', 'l', 'm'}; else lms = {'-'};
  const char* rms = is_x86 ? "pvuc" : "pvu";

  bool first = true;
  bool accepted = false;
  for (char lm : lms) {
    for (size_t li = 0; li < g_logflags.size(); li++) {
      EmitResult r;
      const bool primary = li == 0;
      std::vector<std::pair<char, std::string>> vlines;   // V lines
      std::vector<std::pair<char, TextSet>> tsets, nsets;
      std::string oline;
      std::string blabels;
      LabelSet ls_copy;
      emit_once<AssemblerT>(code, c, lm, g_logflags[li], r, [&](AssemblerT& a, const LabelSet& ls, const Operand_* ops) {
        ls_copy = ls;
        if (!primary || r.err != Error::kOk) return;
        // Formatter on the physical operands (emitter = the assembler)
        {
          TextSet ts;
          for (size_t fi = 0; fi < g_flags.size(); fi++) {
            String sb;
            Error e = Formatter::format_instruction(sb, FormatFlags(g_flags[fi]), &a, c.arch, BaseInst(c.inst_id, InstOptions(c.options), c.extra),
                                                    Span<const Operand_>(ops, c.op_count));
            if (e != Error::kOk) fmt_error("format_instruction", e);
            ts.add(std::string(sb.data(), sb.size()), fi);
          }
          tsets.emplace_back('p', ts);
          if (first) {
            for (size_t i = 0; i < c.op_count; i++) {
              String sb;
              Error e = Formatter::format_operand(sb, FormatFlags::kNone, &a, c.arch, ops[i]);
              if (e != Error::kOk) fmt_error("format_operand", e);
              if (i) oline.push_back('\x1f');
              oline.append(sb.data(), sb.size());
            }
          }
        }
        // virtual registers through a Compiler attached to the same CodeHolder
        for (const char* rm = rms + 1; *rm; rm++) {
          CompilerT cc;
          if (code.attach(&cc) != Error::kOk) continue;
          Operand_ vops[6];
          for (int i = 0; i < 6; i++) vops[i] = ops[i];
          RegOnly vextra = c.extra;
          VirtMap vm;
          virtualize_ops(cc, vm, is_x86, is64, *rm, vops, c.op_count, &vextra);
          if (!vm.entries.empty()) {
            vlines.emplace_back(*rm, vm.describe());
            TextSet ts;
            for (size_t fi = 0; fi < g_flags.size(); fi++) {
              String sb;
              Error e = Formatter::format_instruction(sb, FormatFlags(g_flags[fi]), &cc, c.arch, BaseInst(c.inst_id, InstOptions(c.options), vextra),
                                                      Span<const Operand_>(vops, c.op_count));
              if (e != Error::kOk) fmt_error("format_instruction(virt)", e);
              ts.add(std::string(sb.data(), sb.size()), fi);
            }
            tsets.emplace_back(*rm, ts);
            if (*rm == 'v') {
              // the node a Compiler records for the same request, printed by format_node
              cc.set_inst_options(InstOptions(c.options));
              cc.set_extra_reg(vextra);
              Error ee = cc._emit_op_array(c.inst_id, vops, c.op_count);
              BaseNode* node = cc.cursor();
              if (ee == Error::kOk && node && node->is_inst()) {
                TextSet ns;
                for (size_t fi = 0; fi < g_flags.size(); fi++) {
                  String sb;
                  FormatOptions fo;
                  fo.set_flags(FormatFlags(g_flags[fi]));
                  Error e = Formatter::format_node(sb, fo, &cc, node);
                  if (e != Error::kOk) fmt_error("format_node", e);
                  ns.add(std::string(sb.data(), sb.size()), fi);
                }
                nsets.emplace_back(*rm, ns);
              }
            }
          }
          code.detach(&cc);
        }
      });

      if (first) {
        // C record from the primary run of the first label mode
        first = false;
        const char* ename = DebugUtils::error_as_string(r.err);
        if (!r.ok_setup) {
          fprintf(g_out, "C\t%s\t-1\tE_PRE:%s\t-\t0\tr0\n", tag.c_str(), ename);
          return;
        }
        fprintf(g_out, "C\t%s\t%u\t%s\t%s\t%ld\tr%zu", tag.c_str(), unsigned(r.err), ename, r.hex.empty() ? "-" : r.hex.c_str(), r.delta, r.relocs);
        if (r.cursor_delta != r.delta) fprintf(g_out, " cursor-delta=%ld", r.cursor_delta);
        if (r.post_err != Error::kOk) fprintf(g_out, " post=%s", DebugUtils::error_as_string(r.post_err));
        fputc('\n', g_out);
        accepted = r.err == Error::kOk;
        if (!accepted) return;
      }
      if (!r.ok_setup || r.err != Error::kOk) continue;
      if (primary) {
        if (c.has_label) print_labels(lm, ls_copy);
        for (auto& v : vlines) fprintf(g_out, "V\t%c\t%s\n", v.first, v.second.c_str());
        for (auto& t : tsets) t.second.print('T', t.first, lm);
        for (auto& t : nsets) t.second.print('N', t.first, lm);
        if (!oline.empty() || c.op_count) { if (lm == lms[0]) fprintf(g_out, "O\t%c\t%s\n", lm, oline.c_str()); }
      }
      fprintf(g_out, "G\t%c\t%x\t%d\t%s\t%s\n", lm, g_logflags[li], r.unbound_ref ? 1 : 0, r.hex_at_emit.empty() ? "-" : r.hex_at_emit.c_str(),
              escape_nl(r.log.data(), r.log.size()).c_str());
    }
  }
}

static bool parse_flag_list(const char* s, std::vector<uint32_t>& out) {
  out.clear();
  for (const std::string& t : split(s, ',')) {
    if (t.empty()) continue;
    char* e = nullptr;
    unsigned long v = strtoul(t.c_str(), &e, 16);
    if (*e) return false;
    out.push_back(uint32_t(v));
  }
  return !out.empty();
}

int main(int argc, char** argv) {
  const char* in_path = nullptr;
  const char* out_path = nullptr;
  std::string arch = "x86";
  g_flags = {0};
  g_logflags = {1};
  for (int i = 1; i < argc; i++) {
    if (!strcmp(argv[i], "--in") && i + 1 < argc) in_path = argv[++i];
    else if (!strcmp(argv[i], "--out") && i + 1 < argc) out_path = argv[++i];
    else if (!strcmp(argv[i], "--arch") && i + 1 < argc) arch = argv[++i];
    else if (!strcmp(argv[i], "--flags") && i + 1 < argc) { if (!parse_flag_list(argv[++i], g_flags)) { fprintf(stderr, "bad --flags\n"); return 2; } }
    else if (!strcmp(argv[i], "--logflags") && i + 1 < argc) { if (!parse_flag_list(argv[++i], g_logflags)) { fprintf(stderr, "bad --logflags\n"); return 2; } }
    else { fprintf(stderr, "usage: c20_format --arch x86|a64 --flags F,.. [--logflags F,..] [--in FILE] [--out FILE]\n"); return 2; }
  }
  if (arch != "x86" && arch != "a64") { fprintf(stderr, "c20_format: unknown arch\n"); return 2; }
  FILE* in = in_path ? fopen(in_path, "r") : stdin;
  g_out = out_path ? fopen(out_path, "w") : stdout;
  if (!in || !g_out) { fprintf(stderr, "c20_format: cannot open files\n"); return 2; }
  static char obuf[1 << 16];
  setvbuf(g_out, obuf, _IOFBF, sizeof obuf);
  for (int s : {SIGSEGV, SIGBUS, SIGILL, SIGFPE, SIGABRT}) signal(s, on_signal);

  CodeHolder code;
  char* line = nullptr;
  size_t cap = 0;
  unsigned long lineno = 0;
  while (getline(&line, &cap, in) > 0) {
    lineno++;
    size_t n = strlen(line);
    while (n && (line[n - 1] == '\n' || line[n - 1] == '\r')) line[--n] = 0;
    std::string full(line), tag, text;
    size_t tab = full.find('\t');
    if (tab != std::string::npos) { tag = full.substr(0, tab); text = trim(full.substr(tab + 1)); }
    else { tag = std::to_string(lineno); text = trim(full); }
    if (text.empty() || text[0] == '#' || text[0] == ';') continue;
    snprintf(g_cur, sizeof g_cur, "%s", text.c_str());
    Case c;
    const char* bad = arch == "x86" ? parse_x86_case(text, c) : parse_a64_case(text, c);
    if (bad) {
      if (!strcmp(bad, "E_NAME")) fprintf(g_out, "C\t%s\t-1\tE_NAME\t-\t0\tr0\n", tag.c_str());
      else fprintf(g_out, "C\t%s\t-1\tE_PARSE:%s\t-\t0\tr0\n", tag.c_str(), bad);
      continue;
    }
    if (arch == "x86") run_case<x86::Assembler, x86::Compiler>(code, tag, c);
    else run_case<a64::Assembler, a64::Compiler>(code, tag, c);
  }
  fflush(g_out);
  if (g_out != stdout) fclose(g_out);
  free(line);
  return 0;
}
