// C07 - prolog/epilog preserve callee-saved state and keep frame areas disjoint.
// Enumerates frame configurations (deviation bounded) per calling convention and target, emits
// emit_prolog()/emit_epilog() into a Builder and interprets the node list with msim from several entry stack
// pointers; between prolog and epilog a synthetic body overwrites every dirty/volatile register and every byte
// of the local, call and red-zone areas.
#include "xplor.h"
#include "msim.h"
#include <asmjit/core.h>
#include <asmjit/x86.h>
#include <asmjit/a64.h>
#include <algorithm>

using namespace asmjit;

enum ArchSel { AX64 = 0, AX86 = 1, AA64 = 2 };
static const char* arch_name(int a) { return a == AX64 ? "x64" : a == AX86 ? "x86" : "a64"; }

struct Conv { int arch; CallConvId id; const char* name; Platform platform; };
static std::vector<Conv> convs() {
  return {
    {AX64, CallConvId::kX64SystemV, "sysv", Platform::kLinux}, {AX64, CallConvId::kX64Windows, "win64", Platform::kWindows}, {AX64, CallConvId::kVectorCall, "vectorcall64", Platform::kWindows},
    {AX64, CallConvId::kLightCall2, "lightcall2-64", Platform::kLinux},
    {AX86, CallConvId::kCDecl, "cdecl", Platform::kLinux}, {AX86, CallConvId::kStdCall, "stdcall", Platform::kWindows}, {AX86, CallConvId::kFastCall, "fastcall", Platform::kWindows},
    {AX86, CallConvId::kThisCall, "thiscall", Platform::kWindows}, {AX86, CallConvId::kRegParm3, "regparm3", Platform::kLinux}, {AX86, CallConvId::kVectorCall, "vectorcall32", Platform::kWindows},
    {AX86, CallConvId::kLightCall3, "lightcall3-32", Platform::kLinux},
    {AA64, CallConvId::kCDecl, "aapcs64", Platform::kLinux}, {AA64, CallConvId::kCDecl, "apple-arm64", Platform::kOSX},
  };
}

struct Cfg {
  int conv_index; uint32_t gp_dirty_sel, vec_dirty_sel, k_dirty_sel; uint32_t local_size, local_align, call_size, call_align; bool fp, calls; int avx; int sp_sel; int nargs;
  int sa_sel = 0;  // stack-argument base register: 0 chosen by the frame, 1 set_sa_reg_id(a callee-saved register), 2 set_sa_reg_id(a volatile register)
  int order = 0;   // 0: local stack attributes are set before the call stack attributes; 1: the register allocator's order (update_call_stack_* first, set_local_stack_* last)
  std::string str() const {
    char b[256]; snprintf(b, sizeof b, "conv=%d gp=%u vec=%u k=%u lsize=%u lalign=%u csize=%u calign=%u fp=%d calls=%d avx=%d sp=%d nargs=%d order=%d sa=%d", conv_index, gp_dirty_sel, vec_dirty_sel, k_dirty_sel, local_size, local_align, call_size, call_align, fp, calls, avx, sp_sel, nargs, order, sa_sel);
    return b;
  }
};

static const uint32_t kLocalSize[] = {0, 1, 8, 15, 16, 17, 4095, 4096, 65535};
static const uint32_t kLocalAlign[] = {0, 8, 16, 32, 64};
static const uint32_t kCallSize[] = {0, 8, 32, 40};
static const uint32_t kCallAlign[] = {0, 16, 32};

static std::string g_why, g_clause;
static bool g_da = false;   // the frame under test requests dynamic stack alignment (part of the violation key)
#define FAIL(cl, ...) do { char _b[600]; snprintf(_b, sizeof _b, __VA_ARGS__); g_why = _b; g_clause = cl; return false; } while (0)

// register alphabets per arch: 2 preserved + 2 volatile (+FP/LR) chosen from the convention's own preserved set
static std::vector<uint32_t> pick_regs(RegMask preserved, uint32_t count_total, uint32_t exclude_mask, int want_pres, int want_vol) {
  std::vector<uint32_t> v; int np = 0, nv = 0;
  for (uint32_t i = 0; i < count_total; i++) { if (exclude_mask & (1u << i)) continue; bool p = preserved & (1u << i); if (p && np < want_pres) { v.push_back(i); np++; } else if (!p && nv < want_vol) { v.push_back(i); nv++; } }
  return v;
}

static uint64_t token(int kind, uint32_t id, int lane = 0) { return 0x1000000000000000ull * (kind + 1) + 0x0101010101ull * (id + 1) + uint64_t(lane) * 0x11; }

static bool run_cfg(const Cfg& cf) {
  vh::Ctx& c = vh::ctx();
  Conv cv = convs()[cf.conv_index];
  vh::set_case("harness=c07_frames\n" + cf.str() + "\n");
  Environment env(cv.arch == AX64 ? Arch::kX64 : cv.arch == AX86 ? Arch::kX86 : Arch::kAArch64);
  env.set_platform(cv.platform);
  // signature: nargs integer arguments (beyond the register arguments they live on the stack)
  FuncSignature sig(cv.id);
  sig.set_ret(TypeId::kInt32);
  // nargs >= 200: (nargs-200) 16-byte vectors; nargs >= 100: (nargs-100) doubles: stack argument areas of 256 bytes and more on 32-bit targets
  for (int i = 0; i < cf.nargs % 100; i++) sig.add_arg(cf.nargs >= 200 ? TypeId::kInt32x4 : cf.nargs >= 100 ? TypeId::kFloat64 : TypeId::kIntPtr);
  FuncDetail func;
  if (func.init(sig, env) != Error::kOk) { c.n("conv_unsupported")++; return true; }
  FuncFrame frame;
  if (frame.init(func) != Error::kOk) FAIL("frame-init", "FuncFrame::init failed");
  bool is_x86 = cv.arch != AA64;
  uint32_t ngp = cv.arch == AX86 ? 8 : cv.arch == AX64 ? 16 : 31, nvec = cv.arch == AX86 ? 8 : cv.arch == AX64 ? 16 : 32;
  uint32_t sp_id = is_x86 ? 4 : 31, fp_id = is_x86 ? 5 : 29;
  RegMask pres_gp = frame.preserved_regs(RegGroup::kGp), pres_vec = frame.preserved_regs(RegGroup::kVec), pres_k = is_x86 ? frame.preserved_regs(RegGroup::kMask) : 0;
  std::vector<uint32_t> gp_al = pick_regs(pres_gp, ngp, (1u << sp_id) | (1u << fp_id) | (is_x86 ? 0 : (1u << 30) | (1u << 18)), 3, 2);
  std::vector<uint32_t> vec_al = pick_regs(pres_vec, nvec, 0, 2, 2);
  if (cv.arch == AX64 && cf.avx == 2) { vec_al.push_back(17); }   // a high zmm register (volatile everywhere)
  RegMask gp_dirty = 0, vec_dirty = 0, k_dirty = 0;
  for (size_t i = 0; i < gp_al.size(); i++) if (cf.gp_dirty_sel & (1u << i)) gp_dirty |= 1u << gp_al[i];
  if (cf.gp_dirty_sel & 32) gp_dirty |= 1u << fp_id;
  if (!is_x86 && (cf.gp_dirty_sel & 64)) gp_dirty |= 1u << 30;
  for (size_t i = 0; i < vec_al.size(); i++) if (cf.vec_dirty_sel & (1u << i)) vec_dirty |= 1u << vec_al[i];
  if (is_x86 && cf.avx == 2) k_dirty = (cf.k_dirty_sel & 1 ? 2u : 0) | (cf.k_dirty_sel & 2 ? 0x80u : 0);
  frame.add_dirty_regs(RegGroup::kGp, gp_dirty); frame.add_dirty_regs(RegGroup::kVec, vec_dirty);
  if (k_dirty) frame.add_dirty_regs(RegGroup::kMask, k_dirty);
  if (cf.fp) frame.set_preserved_fp();
  if (cf.calls) frame.set_func_calls();
  if (is_x86 && cf.avx >= 1) frame.set_avx_enabled();
  if (is_x86 && cf.avx == 2) frame.set_avx512_enabled();
  if (cf.sa_sel) {
    // an explicitly selected stack-argument base register (first callee-saved / first volatile register of the alphabet)
    uint32_t pick = Reg::kIdBad;
    for (uint32_t r : gp_al) { bool pres = (pres_gp >> r) & 1; if ((cf.sa_sel == 1) == pres) { pick = r; break; } }
    if (pick == Reg::kIdBad) { c.n("sa_choice_not_available")++; return true; }
    frame.set_sa_reg_id(pick);
  }
  if (cf.order == 0) {
    frame.set_local_stack_size(cf.local_size); if (cf.local_align) frame.set_local_stack_alignment(cf.local_align);
    frame.set_call_stack_size(cf.call_size); if (cf.call_align) frame.set_call_stack_alignment(cf.call_align);
  } else {
    frame.update_call_stack_size(cf.call_size); if (cf.call_align) frame.update_call_stack_alignment(cf.call_align);
    frame.set_local_stack_size(cf.local_size); if (cf.local_align) frame.set_local_stack_alignment(cf.local_align);
  }
  if (frame.finalize() != Error::kOk) FAIL("finalize", "FuncFrame::finalize failed");
  g_da = frame.has_dynamic_alignment();

  CodeHolder code; code.init(env);
  x86::Builder xb; a64::Builder ab; BaseBuilder* b = is_x86 ? (BaseBuilder*)&xb : (BaseBuilder*)&ab;
  code.attach(b);
  if (b->emit_prolog(frame) != Error::kOk) FAIL("emit-prolog", "emit_prolog failed");
  BaseNode* boundary = b->cursor();
  if (b->emit_epilog(frame) != Error::kOk) FAIL("emit-epilog", "emit_epilog failed");
  BaseNode* first = b->first_node();
  c.n("evaluations")++;

  msim::Machine m; m.a64 = !is_x86; m.is64 = cv.arch != AX86;
  unsigned rs = m.regsize();
  // entry stack pointer: as left by a call from a 16-byte aligned caller
  uint64_t S0 = 0x7FFF0000ull + uint64_t(cf.sp_sel) * 16 - (is_x86 ? rs : 0);
  for (uint32_t i = 0; i < 32; i++) m.gp[i] = token(0, i);
  for (uint32_t i = 0; i < 32; i++) for (int l = 0; l < 8; l++) { uint64_t t = token(1, i, l); memcpy(m.vec[i] + 8 * l, &t, 8); }
  for (uint32_t i = 0; i < 8; i++) { m.kreg[i] = token(2, i); m.mm[i] = token(3, i); }
  m.sp() = S0;
  uint64_t ret_token = m.is64 ? 0x00007F00DEADBEE0ull : 0xDEADBEE0ull;
  if (is_x86) m.wr(S0, ret_token, rs); else m.gp[30] = ret_token;
  uint64_t caller_lo = S0 + (is_x86 ? rs : 0);
  for (uint64_t a = caller_lo; a < caller_lo + 512; a++) m.wr8(a, uint8_t(0x40 + (a * 7) % 0x3F));
  uint64_t entry_gp[32]; memcpy(entry_gp, m.gp, sizeof entry_gp);
  uint8_t entry_vec[32][64]; memcpy(entry_vec, m.vec, sizeof entry_vec);
  uint64_t entry_k[8]; memcpy(entry_k, m.kreg, sizeof entry_k);

  BaseNode* resume = nullptr;
  if (boundary) { if (!msim::run(m, first, first, boundary, &resume)) FAIL("hang", "prolog did not terminate"); }
  else resume = first;
  if (!m.unsupported.empty()) { c.n("undecided")++; c.note("undecided: " + m.unsupported); return true; }
  if (!m.fault.empty()) FAIL("fault-prolog", "prolog: %s", m.fault.c_str());
  if (m.returned) FAIL("prolog-returned", "prolog executed a return");

  // ---- body ----
  uint64_t sp = m.sp();
  bool uses_stack = cf.local_size || cf.call_size || cf.calls;
  uint32_t fa = frame.final_stack_alignment();
  if (fa < cf.local_align || fa < cf.call_align) FAIL("final-alignment", "final_stack_alignment() = %u is smaller than a requested alignment (local %u, call %u)", fa, cf.local_align, cf.call_align);
  if (uses_stack && fa && (sp % fa)) FAIL("sp-alignment", "stack pointer %llx inside the body is not aligned to the promised %u", (unsigned long long)sp, fa);
  if (!is_x86 && (sp & 15)) FAIL("sp-alignment", "AArch64 stack pointer %llx inside the body is not 16-byte aligned", (unsigned long long)sp);
  uint64_t local_lo = sp + frame.local_stack_offset(), local_hi = local_lo + cf.local_size;
  uint64_t call_lo = sp, call_hi = sp + cf.call_size;
  if (cf.local_size && cf.local_align && (local_lo % cf.local_align)) FAIL("local-alignment", "local area at %llx is not aligned to %u", (unsigned long long)local_lo, cf.local_align);
  if (cf.call_size && cf.call_align && (call_lo % cf.call_align)) FAIL("call-alignment", "call area at %llx is not aligned to %u", (unsigned long long)call_lo, cf.call_align);
  if (cf.local_size && cf.call_size && local_lo < call_hi) FAIL("local-call-overlap", "local area overlaps the call area");
  if (local_hi > S0 && cf.local_size) FAIL("local-above-entry", "local area reaches into the return address / caller frame");
  if (call_hi > S0 && cf.call_size) FAIL("call-above-entry", "call area reaches into the return address / caller frame");
  // stack arguments are found where the frame says
  {
    uint64_t args_base = caller_lo;   // first stack argument as the caller placed it
    if (!frame.has_dynamic_alignment()) { if (sp + frame.sa_offset_from_sp() != args_base) FAIL("sa-offset-sp", "sp + sa_offset_from_sp() = %llx but the first stack argument is at %llx", (unsigned long long)(sp + frame.sa_offset_from_sp()), (unsigned long long)args_base); }
    uint32_t sa = frame.sa_reg_id();
    if (sa != Reg::kIdBad && sa != sp_id) {
      uint64_t sav = m.gp[sa == a64::Gp::kIdSp ? 31 : sa];
      if (sav + frame.sa_offset_from_sa() != args_base) FAIL("sa-offset-sa", "sa register + sa_offset_from_sa() = %llx but the first stack argument is at %llx", (unsigned long long)(sav + frame.sa_offset_from_sa()), (unsigned long long)args_base);
    }
  }
  // overwrite: locals, call area, red zone
  for (uint64_t a = local_lo; a < local_hi; a++) m.wr8(a, 0xB1);
  for (uint64_t a = call_lo; a < call_hi; a++) m.wr8(a, 0xB2);
  if (frame.red_zone_size() && !cf.calls) for (uint64_t a = sp - frame.red_zone_size(); a < sp; a++) m.wr8(a, 0xB3);
  // overwrite registers: everything the body may legally change = dirty set + all volatile registers (never SP, never a preserved FP, never the SA register when in use)
  uint32_t sa = frame.sa_reg_id();
  for (uint32_t i = 0; i < ngp; i++) {
    if (i == sp_id) continue;
    if (i == fp_id && (cf.fp || !is_x86)) continue;
    if (!is_x86 && i == 18) continue;   // platform register
    bool may = (frame.dirty_regs(RegGroup::kGp) >> i) & 1 || !((pres_gp >> i) & 1);
    if (sa != Reg::kIdBad && i == sa && frame.has_dynamic_alignment()) continue;
    if (!is_x86 && i == 30) may = (frame.dirty_regs(RegGroup::kGp) >> 30) & 1;
    if (may) m.gp[i] = 0xBAD0000000000000ull + i;
  }
  if (!m.is64) for (uint32_t i = 0; i < 8; i++) m.gp[i] &= 0xFFFFFFFFull;
  for (uint32_t i = 0; i < nvec + (cv.arch == AX64 ? 16 : 0) && i < 32; i++) { bool may = (frame.dirty_regs(RegGroup::kVec) >> i) & 1 || !((pres_vec >> i) & 1); if (may) memset(m.vec[i], 0xBD, 64); }
  if (is_x86) for (uint32_t i = 0; i < 8; i++) { bool may = (frame.dirty_regs(RegGroup::kMask) >> i) & 1 || !((pres_k >> i) & 1); if (may) m.kreg[i] = 0xBADBADBADull; }

  // ---- epilog ----
  m.uninit_read = false;
  if (!msim::run(m, first, resume)) FAIL("hang", "epilog did not terminate");
  if (!m.unsupported.empty()) { c.n("undecided")++; c.note("undecided: " + m.unsupported); return true; }
  if (!m.fault.empty()) FAIL("fault-epilog", "epilog: %s", m.fault.c_str());
  if (!m.returned) FAIL("no-return", "epilog did not return");
  if (m.uninit_read) FAIL("uninit-read", "epilog read stack memory at %llx that was never written", (unsigned long long)m.uninit_addr);
  if (m.ret_target != ret_token) FAIL("return-address", "returned to %llx instead of the caller's return address", (unsigned long long)m.ret_target);
  // what the convention prescribes, from FuncDetail (checked against the ABI by C06), not from the frame under test
  uint64_t pops = func.has_flag(CallConvFlags::kCalleePopsStack) ? func.arg_stack_size() : 0;
  uint64_t want_sp = S0 + (is_x86 ? rs : 0) + pops;
  if (m.sp() != (want_sp & m.addr_mask())) FAIL("sp-after-return", "stack pointer after return is %llx, convention requires %llx (callee pops %llu)", (unsigned long long)m.sp(), (unsigned long long)want_sp, (unsigned long long)pops);
  for (uint32_t i = 0; i < ngp; i++) {
    if (i == sp_id) continue;
    if (!((pres_gp >> i) & 1)) continue;
    uint64_t want = entry_gp[i] & (m.is64 ? ~0ull : 0xFFFFFFFFull);
    if (m.gp[i] != want) FAIL("callee-saved-gp", "callee-saved gp register %u not restored (%llx instead of %llx)", i, (unsigned long long)m.gp[i], (unsigned long long)want);
  }
  unsigned vec_pres_bytes = is_x86 ? 16 : 8;
  for (uint32_t i = 0; i < 32; i++) if ((pres_vec >> i) & 1) if (memcmp(m.vec[i], entry_vec[i], vec_pres_bytes) != 0) FAIL("callee-saved-vec", "callee-saved vector register %u not restored", i);
  if (is_x86) for (uint32_t i = 0; i < 8; i++) if ((pres_k >> i) & 1) if (m.kreg[i] != entry_k[i]) FAIL("callee-saved-mask", "callee-saved mask register k%u not restored", i);
  for (uint64_t a = caller_lo; a < caller_lo + 512; a++) if (m.rd8(a) != uint8_t(0x40 + (a * 7) % 0x3F)) FAIL("caller-frame", "caller frame byte at entry_sp+%llu was overwritten", (unsigned long long)(a - S0));
  c.outcomes.insert(std::string(cv.name) + (frame.has_dynamic_alignment() ? ":da" : "") + (cf.fp ? ":fp" : "") + (pops ? ":pops" : "") + (frame.saved_regs(RegGroup::kVec) ? ":vsave" : "") + (frame.saved_regs(RegGroup::kGp) ? ":gsave" : ""));
  return true;
}

static void report(const Cfg& cf) {
  Conv cv = convs()[cf.conv_index];
  vh::ctx().violation(std::string("frame:") + arch_name(cv.arch) + ":" + cv.name + ":" + g_clause + (g_da ? ":dynamic-alignment" : cf.sa_sel ? ":explicit-sa" : ""), g_why + " :: " + cv.name + " " + cf.str(), "harness=c07_frames\n" + cf.str() + "\n");
}

static Cfg draw(xplor::Chooser& ch, int conv_index, int arch) {
  Cfg cf; cf.conv_index = conv_index;
  static const uint32_t gpsel[] = {0x03, 0, 0x01, 0x04, 0x07, 0x1F, 0x20, 0x23, 0x3F, 0x40, 0x7F, 0x08, 0x18, 0x05};
  cf.gp_dirty_sel = gpsel[ch.choose(14)];
  static const uint32_t vsel[] = {0, 1, 2, 3, 4, 0xF, 0x1F, 5};
  cf.vec_dirty_sel = vsel[ch.choose(8)];
  cf.k_dirty_sel = ch.choose(4);
  cf.local_size = kLocalSize[ch.choose(9)];
  cf.local_align = kLocalAlign[ch.choose(5)];
  cf.call_size = kCallSize[ch.choose(4)];
  cf.call_align = kCallAlign[ch.choose(3)];
  cf.fp = ch.choose(2); cf.calls = ch.choose(2);
  cf.avx = arch == AA64 ? 0 : ch.choose(3);
  cf.sp_sel = ch.choose(4);
  static const int na[] = {2, 0, 7, 10, 32, 132, 225, 131};
  cf.nargs = na[ch.choose(8)];
  cf.order = ch.choose(2);
  cf.sa_sel = ch.choose(3);
  return cf;
}

int main(int argc, char** argv) {
  vh::parse_args(argc, argv);
  vh::Ctx& c = vh::ctx();
  if (c.replaying()) {
    Cfg cf{}; int fp, calls;
    for (auto& line : vh::split(c.replay_text, '\n')) if (line.rfind("conv=", 0) == 0) {
      sscanf(line.c_str(), "conv=%d gp=%u vec=%u k=%u lsize=%u lalign=%u csize=%u calign=%u fp=%d calls=%d avx=%d sp=%d nargs=%d order=%d sa=%d", &cf.conv_index, &cf.gp_dirty_sel, &cf.vec_dirty_sel, &cf.k_dirty_sel, &cf.local_size, &cf.local_align, &cf.call_size, &cf.call_align, &fp, &calls, &cf.avx, &cf.sp_sel, &cf.nargs, &cf.order, &cf.sa_sel);
      cf.fp = fp; cf.calls = calls;
      if (!run_cfg(cf)) report(cf);
    }
    return vh::finish();
  }
  int bound = c.thorough() ? 4 : 3;
  if (!c.opt("bound").empty()) bound = atoi(c.opt("bound").c_str());
  std::vector<Conv> cvs = convs();
  long long idx = 0;
  for (size_t ci = 0; ci < cvs.size(); ci++) {
    auto st = xplor::explore_deviations(bound, [&](xplor::Chooser& ch) -> bool {
      Cfg cf = draw(ch, (int)ci, cvs[ci].arch);
      if (!c.mine(idx++)) return true;
      if (c.tick(64)) return false;
      if (!run_cfg(cf)) report(cf); else c.sample(std::string(cvs[ci].name) + " " + cf.str(), 6);
      return true;
    });
    (void)st;
  }
  c.n("distinct_nontrivial") = c.n("evaluations") - c.n("undecided");
  c.n("states") = c.n("evaluations"); c.n("transitions") = c.n("evaluations"); c.n("traces") = c.n("evaluations");
  c.strs["bound"] = "default frame + <=" + std::to_string(bound) + " deviations over 13 choice points per convention; " + std::to_string(cvs.size()) + " conventions/targets";
  c.strs["rule"] = "frame configuration = dirty GP/vector/mask register subsets (preserved and volatile, FP, LR) x local size {0,1,8,15,16,17,4095,4096,65535} x local alignment {-,8,16,32,64} x "
                   "call area size/alignment x preserved FP x has-calls x SSE/AVX/AVX-512 save mode x 4 entry stack pointers x 4 argument counts; prolog and epilog are interpreted by the msim "
                   "node simulator with a synthetic body in between that destroys every dirty/volatile register and every byte of the local, call and red-zone areas";
  c.assumptions.push_back("generated prolog/epilog are interpreted (msim, semantics from the ISA manuals), not executed; cases using an instruction outside msim's vocabulary are counted as undecided");
  c.assumptions.push_back("the preserved-register sets are taken from CallConv (judged against the ABI by C06)");
  return vh::finish();
}
