// C20 (leg) - the text handed to the ErrorHandler / logger for a REJECTED instruction denotes the instruction that was
// requested: "<error>: <instruction text> [; <inline comment>]" where the instruction text is what
// Formatter::format_instruction(kRegType) prints for the same id, options, extra register and operands (that text itself is
// judged by the main C20 leg).  Full product of a small alphabet: emitters x rejected instruction kinds x {k1..k7|none} x
// {z} x option prefixes x inline comment; every case on a fresh emitter and as the second rejected call of the same emitter.
#include "vh.h"
#include <asmjit/core.h>
#include <asmjit/x86.h>
#include <asmjit/a64.h>

using namespace asmjit;

struct Rec : ErrorHandler { std::string msg; int n = 0; void handle_error(Error, const char* m, BaseEmitter*) override { msg = m ? m : ""; n++; } };

struct X86Kind { const char* name; InstId id; Operand ops[4]; int nops; bool needs_validation; };

static std::vector<X86Kind> x86_kinds(bool is64) {
  using namespace x86;
  std::vector<X86Kind> v;
  // refused by the encoder itself
  v.push_back({"vaddps-bad-index", Inst::kIdVaddps, {zmm0, zmm1, zmmword_ptr(is64 ? Gp(rax) : Gp(eax), is64 ? Gp(rsp) : Gp(esp))}, 3, false});
  v.push_back({"vpaddd-bad-index", Inst::kIdVpaddd, {ymm3, ymm4, ymmword_ptr(is64 ? Gp(rbx) : Gp(ebx), is64 ? Gp(rsp) : Gp(esp), 2, 64)}, 3, false});
  v.push_back({"mov-invalid-label", Inst::kIdMov, {eax, dword_ptr(Label(777))}, 2, false});
  // refused by strict validation only
  v.push_back({"add-size-mismatch", Inst::kIdAdd, {eax, bx}, 2, true});
  v.push_back({"vaddps-mixed-width", Inst::kIdVaddps, {xmm0, ymm1, xmm2}, 3, true});
  return v;
}

static void run_x86(bool is64, int emitter_kind /*0 asm, 1 builder, 2 compiler*/) {
  vh::Ctx& c = vh::ctx();
  std::vector<X86Kind> kinds = x86_kinds(is64);
  static const InstOptions kOpts[] = {InstOptions::kNone, InstOptions::kX86_Lock, InstOptions::kX86_Rep, InstOptions::kX86_Evex, InstOptions::kX86_Vex3};
  static const char* kOptName[] = {"none", "lock", "rep", "evex", "vex3"};
  for (size_t ki = 0; ki < kinds.size(); ki++) for (int k = 0; k < 8; k++) for (int z = 0; z < 2; z++) for (int oi = 0; oi < 5; oi++) for (int cm = 0; cm < 2; cm++) for (int second = 0; second < 2; second++) {
    const X86Kind& K = kinds[ki];
    if (emitter_kind != 0 && !K.needs_validation && ki != 2) { /* Builder/Compiler only refuse at emit time through validation */ continue; }
    CodeHolder code; code.init(Environment(is64 ? Arch::kX64 : Arch::kX86));
    Rec rec; code.set_error_handler(&rec);
    x86::Assembler as; x86::Builder bl; x86::Compiler cc;
    BaseEmitter* e = emitter_kind == 0 ? (BaseEmitter*)&as : emitter_kind == 1 ? (BaseEmitter*)&bl : (BaseEmitter*)&cc;
    code.attach(e);
    if (emitter_kind == 0) e->add_diagnostic_options(DiagnosticOptions::kValidateAssembler); else e->add_diagnostic_options(DiagnosticOptions::kValidateIntermediate);
    char tag[160]; snprintf(tag, sizeof tag, "x86 mode=%d emitter=%d kind=%s k=%d z=%d opt=%s comment=%d second=%d", is64 ? 64 : 32, emitter_kind, K.name, k, z, kOptName[oi], cm, second);
    vh::set_case(std::string("harness=c20_failmsg\n") + tag + "\n");
    c.n("evaluations")++;
    for (int round = 0; round <= second; round++) {
      InstOptions opt = kOpts[oi] | (z ? InstOptions::kX86_ZMask : InstOptions::kNone);
      const char* comment = cm ? (round ? "second-comment" : "blend-step-7") : nullptr;
      e->add_inst_options(opt);
      if (k) e->set_extra_reg(x86::KReg(uint32_t(k)));
      if (comment) e->set_inline_comment(comment);
      rec.msg.clear(); rec.n = 0;
      Error err = e->_emit_op_array(K.id, K.ops, size_t(K.nops));
      if (err == Error::kOk) { c.n("accepted")++; break; }   // this combination is not rejected: nothing to judge
      if (round < second) continue;
      // expected text
      String sb; sb.append(DebugUtils::error_as_string(err)); sb.append(": ");
      BaseInst inst(K.id, opt); if (k) inst = BaseInst(K.id, opt, (const Reg&)x86::KReg(uint32_t(k)));
      Operand_ ops[Globals::kMaxOpCount]; for (size_t i = 0; i < Globals::kMaxOpCount; i++) ops[i] = i < size_t(K.nops) ? (const Operand_&)K.ops[i] : (const Operand_&)Operand();
      Formatter::format_instruction(sb, FormatFlags::kRegType, e, e->arch(), inst, Span<const Operand_>(ops, Globals::kMaxOpCount));
      if (comment) { sb.append(" ; "); sb.append(comment); }
      c.n("distinct_nontrivial")++;
      if (rec.n != 1) { c.violation(std::string("failmsg:x86:handler-calls:") + K.name, std::string("the error handler was called ") + std::to_string(rec.n) + " times for one rejected instruction :: " + tag, std::string("harness=c20_failmsg\n") + tag + "\n"); continue; }
      if (rec.msg != sb.data()) {
        const char* what = (k && rec.msg.find("{k") == std::string::npos) ? "mask" : (comment && rec.msg.find(comment) == std::string::npos) ? "comment" : "text";
        c.violation(std::string("failmsg:x86:") + what + ":" + K.name, std::string("message for the rejected instruction is `") + rec.msg + "`, the requested instruction is `" + sb.data() + "` :: " + tag, std::string("harness=c20_failmsg\n") + tag + "\n");
      }
    }
  }
}

static void run_a64() {
  vh::Ctx& c = vh::ctx();
  using namespace a64;
  struct K { const char* name; InstId id; Operand ops[4]; int nops; };
  std::vector<K> kinds = {
    {"add-bad-imm", Inst::kIdAdd, {w0, w1, Imm(0x1001)}, 3},
    {"ldr-bad-offset", Inst::kIdLdr, {x2, a64::ptr(x3, 32761)}, 2},
    {"and-bad-logical-imm", Inst::kIdAnd, {x4, x5, Imm(0x12345)}, 3},
    {"bind-free-b", Inst::kIdB, {Label(999)}, 1},
  };
  for (size_t ki = 0; ki < kinds.size(); ki++) for (int cm = 0; cm < 2; cm++) for (int second = 0; second < 2; second++) {
    const K& Kk = kinds[ki];
    CodeHolder code; code.init(Environment(Arch::kAArch64));
    Rec rec; code.set_error_handler(&rec);
    a64::Assembler as(&code);
    char tag[160]; snprintf(tag, sizeof tag, "a64 kind=%s comment=%d second=%d", Kk.name, cm, second);
    vh::set_case(std::string("harness=c20_failmsg\n") + tag + "\n");
    c.n("evaluations")++;
    for (int round = 0; round <= second; round++) {
      const char* comment = cm ? (round ? "second-comment" : "spill-slot-3") : nullptr;
      if (comment) as.set_inline_comment(comment);
      rec.msg.clear(); rec.n = 0;
      Error err = as._emit_op_array(Kk.id, Kk.ops, size_t(Kk.nops));
      if (err == Error::kOk) { c.n("accepted")++; break; }
      if (round < second) continue;
      String sb; sb.append(DebugUtils::error_as_string(err)); sb.append(": ");
      Operand_ ops[Globals::kMaxOpCount]; for (size_t i = 0; i < Globals::kMaxOpCount; i++) ops[i] = i < size_t(Kk.nops) ? (const Operand_&)Kk.ops[i] : (const Operand_&)Operand();
      Formatter::format_instruction(sb, FormatFlags::kRegType, &as, as.arch(), BaseInst(Kk.id), Span<const Operand_>(ops, Globals::kMaxOpCount));
      if (comment) { sb.append(" ; "); sb.append(comment); }
      c.n("distinct_nontrivial")++;
      if (rec.n != 1 || rec.msg != sb.data())
        c.violation(std::string("failmsg:a64:") + ((comment && rec.msg.find(comment) == std::string::npos) ? "comment" : "text") + ":" + Kk.name, std::string("message for the rejected instruction is `") + rec.msg + "` (" + std::to_string(rec.n) + " handler calls), the requested instruction is `" + sb.data() + "` :: " + tag, std::string("harness=c20_failmsg\n") + tag + "\n");
    }
  }
}

int main(int argc, char** argv) {
  vh::parse_args(argc, argv);
  vh::Ctx& c = vh::ctx();
  // (replay: the space is small - everything is re-run and the same keys are reported)
  for (int is64 = 0; is64 < 2; is64++) for (int ek = 0; ek < 3; ek++) run_x86(is64 != 0, ek);
  run_a64();
  c.n("traces") = c.n("evaluations"); c.n("states") = c.n("evaluations"); c.n("transitions") = c.n("evaluations");
  c.strs["bound_failmsg_leg"] = "failure messages: {x86-32, x86-64} x {Assembler, Builder, Compiler} x 5 rejected instruction kinds x {no mask, k1..k7} x {z} x {none, lock, rep, evex, vex3} x "
                                "{inline comment} x {first, second rejected call of the emitter}; AArch64 Assembler x 4 kinds x comment x first/second; message == error name + Formatter text + comment";
  return vh::finish();
}
