// c13_names - C13 helper harness (the parts of the check that need the C++ API).
//
//   c13_names [--tier T] [--out result.json] [--aliases FILE] [--replay FILE]
//       NAME ROUND TRIP (default mode; vh result JSON).  For arch in {x86, a64}, every instruction id 1..count-1:
//         s   = InstAPI::inst_id_to_string(arch, id)
//         id2 = InstAPI::string_to_inst_id(arch, s, len)   (explicit length AND len = SIZE_MAX on a NUL-terminated copy)
//       clauses (violation key  names:<arch>:<clause>:<name>):
//         name-roundtrip        id2 is not a defined id or inst_id_to_string(id2) != s.  When the string is simply NOT FOUND and
//                               the arch's id->name sequence is not sorted (so a binary search over it cannot work) the clause is
//                               written  name-roundtrip[unsorted-id-table]  (root-cause class)
//         name-id-differs       the name is carried by exactly one id (linear scan over inst_id_to_string) but id2 != id
//         alias                 --aliases FILE lines "<arch> <alias> <canonical>[,<canonical>...]" (from the ISA database): when
//                               some id carries a canonical name and no id carries the alias name itself, the alias must resolve
//                               to an id whose name is one of the canonical names
//         unknown-string        upper-case / capitalised / truncated / extended / empty / over-long / non-letter strings that are
//                               neither an instruction name nor a database alias must give BaseInst::kIdNone (or, at the very
//                               least, an id that really carries the string as its name)
//       The oracle's name table is a std::map built by a linear scan with inst_id_to_string; it never uses the lookup under test.
//
//   c13_names --mode validate-x86 --in FILE --res FILE
//       reads the case lines of harness/emit_x86.cpp (same grammar; <diag>, pad= and bind= are ignored) and calls
//       InstAPI::validate(Arch::kX86 | kX64, BaseInst(id, options, extra), operands, count) directly.
//       output line:  <line number> <error code> <error name>      (-1 E_PARSE:<what> / -1 E_NAME like emit_x86)
//   c13_names --mode recycle-x86 --in FILE --res FILE
//       "recycled emitter across modes": the same case lines; per line and per emitter kind (x86::Assembler, x86::Builder,
//       x86::Compiler; validation on: kValidateAssembler | kValidateIntermediate) the case is emitted by a FRESH emitter on a
//       fresh CodeHolder of the line's mode and by an emitter OBJECT that was first attached to a holder of the OTHER x86 mode,
//       used there (one nop), and taken off it in one of three ways - code.detach(&e); holder.reset(kHard) with the same
//       holder re-initialised for the new mode; holder destroyed.  Builder/Compiler results include finalize().
//       output line:  <line number> asm <fresh> <way0> <way1> <way2> builder <fresh> <w0> <w1> <w2> compiler <fresh> <w0> <w1> <w2>
//       each result = <error name>[/pre=..][/post=..][/finalize=..]:<hex of .text or '-'>; the oracle (python) demands
//       recycled == fresh.
//   c13_names --mode validate-a64 --in FILE --res FILE
//       reads the case lines of harness/emit_a64.cpp ([<tag> TAB] text; parsed by emit_a64's own operand parser, which this
//       file includes unmodified) and calls InstAPI::validate(Arch::kAArch64, ...).
//       output line:  <tag> TAB <error code> TAB <error name>      (-1 / -2 = unknown mnemonic / operand syntax, like emit_a64)
//   c13_names --mode emit-a64-warm [--validate 1] --in FILE --res FILE
//       same input; emits a NOP first and then the case through a64::Assembler::_emit_op_array, without / with
//       DiagnosticOptions::kValidateAssembler.  harness/emit_a64 emits every case as the FIRST instruction of a fresh
//       CodeHolder, which makes also the non-validating assembler take its slow path (buffer growth); here the non-validating
//       run takes the fast path, the validating one the slow path - the situation of real code.
//       output line:  <tag> TAB <error code> TAB <error name> TAB <hex of the bytes appended after the NOP>
//   c13_names --mode probe-a64
//       prints "stub" when a64 validate() accepts instruction id 0 / _kIdCount / a plainly absurd operand list, else "real".
#include <asmjit/core.h>
#include <asmjit/x86.h>
#include <asmjit/a64.h>

#include <cerrno>
#include <climits>

// emit_a64's operand parser (parse_operand, name_table, split_operands, Ctx ...) is reused as is; its main() is renamed.
#define main emit_a64_unused_main
#include "harness/emit_a64.cpp"
#undef main

#include "vh.h"

#include <algorithm>

using namespace asmjit;

namespace c13 {

static std::vector<std::string> tokens_of(const char* line) {
  std::vector<std::string> out;
  const char* p = line;
  while (*p) {
    while (*p == ' ' || *p == '\t' || *p == '\r' || *p == '\n') p++;
    if (!*p) break;
    const char* q = p;
    while (*q && *q != ' ' && *q != '\t' && *q != '\r' && *q != '\n') q++;
    out.emplace_back(p, q - p);
    p = q;
  }
  return out;
}

// ---------------------------------------------------------------------------------------------------------------
// names
// ---------------------------------------------------------------------------------------------------------------
struct ArchNames {
  const char* tag;
  Arch arch;
  uint32_t count;
  std::vector<std::string> by_id;                       // by_id[id] = name ("" when inst_id_to_string failed)
  std::map<std::string, std::vector<uint32_t>> ids;     // name -> ids carrying it
  bool sorted = true;                                   // id order == lexicographic order of the names
};

static std::string name_of(Arch arch, uint32_t id, Error* err = nullptr) {
  String sb;
  Error e = InstAPI::inst_id_to_string(arch, id, InstStringifyOptions::kNone, sb);
  if (err) *err = e;
  if (e != Error::kOk) return std::string();
  return std::string(sb.data(), sb.size());
}

static void build(ArchNames& a) {
  a.by_id.assign(a.count, std::string());
  for (uint32_t id = 1; id < a.count; id++) {
    a.by_id[id] = name_of(a.arch, id);
    if (!a.by_id[id].empty()) a.ids[a.by_id[id]].push_back(id);
    if (id > 1 && a.by_id[id] < a.by_id[id - 1]) a.sorted = false;
  }
}

static std::string hexs(const std::string& s) { return vh::hex(s.data(), s.size()); }
static std::string unhex(const std::string& h) {
  std::string o;
  for (size_t i = 0; i + 1 < h.size(); i += 2) o.push_back(char(strtoul(h.substr(i, 2).c_str(), nullptr, 16)));
  return o;
}
static std::string printable(const std::string& s) {
  std::string o;
  for (unsigned char ch : s) { if (ch >= 0x21 && ch < 0x7f && ch != ':' && ch != '*' && ch != '?' && ch != '[' && ch != ']') o.push_back(char(ch)); else { char b[8]; snprintf(b, sizeof b, "~%02x", ch); o += b; } }
  if (o.size() > 40) o = o.substr(0, 32) + "~len" + std::to_string(s.size());
  return o.empty() ? std::string("~empty") : o;
}

// both calling conventions of the lookup: explicit length on a buffer WITHOUT terminator, SIZE_MAX on a terminated copy
static bool lookup(Arch arch, const std::string& s, uint32_t& out, std::string& why) {
  std::vector<char> exact(s.begin(), s.end());          // heap block of exactly s.size() bytes: ASan sees any over-read
  uint32_t a = InstAPI::string_to_inst_id(arch, exact.empty() ? "" : exact.data(), exact.size());
  out = a;
  if (s.find('\0') == std::string::npos && !s.empty()) {
    std::vector<char> z(s.begin(), s.end());
    z.push_back(0);
    uint32_t b = InstAPI::string_to_inst_id(arch, z.data(), SIZE_MAX);
    if (a != b) { why = "string_to_inst_id(s, len) = " + std::to_string(a) + " but string_to_inst_id(s, SIZE_MAX) = " + std::to_string(b); return false; }
  }
  return true;
}

static std::string rp(const ArchNames& a, const char* kind, const std::string& s, uint32_t id, const std::string& extra = "") {
  return std::string("C13 names\nharness=c13_names\narch=") + a.tag + "\nkind=" + kind + "\nstr=" + hexs(s) + "\nid=" + std::to_string(id) +
         (extra.empty() ? "" : "\ncanon=" + extra) + "\n# string: " + printable(s) + "\n";
}

static void check_id(vh::Ctx& c, const ArchNames& a, uint32_t id) {
  c.n("evaluations")++;
  const std::string& s = a.by_id[id];
  std::string key_tail = ":" + (s.empty() ? "id" + std::to_string(id) : s);
  if (s.empty()) {
    c.violation(std::string("names:") + a.tag + ":name-roundtrip" + key_tail, "inst_id_to_string(" + std::to_string(id) + ") failed or returned an empty name", rp(a, "id", s, id));
    return;
  }
  uint32_t id2 = 0;
  std::string why;
  if (!lookup(a.arch, s, id2, why)) {
    c.violation(std::string("names:") + a.tag + ":name-roundtrip" + key_tail, "'" + s + "' (id " + std::to_string(id) + "): " + why, rp(a, "id", s, id));
    return;
  }
  uint32_t real2 = id2 & uint32_t(InstIdParts::kRealId);
  if (id2 == 0 || id2 != real2 || real2 >= a.count || a.by_id[real2] != s) {
    bool not_found = id2 == 0;
    std::string clause = (not_found && !a.sorted) ? "name-roundtrip[unsorted-id-table]" : "name-roundtrip";
    std::string d = "inst_id_to_string(" + std::string(a.tag) + ", " + std::to_string(id) + ") = '" + s + "' but string_to_inst_id('" + s + "') = " + std::to_string(id2) +
                    (not_found ? " (kIdNone)" : (real2 < a.count && id2 == real2 ? " whose name is '" + a.by_id[real2] + "'" : " (not a defined id)"));
    if (not_found && !a.sorted) d += "; the ids of this architecture are not in name order, a binary search over an id range cannot find every name";
    c.violation(std::string("names:") + a.tag + ":" + clause + key_tail, d, rp(a, "id", s, id));
    return;
  }
  auto it = a.ids.find(s);
  if (it != a.ids.end() && it->second.size() == 1 && id2 != id) {
    c.violation(std::string("names:") + a.tag + ":name-id-differs" + key_tail, "'" + s + "' is the name of id " + std::to_string(id) + " only, but string_to_inst_id returns " + std::to_string(id2), rp(a, "id", s, id));
    return;
  }
  c.n("distinct_nontrivial")++;
  c.n("names_roundtrip_ok")++;
  if (it != a.ids.end() && it->second.size() > 1) c.n("names_shared_by_two_ids")++;
  if (id % 211 == 7) c.sample(std::string(a.tag) + ": id " + std::to_string(id) + " -> '" + s + "' -> id " + std::to_string(id2));
}

static void check_alias(vh::Ctx& c, const ArchNames& a, const std::string& alias, const std::string& canon_csv) {
  std::vector<std::string> canon = vh::split(canon_csv, ',');
  bool any_canon = false;
  for (auto& cn : canon) if (a.ids.count(cn)) any_canon = true;
  if (a.ids.count(alias)) { c.n("aliases_with_own_id")++; return; }      // covered by the round trip of that id
  if (!any_canon) { c.n("aliases_of_unimplemented_instructions")++; return; }
  c.n("evaluations")++;
  uint32_t id2 = 0;
  std::string why;
  std::string key = std::string("names:") + a.tag + ":alias:" + alias;
  if (!lookup(a.arch, alias, id2, why)) { c.violation(key, "alias '" + alias + "': " + why, rp(a, "alias", alias, 0, canon_csv)); return; }
  bool ok = id2 != 0 && id2 < a.count && std::find(canon.begin(), canon.end(), a.by_id[id2]) != canon.end();
  if (!ok) {
    c.violation(key, "database alias '" + alias + "' of '" + canon_csv + "': string_to_inst_id returns " + std::to_string(id2) +
                (id2 && id2 < a.count ? " ('" + a.by_id[id2] + "')" : id2 ? " (undefined id)" : " (kIdNone)"), rp(a, "alias", alias, 0, canon_csv));
    return;
  }
  c.n("aliases_ok")++;
  c.n("distinct_nontrivial")++;
  if (c.n("aliases_ok") % 17 == 1) c.sample(std::string(a.tag) + ": alias '" + alias + "' -> id " + std::to_string(id2) + " '" + a.by_id[id2] + "'");
}

static void check_unknown(vh::Ctx& c, const ArchNames& a, const std::set<std::string>& aliases, const std::string& s) {
  if (a.ids.count(s) || aliases.count(s)) return;     // a real name / alias: not an unknown string
  c.n("evaluations")++;
  c.n("unknown_strings")++;
  uint32_t id2 = 0;
  std::string why;
  std::string key = std::string("names:") + a.tag + ":unknown-string:" + printable(s);
  if (!lookup(a.arch, s, id2, why)) { c.violation(key, "string '" + printable(s) + "': " + why, rp(a, "unknown", s, 0)); return; }
  if (id2 != 0) {
    c.violation(key, "'" + printable(s) + "' (" + std::to_string(s.size()) + " bytes) is neither an instruction name nor a database alias but string_to_inst_id returns " +
                std::to_string(id2) + (id2 < a.count ? " ('" + a.by_id[id2] + "')" : " (undefined id)"), rp(a, "unknown", s, 0));
    return;
  }
  c.n("distinct_nontrivial")++;
}

static std::vector<std::string> unknown_strings(const ArchNames& a) {
  std::vector<std::string> out;
  auto up = [](std::string s) { for (auto& ch : s) if (ch >= 'a' && ch <= 'z') ch = char(ch - 32); return s; };
  for (auto& kv : a.ids) {
    const std::string& n = kv.first;
    out.push_back(up(n));                                    // MOV
    std::string cap = n; cap[0] = up(n.substr(0, 1))[0];
    out.push_back(cap);                                      // Mov
    std::string last = n; last.back() = up(n.substr(n.size() - 1))[0];
    if (last != n) out.push_back(last);                      // moV
    out.push_back(n.substr(0, n.size() - 1));                // mo     (skipped when it is a name itself)
    out.push_back(n + "_");
    out.push_back(n + std::string(1, '\0'));                 // embedded terminator with explicit length
    out.push_back(" " + n);
    out.push_back(n + " ");
  }
  out.push_back("");
  for (int ch : {0, 1, 0x30, 0x39, 0x40, 0x41, 0x5a, 0x5b, 0x60, 0x7b, 0x7e, 0x7f, 0x80, 0xe1, 0xff}) {   // NUL SOH 0 9 @ A Z [ ` { ~ DEL ...
    out.push_back(std::string(1, char(ch)));
    out.push_back(std::string(1, char(ch)) + "dd");
    out.push_back(std::string("ad") + char(ch));
  }
  for (char ch = 'a'; ch <= 'z'; ch++) {
    out.push_back(std::string(1, ch));
    out.push_back(std::string(2, ch));
    for (size_t len : std::initializer_list<size_t>{7, 8, 15, 16, 17, 18, 19, 20, 31, 32, 33, 40, 63, 64, 65, 255, 256, 1000, 70000})
      out.push_back(std::string(len, ch));
  }
  // over-long strings that start with a real (longest) name
  std::string longest;
  for (auto& kv : a.ids) if (kv.first.size() > longest.size()) longest = kv.first;
  for (size_t extra : std::initializer_list<size_t>{1, 2, 16, 32, 100}) out.push_back(longest + std::string(extra, longest.back()));
  std::sort(out.begin(), out.end());
  out.erase(std::unique(out.begin(), out.end()), out.end());
  return out;
}

struct AliasLine { std::string arch, alias, canon; };

static std::vector<AliasLine> read_aliases(const std::string& path) {
  std::vector<AliasLine> out;
  if (path.empty()) return out;
  FILE* f = fopen(path.c_str(), "r");
  if (!f) { fprintf(stderr, "c13_names: cannot open alias file %s\n", path.c_str()); exit(2); }
  char buf[4096];
  while (fgets(buf, sizeof buf, f)) {
    std::vector<std::string> t = tokens_of(buf);
    if (t.size() == 3) out.push_back(AliasLine{t[0], t[1], t[2]});
  }
  fclose(f);
  return out;
}

static int run_names() {
  vh::Ctx& c = vh::ctx();
  ArchNames archs[2] = {{"x86", Arch::kX64, uint32_t(x86::Inst::_kIdCount)}, {"a64", Arch::kAArch64, uint32_t(a64::Inst::_kIdCount)}};
  for (auto& a : archs) build(a);
  std::vector<AliasLine> al = read_aliases(c.opt("aliases"));
  std::set<std::string> alias_set[2];
  for (auto& l : al) alias_set[l.arch == "a64"].insert(l.alias);

  if (c.replaying()) {
    std::string arch, kind, str, canon; uint32_t id = 0;
    for (auto& line : vh::split(c.replay_text, '\n')) {
      if (line.rfind("arch=", 0) == 0) arch = line.substr(5);
      else if (line.rfind("kind=", 0) == 0) kind = line.substr(5);
      else if (line.rfind("str=", 0) == 0) str = unhex(line.substr(4));
      else if (line.rfind("id=", 0) == 0) id = uint32_t(strtoul(line.c_str() + 3, nullptr, 10));
      else if (line.rfind("canon=", 0) == 0) canon = line.substr(6);
    }
    ArchNames& a = archs[arch == "a64"];
    if (kind == "id" && id > 0 && id < a.count) check_id(c, a, id);
    else if (kind == "alias") check_alias(c, a, str, canon);
    else if (kind == "unknown") check_unknown(c, a, alias_set[arch == "a64"], str);
    else { fprintf(stderr, "c13_names: replay file not understood\n"); return 2; }
    return vh::finish();
  }

  for (int ai = 0; ai < 2; ai++) {
    ArchNames& a = archs[ai];
    c.n(ai ? "ids_a64" : "ids_x86") += a.count - 1;
    c.n(ai ? "distinct_names_a64" : "distinct_names_x86") += (long long)a.ids.size();
    for (uint32_t id = 1; id < a.count; id++) { vh::set_case(rp(a, "id", a.by_id[id], id)); check_id(c, a, id); }
    // ids that are not defined: must not crash (their result is C14's business); composed AArch64 ids keep the name of the real id
    for (uint32_t id : {a.count, a.count + 1, 0xFFFFu, 0x7FFFFFFFu, 0xFFFFFFFFu}) { Error e; (void)name_of(a.arch, id, &e); c.n("undefined_ids_probed")++; }
    for (auto& l : al) if ((l.arch == "a64") == (ai == 1)) { vh::set_case(rp(a, "alias", l.alias, 0, l.canon)); c.n("aliases_listed_by_db")++; check_alias(c, a, l.alias, l.canon); }
    for (auto& s : unknown_strings(a)) { vh::set_case(rp(a, "unknown", s, 0)); check_unknown(c, a, alias_set[ai], s); }
    c.strs[ai ? "id_table_sorted_a64" : "id_table_sorted_x86"] = a.sorted ? "yes" : "no";
  }
  c.strs["rule_names"] = "every instruction id 1..count-1 of x86 and AArch64: string_to_inst_id(inst_id_to_string(id)) (explicit length and SIZE_MAX) "
                         "carries the same name / is the same id where the name is unique; every database alias; per name: upper-case, "
                         "capitalised, truncated, extended, NUL-extended, blank-padded variants; all 1-2 letter strings of one letter, runs "
                         "of one letter up to 70000 bytes, non-letter first/last characters, empty string";
  return vh::finish();
}

// ---------------------------------------------------------------------------------------------------------------
// x86 validate filter (grammar of harness/emit_x86.cpp)
// ---------------------------------------------------------------------------------------------------------------
struct RegName { const char* name; uint32_t type; };
static const RegName kRegNames[] = {
  {"none", 0}, {"label", 1}, {"gp8lo", 2}, {"gp8hi", 3}, {"gp16", 4}, {"gp32", 5}, {"gp64", 6},
  {"vec128", 11}, {"vec256", 12}, {"vec512", 13}, {"mask", 16}, {"tile", 17},
  {"seg", 25}, {"cr", 26}, {"dr", 27}, {"mm", 28}, {"st", 29}, {"bnd", 30}, {"pc", 31}
};

static bool parse_u32(const std::string& s, uint32_t& out) {
  if (s.empty()) return false;
  char* e = nullptr;
  errno = 0;
  unsigned long long v = strtoull(s.c_str(), &e, 0);
  if (*e || errno || v > 0xFFFFFFFFull) return false;
  out = uint32_t(v);
  return true;
}

static bool parse_regtype(const std::string& s, uint32_t& out) {
  if (s.empty()) return false;
  if (s[0] >= '0' && s[0] <= '9') {
    char* e = nullptr;
    unsigned long v = strtoul(s.c_str(), &e, 10);
    if (*e || v > 31) return false;
    out = uint32_t(v);
    return true;
  }
  for (const RegName& r : kRegNames) if (s == r.name) { out = r.type; return true; }
  return false;
}

static bool parse_s64(const std::string& s, int64_t& out) {
  if (s.empty()) return false;
  char* e = nullptr;
  errno = 0;
  if (s.size() > 2 && s[0] == '0' && (s[1] == 'x' || s[1] == 'X')) {
    unsigned long long v = strtoull(s.c_str(), &e, 16);
    if (*e || errno) return false;
    out = int64_t(v);
    return true;
  }
  long long v = strtoll(s.c_str(), &e, 10);
  if (*e || errno) return false;
  out = v;
  return true;
}

static bool parse_typed_reg(const std::string& s, uint32_t& type, uint32_t& id) {
  size_t d = s.find('.');
  if (d == std::string::npos) return false;
  return parse_regtype(s.substr(0, d), type) && parse_u32(s.substr(d + 1), id);
}

struct X86Case {
  Arch arch = Arch::kX64;
  uint32_t inst_id = 0, options = 0;
  bool unknown_name = false;
  RegOnly extra;
  Operand_ ops[6];
  size_t op_count = 0;
  std::vector<std::pair<bool, uint32_t>> pre, post;   // (is bind, label number / pad size)
};

static constexpr uint32_t kNumLabels = 8;

// Parses one case line of harness/emit_x86.cpp.  Labels: label n gets id n (every run creates 8 labels first on a fresh
// CodeHolder).  Returns nullptr or the name of the field that is malformed.
static const char* parse_x86_case(const std::vector<std::string>& tk, X86Case& c) {
  c.extra.reset();
  for (int i = 0; i < 6; i++) c.ops[i].reset();
  if (tk.size() < 5) return "too-few-tokens";
  if (tk[0] == "32") c.arch = Arch::kX86; else if (tk[0] == "64") c.arch = Arch::kX64; else return "arch";
  if (tk[1] != "v" && tk[1] != "n") return "diag";
  if (tk[2][0] == '#') { if (!parse_u32(tk[2].substr(1), c.inst_id)) return "inst-id"; }
  else {
    c.inst_id = InstAPI::string_to_inst_id(c.arch, tk[2].c_str(), tk[2].size());
    if (c.inst_id == 0) c.unknown_name = true;
  }
  {
    char* e = nullptr;
    errno = 0;
    unsigned long long v = strtoull(tk[3].c_str(), &e, 16);
    if (*e || errno || v > 0xFFFFFFFFull) return "options";
    c.options = uint32_t(v);
  }
  if (tk[4] != "-") {
    uint32_t t, id;
    if (!parse_typed_reg(tk[4], t, id)) return "extra";
    c.extra.init(Reg::from_type_and_id(RegType(t), id));
  }
  for (size_t i = 5; i < tk.size(); i++) {
    const std::string& t = tk[i];
    bool is_post = t[0] == '+';
    std::string pp = is_post ? t.substr(1) : t;
    if (pp.compare(0, 4, "pad=") == 0 || pp.compare(0, 5, "bind=") == 0) {
      bool bind = pp[0] == 'b';
      uint32_t n;
      if (!parse_u32(pp.substr(bind ? 5 : 4), n) || (bind ? n >= kNumLabels : n > (1u << 20))) return "prepost";
      (is_post ? c.post : c.pre).push_back(std::make_pair(bind, n));
      continue;
    }
    if (is_post) return "prepost";
    if (c.op_count >= 6) return "too-many-operands";
    if (t == "-") { c.op_count++; continue; }
    std::vector<std::string> f = vh::split(t, ',');
    if (f[0] == "r") {
      uint32_t ty, id;
      if (f.size() != 3 || !parse_regtype(f[1], ty) || !parse_u32(f[2], id)) return "reg-operand";
      c.ops[c.op_count++] = Reg::from_type_and_id(RegType(ty), id);
    }
    else if (f[0] == "i") {
      int64_t v;
      if (f.size() != 2 || !parse_s64(f[1], v)) return "imm-operand";
      c.ops[c.op_count++] = Imm(v);
    }
    else if (f[0] == "l") {
      uint32_t ln;
      if (f.size() != 2 || !parse_u32(f[1], ln) || ln >= kNumLabels) return "label-operand";
      c.ops[c.op_count++] = Label(ln);
    }
    else if (f[0] == "m") {
      if (f.size() != 9) return "mem-operand-fields";
      uint32_t size, shift, seg, bcst, addr;
      int64_t off;
      if (!parse_u32(f[1], size) || size > 255 || !parse_u32(f[4], shift) || shift > 3 || !parse_s64(f[5], off) ||
          !parse_u32(f[6], seg) || seg > 7 || !parse_u32(f[7], bcst) || bcst > 7 || !parse_u32(f[8], addr) || addr > 3) return "mem-operand-values";
      uint32_t bt = 0, bid = 0, it = 0, iid = 0;
      bool is_abs = false;
      if (f[2] == "-" || f[2] == "abs") is_abs = true;
      else if (f[2][0] == 'L') {
        uint32_t ln;
        if (!parse_u32(f[2].substr(1), ln) || ln >= kNumLabels) return "mem-label";
        bt = uint32_t(RegType::kLabelTag);
        bid = ln;
      }
      else if (!parse_typed_reg(f[2], bt, bid)) return "mem-base";
      if (f[3] != "-" && !parse_typed_reg(f[3], it, iid)) return "mem-index";
      uint32_t sig = uint32_t(OperandType::kMem) | (bt << 3) | (it << 8) | (addr << 14) | (shift << 16) | (seg << 18) | (bcst << 21) | (size << 24);
      if (is_abs) bid = uint32_t(uint64_t(off) >> 32);
      c.ops[c.op_count++] = x86::Mem(OperandSignature{sig}, bid, iid, int32_t(uint32_t(uint64_t(off) & 0xFFFFFFFFu)));
    }
    else return "operand-kind";
  }
  return nullptr;
}

static int run_validate_x86(const std::string& in_path, const std::string& out_path) {
  FILE* in = fopen(in_path.c_str(), "r");
  FILE* out = fopen(out_path.c_str(), "w");
  if (!in || !out) { fprintf(stderr, "c13_names: cannot open files\n"); return 2; }
  static char obuf[1 << 16];
  setvbuf(out, obuf, _IOFBF, sizeof obuf);
  char* line = nullptr;
  size_t cap = 0;
  unsigned long lineno = 0;
  while (getline(&line, &cap, in) > 0) {
    lineno++;
    size_t n = strlen(line);
    while (n && (line[n - 1] == '\n' || line[n - 1] == '\r')) line[--n] = 0;
    vh::set_case(line);
    std::vector<std::string> tk = tokens_of(line);
    if (tk.empty() || tk[0][0] == '#') continue;
    X86Case c;
    const char* bad = parse_x86_case(tk, c);
    if (bad) { fprintf(out, "%lu -1 E_PARSE:%s\n", lineno, bad); continue; }
    if (c.unknown_name) { fprintf(out, "%lu -1 E_NAME\n", lineno); continue; }
    BaseInst inst(c.inst_id, InstOptions(c.options), c.extra);
    Error err = InstAPI::validate(c.arch, inst, c.ops, c.op_count, ValidationFlags::kNone);
    fprintf(out, "%lu %u %s\n", lineno, unsigned(err), DebugUtils::error_as_string(err));
  }
  fflush(out);
  fclose(out);
  free(line);
  return 0;
}

// ---------------------------------------------------------------------------------------------------------------
// recycled emitter across modes: one emitter OBJECT attached to a CodeHolder of the OTHER x86 mode, used, detached, then
// attached to a holder of the case's mode with validation on.  Must behave exactly like a fresh emitter of the same kind.
// ---------------------------------------------------------------------------------------------------------------
static const DiagnosticOptions kDiagAll = DiagnosticOptions::kValidateAssembler | DiagnosticOptions::kValidateIntermediate;

// Emits the case through `e` (already attached to `code`); returns "<error name>:<hex of .text>".
static std::string emit_case_on(BaseEmitter* e, CodeHolder& code, const X86Case& c, bool needs_finalize) {
  static const std::vector<uint8_t> nops(1u << 20, 0x90);
  Label labels[kNumLabels];
  for (uint32_t i = 0; i < kNumLabels; i++) labels[i] = e->new_label();
  auto prepost = [&](const std::vector<std::pair<bool, uint32_t>>& ops) -> Error {
    for (auto& p : ops) {
      Error err = p.first ? e->bind(labels[p.second]) : (p.second ? e->embed(nops.data(), p.second) : Error::kOk);
      if (err != Error::kOk) return err;
    }
    return Error::kOk;
  };
  Error pre = prepost(c.pre);
  Error err = e->emit_inst(BaseInst(c.inst_id, InstOptions(c.options), c.extra), c.ops, c.op_count);
  Error post = prepost(c.post);
  Error fin = needs_finalize ? e->finalize() : Error::kOk;
  std::string out = DebugUtils::error_as_string(err);
  if (pre != Error::kOk) out += std::string("/pre=") + DebugUtils::error_as_string(pre);
  if (post != Error::kOk) out += std::string("/post=") + DebugUtils::error_as_string(post);
  if (fin != Error::kOk) out += std::string("/finalize=") + DebugUtils::error_as_string(fin);
  const CodeBuffer& buf = code.text_section()->buffer();
  out += ":" + (buf.size() ? vh::hex(buf.data(), buf.size()) : std::string("-"));
  return out;
}

// way 0: code.detach(emitter); 1: holder.reset() and the SAME holder re-initialised for the new mode; 2: holder destroyed
template<typename EmitterT>
static std::string recycled(const X86Case& c, int way, bool needs_finalize) {
  Arch other = c.arch == Arch::kX64 ? Arch::kX86 : Arch::kX64;
  EmitterT e;
  CodeHolder* a = new CodeHolder();
  if (a->init(Environment(other)) != Error::kOk || a->attach(&e) != Error::kOk) { delete a; return "E_SETUP:-"; }
  e.add_diagnostic_options(kDiagAll);
  (void)e.emit_inst(BaseInst(x86::Inst::kIdNop), nullptr, 0);       // the emitter has been used in the other mode
  CodeHolder b;
  CodeHolder* target = &b;
  if (way == 0) { a->detach(&e); }
  else if (way == 1) { a->reset(ResetPolicy::kHard); target = a; }
  else { delete a; a = nullptr; }
  std::string out;
  if (target->init(Environment(c.arch)) != Error::kOk || target->attach(&e) != Error::kOk) out = "E_SETUP:-";
  else {
    e.add_diagnostic_options(kDiagAll);
    out = emit_case_on(&e, *target, c, needs_finalize);
    target->detach(&e);
  }
  delete a;
  return out;
}

template<typename EmitterT>
static std::string fresh(const X86Case& c, bool needs_finalize) {
  CodeHolder code;
  EmitterT e;
  if (code.init(Environment(c.arch)) != Error::kOk || code.attach(&e) != Error::kOk) return "E_SETUP:-";
  e.add_diagnostic_options(kDiagAll);
  std::string out = emit_case_on(&e, code, c, needs_finalize);
  code.detach(&e);
  return out;
}

static int run_recycle_x86(const std::string& in_path, const std::string& out_path) {
  FILE* in = fopen(in_path.c_str(), "r");
  FILE* out = fopen(out_path.c_str(), "w");
  if (!in || !out) { fprintf(stderr, "c13_names: cannot open files\n"); return 2; }
  static char obuf[1 << 16];
  setvbuf(out, obuf, _IOFBF, sizeof obuf);
  char* line = nullptr;
  size_t cap = 0;
  unsigned long lineno = 0;
  while (getline(&line, &cap, in) > 0) {
    lineno++;
    size_t n = strlen(line);
    while (n && (line[n - 1] == '\n' || line[n - 1] == '\r')) line[--n] = 0;
    vh::set_case(std::string("recycle ") + line);
    std::vector<std::string> tk = tokens_of(line);
    if (tk.empty() || tk[0][0] == '#') continue;
    X86Case c;
    const char* bad = parse_x86_case(tk, c);
    if (bad || c.unknown_name) { fprintf(out, "%lu E_PARSE\n", lineno); continue; }
    fprintf(out, "%lu", lineno);
    fprintf(out, " asm %s", fresh<x86::Assembler>(c, false).c_str());
    for (int w = 0; w < 3; w++) fprintf(out, " %s", recycled<x86::Assembler>(c, w, false).c_str());
    fprintf(out, " builder %s", fresh<x86::Builder>(c, true).c_str());
    for (int w = 0; w < 3; w++) fprintf(out, " %s", recycled<x86::Builder>(c, w, true).c_str());
    fprintf(out, " compiler %s", fresh<x86::Compiler>(c, true).c_str());
    for (int w = 0; w < 3; w++) fprintf(out, " %s", recycled<x86::Compiler>(c, w, true).c_str());
    fputc('\n', out);
  }
  fflush(out);
  fclose(out);
  free(line);
  return 0;
}

// ---------------------------------------------------------------------------------------------------------------
// a64 validate filter (grammar and operand parser of harness/emit_a64.cpp)
// ---------------------------------------------------------------------------------------------------------------
// emit_mode: 0 = call InstAPI::validate();  1 / 2 = emit into a WARMED-UP buffer without / with kValidateAssembler
static int run_validate_a64(const std::string& in_path, const std::string& out_path, int emit_mode = 0) {
  FILE* fin = fopen(in_path.c_str(), "r");
  FILE* fout = fopen(out_path.c_str(), "w");
  if (!fin || !fout) { fprintf(stderr, "c13_names: cannot open files\n"); return 2; }
  static char buf[1 << 16];
  size_t line_no = 0;
  while (fgets(buf, sizeof buf, fin)) {
    line_no++;
    std::string line(buf);
    while (!line.empty() && (line.back() == '\n' || line.back() == '\r')) line.pop_back();
    std::string tag, text;
    size_t tab = line.find('\t');
    if (tab != std::string::npos) { tag = line.substr(0, tab); text = ::trim(line.substr(tab + 1)); }
    else { tag = std::to_string(line_no); text = ::trim(line); }
    if (text.empty() || text[0] == ';') continue;
    vh::set_case(text);
    text = ::lower(text);
    size_t sp = text.find_first_of(" \t");
    std::string mn = sp == std::string::npos ? text : text.substr(0, sp);
    std::string ops_text = sp == std::string::npos ? std::string() : ::trim(text.substr(sp + 1));
    InstId inst_id = 0;
    int parse_error = 0;
    std::string why, name = mn;
    int cc = -1;
    char force = 0;
    const std::vector<InstId>* ids = nullptr;
    size_t sl = name.find('/');
    if (sl != std::string::npos) {
      if (name.size() == sl + 2 && (name[sl + 1] == 'g' || name[sl + 1] == 'v')) force = name[sl + 1];
      else { parse_error = -1; why = "bad /g /v suffix"; }
      name = name.substr(0, sl);
    }
    size_t dot = name.find('.');
    if (dot != std::string::npos) {
      cc = ::cond_of(name.substr(dot + 1));
      if (cc < 0) { parse_error = -1; why = "unknown condition suffix"; }
      name = name.substr(0, dot);
    }
    if (!parse_error) {
      if (name.compare(0, 5, "inst#") == 0) {
        uint64_t n;
        if (!::parse_u64(name.substr(5), n)) { parse_error = -1; why = "bad raw instruction id"; }
        inst_id = InstId(n);
      }
      else {
        auto it = ::name_table().find(name);
        if (it == ::name_table().end()) { parse_error = -1; why = "unknown mnemonic"; }
        else ids = &it->second;
      }
    }
    // labels ($0 / $u) need an emitter that owns them, exactly as in emit_a64
    CodeHolder code;
    code.init(Environment(Arch::kAArch64), 0);
    a64::Assembler as(&code);
    ::Ctx ctx;
    ctx.code = &code;
    ctx.as = &as;
    Operand ops[6];
    size_t nops = 0;
    if (!parse_error) {
      std::vector<std::string> toks = ::split_operands(ops_text);
      if (toks.size() > 6) { parse_error = -2; why = "more than 6 operands"; }
      for (size_t i = 0; i < toks.size() && !parse_error; i++)
        if (!::parse_operand(ctx, toks[i], ops[i])) { parse_error = -2; why = "cannot parse operand '" + toks[i] + "'"; }
      nops = toks.size();
    }
    if (parse_error) { fprintf(fout, "%s\t%d\t%s\n", tag.c_str(), parse_error, why.c_str()); continue; }
    if (ids) {
      bool any_vec = false;
      for (size_t i = 0; i < nops; i++) if (ops[i].is_reg() && ops[i].as<Reg>().is_vec()) any_vec = true;
      bool want_v = force ? force == 'v' : any_vec;
      inst_id = want_v ? ids->back() : ids->front();
    }
    if (cc >= 0) inst_id = BaseInst::compose_arm_inst_id(inst_id, arm::CondCode(cc));
    if (emit_mode) {
      // A NOP first: the code buffer now has room, so the non-validating assembler takes its FAST path for the case (a fresh
      // CodeHolder makes the very first instruction take the slow "grow the buffer" path, which is also the path every
      // validated instruction takes).  Labels were bound at offset 0 while the operands were parsed - in both modes alike.
      if (as._emit_op_array(a64::Inst::kIdNop, ops, 0) != Error::kOk) { fprintf(stderr, "c13_names: cannot emit the warm-up nop\n"); return 2; }
      if (emit_mode == 2) as.add_diagnostic_options(DiagnosticOptions::kValidateAssembler);
      size_t off = as.offset();
      Error err = as._emit_op_array(inst_id, ops, nops);
      const CodeBuffer& cb = code.text_section()->buffer();
      std::string hx = cb.size() > off ? vh::hex(cb.data() + off, cb.size() - off) : std::string();
      fprintf(fout, "%s\t%u\t%s\t%s\n", tag.c_str(), unsigned(err), DebugUtils::error_as_string(err), hx.c_str());
      continue;
    }
    Error err = InstAPI::validate(Arch::kAArch64, BaseInst(inst_id), ops, nops, ValidationFlags::kNone);
    fprintf(fout, "%s\t%u\t%s\n", tag.c_str(), unsigned(err), DebugUtils::error_as_string(err));
  }
  fflush(fout);
  fclose(fout);
  return 0;
}

// Is the AArch64 validator an "accept everything" stub?  Three inputs no validator can admit.
static int run_probe_a64() {
  Operand none[1];
  Operand absurd[6] = {Imm(1), Imm(2), Imm(3), Imm(4), Imm(5), Imm(6)};
  bool a = InstAPI::validate(Arch::kAArch64, BaseInst(0), none, 0) == Error::kOk;
  bool b = InstAPI::validate(Arch::kAArch64, BaseInst(a64::Inst::_kIdCount), none, 0) == Error::kOk;
  bool d = InstAPI::validate(Arch::kAArch64, BaseInst(a64::Inst::kIdAdd), absurd, 6) == Error::kOk;
  printf("%s\n", (a && b && d) ? "stub" : "real");
  return 0;
}

} // namespace c13

int main(int argc, char** argv) {
  vh::parse_args(argc, argv);
  vh::Ctx& c = vh::ctx();
  std::string mode = c.opt("mode", "names");
  if (mode == "validate-x86") return c13::run_validate_x86(c.opt("in"), c.opt("res"));
  if (mode == "recycle-x86") return c13::run_recycle_x86(c.opt("in"), c.opt("res"));
  if (mode == "validate-a64") return c13::run_validate_a64(c.opt("in"), c.opt("res"));
  if (mode == "emit-a64-warm") return c13::run_validate_a64(c.opt("in"), c.opt("res"), c.opt("validate") == "1" ? 2 : 1);
  if (mode == "probe-a64") return c13::run_probe_a64();
  return c13::run_names();
}
