// C06 (b) - argument shuffling: every destination ends up holding the value of its argument however sources
// and destinations overlap.  Enumerates signatures (<= n arguments over a type alphabet) x every assignment
// of each argument to {its own incoming register, the incoming register of any other argument, two foreign
// registers, a stack slot}; emit_prolog + emit_args_assignment go into a Builder and the node list is
// interpreted by msim from an entry state in which every argument location holds a distinct token.
#include "xplor.h"
#include "msim.h"
#include <asmjit/core.h>
#include <asmjit/x86.h>
#include <asmjit/a64.h>
#include <algorithm>

using namespace asmjit;

enum ArchSel { AX64 = 0, AX86 = 1, AA64 = 2 };
static const char* arch_name(int a) { return a == AX64 ? "x64" : a == AX86 ? "x86" : "a64"; }
struct Conv { int arch; CallConvId id; const char* name; Platform platform; };
static std::vector<Conv> convs() {
  return {{AX64, CallConvId::kX64SystemV, "sysv", Platform::kLinux}, {AX64, CallConvId::kX64Windows, "win64", Platform::kWindows},
          {AX86, CallConvId::kCDecl, "cdecl", Platform::kLinux}, {AX86, CallConvId::kFastCall, "fastcall", Platform::kWindows}, {AX86, CallConvId::kRegParm3, "regparm3", Platform::kLinux},
          {AA64, CallConvId::kCDecl, "aapcs64", Platform::kLinux}};
}
static const TypeId kTypes[] = {TypeId::kInt32, TypeId::kIntPtr, TypeId::kUInt8, TypeId::kInt16, TypeId::kFloat64, TypeId::kFloat32,
                                TypeId::kUInt32, TypeId::kInt16, TypeId::kInt32, TypeId::kUInt8};
// widening entries: the destination is given a wider integer type than the argument has (self-moves needing extension)
static const TypeId kWiden[] = {TypeId::kVoid, TypeId::kVoid, TypeId::kVoid, TypeId::kVoid, TypeId::kVoid, TypeId::kVoid,
                                TypeId::kUInt64, TypeId::kInt64, TypeId::kInt64, TypeId::kUInt32};
static const char* kTypeNames[] = {"i32", "iptr", "u8", "i16", "f64", "f32", "u32>u64", "i16>i64", "i32>i64", "u8>u32"};
static const int kNumTypes = 10;

struct Case { int conv; std::vector<int> types; std::vector<int> dst; int extra_stack_args;   // dst: 0 own, 1..n incoming of arg (k-1), n+1 foreign A, n+2 foreign B, n+3 stack
  int fmid = 0; // number of f64 arguments inserted after the first shuffled argument: they use up the vector argument registers, so later float arguments arrive on the stack while the first one sits in a register
  int fv = 0;   // frame variant: 0 plain, 1 local stack aligned to 32 (dynamic alignment, stack arguments reached through the SA register), 2 the same with a preserved frame pointer
  std::string str() const { std::string s = "conv=" + std::to_string(conv) + " pad=" + std::to_string(extra_stack_args) + " fv=" + std::to_string(fv) + (fmid ? " fmid=" + std::to_string(fmid) : std::string()) + " types="; for (int t : types) s += std::to_string(t) + ","; s += " dst="; for (int d : dst) s += std::to_string(d) + ","; s += " #"; for (size_t i = 0; i < types.size(); i++) s += std::string(" ") + kTypeNames[types[i]] + "->" + std::to_string(dst[i]); return s; } };

static std::string g_why, g_clause;
#define FAIL(cl, ...) do { char _b[600]; snprintf(_b, sizeof _b, __VA_ARGS__); g_why = _b; g_clause = cl; return 0; } while (0)

static bool is_float(int t) { return t == 4 || t == 5; }
static unsigned type_bytes(int t, int arch) { switch (t) { case 0: return 4; case 1: return arch == AX86 ? 4 : 8; case 2: return 1; case 3: return 2; case 4: return 8; case 5: return 4; case 6: return 4; case 7: return 2; case 8: return 4; default: return 1; } }
static unsigned widen_bytes(int t) { return t == 9 ? 4 : (t >= 6 ? 8 : 0); }
static bool widen_signed(int t) { return t == 7 || t == 8; }
// every case is interpreted twice, with a token set and its bitwise complement: each argument is then seen with both values of
// every bit, in particular of the sign bit of every narrow type
static bool g_inv = false;
static uint64_t token(size_t i) { uint64_t t = 0xA1B2C3D4E5F60718ull * (i + 1) ^ (0x1111111111111111ull * (i + 3)); return g_inv ? ~t : t; }

// returns 1 ok, 0 violation (g_why set), 2 skipped (invalid combination), 3 undecided
static int run_case(const Case& cs) {
  vh::Ctx& c = vh::ctx();
  g_inv = false;
  Conv cv = convs()[cs.conv];
  size_t n = cs.types.size();
  vh::set_case("harness=c06_args\n" + cs.str() + "\n");
  Environment env(cv.arch == AX64 ? Arch::kX64 : cv.arch == AX86 ? Arch::kX86 : Arch::kAArch64);
  env.set_platform(cv.platform);
  FuncSignature sig(cv.id); sig.set_ret(TypeId::kVoid);
  // optional leading pointer arguments push the interesting ones (partly) onto the stack
  for (int t : cs.types) if (widen_bytes(t) == 8 && cv.arch == AX86) return 2;
  for (int i = 0; i < cs.extra_stack_args; i++) sig.add_arg(TypeId::kIntPtr);
  for (size_t i = 0; i < cs.types.size(); i++) { sig.add_arg(kTypes[cs.types[i]]); if (i == 0) for (int k = 0; k < cs.fmid; k++) sig.add_arg(TypeId::kFloat64); }
  FuncDetail func;
  if (func.init(sig, env) != Error::kOk) return 2;
  FuncFrame frame;
  if (frame.init(func) != Error::kOk) FAIL("frame-init", "FuncFrame::init failed");
  bool is_x86 = cv.arch != AA64;
  size_t first = cs.extra_stack_args;
  auto ai = [&](size_t i) { return first + i + (i > 0 ? size_t(cs.fmid) : 0); };   // index of shuffled argument i in the signature
  // foreign registers: not used for passing any argument of this signature
  uint32_t used_gp = 0, used_vec = 0;
  for (size_t i = 0; i < func.arg_count(); i++) { const FuncValue& v = func.arg(i); if (v.is_reg()) { if (v.reg_type() >= RegType::kVec32 && v.reg_type() <= RegType::kVec512) used_vec |= 1u << v.reg_id(); else used_gp |= 1u << v.reg_id(); } }
  uint32_t sp_id = is_x86 ? 4 : 31, fp_id = is_x86 ? 5 : 29;
  std::vector<uint32_t> foreign_gp, foreign_vec;
  for (uint32_t r = 0; r < (cv.arch == AX86 ? 8u : is_x86 ? 16u : 18u); r++) if (!(used_gp & (1u << r)) && r != sp_id && r != fp_id) foreign_gp.push_back(r);
  for (uint32_t r = 0; r < (cv.arch == AX86 ? 8u : 16u); r++) if (!(used_vec & (1u << r))) foreign_vec.push_back(r);
  if (foreign_gp.size() < 2 || foreign_vec.size() < 2) return 2;
  // for regparm/fastcall use the *last* two free registers too so that callee-saved ones are involved
  FuncArgsAssignment args(&func);
  struct Dst { bool is_reg; bool vec; uint32_t id; int32_t off; };
  std::vector<Dst> dsts(n);
  uint32_t taken_gp = 0, taken_vec = 0; int stack_slot = 0;
  for (size_t i = 0; i < n; i++) {
    bool fl = is_float(cs.types[i]);
    int d = cs.dst[i];
    Dst ds{true, fl, 0, 0};
    const FuncValue& own = func.arg(ai(i));
    auto incoming_reg = [&](const FuncValue& v, uint32_t& id) { if (!v.is_reg()) return false; bool vv = v.reg_type() >= RegType::kVec32 && v.reg_type() <= RegType::kVec512; if (vv != fl) return false; id = v.reg_id(); return true; };
    if (d == 0) { if (!incoming_reg(own, ds.id)) { ds.is_reg = true; ds.id = fl ? foreign_vec[0] : foreign_gp[0]; /* stack argument with 'own' destination: load into foreign A */ } }
    else if (d >= 1 && d <= (int)n) { if (d - 1 == (int)i) return 2; if (!incoming_reg(func.arg(ai(size_t(d - 1))), ds.id)) return 2; }
    else if (d == (int)n + 1) ds.id = fl ? foreign_vec[0] : foreign_gp[0];
    else if (d == (int)n + 2) ds.id = fl ? foreign_vec.back() : foreign_gp.back();
    else { ds.is_reg = false; ds.off = 8 * stack_slot++; }
    if (ds.is_reg) { uint32_t& tk = fl ? taken_vec : taken_gp; if (tk & (1u << ds.id)) return 2; tk |= 1u << ds.id; }
    dsts[i] = ds;
    unsigned tb = type_bytes(cs.types[i], cv.arch);
    // destination types as the Compiler would pass them: concrete integer type of the argument; x86 scalar floats live in
    // vector-typed virtual registers (new_xmm_ss/sd = kFloat32x1/kFloat64x1), AArch64 uses the scalar float types (new_vec_s/d)
    TypeId dst_type = func.arg(ai(i)).type_id();
    if (fl && is_x86) dst_type = tb == 8 ? TypeId::kFloat64x1 : TypeId::kFloat32x1;
    if (widen_bytes(cs.types[i])) { dst_type = kWiden[cs.types[i]]; tb = widen_bytes(cs.types[i]); }
    if (ds.is_reg) {
      Reg r;
      if (is_x86) r = fl ? Reg(x86::xmm(ds.id)) : (tb == 8 ? Reg(x86::gpq(ds.id)) : Reg(x86::gpd(ds.id)));
      else r = fl ? (tb == 8 ? Reg(a64::d(ds.id)) : Reg(a64::s(ds.id))) : (tb == 8 ? Reg(a64::x(ds.id)) : Reg(a64::w(ds.id)));
      args.assign_reg(ai(i), r, dst_type);
    } else args.assign_stack(ai(i), ds.off, dst_type);
  }
  frame.set_call_stack_size(64);   // stack destinations live in [sp, sp+64)
  if (cs.fv) { frame.set_local_stack_size(32); frame.set_local_stack_alignment(32); if (cs.fv == 2) frame.set_preserved_fp(); }
  if (args.update_func_frame(frame) != Error::kOk) FAIL("update-frame", "FuncArgsAssignment::update_func_frame failed");
  if (frame.finalize() != Error::kOk) FAIL("finalize", "FuncFrame::finalize failed");
  CodeHolder code; code.init(env);
  x86::Builder xb; a64::Builder ab; BaseBuilder* b = is_x86 ? (BaseBuilder*)&xb : (BaseBuilder*)&ab;
  code.attach(b);
  if (b->emit_prolog(frame) != Error::kOk) FAIL("emit-prolog", "emit_prolog failed");
  Error ea = b->emit_args_assignment(frame, args);
  c.n("evaluations")++;
  BaseNode* last_node = b->cursor();
  if (c.replaying()) { String sb; Formatter::format_node_list(sb, FormatOptions(), b); fprintf(stderr, "--- emitted ---\n%s\n", sb.data()); for (size_t i = 0; i < func.arg_count(); i++) { const FuncValue& v = func.arg(i); fprintf(stderr, "arg%zu: %s id/off=%d type=%u token=%llx\n", i, v.is_reg() ? "reg" : "stack", v.is_reg() ? (int)v.reg_id() : v.stack_offset(), (unsigned)v.type_id(), (unsigned long long)token(i)); } }
  // the node list must also be encodable: an instruction the assembler refuses is a *reported* failure (an Assembler
  // emitter would have returned it from emit_args_assignment, a Builder/Compiler returns it from finalize)
  Error ef = ea;
  std::vector<BaseNode*> nodes; for (BaseNode* nd = b->first_node(); nd; nd = nd->next()) nodes.push_back(nd);
  x86::Assembler xa2; a64::Assembler aa2;
  if (ef == Error::kOk) { BaseAssembler* as2 = is_x86 ? (BaseAssembler*)&xa2 : (BaseAssembler*)&aa2; code.attach(as2); ef = b->serialize_to(as2); }
  if (c.replaying()) fprintf(stderr, "bytes: %s\n", vh::hex(code.text_section()->data(), code.text_section()->buffer_size()).c_str());
  if (ef != Error::kOk) {
    // a stack-to-stack move needs a scratch register that the assignment itself may not provide: a *reported* refusal is acceptable there
    bool stack_to_stack = false;
    for (size_t i = 0; i < n; i++) if (!dsts[i].is_reg && func.arg(ai(i)).is_stack()) stack_to_stack = true;
    if (stack_to_stack) { c.n("refused_stack_to_stack")++; return 1; }
    FAIL("emit-args", "%s failed with error %u for an assignment without stack-to-stack moves", ea != Error::kOk ? "emit_args_assignment" : "assembling the emitted moves", unsigned(ef));
  }
  (void)last_node;
  BaseNode* last = b->cursor();
  if (!last) return 1;   // nothing to do and nothing emitted (all 'own')

  for (int inv = 0; inv < 2; inv++) {
  g_inv = inv != 0;
  msim::Machine m; m.a64 = !is_x86; m.is64 = cv.arch != AX86; m.encoder_reg_ids = true;
  unsigned rs = m.regsize();
  uint64_t S0 = 0x7FFF0000ull - (is_x86 ? rs : 0);
  for (uint32_t i = 0; i < 32; i++) { m.gp[i] = 0x5A5A000000000000ull + i * 0x0101; for (int l = 0; l < 8; l++) { uint64_t t = 0x6B6B000000000000ull + i * 0x0101 + l; memcpy(m.vec[i] + 8 * l, &t, 8); } }
  m.sp() = S0;
  if (is_x86) m.wr(S0, 0xDEADBEE0, rs);
  uint64_t args_base = S0 + (is_x86 ? rs : 0);
  for (uint64_t a = args_base; a < args_base + 256; a++) m.wr8(a, 0x99);
  for (size_t i = 0; i < func.arg_count(); i++) {
    const FuncValue& v = func.arg(i); uint64_t t = token(i);
    if (v.is_reg()) { bool vv = v.reg_type() >= RegType::kVec32 && v.reg_type() <= RegType::kVec512; if (vv) { memset(m.vec[v.reg_id() & 31], 0x77, 64); memcpy(m.vec[v.reg_id() & 31], &t, 8); } else m.gp[v.reg_id() & 31] = m.is64 ? t : (t & 0xFFFFFFFFull); }
    else if (v.is_stack()) m.wr(args_base + uint64_t(int64_t(v.stack_offset())), t, 8);
    else return 3;
  }
  if (!m.is64) for (int i = 0; i < 8; i++) m.gp[i] &= 0xFFFFFFFFull;
  BaseNode* resume = nullptr;
  if (!msim::run(m, b->first_node(), b->first_node(), last, &resume)) FAIL("hang", "argument assignment did not terminate");
  if (m.ill_typed_scalar_moves) c.n("ill_typed_scalar_moves") += m.ill_typed_scalar_moves;
  if (!m.unsupported.empty()) { c.n("undecided")++; c.note("undecided: " + m.unsupported); return 3; }
  if (!m.fault.empty()) FAIL("fault", "%s", m.fault.c_str());
  // a destination that is the register holding the stack-argument base (dynamic alignment without frame pointer) is reached
  // through a swap with that base, i.e. it is a register cycle although the destination is foreign to the signature
  auto sa_swap = [&](size_t i) { return cs.fv == 1 && dsts[i].is_reg && !dsts[i].vec && frame.has_dynamic_alignment() && dsts[i].id == frame.sa_reg_id(); };
  for (size_t i = 0; i < n; i++) {
    unsigned tb = type_bytes(cs.types[i], cv.arch);
    uint64_t want = token(ai(i)) & msim::mask_n(tb), got;
    if (widen_bytes(cs.types[i])) {   // the destination type is wider: the value must be extended as the argument's type requires
      unsigned wb = widen_bytes(cs.types[i]);
      want = (widen_signed(cs.types[i]) ? uint64_t(msim::sext_n(want, tb)) : want) & msim::mask_n(wb);
      tb = wb;
    }
    if (dsts[i].is_reg) { if (dsts[i].vec) { got = 0; memcpy(&got, m.vec[dsts[i].id & 31], 8); } else got = m.gp[dsts[i].id == 63 ? 31 : dsts[i].id]; }
    else got = m.rd(m.sp() + uint64_t(dsts[i].off), 8);
    if ((got & msim::mask_n(tb)) != want)
      FAIL(widen_bytes(cs.types[i]) ? (!dsts[i].is_reg ? "wrong-value:widen:stack" : cs.dst[i] == 0 ? "wrong-value:widen:reg:self" : (cs.dst[i] <= (int)n || sa_swap(i)) ? "wrong-value:widen:reg:cycle" : "wrong-value:widen:reg:move") : "wrong-value", "argument %zu (%s) destination %s%u holds %llx, expected low %u bytes %llx", i, kTypeNames[cs.types[i]], dsts[i].is_reg ? (dsts[i].vec ? "vec" : "gp") : "stack+", dsts[i].is_reg ? dsts[i].id : unsigned(dsts[i].off), (unsigned long long)got, tb, (unsigned long long)want);
  }
  c.outcomes.insert(std::string(cv.name) + ":" + std::to_string(m.steps > 12 ? 12 : m.steps));
  }
  g_inv = false;
  return 1;
}

static void report(const Case& cs) {
  Conv cv = convs()[cs.conv];
  vh::ctx().violation(std::string("args:") + arch_name(cv.arch) + ":" + cv.name + ":" + g_clause, g_why + " :: " + cs.str(), "harness=c06_args\n" + cs.str() + "\n");
}

int main(int argc, char** argv) {
  vh::parse_args(argc, argv);
  vh::Ctx& c = vh::ctx();
  if (c.replaying()) {
    for (auto& line : vh::split(c.replay_text, '\n')) if (line.rfind("conv=", 0) == 0) {
      Case cs; char ts[128] = {0}, ds[128] = {0};
      if (line.find(" fmid=") != std::string::npos) sscanf(line.c_str(), "conv=%d pad=%d fv=%d fmid=%d types=%127s dst=%127s", &cs.conv, &cs.extra_stack_args, &cs.fv, &cs.fmid, ts, ds);
      else if (line.find(" fv=") != std::string::npos) sscanf(line.c_str(), "conv=%d pad=%d fv=%d types=%127s dst=%127s", &cs.conv, &cs.extra_stack_args, &cs.fv, ts, ds);
      else sscanf(line.c_str(), "conv=%d pad=%d types=%127s dst=%127s", &cs.conv, &cs.extra_stack_args, ts, ds);
      for (auto& x : vh::split(ts, ',')) if (!x.empty()) cs.types.push_back(atoi(x.c_str()));
      for (auto& x : vh::split(ds, ',')) if (!x.empty()) cs.dst.push_back(atoi(x.c_str()));
      if (run_case(cs) == 0) report(cs);
    }
    return vh::finish();
  }
  int maxn = c.thorough() ? 4 : 3;
  long long idx = 0;
  std::vector<Conv> cvs = convs();
  for (size_t ci = 0; ci < cvs.size(); ci++) for (int pad : {0, cvs[ci].arch == AX86 ? 2 : cvs[ci].arch == AX64 ? 5 : 7})
      for (int fv = 0; fv < (cvs[ci].arch == AA64 ? 1 : 3); fv++) for (int fmid : {0, cvs[ci].arch == AX86 ? -1 : 7}) for (int n = 1; n <= maxn; n++) {
    if (fmid < 0 || (fmid && (pad || fv || n < 2 || n > 3))) continue;   // vector-register-exhausting variant: plain frame, two or three shuffled arguments
    if (fv && n > 3) continue;   // frame variants: up to three shuffled arguments
    int ntypes = (n >= 4) ? 4 : (n == 3 ? 7 : kNumTypes);
    std::vector<int> types(n, 0), dst(n, 0);
    int nd = n + 4;
    std::function<void(int)> rec_d = [&](int i) {
      if (c.capped) return;
      if (i == n) {
        if (!c.mine(idx++)) return;
        if (c.tick(256)) return;
        Case cs{(int)ci, types, dst, pad}; cs.fv = fv; cs.fmid = fmid;
        int r = run_case(cs);
        if (r == 0) report(cs); else if (r == 1) c.sample(std::string(cvs[ci].name) + " " + cs.str(), 6); else if (r == 2) c.n("skipped_invalid")++;
        return;
      }
      for (int d = 0; d < nd; d++) { dst[i] = d; rec_d(i + 1); }
    };
    std::function<void(int)> rec_t = [&](int i) { if (i == n) { rec_d(0); return; } for (int t = 0; t < ntypes; t++) { types[i] = t; rec_t(i + 1); } };
    rec_t(0);
  }
  c.n("distinct_nontrivial") = c.n("evaluations") - c.n("undecided");
  c.n("states") = c.n("evaluations"); c.n("transitions") = c.n("evaluations"); c.n("traces") = c.n("evaluations");
  c.strs["bound"] = "n<=" + std::to_string(maxn) + " shuffled arguments (optionally preceded by register-filling pointer arguments so that they arrive on the stack), full product of types x destinations; x86 conventions x frame variant {plain, dynamic alignment 32 without / with a preserved frame pointer} for n<=3";
  c.strs["rule"] = "types {i32, iptr, u8, i16, f64, f32} + widening destinations {u32>u64, i16>i64, i32>i64, u8>u32}; destination of each argument in {own incoming register, incoming register of every other argument (all permutation cycles), "
                   "two registers foreign to the signature, a stack slot}; emit_prolog + emit_args_assignment interpreted by msim; every destination must hold the low type-size bytes of its argument token";
  c.assumptions.push_back("AArch64 frames with dynamic alignment are not varied here (not implemented by asmjit, see the C07 known finding)");
  c.assumptions.push_back("only the low type-size bytes of a destination are compared (extension beyond the type is not required by the ABIs modelled); msim semantics; scratch-register exhaustion is reached only through the assignments themselves");
  return vh::finish();
}
