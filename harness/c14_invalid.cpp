// C14 - invalid input is rejected with an error and leaves emitter state untouched.
//
// Shape I + short histories.  A UNIT is a short history of public-API calls executed on a fresh real emitter
// (x86-32 / x86-64 / AArch64; Assembler / Builder / Compiler; no / recording / throwing error handler).  Every
// call is judged on the spot (return code, handler invocations, holder state before/after, one-shot state) and
// the whole unit is judged differentially: a fresh twin emitter that receives only the calls that were accepted
// must end with exactly the same sections / labels / relocations (failed calls are no-ops, also after a throw).
// Operands that cannot be represented on the architecture at all (register id out of range, invalid label id,
// segment 7, ...) carry a MUST-REJECT reason computed by this file from the architecture manuals: a kOk for such
// a call (and, for Builder/Compiler, a kOk from finalize) is "accepted-garbage".  The bytes of every accepted
// Assembler instruction are written to <out>.acc for the disassembler leg in checks/c14.py.
//
// Units run in forked children; a fatal outcome (signal / sanitizer) is attributed to the exact call through a
// shared page, reported as ub-crash and the batch continues behind the crashing call.
#include "vh.h"
#include <asmjit/core.h>
#include <asmjit/x86.h>
#include <asmjit/a64.h>
#include <sys/mman.h>
#include <sys/wait.h>
#include <sys/time.h>
#include <memory>
#include <functional>
#include <climits>

using namespace asmjit;

// ---------------------------------------------------------------------------------------------------------
// configuration / call representation
// ---------------------------------------------------------------------------------------------------------
enum ArchK { AX86 = 0, AX64 = 1, AA64 = 2 };
enum EmK { EASM = 0, EBUILDER = 1, ECOMPILER = 2 };
enum HdK { HNONE = 0, HREC = 1, HTHROW = 2 };
static const char* kArchName[] = {"x86-32", "x64", "a64"};
static const char* kEmName[] = {"asm", "builder", "compiler"};
static const char* kHdName[] = {"none", "rec", "throw"};

static const uint64_t kBases[4] = {~uint64_t(0) /* none */, 0x10000ull, 0x200000000ull, 0x7FFFFFFFFFFF0000ull};

struct Cfg {
  ArchK arch = AX64; EmK ek = EASM; HdK hk = HREC; bool logger = false;
  int base = 0;             // index into kBases: base address given to CodeHolder::init() (0 = none)
  bool validate = true;     // kValidateAssembler (+kValidateIntermediate); off only for AArch64 "warm" units that have to reach the fast path of _emit
  std::string str() const { return std::string("arch=") + kArchName[arch] + " emitter=" + kEmName[ek] + " handler=" + kHdName[hk] + " logger=" + (logger ? "1" : "0") + " validate=" + (validate ? "1" : "0") + " base=" + std::to_string(base); }
  int key() const { return ((((int(arch) * 3 + int(ek)) * 3 + int(hk)) * 2 + (logger ? 1 : 0)) * 2 + (validate ? 1 : 0)) * 4 + base; }
};

// kinds: I inst, B bind, A align, E embed, D embed_data_array, L embed_label, X embed_label_delta, S section,
//        N new_named_label, n new_label (+bind when a0=1)
struct Call {
  char kind = 'I';
  uint32_t id = 0, opt = 0;
  bool comment = false, has_extra = false;
  Operand_ extra;
  int nops = 0;
  Operand_ ops[6];
  uint64_t a0 = 0, a1 = 0, a2 = 0;
  std::string must;   // non-empty: the call names something unrepresentable - it must not succeed (culprit text)
  int abs_form = 0;        // != 0: the call names an absolute target address (AbsForm); the encoding of an accepted call is decoded
  uint64_t abs_target = 0;
  bool expect_ok = false;  // harness self check: a default instantiation the Assembler has to accept
  std::string tag;    // last component of violation keys when there is no culprit (inst name / class / call name)
  Call() { extra.reset(); for (auto& o : ops) o.reset(); }
};

static const char* call_kind_name(char k) {
  switch (k) {
    case 'I': return "inst"; case 'B': return "bind"; case 'A': return "align"; case 'E': return "embed";
    case 'D': return "embed_data_array"; case 'L': return "embed_label"; case 'X': return "embed_label_delta";
    case 'S': return "section"; case 'N': return "new_named_label"; case 'n': return "new_label"; case 'F': return "finalize";
  }
  return "?";
}

static std::string hx(uint64_t v) { char b[32]; snprintf(b, sizeof b, "0x%llx", (unsigned long long)v); return b; }
static std::string num(long long v) { return std::to_string(v); }

static const char* reg_type_name(uint32_t t) {
  switch (RegType(t)) {
    case RegType::kNone: return "none"; case RegType::kLabelTag: return "label";
    case RegType::kGp8Lo: return "gp8lo"; case RegType::kGp8Hi: return "gp8hi"; case RegType::kGp16: return "gp16";
    case RegType::kGp32: return "gp32"; case RegType::kGp64: return "gp64";
    case RegType::kVec8: return "vec8"; case RegType::kVec16: return "vec16"; case RegType::kVec32: return "vec32";
    case RegType::kVec64: return "vec64"; case RegType::kVec128: return "vec128"; case RegType::kVec256: return "vec256";
    case RegType::kVec512: return "vec512"; case RegType::kVec1024: return "vec1024"; case RegType::kVecNLen: return "vecn";
    case RegType::kMask: return "mask"; case RegType::kTile: return "tile"; case RegType::kSegment: return "seg";
    case RegType::kControl: return "cr"; case RegType::kDebug: return "dr"; case RegType::kX86_Mm: return "mm";
    case RegType::kX86_St: return "st"; case RegType::kX86_Bnd: return "bnd"; case RegType::kPC: return "pc";
    default: break;
  }
  static char b[40][12]; snprintf(b[t % 40], 12, "type%u", t); return b[t % 40];
}

static std::string idstr(uint32_t id) { return id >= Operand::kVirtIdMin ? (id == Globals::kInvalidId ? std::string("INVALID") : "virt" + num(id)) : num(id); }

// Own (crash-proof) operand description - never uses the library formatter.
static std::string desc_op(ArchK arch, const Operand_& o) {
  switch (o.op_type()) {
    case OperandType::kNone: return "none";
    case OperandType::kReg: {
      const Reg& r = o.as<Reg>();
      std::string s = std::string(reg_type_name(uint32_t(r.reg_type()))) + "#" + idstr(r.id());
      if (arch == AA64 && r.is_vec()) {
        const a64::Vec& v = o.as<a64::Vec>();
        if (uint32_t(v.element_type())) s += ".et" + num(uint32_t(v.element_type()));
        if (v.has_element_index()) s += "[" + num(v.element_index()) + "]";
      }
      return s;
    }
    case OperandType::kMem: {
      const BaseMem& m = o.as<BaseMem>();
      std::string s = "mem[";
      if (m.base_type() == RegType::kNone) s += "abs";
      else s += std::string(reg_type_name(uint32_t(m.base_type()))) + "#" + idstr(m.base_id());
      if (m.index_type() != RegType::kNone) s += "+" + std::string(reg_type_name(uint32_t(m.index_type()))) + "#" + idstr(m.index_id());
      if (arch != AA64) {
        const x86::Mem& xm = o.as<x86::Mem>();
        if (xm.shift()) s += "<<" + num(xm.shift());
        s += (m.offset() < 0 ? "" : "+") + num(m.offset());
        if (xm.segment_id()) s += " seg=" + num(xm.segment_id());
        if (uint32_t(xm.get_broadcast())) s += " bcst=" + num(uint32_t(xm.get_broadcast()));
        if (xm.size()) s += " size=" + num(xm.size());
        if (uint32_t(xm.addr_type())) s += " addr=" + num(uint32_t(xm.addr_type()));
      } else {
        const a64::Mem& am = o.as<a64::Mem>();
        if (m.index_type() != RegType::kNone) s += " sop=" + num(uint32_t(am.shift_op())) + " sh=" + num(am.shift());
        s += (m.offset() < 0 ? "" : "+") + num(m.offset());
        if (uint32_t(am.offset_mode())) s += " mode=" + num(uint32_t(am.offset_mode()));
      }
      return s + "]";
    }
    case OperandType::kImm: {
      const Imm& i = o.as<Imm>();
      std::string s = "imm(" + num(i.value());
      if (i.predicate()) s += " pred=" + num(i.predicate());
      return s + ")";
    }
    case OperandType::kLabel: return "label#" + idstr(o.id());
    default: break;
  }
  return "optype" + num(uint32_t(o.op_type()));
}

static std::string inst_name(ArchK arch, uint32_t id) {
  String s;
  uint32_t real = arch == AA64 ? (id & uint32_t(InstIdParts::kRealId)) : id;
  uint32_t count = arch == AA64 ? uint32_t(a64::Inst::_kIdCount) : uint32_t(x86::Inst::_kIdCount);
  if (real == 0 || real >= count) return "id" + hx(id);
  InstAPI::inst_id_to_string(arch == AA64 ? Arch::kAArch64 : arch == AX64 ? Arch::kX64 : Arch::kX86, real, InstStringifyOptions::kNone, s);
  std::string r(s.data(), s.size());
  if (arch == AA64 && real != id) r += ".cc" + num(id >> 27);
  return r.empty() ? "id" + hx(id) : r;
}

static std::string desc_call(ArchK arch, const Call& c) {
  std::string s;
  switch (c.kind) {
    case 'I': {
      s = inst_name(arch, c.id);
      if (c.opt) s += " {opt=" + hx(c.opt) + "}";
      if (c.has_extra) s += " {extra=" + desc_op(arch, c.extra) + "}";
      if (c.comment) s += " {comment}";
      for (int i = 0; i < c.nops; i++) s += (i ? ", " : " ") + desc_op(arch, c.ops[i]);
      return s;
    }
    case 'B': return "bind(label#" + idstr(uint32_t(c.a0)) + ")";
    case 'A': return "align(mode=" + num(c.a0) + ", " + num(c.a1) + ")";
    case 'E': return std::string("embed(") + (c.a0 ? "buf" : "nullptr") + ", " + num(c.a1) + ")";
    case 'D': return "embed_data_array(type=" + num(c.a0) + ", buf, items=" + hx(c.a1) + ", repeat=" + hx(c.a2) + ")";
    case 'L': return "embed_label(label#" + idstr(uint32_t(c.a0)) + ", size=" + num(c.a1) + ")";
    case 'X': return "embed_label_delta(label#" + idstr(uint32_t(c.a0)) + ", label#" + idstr(uint32_t(c.a1)) + ", size=" + num(c.a2) + ")";
    case 'S': { static const char* w[] = {"nullptr", "second section", ".text", "section of another holder"}; return std::string("section(") + w[c.a0 & 3] + ")"; }
    case 'N': { static const char* w[] = {"\"\"", "\"fresh\"", "<name longer than kMaxLabelNameSize>", "\"dup\" (already defined)"};
                return std::string("new_named_label(") + w[c.a0 & 3] + ", type=" + num(c.a1) + ", parent=" + idstr(uint32_t(c.a2)) + ")"; }
    case 'n': return c.a0 ? "new_label()+bind" : "new_label()";
  }
  return "?";
}

// ---- replay text ----
static std::string ser_op(const Operand_& o) {
  char b[64]; snprintf(b, sizeof b, "%08x.%08x.%08x.%08x", o._signature._bits, o._base_id, o._data[0], o._data[1]); return b;
}
static bool parse_op(const std::string& s, Operand_& o) {
  unsigned a, b, c, d;
  if (sscanf(s.c_str(), "%x.%x.%x.%x", &a, &b, &c, &d) != 4) return false;
  o._signature._bits = a; o._base_id = b; o._data[0] = c; o._data[1] = d; return true;
}
static std::string enc_text(const std::string& s) { std::string o; for (char ch : s) o += (ch == ' ' ? '_' : ch == '\n' ? '_' : ch); return o; }

static std::string ser_call(ArchK arch, const Call& c) {
  std::string s = "call=";
  s += c.kind;
  if (c.kind == 'I') {
    s += " id=" + hx(c.id) + " opt=" + hx(c.opt) + " comment=" + (c.comment ? "1" : "0") + " extra=" + (c.has_extra ? ser_op(c.extra) : std::string("-")) + " ops=";
    if (!c.nops) s += "-";
    for (int i = 0; i < c.nops; i++) s += (i ? "," : "") + ser_op(c.ops[i]);
  } else {
    s += " a0=" + hx(c.a0) + " a1=" + hx(c.a1) + " a2=" + hx(c.a2);
  }
  if (c.abs_form) s += " abs=" + num(c.abs_form) + ":" + hx(c.abs_target);
  s += " tag=" + (c.tag.empty() ? std::string("-") : enc_text(c.tag));
  s += " must=" + (c.must.empty() ? std::string("-") : enc_text(c.must));
  s += " # " + desc_call(arch, c);
  return s;
}

static bool parse_call(const std::string& line, Call& c) {
  std::string l = line.substr(0, line.find(" # "));
  c = Call();
  for (auto& tok : vh::split(l, ' ')) {
    size_t eq = tok.find('=');
    if (eq == std::string::npos) continue;
    std::string k = tok.substr(0, eq), v = tok.substr(eq + 1);
    if (k == "call") c.kind = v.empty() ? 'I' : v[0];
    else if (k == "id") c.id = uint32_t(strtoull(v.c_str(), nullptr, 0));
    else if (k == "opt") c.opt = uint32_t(strtoull(v.c_str(), nullptr, 0));
    else if (k == "comment") c.comment = v == "1";
    else if (k == "extra") { if (v != "-") c.has_extra = parse_op(v, c.extra); }
    else if (k == "ops") { if (v != "-") for (auto& o : vh::split(v, ',')) if (c.nops < 6 && parse_op(o, c.ops[c.nops])) c.nops++; }
    else if (k == "a0") c.a0 = strtoull(v.c_str(), nullptr, 0);
    else if (k == "a1") c.a1 = strtoull(v.c_str(), nullptr, 0);
    else if (k == "a2") c.a2 = strtoull(v.c_str(), nullptr, 0);
    else if (k == "tag") c.tag = v == "-" ? "" : v;
    else if (k == "abs") { c.abs_form = atoi(v.c_str()); size_t q = v.find(':'); if (q != std::string::npos) c.abs_target = strtoull(v.c_str() + q + 1, nullptr, 0); }
    else if (k == "must") c.must = v == "-" ? "" : v;
  }
  return true;
}

struct Unit {
  Cfg cfg;
  std::vector<Call> calls;
  const char* group = "";
};

static std::string ser_unit_head(const Cfg& cfg) { return "harness=c14_invalid\n" + cfg.str() + "\n"; }
static std::string ser_unit(const Cfg& cfg, const std::vector<Call>& calls) {
  std::string s = ser_unit_head(cfg);
  for (auto& c : calls) s += ser_call(cfg.arch, c) + "\n";
  return s;
}
static bool parse_unit(const std::string& text, Unit& u) {
  for (auto& line : vh::split(text, '\n')) {
    if (line.rfind("arch=", 0) == 0) {
      for (auto& tok : vh::split(line, ' ')) {
        size_t eq = tok.find('='); if (eq == std::string::npos) continue;
        std::string k = tok.substr(0, eq), v = tok.substr(eq + 1);
        if (k == "arch") for (int i = 0; i < 3; i++) if (v == kArchName[i]) u.cfg.arch = ArchK(i);
        if (k == "emitter") for (int i = 0; i < 3; i++) if (v == kEmName[i]) u.cfg.ek = EmK(i);
        if (k == "handler") for (int i = 0; i < 3; i++) if (v == kHdName[i]) u.cfg.hk = HdK(i);
        if (k == "logger") u.cfg.logger = v == "1";
        if (k == "validate") u.cfg.validate = v != "0";
        if (k == "base") u.cfg.base = atoi(v.c_str()) & 3;
      }
    } else if (line.rfind("call=", 0) == 0) {
      Call c; parse_call(line, c); u.calls.push_back(c);
    }
  }
  return !u.calls.empty();
}

// ---------------------------------------------------------------------------------------------------------
// x86: components that do not exist on the architecture (Intel SDM vol.2 ch.2: ModRM/SIB/REX/VEX/EVEX register
// fields; vol.1 3.4: register sets).  Only *representability* is judged here, never instruction signatures.
// ---------------------------------------------------------------------------------------------------------
static std::string x86_unrepresentable(const Operand_& o, bool is64, EmK ek) {
  auto virt = [&](uint32_t id) { return id >= Operand::kVirtIdMin; };
  auto gp_limit = [&]() -> uint32_t { return is64 ? 16u : 8u; };
  auto vec_limit = [&]() -> uint32_t { return is64 ? 32u : 8u; };
  auto virt_reason = [&](const char* what) -> std::string { return ek == ECOMPILER ? std::string() : std::string(what) + "-virtual-id"; };
  switch (o.op_type()) {
    case OperandType::kReg: {
      const Reg& r = o.as<Reg>();
      uint32_t id = r.id(), lim = 0;
      const char* tn = reg_type_name(uint32_t(r.reg_type()));
      switch (r.reg_type()) {
        case RegType::kGp8Lo: lim = is64 ? 16 : 4; break;
        case RegType::kGp8Hi: lim = 4; break;
        case RegType::kGp16: case RegType::kGp32: lim = gp_limit(); break;
        case RegType::kGp64: if (!is64) return "reg-gp64-in-32bit-mode"; lim = 16; break;
        case RegType::kVec128: case RegType::kVec256: case RegType::kVec512: lim = vec_limit(); break;
        case RegType::kMask: case RegType::kX86_Mm: case RegType::kX86_St: case RegType::kTile: lim = 8; break;
        case RegType::kSegment: if (!virt(id) && (id < 1 || id > 6)) return "reg-seg-id"; return virt(id) ? virt_reason("reg") : std::string();
        case RegType::kControl: lim = 16; break;
        case RegType::kDebug: lim = is64 ? 16 : 8; break;
        case RegType::kX86_Bnd: lim = 4; break;
        case RegType::kPC: return "reg-rip-as-operand";
        default: return std::string("reg-type-") + tn + "-not-x86";
      }
      if (virt(id)) return virt_reason("reg");
      if (id >= lim) return std::string("reg-") + tn + "-id";
      return "";
    }
    case OperandType::kMem: {
      const x86::Mem& m = o.as<x86::Mem>();
      if (m.segment_id() > 6) return "mem-segment-7";
      if (uint32_t(m.get_broadcast()) > 6) return "mem-broadcast-7";
      RegType bt = m.base_type(), it = m.index_type();
      if (bt == RegType::kLabelTag) {
        // label ids valid in every unit: 0,1,2 (see Env)
        if (m.base_id() > 64) return "mem-label-invalid";      // ids near label_count() are judged per history (label_ids_of)
      } else if (bt == RegType::kPC || bt == RegType::kNone) {
      } else if (bt == RegType::kGp16 || bt == RegType::kGp32 || bt == RegType::kGp64) {
        if (bt == RegType::kGp64 && !is64) return "mem-base-gp64-in-32bit-mode";
        if (bt == RegType::kGp16 && is64) return "mem-base-gp16-in-64bit-mode";
        if (virt(m.base_id())) { std::string v = virt_reason("mem-base"); if (!v.empty()) return v; }
        else if (m.base_id() >= gp_limit()) return std::string("mem-base-") + reg_type_name(uint32_t(bt)) + "-id";
      } else {
        return std::string("mem-base-type-") + reg_type_name(uint32_t(bt));
      }
      if (it != RegType::kNone) {
        bool gp = it == RegType::kGp16 || it == RegType::kGp32 || it == RegType::kGp64;
        bool vec = it == RegType::kVec128 || it == RegType::kVec256 || it == RegType::kVec512;
        if (!gp && !vec) return std::string("mem-index-type-") + reg_type_name(uint32_t(it));
        if (it == RegType::kGp64 && !is64) return "mem-index-gp64-in-32bit-mode";
        if (it == RegType::kGp16 && is64) return "mem-index-gp16-in-64bit-mode";
        if (virt(m.index_id())) { std::string v = virt_reason("mem-index"); if (!v.empty()) return v; }
        else {
          if (m.index_id() >= (gp ? gp_limit() : vec_limit())) return std::string("mem-index-") + reg_type_name(uint32_t(it)) + "-id";
          if (gp && it != RegType::kGp16 && m.index_id() == 4) return "mem-index-is-sp";
        }
      }
      return "";
    }
    case OperandType::kLabel:
      if (o.id() > 64) return "label-invalid";                // ids near label_count() are judged per history (label_ids_of)
      return "";
    default: return "";
  }
}

// what python needs to know about the request: r:<type>:<id> | m:<btype>:<bid>:<itype>:<iid>:<shift>:<off>:<seg> | i | l
static std::string req_spec(ArchK arch, const Call& c) {
  std::string s;
  auto one = [&](const Operand_& o) {
    switch (o.op_type()) {
      case OperandType::kReg: s += std::string("r:") + reg_type_name(uint32_t(o.as<Reg>().reg_type())) + ":" + num(o.id()) + ";"; break;
      case OperandType::kMem: {
        const BaseMem& m = o.as<BaseMem>();
        uint32_t shift = arch == AA64 ? o.as<a64::Mem>().shift() : o.as<x86::Mem>().shift();
        uint32_t seg = arch == AA64 ? 0 : o.as<x86::Mem>().segment_id();
        s += std::string("m:") + reg_type_name(uint32_t(m.base_type())) + ":" + num(m.base_id()) + ":" + reg_type_name(uint32_t(m.index_type())) + ":" + num(m.index_id()) + ":" + num(shift) + ":" + num(m.offset()) + ":" + num(seg) + ";";
        break;
      }
      case OperandType::kImm: s += "i;"; break;
      case OperandType::kLabel: s += "l;"; break;
      default: break;
    }
  };
  for (int i = 0; i < c.nops; i++) one(c.ops[i]);
  if (c.has_extra) one(c.extra);
  if (c.opt) s += "o:" + hx(c.opt) + ";";
  return s;
}

// ---------------------------------------------------------------------------------------------------------
// real objects
// ---------------------------------------------------------------------------------------------------------
struct Thrown { Error err; };

struct RecHandler : public ErrorHandler {
  int count = 0; Error last = Error::kOk; BaseEmitter* origin = nullptr; bool do_throw = false; size_t msg_len = 0;
  void handle_error(Error err, const char* message, BaseEmitter* org) override {
    count++; last = err; origin = org;
    msg_len = message ? strlen(message) : 0;      // touches the whole message (ASan judges the formatter's buffer)
    if (do_throw) throw Thrown{err};
  }
};

static uint8_t g_data[64] = {1, 2, 3, 4, 5, 6, 7, 8, 9, 10, 11, 12, 13, 14, 15, 16};

struct Env {
  Cfg cfg;
  CodeHolder foreign;
  CodeHolder code;
  RecHandler eh;
  StringLogger lg;
  std::unique_ptr<BaseEmitter> em;      // destroyed before `code`
  Label L0, L1, Ldup;
  Section* S1 = nullptr;
  Section* SF = nullptr;
  bool ok = false;

  explicit Env(const Cfg& c) : cfg(c) {
    Arch a = c.arch == AX86 ? Arch::kX86 : c.arch == AX64 ? Arch::kX64 : Arch::kAArch64;
    if (code.init(Environment(a), kBases[c.base]) != Error::kOk) return;
    if (foreign.init(Environment(a)) != Error::kOk) return;
    if (foreign.new_section(Out(SF), ".foreign", SIZE_MAX, SectionFlags::kNone, 8, 0) != Error::kOk) return;
    if (c.hk != HNONE) { eh.do_throw = false; code.set_error_handler(&eh); }
    if (c.logger) code.set_logger(&lg);
    if (c.arch == AA64) {
      if (c.ek == EASM) em.reset(new a64::Assembler()); else if (c.ek == EBUILDER) em.reset(new a64::Builder()); else em.reset(new a64::Compiler());
    } else {
      if (c.ek == EASM) em.reset(new x86::Assembler()); else if (c.ek == EBUILDER) em.reset(new x86::Builder()); else em.reset(new x86::Compiler());
    }
    if (code.attach(em.get()) != Error::kOk) return;
    if (c.validate) {
      em->add_diagnostic_options(DiagnosticOptions::kValidateAssembler);
      if (c.ek != EASM) em->add_diagnostic_options(DiagnosticOptions::kValidateIntermediate);
    }
    // preamble: label ids 0 (bound at 0), 1 (unbound until the epilogue), 2 (named "dup"); a second section
    L0 = em->new_label(); L1 = em->new_label(); Ldup = em->new_named_label("dup");
    if (L0.id() != 0 || L1.id() != 1 || Ldup.id() != 2) return;
    if (em->bind(L0) != Error::kOk) return;
    if (code.new_section(Out(S1), ".second", SIZE_MAX, SectionFlags::kNone, 8, 0) != Error::kOk) return;
    eh.do_throw = c.hk == HTHROW;
    ok = eh.count == 0;
  }
  BaseBuilder* builder() { return cfg.ek == EASM ? nullptr : static_cast<BaseBuilder*>(em.get()); }
  BaseAssembler* assembler() { return cfg.ek == EASM ? static_cast<BaseAssembler*>(em.get()) : nullptr; }
};

enum { SN_MAX = 24 };
struct Snap { uint64_t v[SN_MAX]; const char* n[SN_MAX]; int cnt = 0; void add(const char* name, uint64_t x) { if (cnt < SN_MAX) { n[cnt] = name; v[cnt++] = x; } } };

static void take_snap(Env& e, Snap& s) {
  s.cnt = 0;
  CodeHolder& code = e.code;
  s.add("section-count", code.section_count());
  static const char* sz[] = {"section-size", "section-size(1)", "section-size(2)", "section-size(3)"};
  static const char* vs[] = {"section-virtual-size", "section-virtual-size(1)", "section-virtual-size(2)", "section-virtual-size(3)"};
  static const char* by[] = {"section-bytes", "section-bytes(1)", "section-bytes(2)", "section-bytes(3)"};
  size_t i = 0;
  for (Section* sec : code.sections()) {
    if (i >= 4) break;
    s.add(sz[i], sec->buffer_size()); s.add(vs[i], sec->virtual_size());
    s.add(by[i], vh::fnv(sec->data(), sec->buffer_size()));
    i++;
  }
  s.add("label-count", code.label_count());
  s.add("relocation-count", code.reloc_entries().size());
  s.add("fixup-count", code.unresolved_fixup_count());
  s.add("address-table", code.has_address_table_section() ? 1 : 0);
  if (BaseAssembler* a = e.assembler()) {
    s.add("offset", a->offset());
    s.add("current-section", a->current_section() ? a->current_section()->section_id() : ~0u);
  }
  if (BaseBuilder* b = e.builder()) {
    uint64_t n = 0; for (BaseNode* node = b->first_node(); node && n < 1000000; node = node->next()) n++;    // 1000000 = the list is cyclic
    s.add("node-count", n); s.add("cursor", uint64_t(uintptr_t(b->cursor()))); s.add("last-node", uint64_t(uintptr_t(b->last_node())));
  }
}

struct Final { int fin_err = 0; std::string image; bool operator==(const Final& o) const { return fin_err == o.fin_err && image == o.image; } };

static void take_final(Env& e, Final& f) {
  CodeHolder& code = e.code;
  std::string& s = f.image; s.clear();
  for (Section* sec : code.sections()) {
    s += "section " + num(sec->section_id()) + " size=" + num(sec->buffer_size()) + " vsize=" + num(sec->virtual_size()) + " bytes=" + vh::hex(sec->data(), sec->buffer_size()) + "\n";
  }
  s += "labels=" + num(code.label_count()) + "\n";
  uint32_t id = 0;
  for (const LabelEntry& le : code.label_entries()) { s += " L" + num(id) + (le.is_bound() ? ":" + num(le.section_id()) + "+" + num(le.offset()) : std::string(":unbound")); id++; }
  s += "\nfixups=" + num(code.unresolved_fixup_count()) + " relocs=" + num(code.reloc_entries().size()) + "\n";
  for (RelocEntry* re : code.reloc_entries()) {
    s += " reloc type=" + num(uint32_t(re->reloc_type())) + " src=" + num(re->source_section_id()) + "+" + num(re->source_offset()) + " dst=" + num(re->target_section_id());
    if (re->reloc_type() != RelocType::kExpression) s += " payload=" + hx(re->payload());
    s += "\n";
  }
}

static bool em_has_state(Env& e) {
  BaseEmitter* em = e.em.get();
  return em->inst_options() != InstOptions::kNone || em->has_extra_reg() || em->inline_comment() != nullptr;
}

// ---------------------------------------------------------------------------------------------------------
// executing one call
// ---------------------------------------------------------------------------------------------------------
struct CallOut { Error err = Error::kOk; bool thrown = false; bool code_known = true; };

static void exec_call(Env& e, const Call& c, CallOut& out) {
  BaseEmitter* em = e.em.get();
  out = CallOut();
  int h0 = e.eh.count;
  try {
    switch (c.kind) {
      case 'I':
        if (c.opt) em->set_inst_options(InstOptions(c.opt));
        if (c.has_extra) em->set_extra_reg(c.extra.as<Reg>());
        if (c.comment) em->set_inline_comment("c14 comment");
        out.err = em->emit_op_array(c.id, c.ops, size_t(c.nops));
        break;
      case 'B': out.err = em->bind(Label(uint32_t(c.a0))); break;
      case 'A': out.err = em->align(AlignMode(uint32_t(c.a0)), uint32_t(c.a1)); break;
      case 'E': out.err = em->embed(c.a0 ? g_data : nullptr, size_t(c.a1)); break;
      case 'D': out.err = em->embed_data_array(TypeId(uint32_t(c.a0)), g_data, size_t(c.a1), size_t(c.a2)); break;
      case 'L': out.err = em->embed_label(Label(uint32_t(c.a0)), size_t(c.a1)); break;
      case 'X': out.err = em->embed_label_delta(Label(uint32_t(c.a0)), Label(uint32_t(c.a1)), size_t(c.a2)); break;
      case 'S': {
        Section* s = c.a0 == 0 ? nullptr : c.a0 == 1 ? e.S1 : c.a0 == 2 ? e.code.text_section() : e.SF;
        out.err = em->section(s);
        break;
      }
      case 'N': {
        static const std::string too_long(Globals::kMaxLabelNameSize + 1, 'n');
        const char* name = c.a0 == 0 ? "" : c.a0 == 1 ? "fresh" : c.a0 == 2 ? too_long.c_str() : "dup";
        Label l = em->new_named_label(name, SIZE_MAX, LabelType(uint32_t(c.a1)), uint32_t(c.a2));
        if (!l.is_valid()) { out.code_known = e.eh.count > h0; out.err = out.code_known ? e.eh.last : Error::kInvalidArgument; }
        break;
      }
      case 'n': {
        Label l = em->new_label();
        if (!l.is_valid()) { out.code_known = e.eh.count > h0; out.err = out.code_known ? e.eh.last : Error::kInvalidArgument; }
        else if (c.a0) out.err = em->bind(l);
        break;
      }
    }
  } catch (const Thrown& t) {
    out.thrown = true; out.err = t.err;
  }
}

// ---------------------------------------------------------------------------------------------------------
// unit results (child -> parent) and crash attribution
// ---------------------------------------------------------------------------------------------------------
struct UR {
  std::map<std::string, long long> cnt;
  std::vector<vh::Violation> viol;
  std::vector<std::string> acc, samples, notes;
  std::set<std::string> outcomes;
  void violation(const std::string& k, const std::string& d, const std::string& r) { viol.push_back(vh::Violation{k, d, r}); }
  void clear() { cnt.clear(); viol.clear(); acc.clear(); samples.clear(); notes.clear(); outcomes.clear(); }
};

struct Shared { volatile long unit; volatile int call; volatile int phase; };   // phase: 0 setup 1 call 2 epilogue 3 twin 4 cross 5 localize
static Shared* g_sh = nullptr;
static int g_mark_override = -1;            // while a single call of a longer unit is re-judged alone: its index in the unit
static void mark(int phase, int call) { if (g_sh) { g_sh->call = (g_mark_override >= 0 && call >= 0) ? g_mark_override : call; g_sh->phase = phase; } }

static std::set<std::string> g_dead;     // culprits / tags that crashed repeatedly in this shard: calls naming them are skipped

static std::string culprit_or_tag(const Call& c) { return !c.must.empty() ? c.must : (c.tag.empty() ? std::string("-") : c.tag); }
// what is skipped after repeated crashes: x86 calls naming the same unrepresentable component; otherwise the very same call
static std::string dead_key(const Cfg& cfg, const Call& c) {
  // per emitter; for the Assembler also per handler kind (a throwing handler can die differently: std::terminate)
  ArchK arch = cfg.arch;
  std::string pre = std::string(kArchName[arch]) + "|" + kEmName[cfg.ek] + "|" + (cfg.ek == EASM ? kHdName[cfg.hk] : "-") + "|";
  if (!c.must.empty()) return pre + (arch == AA64 ? c.must + "|" + c.tag : c.must);
  std::string k = pre + c.tag + "|" + num(c.id) + "|" + num(c.opt);
  for (int i = 0; i < c.nops; i++) k += "|" + ser_op(c.ops[i]);
  return k + "|" + num(c.a0) + "|" + num(c.a1) + "|" + num(c.a2);
}
static std::string vkey(const Cfg& cfg, const Call& c, const std::string& clause, const std::string& last) {
  std::string k = std::string("invalid:") + kArchName[cfg.arch] + ":" + kEmName[cfg.ek] + ":" + call_kind_name(c.kind) + ":" + clause + (last.empty() ? "" : ":" + last);
  for (char& ch : k) if (ch == ' ' || ch == '\t' || ch == '*' || ch == '?') ch = '_';
  return k;
}
static std::string errname(Error e) { const char* s = DebugUtils::error_as_string(e); return s ? s : "?"; }

// ---------------------------------------------------------------------------------------------------------
// probe program (position independent; creates its own label; consumes one-shot state)
// ---------------------------------------------------------------------------------------------------------
static Error probe(Env& e) {
  BaseEmitter* em = e.em.get();
  Label lp = em->new_label();
  Error err = Error::kOk;
  auto acc = [&](Error x) { if (err == Error::kOk) err = x; };
  if (!lp.is_valid()) return Error::kInvalidLabel;
  if (e.cfg.arch == AA64) {
    using namespace a64;
    acc(em->emit(Inst::kIdAdd, x0, x1, x2));
    acc(em->emit(Inst::kIdLdr, x0, a64::Mem(x1, 8)));
    acc(em->emit(Inst::kIdB, lp));
    acc(em->emit(Inst::kIdAdr, x0, lp));
    acc(em->bind(lp));
    acc(em->emit(Inst::kIdRet, x30));
  } else {
    using namespace x86;
    bool is64 = e.cfg.arch == AX64;
    Gp zbx = is64 ? Gp(rbx) : Gp(ebx);
    Gp zax = is64 ? Gp(rax) : Gp(eax);
    acc(em->emit(Inst::kIdMov, eax, Imm(1)));
    acc(em->emit(Inst::kIdAdd, eax, x86::Mem(zbx, 8)));
    acc(em->emit(Inst::kIdJmp, lp));
    acc(em->emit(Inst::kIdLea, zax, x86::Mem(lp, 0)));
    em->set_inst_options(InstOptions::kX86_Lock);
    acc(em->emit(Inst::kIdAdd, x86::Mem(zbx, 0, 4), eax));
    em->set_extra_reg(k1); em->set_inst_options(InstOptions::kX86_ZMask);
    acc(em->emit(Inst::kIdVaddps, zmm1, zmm2, zmm3));
    acc(em->bind(lp));
    acc(em->emit(Inst::kIdRet));
  }
  return err;
}

// ---------------------------------------------------------------------------------------------------------
// absolute targets under a known base address: field layouts of the Arm ARM (C6.2 B/BL imm26, B.cond/CBZ/LDR literal
// imm19, TBZ imm14, ADR/ADRP immlo:immhi) and of the Intel SDM (rel8 / rel32 relative to the end of the instruction,
// RIP relative disp32).  Everything is computed from the bytes, nothing from the library.
// ---------------------------------------------------------------------------------------------------------
enum AbsForm { AF_NONE = 0, AF_IMM26 = 1, AF_IMM19 = 2, AF_IMM14 = 3, AF_ADR = 4, AF_ADRP = 5, AF_X86_JMP = 10, AF_X86_JCC = 11, AF_X86_MEM = 12 };

static int64_t sx(uint64_t v, int bits) { uint64_t m = uint64_t(1) << (bits - 1); v &= (uint64_t(1) << bits) - 1; return int64_t((v ^ m) - m); }

// reachable with this form from `pc`?  (AArch64: pc = address of the instruction)
static bool a64_reachable(int form, uint64_t pc, uint64_t target) {
  int64_t d = int64_t(target - pc);
  switch (form) {
    case AF_IMM26: return (d & 3) == 0 && d >= -(int64_t(1) << 27) && d < (int64_t(1) << 27);
    case AF_IMM19: return (d & 3) == 0 && d >= -(int64_t(1) << 20) && d < (int64_t(1) << 20);
    case AF_IMM14: return (d & 3) == 0 && d >= -(int64_t(1) << 15) && d < (int64_t(1) << 15);
    case AF_ADR: return d >= -(int64_t(1) << 20) && d < (int64_t(1) << 20);
    case AF_ADRP: { int64_t pd = int64_t((target & ~uint64_t(0xFFF)) - (pc & ~uint64_t(0xFFF))); return pd >= -(int64_t(1) << 32) && pd < (int64_t(1) << 32); }
  }
  return true;
}
// the address the emitted word refers to
static uint64_t a64_decoded_target(int form, uint32_t w, uint64_t pc) {
  switch (form) {
    case AF_IMM26: return pc + uint64_t(sx(w & 0x3FFFFFFu, 26) * 4);
    case AF_IMM19: return pc + uint64_t(sx((w >> 5) & 0x7FFFFu, 19) * 4);
    case AF_IMM14: return pc + uint64_t(sx((w >> 5) & 0x3FFFu, 14) * 4);
    case AF_ADR: return pc + uint64_t(sx((((w >> 5) & 0x7FFFFu) << 2) | ((w >> 29) & 3u), 21));
    case AF_ADRP: return (pc & ~uint64_t(0xFFF)) + uint64_t(sx((((w >> 5) & 0x7FFFFu) << 2) | ((w >> 29) & 3u), 21) * 4096);
  }
  return 0;
}
// x86-64: returns false when the bytes are not one of the PC relative / absolute patterns this leg understands
static bool x86_decoded_target(int form, const uint8_t* b, size_t n, uint64_t pc, uint64_t& tgt) {
  auto rd32 = [&](size_t at) { return int32_t(uint32_t(b[at]) | (uint32_t(b[at + 1]) << 8) | (uint32_t(b[at + 2]) << 16) | (uint32_t(b[at + 3]) << 24)); };
  if (form == AF_X86_JMP || form == AF_X86_JCC) {
    if (n == 2 && (b[0] == 0xEB || (b[0] & 0xF0) == 0x70)) { tgt = pc + 2 + uint64_t(int64_t(int8_t(b[1]))); return true; }
    if (n == 5 && (b[0] == 0xE9 || b[0] == 0xE8)) { tgt = pc + 5 + uint64_t(int64_t(rd32(1))); return true; }
    if (n == 6 && b[0] == 0x0F && (b[1] & 0xF0) == 0x80) { tgt = pc + 6 + uint64_t(int64_t(rd32(2))); return true; }
    return false;
  }
  if (form == AF_X86_MEM) {
    if (n >= 7 && (b[n - 6] & 0xC7) == 0x04 && b[n - 5] == 0x25) {                                                        // [disp32] (SIB, no base, no index)
      bool a32 = false; for (size_t i = 0; i + 6 < n; i++) if (b[i] == 0x67) a32 = true;
      tgt = a32 ? uint64_t(uint32_t(rd32(n - 4))) : uint64_t(int64_t(rd32(n - 4)));
      // LEA without REX.W writes the low 32 bits of the effective address, zero extended: that is the value the request names
      if (b[n - 7] == 0x8D && !(n >= 8 && (b[n - 8] & 0xF8) == 0x48)) tgt = uint64_t(uint32_t(tgt));
      return true;
    }
    if (n >= 6 && (b[n - 5] & 0xC7) == 0x05) { tgt = pc + n + uint64_t(int64_t(rd32(n - 4))); return true; }              // [rip + disp32]
    return false;
  }
  return false;
}

// ---------------------------------------------------------------------------------------------------------
// label arguments of a call (decided per history: a label id names a label iff id < label_count() at that moment)
// ---------------------------------------------------------------------------------------------------------
static void label_ids_of(const Call& c, std::vector<uint32_t>& ids) {
  ids.clear();
  switch (c.kind) {
    case 'B': case 'L': ids.push_back(uint32_t(c.a0)); break;
    case 'X': ids.push_back(uint32_t(c.a0)); ids.push_back(uint32_t(c.a1)); break;
    case 'N': if (c.a1 == uint64_t(LabelType::kLocal)) ids.push_back(uint32_t(c.a2)); break;
    case 'I':
      for (int i = 0; i < c.nops; i++) {
        const Operand_& o = c.ops[i];
        if (o.is_label()) ids.push_back(o.id());
        else if (o.is_mem() && o.as<BaseMem>().base_type() == RegType::kLabelTag) ids.push_back(o.as<BaseMem>().base_id());
      }
      break;
    default: break;
  }
}
static const char* label_culprit(const Call& c) {
  if (c.kind == 'N') return "parent-label-invalid";
  if (c.kind == 'I') for (int i = 0; i < c.nops; i++) if (c.ops[i].is_mem()) return "mem-label-invalid";
  return "label-invalid";
}
// the same call with every label id >= lc replaced by an id that is far away from the label table
static Call with_far_labels(const Call& c0, uint32_t lc) {
  Call c = c0;
  auto far = [&](uint64_t v) -> uint64_t { return uint32_t(v) >= lc ? 12345u : v; };
  switch (c.kind) {
    case 'B': case 'L': c.a0 = far(c.a0); break;
    case 'X': c.a0 = far(c.a0); c.a1 = far(c.a1); break;
    case 'N': c.a2 = far(c.a2); break;
    case 'I':
      for (int i = 0; i < c.nops; i++) {
        Operand_& o = c.ops[i];
        bool lab = o.is_label() || (o.is_mem() && o.as<BaseMem>().base_type() == RegType::kLabelTag);
        if (lab && o._base_id >= lc) o._base_id = 12345u;
      }
      break;
    default: break;
  }
  return c;
}

// ---------------------------------------------------------------------------------------------------------
// one history on one fresh emitter
// ---------------------------------------------------------------------------------------------------------
struct Verdict { bool bad = false; std::string clause, last, why; int call = -1; };

// Runs `calls` (those with run[i]!=0).  judge: per-call oracle (primary run).  accepted[i] is written.
// Returns false if the environment could not be set up (harness problem).
// dyn_must[i] (primary run only): non-empty when call i was accepted although one of its label ids names no label of the
// holder even at finalize time (Builder/Compiler: such a call has to make finalize fail).
static bool run_history(const Cfg& cfg, const std::vector<Call>& calls, const std::vector<char>& run, bool judge,
                        std::vector<char>& accepted, std::vector<int>& errs, Final& fin, Verdict& vd, UR& ur, int phase,
                        std::vector<std::string>* dyn_must = nullptr, std::vector<char>* label_late = nullptr) {
  mark(phase == 1 ? 0 : phase, -1);
  Env e(cfg);
  if (!e.ok) return false;
  accepted.assign(calls.size(), 0);
  errs.assign(calls.size(), 0);
  Snap s0, s1;
  std::vector<uint32_t> lids;
  std::vector<uint32_t> lab_max(calls.size(), 0);       // largest label id an accepted call named (+1; 0 = none)
  std::vector<char> late(calls.size(), 0);              // accepted although a label id named no label at the time of the call
  for (size_t i = 0; i < calls.size(); i++) {
    if (!run[i]) continue;
    const Call& c = calls[i];
    if (judge && !g_dead.empty() && g_dead.count(dead_key(cfg, c))) { ur.cnt["skipped_after_repeated_crash"]++; continue; }
    mark(phase, int(i));
    if (judge) take_snap(e, s0);
    // label arguments: which of them name a label of the holder right now
    uint32_t lc = uint32_t(e.code.label_count());
    bool lbad = false, lnear = true;
    uint32_t lbad_id = 0;
    if (judge) {
      label_ids_of(c, lids);
      for (uint32_t id : lids) { lab_max[i] = std::max<uint32_t>(lab_max[i], id == Globals::kInvalidId ? id : id + 1); if (id >= lc) { lbad = true; lbad_id = id; if (id >= lc + 16) lnear = false; } }
    }
    int h0 = e.eh.count;
    size_t rel0 = e.code.reloc_entries().size();
    size_t off0 = 0; Section* sec0 = nullptr;
    if (BaseAssembler* a = e.assembler()) { off0 = a->offset(); sec0 = a->current_section(); }
    CallOut out;
    exec_call(e, c, out);
    errs[i] = int(out.err);
    accepted[i] = out.err == Error::kOk;
    if (!judge) continue;
    ur.cnt["evaluations"]++;
    auto fail = [&](const std::string& clause, const std::string& last, const std::string& why) {
      if (!vd.bad) { vd.bad = true; vd.clause = clause; vd.last = last; vd.why = why; vd.call = int(i); }
    };
    bool inst = c.kind == 'I';
    if (c.expect_ok && cfg.ek == EASM && out.err != Error::kOk) ur.notes.push_back("SELFCHECK default instantiation refused (" + errname(out.err) + "): " + desc_call(cfg.arch, c));
    if (out.err == Error::kOk) {
      std::string hexs;
      if (BaseAssembler* a = e.assembler()) {
        size_t off1 = a->offset();
        if (a->current_section() == sec0 && off1 >= off0 && off1 - off0 <= 64) hexs = vh::hex(sec0->data() + off0, off1 - off0);
      }
      if (e.eh.count != h0) fail("handler-count", "on-success", "call returned kOk but the error handler was invoked " + num(e.eh.count - h0) + "x (code " + errname(e.eh.last) + ")");
      if (!c.must.empty() && cfg.ek == EASM) {
        fail("accepted-garbage", c.must, "accepted (bytes " + hexs + ") although this cannot be encoded: " + c.must);
        ur.notes.push_back(std::string("accepted-garbage ") + kArchName[cfg.arch] + " " + c.must + " @ " + c.tag);
      }
      if (lbad) late[i] = 1;
      // absolute target under a known base address: the appended bytes have to refer to exactly that address
      if (c.abs_form && cfg.base && cfg.ek == EASM && sec0 == e.code.text_section() && c.must.empty() && e.code.reloc_entries().size() == rel0) {
        uint64_t pc = kBases[cfg.base] + off0, got = 0;
        size_t n = e.assembler()->offset() - off0;
        bool known = false;
        if (cfg.arch == AA64) {
          if (n == 4) { uint32_t w; memcpy(&w, sec0->data() + off0, 4); got = a64_decoded_target(c.abs_form, w, pc); known = true; }
        } else known = x86_decoded_target(c.abs_form, sec0->data() + off0, n, pc, got);
        uint64_t want = c.abs_form == AF_ADRP ? (c.abs_target & ~uint64_t(0xFFF)) : c.abs_target;
        if (known && got != want)
          fail("accepted-garbage", "abs-target-mismatch@" + c.tag, "accepted (bytes " + hexs + " at address " + hx(pc) + ") but the bytes refer to " + hx(got) + ", not to the requested target " + hx(want));
        else if (known) ur.cnt["abs_targets_verified"]++;
        else ur.cnt["abs_targets_not_decoded"]++;
      }
      if (lbad && c.must.empty()) {
        if (cfg.ek == EASM) {
          fail("accepted-garbage", label_culprit(c), "accepted (bytes " + hexs + ") although label id " + num(lbad_id) + " does not name a label of the holder (label_count() is " + num(lc) + ")");
          ur.notes.push_back(std::string("accepted-garbage ") + kArchName[cfg.arch] + " " + label_culprit(c) + " (id >= label_count) @ " + c.tag);
        } else if (lnear && !vd.bad) {
          // Builder/Compiler may leave label ids to finalize - but then uniformly: an emitter that refuses this very call
          // for a far-away id at the call must refuse it for label_count() and label_count()+1 too (range check off by one)
          std::vector<Call> pre(calls.begin(), calls.begin() + i + 1);
          pre[i] = with_far_labels(c, lc);
          std::vector<char> r2(run.begin(), run.begin() + i + 1), acc2; std::vector<int> e2; Final f2; Verdict v2;
          int keep = g_mark_override; g_mark_override = int(i);
          bool ok2 = run_history(cfg, pre, r2, false, acc2, e2, f2, v2, ur, 5);
          g_mark_override = keep; mark(phase, int(i));
          if (ok2 && !acc2[i])
            fail("accepted-garbage", label_culprit(c), "accepted although label id " + num(lbad_id) + " does not name a label of the holder (label_count() is " + num(lc) + "), while the same call with label id 12345 is refused at the call with " + errname(Error(e2[i])));
        }
      }
      if (inst && (em_has_state(e))) fail("one-shot-not-cleared", "on-success", "inst_options/extra_reg/inline_comment not cleared after a successful instruction");
      if (inst && cfg.ek == EASM) {
        if (c.must.empty() && !lbad && !hexs.empty())
          ur.acc.push_back(std::string(kArchName[cfg.arch]) + "\x1f" + hexs + "\x1f" + req_spec(cfg.arch, c) + "\x1f" + desc_call(cfg.arch, c) + "\x1f" + ser_unit(cfg, {c}));
        ur.cnt["accepted_calls"]++;
      }
      ur.outcomes.insert(std::string(kArchName[cfg.arch]) + ":" + call_kind_name(c.kind) + ":ok");
    } else {
      std::string en = out.code_known ? errname(out.err) : std::string("unknown-code");
      ur.cnt["failed_calls_checked"]++;
      ur.outcomes.insert(std::string(kArchName[cfg.arch]) + ":" + kEmName[cfg.ek] + ":" + call_kind_name(c.kind) + ":" + en);
      if (cfg.hk != HNONE) {
        int d = e.eh.count - h0;
        if (d != 1) fail("handler-count", en, "call failed with " + en + " but the error handler was invoked " + num(d) + " times");
        else if (out.code_known && e.eh.last != out.err) fail("handler-count", en, "call returned " + en + " but the handler received " + errname(e.eh.last));
        else if (e.eh.origin != e.em.get()) fail("handler-count", en + ":origin", "the handler received an origin that is not the emitter that was called");
        if (cfg.hk == HTHROW && d == 1 && !out.thrown) fail("handler-count", en + ":no-throw", "handler threw but no exception reached the caller");
      }
      take_snap(e, s1);
      for (int k = 0; k < s0.cnt && k < s1.cnt; k++) {
        if (s0.v[k] != s1.v[k]) {
          std::string what = s0.n[k];
          bool addr = what == "cursor" || what == "last-node";
          fail(cfg.hk == HTHROW && out.thrown ? "exception-broke-state" : "state-changed", what + ":" + en,
               "failed call (" + en + ") changed " + what + (addr ? "" : " from " + num(s0.v[k]) + " to " + num(s1.v[k])));
          break;
        }
      }
      if (inst && em_has_state(e)) fail("one-shot-not-cleared", en, "inst_options/extra_reg/inline_comment not cleared after a failed instruction (" + en + ")");
    }
  }
  // epilogue: probe, bind the label that was left unbound, finalize
  mark(phase == 1 ? 2 : phase, -1);
  e.eh.do_throw = false;
  int h0 = e.eh.count;
  // leave whatever section the history switched to: the probe goes to .text in every run
  Error perr = e.em->section(e.code.text_section());
  if (perr == Error::kOk) perr = probe(e);
  // bind the label the history left unbound (binding twice is a case of its own: X = bind(label#0))
  bool l1_bound = false;
  for (size_t i = 0; i < calls.size(); i++) if (accepted[i] && calls[i].kind == 'B' && calls[i].a0 == 1) l1_bound = true;
  Error berr = l1_bound ? Error::kOk : e.em->bind(e.L1);
  Error ferr = e.em->finalize();
  fin.fin_err = int(ferr) * 1000000 + int(perr) * 1000 + int(berr);
  take_final(e, fin);
  if (label_late) { label_late->assign(calls.size(), 0); for (size_t i = 0; i < calls.size(); i++) (*label_late)[i] = late[i]; }
  if (dyn_must) {
    dyn_must->assign(calls.size(), std::string());
    uint32_t flc = uint32_t(e.code.label_count());
    for (size_t i = 0; i < calls.size(); i++) if (accepted[i] && lab_max[i] && (lab_max[i] == Globals::kInvalidId || lab_max[i] - 1 >= flc)) (*dyn_must)[i] = label_culprit(calls[i]);
  }
  if (judge && ferr != Error::kOk && cfg.hk != HNONE && e.eh.count == h0 && perr == Error::kOk && berr == Error::kOk) {
    if (!vd.bad) { vd.bad = true; vd.clause = "handler-count"; vd.last = "finalize:" + errname(ferr); vd.call = -1; vd.why = "finalize() failed with " + errname(ferr) + " but the error handler was never invoked"; }
  }
  return true;
}

// ---------------------------------------------------------------------------------------------------------
// judging a unit: primary run + twin (only the accepted calls) [+ Assembler cross run for Builder/Compiler]
// ---------------------------------------------------------------------------------------------------------
static std::map<int, Final> g_empty_twin;      // twin of "nothing accepted" per configuration

static bool twin_final(const Cfg& cfg, const std::vector<Call>& calls, const std::vector<char>& accepted, Final& fin, std::vector<char>& acc2, UR& ur, int phase) {
  bool any = false; for (char a : accepted) any |= a != 0;
  if (!any) {
    auto it = g_empty_twin.find(cfg.key());
    if (it != g_empty_twin.end()) { fin = it->second; acc2.assign(calls.size(), 0); return true; }
  }
  Verdict dummy; std::vector<int> errs;
  if (!run_history(cfg, calls, accepted, false, acc2, errs, fin, dummy, ur, phase)) return false;
  if (!any) g_empty_twin[cfg.key()] = fin;
  return true;
}

struct UnitVerdict { bool bad = false; std::string key, desc, replay; };

static std::string first_diff(const Final& a, const Final& b) {
  size_t p = 0; while (p < a.image.size() && p < b.image.size() && a.image[p] == b.image[p]) p++;
  size_t ls = a.image.rfind('\n', p); ls = ls == std::string::npos ? 0 : ls + 1;
  return " (finalize/probe/bind codes " + num(a.fin_err) + " vs " + num(b.fin_err) + "; first difference: '" + a.image.substr(ls, 110) + "' vs '" + (ls < b.image.size() ? b.image.substr(ls, 110) : std::string()) + "')";
}

// returns false on harness problems
static bool judge_calls(const Cfg& cfg, const std::vector<Call>& calls, const std::set<int>& skip, UnitVerdict& uv, UR& ur, bool localizing) {
  std::vector<char> run(calls.size(), 1), accepted, acc2;
  for (int s : skip) if (s >= 0 && size_t(s) < calls.size()) run[s] = 0;
  std::vector<int> errs;
  Final f1, f2;
  Verdict vd;
  std::vector<std::string> dyn_must;
  std::vector<char> label_late;
  if (!run_history(cfg, calls, run, true, accepted, errs, f1, vd, ur, localizing ? 5 : 1, &dyn_must, &label_late)) return false;
  ur.cnt["traces"]++;
  auto report = [&](const Call* c, const std::string& clause, const std::string& last, const std::string& why, const std::vector<Call>& rp) {
    Call none; none.kind = 'F';
    const Call& cc = c ? *c : none;
    uv.bad = true;
    uv.key = vkey(cfg, cc, clause, last);
    uv.desc = why + " :: " + cfg.str() + " :: " + (c ? desc_call(cfg.arch, *c) : std::string("(whole history)"));
    uv.replay = ser_unit(cfg, rp);
  };
  if (vd.bad) {
    const Call* c = vd.call >= 0 ? &calls[vd.call] : nullptr;
    std::vector<Call> rp;
    if (c && calls.size() > 1 && !localizing) {
      // does the call alone show it?  (smaller replay)
      UnitVerdict uv1; std::vector<Call> one{*c};
      g_mark_override = vd.call; bool jr = judge_calls(cfg, one, {}, uv1, ur, true); g_mark_override = -1;
      if (jr && uv1.bad && uv1.key == vkey(cfg, *c, vd.clause, vd.last)) { uv = uv1; return true; }
      rp.assign(calls.begin(), calls.begin() + vd.call + 1);
    } else rp = calls;
    report(c, vd.clause, vd.last, vd.why, rp);
    return true;
  }
  // twin
  if (!twin_final(cfg, calls, accepted, f2, acc2, ur, 3)) return false;
  bool twin_ok = f1 == f2;
  for (size_t i = 0; i < calls.size() && twin_ok; i++) if (accepted[i] && !acc2[i]) twin_ok = false;
  if (!twin_ok) {
    const char* clause = cfg.hk == HTHROW ? "exception-broke-state" : "probe-differs";
    if (calls.size() > 1 && !localizing) {
      for (size_t i = 0; i < calls.size(); i++) {
        if (!run[i] || accepted[i]) continue;
        UnitVerdict uv1; std::vector<Call> one{calls[i]};
        g_mark_override = int(i); bool jr = judge_calls(cfg, one, {}, uv1, ur, true); g_mark_override = -1;
        if (jr && uv1.bad) { uv = uv1; return true; }
      }
    }
    // first failed call names the key
    const Call* c = nullptr; int en = 0;
    for (size_t i = 0; i < calls.size(); i++) if (run[i] && !accepted[i]) { c = &calls[i]; en = errs[i]; break; }
    std::string why = "after the history the emitter does not produce what a fresh emitter given only the accepted calls produces" + first_diff(f1, f2);
    report(c, clause, c ? errname(Error(en)) : std::string("no-failed-call"), why, calls);
    return true;
  }
  // Builder / Compiler: what was accepted and finalized without error must be real code
  if (cfg.ek != EASM && f1.fin_err == 0) {
    int first_must = -1;
    for (size_t i = 0; i < calls.size(); i++) {
      if (!accepted[i] || (calls[i].must.empty() && dyn_must[i].empty())) continue;
      if (first_must < 0) first_must = int(i);
      if (calls.size() > 1 && !localizing) {
        // several calls: blame the one that shows it alone (another accepted call may have destroyed the node list)
        UnitVerdict uv1; std::vector<Call> one{calls[i]};
        g_mark_override = int(i); bool jr = judge_calls(cfg, one, {}, uv1, ur, true); g_mark_override = -1;
        if (jr && uv1.bad) { uv = uv1; return true; }
      }
    }
    if (first_must >= 0) {
      const Call& c = calls[first_must];
      std::string m = c.must.empty() ? dyn_must[first_must] : c.must;
      report(&c, "accepted-garbage", m, "accepted and finalized without any error although this is invalid: " + m + (c.must.empty() ? " (the id names no label of the holder, not even at finalize)" : ""), calls);
      return true;
    }
    bool any = false; for (char a : accepted) any |= a != 0;
    // (a Builder serializes section by section: with a second section in use the label/relocation state at each node legitimately differs)
    for (size_t i = 0; i < calls.size(); i++) if (accepted[i] && calls[i].kind == 'S' && calls[i].a0 != 2) any = false;
    // (a label id that only comes into existence after the call is resolved at finalize by a Builder, at the call by the Assembler)
    for (size_t i = 0; i < calls.size(); i++) if (accepted[i] && label_late[i]) any = false;
    if (any) {
      Cfg ac = cfg; ac.ek = EASM;
      Final f3; std::vector<char> acc3; Verdict dummy; std::vector<int> e3;
      if (!run_history(ac, calls, accepted, false, acc3, e3, f3, dummy, ur, 4)) return false;
      int rej = -1;
      for (size_t i = 0; i < calls.size(); i++) if (accepted[i] && !acc3[i]) { rej = int(i); break; }
      if (rej >= 0 || !(f3 == f1)) {
        // virtual registers are the Compiler's business, not comparable
        bool virt = false;
        for (auto& c : calls) for (int k = 0; k < c.nops; k++) {
          const Operand_& o = c.ops[k];
          if (o.is_reg() && o.id() >= Operand::kVirtIdMin) virt = true;
          if (o.is_mem() && ((o.as<BaseMem>().has_base_reg() && o.as<BaseMem>().base_id() >= Operand::kVirtIdMin) || (o.as<BaseMem>().has_index_reg() && o.as<BaseMem>().index_id() >= Operand::kVirtIdMin))) virt = true;
        }
        if (!(virt && cfg.ek == ECOMPILER)) {
          const Call* c = rej >= 0 ? &calls[rej] : &calls[0];
          std::string why = rej >= 0 ? "accepted, and finalize() returned kOk, but the Assembler rejects this very call with " + errname(Error(e3[rej])) + " (the code that finalize produced silently differs from the calls that were accepted)"
                                     : "finalize() returned kOk but the code differs from what the Assembler emits for the same accepted calls" + first_diff(f1, f3);
          report(c, "accepted-garbage", rej >= 0 ? "assembler-rejects:" + errname(Error(e3[rej])) : std::string("differs-from-assembler"), why, calls);
          return true;
        }
      }
    }
  }
  ur.cnt["distinct_nontrivial_units"]++;
  return true;
}

// ---------------------------------------------------------------------------------------------------------
// x86 weird-operand alphabet W (built only from public constructors / setters)
// ---------------------------------------------------------------------------------------------------------
struct Sym { std::string name; Operand_ op; };

static std::vector<Sym> build_w_x86() {
  using namespace x86;
  std::vector<Sym> w;
  auto add = [&](const Operand_& o) { Sym s; s.op = o; s.name = desc_op(AX64, o); w.push_back(s); };
  const uint32_t V = Operand::kVirtIdMin;
  { Operand none; add(none); }
  for (uint32_t id : {0u, 4u, 16u}) add(gpb_lo(id));
  for (uint32_t id : {0u, 4u}) add(gpb_hi(id));
  for (uint32_t id : {0u, 8u, 16u}) add(gpw(id));
  for (uint32_t id : {0u, 7u, 8u, 15u, 16u, 31u, 32u, 255u, V}) add(gpd(id));
  for (uint32_t id : {0u, 8u, 17u, V}) add(gpq(id));
  for (uint32_t id : {0u, 8u, 16u, 31u, 32u, V}) add(xmm(id));
  for (uint32_t id : {0u, 17u, 32u}) add(ymm(id));
  for (uint32_t id : {0u, 31u, 255u}) add(zmm(id));
  for (uint32_t id : {0u, 7u, 8u}) add(k(id));
  for (uint32_t id : {0u, 8u}) add(mm(id));
  for (uint32_t id : {0u, 7u, 8u}) add(st(id));
  for (uint32_t id : {0u, 1u, 6u, 7u}) add(SReg(id));
  for (uint32_t id : {0u, 8u, 16u}) add(cr(id));
  for (uint32_t id : {0u, 7u, 16u}) add(dr(id));
  for (uint32_t id : {0u, 4u}) add(bnd(id));
  for (uint32_t id : {0u, 8u}) add(tmm(id));
  add(rip); add(Rip(1));
  add(Reg::from_type_and_id(RegType::kVec64, 0));       // a register type of another architecture
  add(Reg::from_type_and_id(RegType(20), 0));           // an unassigned register type
  // memory: base types / ids
  add(ptr(eax)); add(ptr(rax)); add(ptr(bx)); add(ptr(gpq(17))); add(ptr(gpd(8))); add(ptr(gpq(V))); add(ptr(gpq(255)));
  for (uint32_t s = 0; s < 4; s++) add(ptr(eax, ecx, s));
  for (uint32_t s = 0; s < 4; s++) add(ptr(rax, rcx, s, 16));
  add(ptr(bx, si)); add(ptr(rax, rsp)); add(ptr(eax, esp)); add(ptr(rax, gpq(16))); add(ptr(rax, gpq(V)));
  add(ptr(rax, xmm1)); add(ptr(eax, xmm1, 2)); add(ptr(rax, ymm1, 1)); add(ptr(rax, zmm(17), 3)); add(ptr(rax, xmm(32))); add(ptr(rax, xmm(4)));
  add(x86::Mem(xmm0, 0)); add(x86::Mem(st(1), 0)); add(x86::Mem(k(1), 8)); add(x86::Mem(gpb_lo(0), 0)); add(x86::Mem(SReg(2), 0));
  add(x86::Mem(rax, st(1), 0, 0)); add(x86::Mem(rax, gpw(1), 0, 0)); add(x86::Mem(rax, gpb_lo(1), 1, 0)); add(x86::Mem(eax, rcx, 0, 0)); add(x86::Mem(rax, mm(1), 0, 0));
  add(ptr(rip, 0)); add(ptr(rip, 0x1000)); add(ptr(Rip(1), 0)); add(x86::Mem(rip, rcx, 0, 0)); add(x86::Mem(rip, xmm1, 0, 0));
  add(ptr(Label(3))); add(ptr(Label(4), 4));
  // label base + index register (in 32-bit mode this is an absolute address + relocation with a SIB byte, in 64-bit mode it is
  // not encodable): ids that do not exist, gp index with / without scale and displacement, vector index (VSIB)
  add(ptr(Label(12345), ecx, 2)); add(ptr(Label(3), ecx)); add(ptr(Label(4), esi, 0, 16)); add(ptr(Label(3), rcx, 3)); add(ptr(Label(Globals::kInvalidId), ecx, 2, -8));
  add(ptr(Label(3), xmm1, 2)); add(ptr(Label(4), ymm1, 0, 8)); add(ptr(Label(0), xmm1, 2));
  add(ptr(Label(0))); add(ptr(Label(1), 4)); add(ptr(Label(12345))); add(ptr(Label(Globals::kInvalidId))); add(ptr(Label(0), rcx, 2)); add(ptr(Label(1), ecx, 0)); add(ptr(Label(12345), xmm1, 0));
  for (uint32_t sg : {1u, 5u, 6u, 7u}) { x86::Mem m = ptr(eax); m.set_segment(sg); add(m); }
  { x86::Mem m = ptr(rax, 8); m.set_segment(7); add(m); }
  for (uint32_t b = 1; b <= 7; b++) { x86::Mem m = ptr(eax); m.set_broadcast(x86::Mem::Broadcast(b)); add(m); }
  { x86::Mem m = ptr(rax, 64, 4); m.set_broadcast(x86::Mem::Broadcast::k1To16); add(m); }
  add(ptr(eax, INT32_MIN)); add(ptr(rax, INT32_MAX)); add(ptr(rax, -1)); add(ptr(rax, 127)); add(ptr(rax, 128));
  add(ptr(uint64_t(0))); add(ptr(uint64_t(0xFFFFFFFFu))); add(ptr(uint64_t(0x123456789Aull))); add(ptr(uint64_t(0xFFFFFFFFFFFFFFF0ull)));
  add(ptr_abs(0x1000)); add(ptr_rel(0x1000)); add(ptr_abs(0x123456789Aull)); add(ptr_rel(0x123456789Aull)); add(ptr(uint64_t(0x1000), rcx, 1)); add(ptr(uint64_t(0xF0000000u), ecx, 0)); add(ptr(uint64_t(0x123456789Aull), rcx, 0));
  for (uint32_t sz : {1u, 2u, 4u, 8u, 10u, 16u, 32u, 64u, 3u, 255u}) add(ptr(eax, 0, sz));
  for (uint32_t sz : {1u, 4u, 8u, 16u, 64u}) add(ptr(rax, rcx, 1, 8, sz));
  // labels / immediates
  add(Label(0)); add(Label(1)); add(Label(12345)); add(Label(Globals::kInvalidId));
  add(Label(3)); add(Label(4));                          // label_count() and label_count()+1 of the environment (ids 0..2 exist)
  add(Imm(0)); add(Imm(-1)); add(Imm(INT64_MIN)); add(Imm(uint64_t(0xFFFFFFFFFFFFFFFFull))); add(Imm(1)); add(Imm(0x7FFFFFFF)); add(Imm(0x100));
  return w;
}

static std::vector<uint32_t> x86_reps(int per_class) {
  // first (and last) instruction id of every encoding class of the instruction table (selection only)
  std::map<uint32_t, std::vector<uint32_t>> by;
  for (uint32_t id = 1; id < x86::Inst::_kIdCount; id++) by[x86::InstDB::_inst_info_table[id]._encoding].push_back(id);
  std::vector<uint32_t> r;
  for (auto& kv : by) {
    r.push_back(kv.second.front());
    if (per_class >= 2 && kv.second.size() > 1) r.push_back(kv.second.back());
    if (per_class >= 3 && kv.second.size() > 2) r.push_back(kv.second[kv.second.size() / 2]);
  }
  std::sort(r.begin(), r.end());
  return r;
}

static Call x86_inst(ArchK arch, EmK ek, uint32_t id, std::initializer_list<const Operand_*> ops, uint32_t opt = 0, const Operand_* extra = nullptr, bool comment = false) {
  Call c; c.kind = 'I'; c.id = id; c.opt = opt; c.comment = comment;
  for (const Operand_* o : ops) c.ops[c.nops++] = *o;
  if (extra) { c.has_extra = true; c.extra = *extra; }
  c.tag = inst_name(arch, id);
  for (int i = 0; i < c.nops && c.must.empty(); i++) c.must = x86_unrepresentable(c.ops[i], arch == AX64, ek);
  return c;
}

// ---------------------------------------------------------------------------------------------------------
// unit enumeration.  `sink(unit)` is only called for units of this shard: gen functions ask want() first.
// ---------------------------------------------------------------------------------------------------------
struct Gen {
  long long idx = 0;
  std::function<void(Unit&)> sink;
  bool want() { bool m = vh::ctx().mine(idx); idx++; return m; }
  // units of one configuration go to one shard: a defect that kills the process is met (and its culprit retired) once, not once per shard
  bool want_cfg(long long cfg_key) { idx++; return vh::ctx().mine(cfg_key); }
};

static const uint32_t kWeirdIds[] = {0xFFFFu, 0xFFFFFFFFu, 0x80000001u};

static void gen_x86(Gen& g, bool thorough) {
  static std::vector<Sym> W = build_w_x86();
  const size_t NW = W.size();
  std::vector<uint32_t> reps = x86_reps(thorough ? 3 : 1);
  std::vector<uint32_t> all;
  for (uint32_t id = 0; id < uint32_t(x86::Inst::_kIdCount) + 2; id++) all.push_back(id);
  for (uint32_t id : kWeirdIds) all.push_back(id);
  Operand_ o_eax = x86::eax, o_xmm0 = x86::xmm0, o_xmm1 = x86::xmm1, o_zmm1 = x86::zmm1, o_zmm2 = x86::zmm2, o_imm1 = Imm(1), o_ecx = x86::ecx, o_k1 = x86::k1;
  Operand_ o_mem = x86::ptr(x86::eax, 8), o_cl = x86::cl;
  long long row = 0;

  for (ArchK arch : {AX86, AX64}) {
    // (1) every instruction id x every 1-operand tuple, + diagonal 2/3-operand tuples, + (reg, w) (w, reg) with valid regs
    for (uint32_t id : all) {
      // Assembler: one row per (id, handler)
      for (HdK hk : {HREC, HTHROW, HNONE}) {
        if (!thorough && hk != HREC && (id % 3) != uint32_t(hk)) continue;     // quick: rec for all ids, throw/none for a third each
        row++;
        if (!g.want()) continue;
        Unit u; u.cfg.arch = arch; u.cfg.ek = EASM; u.cfg.hk = hk; u.cfg.logger = (row % 5) == 0; u.group = "x86:all-ids";
        u.calls.push_back(x86_inst(arch, EASM, id, {}));
        for (size_t i = 0; i < NW; i++) u.calls.push_back(x86_inst(arch, EASM, id, {&W[i].op}));
        bool is_rep = std::binary_search(reps.begin(), reps.end(), id);
        if (hk == HREC && (thorough || is_rep || (id % 4) == 0 || id >= uint32_t(x86::Inst::_kIdCount))) {
          for (size_t i = 1; i < NW; i++) u.calls.push_back(x86_inst(arch, EASM, id, {&W[i].op, &W[i].op}));
          for (size_t i = 1; i < NW; i++) u.calls.push_back(x86_inst(arch, EASM, id, {&o_eax, &W[i].op}));
          if (thorough) for (size_t i = 1; i < NW; i++) u.calls.push_back(x86_inst(arch, EASM, id, {&W[i].op, &o_eax}));
          if (thorough) for (size_t i = 1; i < NW; i++) u.calls.push_back(x86_inst(arch, EASM, id, {&o_xmm0, &W[i].op}));
          for (size_t i = 1; i < NW; i++) u.calls.push_back(x86_inst(arch, EASM, id, {&o_xmm0, &o_xmm1, &W[i].op}));
          for (size_t i = 1; i < NW; i++) u.calls.push_back(x86_inst(arch, EASM, id, {&W[i].op, &W[i].op, &W[i].op}));
        }
        g.sink(u);
      }
    }
    // (1b) Builder / Compiler: single-call units (errors may surface in finalize), every id x every 1-operand tuple
    for (EmK ek : {EBUILDER, ECOMPILER}) {
      for (uint32_t id : all) {
        if (!thorough && id >= 3 && id < uint32_t(x86::Inst::_kIdCount) && std::find(reps.begin(), reps.end(), id) == reps.end()) continue;
        for (size_t i = 0; i < NW; i++) {
          row++;
          if (!thorough && ((i + id) % 3) != 0) continue;      // quick: a third of W per id (rotating)
          if (!g.want()) continue;
          Unit u; u.cfg.arch = arch; u.cfg.ek = ek; u.cfg.hk = HdK(row % 3); u.group = "x86:builder-1op";
          u.calls.push_back(x86_inst(arch, ek, id, {&W[i].op}));
          g.sink(u);
        }
      }
      for (uint32_t id : reps) {
        for (size_t i = 1; i < NW; i++) {
          row++;
          if (!thorough && ((i + id) % 6) != 0) continue;      // quick: a sixth of W per id (rotating)
          if (!g.want()) continue;
          Unit u; u.cfg.arch = arch; u.cfg.ek = ek; u.cfg.hk = HdK(row % 3); u.group = "x86:builder-2op";
          u.calls.push_back(x86_inst(arch, ek, id, {&o_eax, &W[i].op}));
          if (thorough) u.calls.push_back(x86_inst(arch, ek, id, {&W[i].op, &o_eax}));
          u.calls.push_back(x86_inst(arch, ek, id, {&W[i].op, &W[i].op}));
          // three single-call units
          for (auto& c : std::vector<Call>(u.calls)) { Unit v; v.cfg = u.cfg; v.group = u.group; v.calls.push_back(c); g.sink(v); }
        }
      }
    }
    // (2) W x W for the representatives of every encoding class (thorough: every instruction id)
    std::vector<uint32_t> wxw = reps;
    if (thorough) { wxw.clear(); for (uint32_t id = 1; id < uint32_t(x86::Inst::_kIdCount); id++) wxw.push_back(id); }
    for (uint32_t id : wxw) {
      for (size_t i = 0; i < NW; i++) {
        row++;
        if (!thorough && ((i + id) % 4) != 0) continue;        // quick: a quarter of the first operands per id (rotating); thorough: all, for every id
        if (!g.want()) continue;
        Unit u; u.cfg.arch = arch; u.cfg.ek = EASM; u.cfg.hk = HdK(row % 3); u.cfg.logger = (row % 7) == 0; u.group = "x86:WxW";
        for (size_t j = 0; j < NW; j++) u.calls.push_back(x86_inst(arch, EASM, id, {&W[i].op, &W[j].op}));
        g.sink(u);
      }
    }
    // (3) operand counts 3..6 for the representatives
    for (uint32_t id : reps) {
      row++;
      if (!g.want()) continue;
      Unit u; u.cfg.arch = arch; u.cfg.ek = EASM; u.cfg.hk = HdK(row % 3); u.group = "x86:3-6ops";
      for (size_t i = 1; i < NW; i++) {
        const Operand_* w = &W[i].op;
        u.calls.push_back(x86_inst(arch, EASM, id, {&o_eax, &o_ecx, w}));
        u.calls.push_back(x86_inst(arch, EASM, id, {&o_xmm0, w, &o_imm1}));
        u.calls.push_back(x86_inst(arch, EASM, id, {&o_xmm0, &o_xmm1, &o_xmm1, w}));
        u.calls.push_back(x86_inst(arch, EASM, id, {w, w, w, w}));
        u.calls.push_back(x86_inst(arch, EASM, id, {&o_xmm0, &o_xmm1, &o_xmm1, &o_xmm1, w}));
        u.calls.push_back(x86_inst(arch, EASM, id, {w, w, w, w, w, w}));
        u.calls.push_back(x86_inst(arch, EASM, id, {&o_eax, &o_ecx, &o_ecx, &o_ecx, &o_ecx, w}));
        u.calls.push_back(x86_inst(arch, EASM, id, {&W[0].op, w}));            // gap: (none, w)
        u.calls.push_back(x86_inst(arch, EASM, id, {&o_eax, &W[0].op, w}));    // gap in the middle
      }
      g.sink(u);
    }
    // (4) every single option bit / every extra register, on a small set of plausible operand tuples
    std::vector<std::vector<const Operand_*>> T = {{}, {&o_eax}, {&o_mem}, {&o_eax, &o_ecx}, {&o_eax, &o_mem}, {&o_mem, &o_eax}, {&o_mem, &o_imm1}, {&o_eax, &o_cl},
                                                    {&o_xmm0, &o_xmm1}, {&o_xmm0, &o_xmm1, &o_xmm1}, {&o_zmm1, &o_zmm2, &o_zmm2}, {&o_zmm1, &o_zmm2, &o_mem}, {&o_k1, &o_k1, &o_k1}};
    auto mk = [&](EmK ek, uint32_t id, const std::vector<const Operand_*>& t, uint32_t opt, const Operand_* extra, bool comment) {
      Call c; c.kind = 'I'; c.id = id; c.opt = opt; c.comment = comment;
      for (auto* o : t) c.ops[c.nops++] = *o;
      if (extra) { c.has_extra = true; c.extra = *extra; if (c.extra.is_reg()) { std::string m = x86_unrepresentable(c.extra, arch == AX64, ek); if (!m.empty()) c.must = "extra-" + m; } }
      c.tag = inst_name(arch, id);
      return c;
    };
    for (uint32_t id : reps) {
      for (EmK ek : {EASM, EBUILDER, ECOMPILER}) {
        row++;
        if (!g.want()) continue;
        Unit u; u.cfg.arch = arch; u.cfg.ek = ek; u.cfg.hk = HdK(row % 3); u.cfg.logger = ek == EASM && (row % 4) == 0; u.group = "x86:options";
        size_t nt = ek == EASM ? T.size() : (thorough ? 4 : 1);
        for (size_t t = 0; t < nt; t++) {
          const auto& tt = ek == EASM ? T[t] : T[(t * 3 + 1 + (thorough ? 0 : row)) % T.size()];
          for (uint32_t b = 0; b < 32; b++) u.calls.push_back(mk(ek, id, tt, 1u << b, nullptr, (b & 3) == 0));
          u.calls.push_back(mk(ek, id, tt, 0xFFFFFFFFu, &o_k1, true));
          u.calls.push_back(mk(ek, id, tt, uint32_t(InstOptions::kX86_Rep), &o_ecx, false));
          u.calls.push_back(mk(ek, id, tt, uint32_t(InstOptions::kX86_Rep | InstOptions::kX86_Repne), nullptr, false));
          u.calls.push_back(mk(ek, id, tt, uint32_t(InstOptions::kX86_Lock | InstOptions::kX86_XAcquire | InstOptions::kX86_XRelease), nullptr, false));
          for (size_t i = 1; i < NW; i++) {
            if (!W[i].op.is_reg()) continue;
            u.calls.push_back(mk(ek, id, tt, 0, &W[i].op, (i & 1) != 0));
            if (t < 2) u.calls.push_back(mk(ek, id, tt, uint32_t(InstOptions::kX86_Rep), &W[i].op, false));
            if (t >= 8) u.calls.push_back(mk(ek, id, tt, uint32_t(InstOptions::kX86_ZMask), &W[i].op, false));
          }
        }
        if (ek == EASM) g.sink(u);
        else { size_t k = 0; for (auto& c : u.calls) { if (!thorough && ((k++ + id) % 3) != 0) continue; Unit v; v.cfg = u.cfg; v.group = u.group; v.calls.push_back(c); g.sink(v); } }
      }
    }
    // (5) thorough: W x W x {w} diagonal third operand for representatives (first per class)
    if (thorough) {
      std::vector<uint32_t> reps1 = x86_reps(1);
      for (uint32_t id : reps1) {
        for (size_t i = 1; i < NW; i++) {
          row++;
          if (!g.want()) continue;
          Unit u; u.cfg.arch = arch; u.cfg.ek = EASM; u.cfg.hk = HdK(row % 3); u.group = "x86:WxWxW";
          for (size_t j = 1; j < NW; j++) {
            u.calls.push_back(x86_inst(arch, EASM, id, {&W[i].op, &W[j].op, &W[j].op}));
            u.calls.push_back(x86_inst(arch, EASM, id, {&W[i].op, &W[j].op, &o_imm1}));
            u.calls.push_back(x86_inst(arch, EASM, id, {&o_xmm0, &W[i].op, &W[j].op}));
          }
          g.sink(u);
        }
      }
    }
  }
}

// ---------------------------------------------------------------------------------------------------------
// AArch64: instruction templates (operand kinds fixed) with perturbable fields.  The must-reject rules are the
// Arm ARM (DDI 0487) field widths: 5-bit register numbers, element index < lanes, shift amount < register size,
// load/store immediate ranges, 4-bit condition, valid label.
// ---------------------------------------------------------------------------------------------------------
enum FK { F_GP, F_GPBASE, F_VEC, F_VEC16, F_EIDX, F_SHAMT, F_SHOP, F_EXTAMT, F_IMM, F_IMMW, F_LOGIMM, F_LABEL, F_OFF, F_MSHIFT, F_COND, F_ETYPE };
struct FieldT { FK k; int64_t dflt; int64_t p1; int64_t p2; };
struct FVal { int64_t v; const char* must; };

static std::vector<FVal> field_alphabet(const FieldT& f, EmK ek) {
  std::vector<FVal> a;
  const char* virt = ek == ECOMPILER ? nullptr : "virtual-register-id";
  switch (f.k) {
    case F_GP: a = {{0, 0}, {30, 0}, {31, 0}, {63, 0}, {32, "gp-id"}, {62, "gp-id"}, {64, "gp-id"}, {255, "gp-id"}, {256, virt}}; break;
    case F_GPBASE: a = {{0, 0}, {30, 0}, {31, 0}, {32, "mem-base-id"}, {63, "mem-base-is-zr"}, {255, "mem-base-id"}, {256, virt}}; break;
    case F_VEC: a = {{0, 0}, {31, 0}, {32, "vec-id"}, {40, "vec-id"}, {255, "vec-id"}, {256, virt}}; break;
    case F_VEC16: a = {{0, 0}, {15, 0}, {16, "vec-id-above-15-with-h-element-index"}, {31, "vec-id-above-15-with-h-element-index"}, {40, "vec-id"}, {256, virt}}; break;
    case F_EIDX: a = {{0, 0}, {f.p1 - 1, 0}}; if (f.p1 <= 15) a.push_back({f.p1, "element-index"}); if (f.p1 < 15) a.push_back({15, "element-index"}); break;
    case F_SHAMT: a = {{0, 0}, {f.p1 - 1, 0}, {f.p1, "shift-amount"}, {255, "shift-amount"}, {int64_t(0xFFFFFFFFu), "shift-amount"}}; if (f.p1 == 32) a.push_back({33, "shift-amount"}); break;
    case F_SHOP: for (int64_t op = 0; op < 16; op++) a.push_back({op, ((f.p1 >> op) & 1) ? nullptr : "shift-op-not-encodable"}); break;
    case F_EXTAMT: a = {{0, 0}, {4, 0}, {5, "extend-amount"}, {63, "extend-amount"}}; break;
    case F_IMM: a = {{f.p1, 0}, {f.p2, 0}, {f.p1 - 1, "immediate-range"}, {f.p2 + 1, "immediate-range"}, {INT64_MIN, "immediate-range"}, {int64_t(0x100000000ll) + f.p1, "immediate-range"}};
                if (f.p1 >= 0) a.push_back({-1, "immediate-range"}); break;
    case F_IMMW: a = {{0, 0}, {1, 0}, {-1, 0}, {4095, 0}, {4096, 0}, {0x1000000, 0}, {65535, 0}, {65536, 0}, {INT64_MIN, 0}, {INT64_MAX, 0}}; break;
    case F_LOGIMM: a = {{0xFF, 0}, {0x5555555555555555ll, 0}, {0, "logical-immediate"}, {-1, "logical-immediate"}, {0x1234, "logical-immediate"}}; break;
    case F_LABEL: a = {{0, 0}, {1, 0}, {12345, "label-invalid"}, {int64_t(Globals::kInvalidId), "label-invalid"}, {3, 0}, {4, 0}}; break;   // 3 = label_count() of the (single call) unit, 4 = one more: judged when the call is made (run_history)
    case F_OFF: {
      int64_t sz = f.p2;
      std::vector<int64_t> vs = {0, 1, -1, sz, -sz, sz / 2 ? sz / 2 : 3, 255, 256, -256, -257, 4095 * sz, 4095 * sz + sz, 63 * sz, 64 * sz, -64 * sz, -65 * sz, 32760, INT32_MAX, INT32_MIN};
      std::sort(vs.begin(), vs.end()); vs.erase(std::unique(vs.begin(), vs.end()), vs.end());
      for (int64_t v : vs) {
        bool ok = false;
        switch (f.p1) {
          case 0: ok = (v >= -256 && v <= 255) || (v >= 0 && v % sz == 0 && v / sz <= 4095); break;     // LDR/STR: imm12 scaled or LDUR imm9
          case 1: ok = v % sz == 0 && v / sz >= -64 && v / sz <= 63; break;                              // LDP/STP imm7 scaled
          case 2: ok = v >= -256 && v <= 255; break;                                                     // imm9 (pre/post index, LDUR)
          case 3: ok = v == 0; break;                                                                    // [Xn] only
          case 4: ok = v == sz || v == 0; break;                                                                   // LD1 post-index immediate: exactly the transfer size
        }
        a.push_back({v, ok ? nullptr : "offset-not-encodable"});
      }
      break;
    }
    case F_MSHIFT: a = {{0, 0}, {f.p1, 0}}; for (int64_t v : {f.p1 + 1, int64_t(7)}) if (v != 0 && v != f.p1) a.push_back({v, "index-shift"}); break;
    case F_COND: for (int64_t c = 0; c < 16; c++) a.push_back({c, 0}); break;
    case F_ETYPE: for (int64_t t = 0; t < 8; t++) a.push_back({t, 0}); break;
  }
  return a;
}

typedef const int64_t* FV;
struct A64T {
  const char* name; uint32_t id;
  std::vector<FieldT> fields;
  std::function<int(FV, Operand_*)> build;   // returns operand count
};

static std::vector<A64T> build_a64_templates() {
  using namespace a64;
  std::vector<A64T> t;
  const int64_t SH_ADD = 0x7 | (0xFFll << 6);          // LSL LSR ASR + the eight extends
  const int64_t SH_LOG = 0xF;                           // LSL LSR ASR ROR
  auto G = [](int64_t d) { return FieldT{F_GP, d, 0, 0}; };
  auto B = [](int64_t d) { return FieldT{F_GPBASE, d, 0, 0}; };
  auto Vf = [](int64_t d) { return FieldT{F_VEC, d, 0, 0}; };
  auto LBL = []() { return FieldT{F_LABEL, 1, 0, 0}; };
  auto IMM = [](int64_t d, int64_t lo, int64_t hi) { return FieldT{F_IMM, d, lo, hi}; };
  auto OFF = [](int64_t d, int64_t rule, int64_t sz) { return FieldT{F_OFF, d, rule, sz}; };
  auto X = [](int64_t id) { return Gp::make_r64(uint32_t(id)); };
  auto Wr = [](int64_t id) { return Gp::make_r32(uint32_t(id)); };
  auto Vq = [](int64_t id) { return Vec::make_v128(uint32_t(id)); };
#define T_(NAME, ID, FIELDS, BODY) t.push_back(A64T{NAME, Inst::ID, FIELDS, [=](FV f, Operand_* o) -> int { BODY }})
#define FL(...) std::vector<FieldT>{__VA_ARGS__}
  // --- data processing ---
  T_("add x,x,x", kIdAdd, FL(G(0), G(1), G(2)), o[0] = X(f[0]); o[1] = X(f[1]); o[2] = X(f[2]); return 3;);
  T_("add x,x,x,<shift> #n", kIdAdd, FL(G(0), G(1), G(2), FieldT{F_SHOP, 0, SH_ADD, 0}, FieldT{F_SHAMT, 3, 64, 0}), o[0] = X(f[0]); o[1] = X(f[1]); o[2] = X(f[2]); o[3] = Imm(arm::Shift(arm::ShiftOp(uint32_t(f[3])), uint32_t(f[4]))); return 4;);
  T_("sub w,w,w,lsl #n", kIdSub, FL(G(0), G(1), G(2), FieldT{F_SHAMT, 3, 32, 0}), o[0] = Wr(f[0]); o[1] = Wr(f[1]); o[2] = Wr(f[2]); o[3] = Imm(arm::Shift(arm::ShiftOp::kLSL, uint32_t(f[3]))); return 4;);
  T_("add x,x,w,uxtw #n", kIdAdd, FL(G(0), G(1), G(2), FieldT{F_EXTAMT, 2, 0, 0}), o[0] = X(f[0]); o[1] = X(f[1]); o[2] = Wr(f[2]); o[3] = Imm(arm::Shift(arm::ShiftOp::kUXTW, uint32_t(f[3]))); return 4;);
  T_("add x,x,#imm", kIdAdd, FL(G(0), G(1), FieldT{F_IMMW, 16, 0, 0}), o[0] = X(f[0]); o[1] = X(f[1]); o[2] = Imm(f[2]); return 3;);
  T_("and x,x,x,<shift> #n", kIdAnd, FL(G(0), G(1), G(2), FieldT{F_SHOP, 3, SH_LOG, 0}, FieldT{F_SHAMT, 5, 64, 0}), o[0] = X(f[0]); o[1] = X(f[1]); o[2] = X(f[2]); o[3] = Imm(arm::Shift(arm::ShiftOp(uint32_t(f[3])), uint32_t(f[4]))); return 4;);
  T_("and x,x,#logimm", kIdAnd, FL(G(0), G(1), FieldT{F_LOGIMM, 0xFF, 0, 0}), o[0] = X(f[0]); o[1] = X(f[1]); o[2] = Imm(f[2]); return 3;);
  T_("cmp x,x", kIdCmp, FL(G(0), G(1)), o[0] = X(f[0]); o[1] = X(f[1]); return 2;);
  T_("mov x,x", kIdMov, FL(G(0), G(1)), o[0] = X(f[0]); o[1] = X(f[1]); return 2;);
  T_("mov x,#imm", kIdMov, FL(G(0), FieldT{F_IMMW, 1, 0, 0}), o[0] = X(f[0]); o[1] = Imm(f[1]); return 2;);
  T_("movz x,#imm16", kIdMovz, FL(G(0), IMM(0x1234, 0, 65535)), o[0] = X(f[0]); o[1] = Imm(f[1]); return 2;);
  T_("madd x,x,x,x", kIdMadd, FL(G(0), G(1), G(2), G(3)), o[0] = X(f[0]); o[1] = X(f[1]); o[2] = X(f[2]); o[3] = X(f[3]); return 4;);
  T_("udiv w,w,w", kIdUdiv, FL(G(0), G(1), G(2)), o[0] = Wr(f[0]); o[1] = Wr(f[1]); o[2] = Wr(f[2]); return 3;);
  T_("lsl x,x,#n", kIdLsl, FL(G(0), G(1), IMM(7, 0, 63)), o[0] = X(f[0]); o[1] = X(f[1]); o[2] = Imm(f[2]); return 3;);
  T_("lsr w,w,#n", kIdLsr, FL(G(0), G(1), IMM(7, 0, 31)), o[0] = Wr(f[0]); o[1] = Wr(f[1]); o[2] = Imm(f[2]); return 3;);
  T_("lsl x,x,x", kIdLsl, FL(G(0), G(1), G(2)), o[0] = X(f[0]); o[1] = X(f[1]); o[2] = X(f[2]); return 3;);
  T_("ubfx x,x,#8,#w", kIdUbfx, FL(G(0), G(1), IMM(8, 1, 56)), o[0] = X(f[0]); o[1] = X(f[1]); o[2] = Imm(8); o[3] = Imm(f[2]); return 4;);
  T_("ubfx x,x,#lsb,#1", kIdUbfx, FL(G(0), G(1), IMM(8, 0, 63)), o[0] = X(f[0]); o[1] = X(f[1]); o[2] = Imm(f[2]); o[3] = Imm(1); return 4;);
  T_("bfi w,w,#4,#w", kIdBfi, FL(G(0), G(1), IMM(8, 1, 28)), o[0] = Wr(f[0]); o[1] = Wr(f[1]); o[2] = Imm(4); o[3] = Imm(f[2]); return 4;);
  T_("extr x,x,x,#lsb", kIdExtr, FL(G(0), G(1), G(2), IMM(9, 0, 63)), o[0] = X(f[0]); o[1] = X(f[1]); o[2] = X(f[2]); o[3] = Imm(f[3]); return 4;);
  T_("csel x,x,x,cond", kIdCsel, FL(G(0), G(1), G(2), FieldT{F_COND, 2, 0, 0}), o[0] = X(f[0]); o[1] = X(f[1]); o[2] = X(f[2]); o[3] = Imm(f[3]); return 4;);
  T_("cset w,cond", kIdCset, FL(G(0), FieldT{F_COND, 3, 0, 0}), o[0] = Wr(f[0]); o[1] = Imm(f[1]); return 2;);
  T_("ccmp x,x,#nzcv,cond", kIdCcmp, FL(G(0), G(1), IMM(5, 0, 15), FieldT{F_COND, 2, 0, 0}), o[0] = X(f[0]); o[1] = X(f[1]); o[2] = Imm(f[2]); o[3] = Imm(f[3]); return 4;);
  T_("ccmp x,#imm5,#nzcv,cond", kIdCcmp, FL(G(0), IMM(5, 0, 31), IMM(5, 0, 15)), o[0] = X(f[0]); o[1] = Imm(f[1]); o[2] = Imm(f[2]); o[3] = Imm(uint32_t(arm::CondCode::kNE)); return 4;);
  T_("clz x,x", kIdClz, FL(G(0), G(1)), o[0] = X(f[0]); o[1] = X(f[1]); return 2;);
  T_("rev w,w", kIdRev, FL(G(0), G(1)), o[0] = Wr(f[0]); o[1] = Wr(f[1]); return 2;);
  // --- pc relative / branches / system ---
  T_("adr x,label", kIdAdr, FL(G(0), LBL()), o[0] = X(f[0]); o[1] = Label(uint32_t(f[1])); return 2;);
  T_("adrp x,label", kIdAdrp, FL(G(0), LBL()), o[0] = X(f[0]); o[1] = Label(uint32_t(f[1])); return 2;);
  T_("b label", kIdB, FL(LBL()), o[0] = Label(uint32_t(f[0])); return 1;);
  T_("bl label", kIdBl, FL(LBL()), o[0] = Label(uint32_t(f[0])); return 1;);
  T_("cbz x,label", kIdCbz, FL(G(0), LBL()), o[0] = X(f[0]); o[1] = Label(uint32_t(f[1])); return 2;);
  T_("cbnz w,label", kIdCbnz, FL(G(0), LBL()), o[0] = Wr(f[0]); o[1] = Label(uint32_t(f[1])); return 2;);
  T_("tbz x,#bit,label", kIdTbz, FL(G(0), IMM(33, 0, 63), LBL()), o[0] = X(f[0]); o[1] = Imm(f[1]); o[2] = Label(uint32_t(f[2])); return 3;);
  T_("tbnz w,#bit,label", kIdTbnz, FL(G(0), IMM(3, 0, 31), LBL()), o[0] = Wr(f[0]); o[1] = Imm(f[1]); o[2] = Label(uint32_t(f[2])); return 3;);
  T_("br x", kIdBr, FL(G(16)), o[0] = X(f[0]); return 1;);
  T_("blr x", kIdBlr, FL(G(16)), o[0] = X(f[0]); return 1;);
  T_("ret x", kIdRet, FL(G(30)), o[0] = X(f[0]); return 1;);
  T_("svc #imm16", kIdSvc, FL(IMM(1, 0, 65535)), o[0] = Imm(f[0]); return 1;);
  T_("brk #imm16", kIdBrk, FL(IMM(1, 0, 65535)), o[0] = Imm(f[0]); return 1;);
  T_("hint #imm7", kIdHint, FL(IMM(1, 0, 127)), o[0] = Imm(f[0]); return 1;);
  T_("dmb #imm4", kIdDmb, FL(IMM(11, 0, 15)), o[0] = Imm(f[0]); return 1;);
  T_("mrs x,nzcv", kIdMrs, FL(G(0)), o[0] = X(f[0]); o[1] = Imm(uint32_t(Predicate::SysReg::kNZCV)); return 2;);
  T_("msr nzcv,x", kIdMsr, FL(G(0)), o[0] = Imm(uint32_t(Predicate::SysReg::kNZCV)); o[1] = X(f[0]); return 2;);
  T_("nop", kIdNop, FL(), (void)f; (void)o; return 0;);
  // --- loads / stores ---
  T_("ldr x,[x,#off]", kIdLdr, FL(G(0), B(1), OFF(8, 0, 8)), o[0] = X(f[0]); o[1] = a64::Mem(X(f[1]), int32_t(f[2])); return 2;);
  T_("ldr w,[x,#off]", kIdLdr, FL(G(0), B(1), OFF(4, 0, 4)), o[0] = Wr(f[0]); o[1] = a64::Mem(X(f[1]), int32_t(f[2])); return 2;);
  T_("ldrb w,[x,#off]", kIdLdrb, FL(G(0), B(1), OFF(1, 0, 1)), o[0] = Wr(f[0]); o[1] = a64::Mem(X(f[1]), int32_t(f[2])); return 2;);
  T_("ldrh w,[x,#off]", kIdLdrh, FL(G(0), B(1), OFF(2, 0, 2)), o[0] = Wr(f[0]); o[1] = a64::Mem(X(f[1]), int32_t(f[2])); return 2;);
  T_("ldrsw x,[x,#off]", kIdLdrsw, FL(G(0), B(1), OFF(4, 0, 4)), o[0] = X(f[0]); o[1] = a64::Mem(X(f[1]), int32_t(f[2])); return 2;);
  T_("str x,[x,#off]", kIdStr, FL(G(0), B(1), OFF(8, 0, 8)), o[0] = X(f[0]); o[1] = a64::Mem(X(f[1]), int32_t(f[2])); return 2;);
  T_("ldr x,[x,#off]!", kIdLdr, FL(G(0), B(1), OFF(8, 2, 8)), o[0] = X(f[0]); o[1] = a64::Mem(X(f[1])).pre(f[2]); return 2;);
  T_("str x,[x],#off", kIdStr, FL(G(0), B(1), OFF(8, 2, 8)), o[0] = X(f[0]); o[1] = a64::Mem(X(f[1])).post(f[2]); return 2;);
  T_("ldr x,[x,x]", kIdLdr, FL(G(0), B(1), G(2)), o[0] = X(f[0]); o[1] = a64::Mem(X(f[1]), X(f[2])); return 2;);
  T_("ldr x,[x,x,lsl #n]", kIdLdr, FL(G(0), B(1), G(2), FieldT{F_MSHIFT, 3, 3, 0}), o[0] = X(f[0]); o[1] = a64::Mem(X(f[1]), X(f[2]), arm::Shift(arm::ShiftOp::kLSL, uint32_t(f[3]))); return 2;);
  T_("ldr w,[x,w,sxtw #n]", kIdLdr, FL(G(0), B(1), G(2), FieldT{F_MSHIFT, 2, 2, 0}), o[0] = Wr(f[0]); o[1] = a64::Mem(X(f[1]), Wr(f[2]), arm::Shift(arm::ShiftOp::kSXTW, uint32_t(f[3]))); return 2;);
  T_("ldrb w,[x,x,lsl #n]", kIdLdrb, FL(G(0), B(1), G(2), FieldT{F_MSHIFT, 0, 0, 0}), o[0] = Wr(f[0]); o[1] = a64::Mem(X(f[1]), X(f[2]), arm::Shift(arm::ShiftOp::kLSL, uint32_t(f[3]))); return 2;);
  T_("ldr x,label", kIdLdr, FL(G(0), LBL()), o[0] = X(f[0]); o[1] = a64::Mem(Label(uint32_t(f[1]))); return 2;);
  T_("ldur x,[x,#off]", kIdLdur, FL(G(0), B(1), OFF(-8, 2, 8)), o[0] = X(f[0]); o[1] = a64::Mem(X(f[1]), int32_t(f[2])); return 2;);
  T_("ldp x,x,[x,#off]", kIdLdp, FL(G(0), G(1), B(2), OFF(16, 1, 8)), o[0] = X(f[0]); o[1] = X(f[1]); o[2] = a64::Mem(X(f[2]), int32_t(f[3])); return 3;);
  T_("stp w,w,[x,#off]", kIdStp, FL(G(0), G(1), B(2), OFF(8, 1, 4)), o[0] = Wr(f[0]); o[1] = Wr(f[1]); o[2] = a64::Mem(X(f[2]), int32_t(f[3])); return 3;);
  T_("ldp x,x,[x],#off", kIdLdp, FL(G(0), G(1), B(2), OFF(16, 1, 8)), o[0] = X(f[0]); o[1] = X(f[1]); o[2] = a64::Mem(X(f[2])).post(f[3]); return 3;);
  T_("stp x,x,[x,#off]!", kIdStp, FL(G(0), G(1), B(2), OFF(-16, 1, 8)), o[0] = X(f[0]); o[1] = X(f[1]); o[2] = a64::Mem(X(f[2])).pre(f[3]); return 3;);
  T_("ldxr x,[x]", kIdLdxr, FL(G(0), B(1), OFF(0, 3, 8)), o[0] = X(f[0]); o[1] = a64::Mem(X(f[1]), int32_t(f[2])); return 2;);
  T_("stxr w,x,[x]", kIdStxr, FL(G(0), G(1), B(2), OFF(0, 3, 8)), o[0] = Wr(f[0]); o[1] = X(f[1]); o[2] = a64::Mem(X(f[2]), int32_t(f[3])); return 3;);
  T_("ldar x,[x]", kIdLdar, FL(G(0), B(1), OFF(0, 3, 8)), o[0] = X(f[0]); o[1] = a64::Mem(X(f[1]), int32_t(f[2])); return 2;);
  T_("stlr w,[x]", kIdStlr, FL(G(0), B(1), OFF(0, 3, 4)), o[0] = Wr(f[0]); o[1] = a64::Mem(X(f[1]), int32_t(f[2])); return 2;);
  T_("ldaxp x,x,[x]", kIdLdaxp, FL(G(0), G(1), B(2)), o[0] = X(f[0]); o[1] = X(f[1]); o[2] = a64::Mem(X(f[2])); return 3;);
  T_("cas x,x,[x]", kIdCas, FL(G(0), G(1), B(2), OFF(0, 3, 8)), o[0] = X(f[0]); o[1] = X(f[1]); o[2] = a64::Mem(X(f[2]), int32_t(f[3])); return 3;);
  T_("ldadd w,w,[x]", kIdLdadd, FL(G(0), G(1), B(2)), o[0] = Wr(f[0]); o[1] = Wr(f[1]); o[2] = a64::Mem(X(f[2])); return 3;);
  T_("swp x,x,[x]", kIdSwp, FL(G(0), G(1), B(2)), o[0] = X(f[0]); o[1] = X(f[1]); o[2] = a64::Mem(X(f[2])); return 3;);
  // --- SIMD / FP ---
  T_("ldr q,[x,#off]", kIdLdr_v, FL(Vf(0), B(1), OFF(16, 0, 16)), o[0] = Vq(f[0]); o[1] = a64::Mem(X(f[1]), int32_t(f[2])); return 2;);
  T_("str d,[x,#off]", kIdStr_v, FL(Vf(0), B(1), OFF(8, 0, 8)), o[0] = Vec::make_v64(uint32_t(f[0])); o[1] = a64::Mem(X(f[1]), int32_t(f[2])); return 2;);
  T_("ldr s,[x,x,lsl #n]", kIdLdr_v, FL(Vf(0), B(1), G(2), FieldT{F_MSHIFT, 2, 2, 0}), o[0] = Vec::make_v32(uint32_t(f[0])); o[1] = a64::Mem(X(f[1]), X(f[2]), arm::Shift(arm::ShiftOp::kLSL, uint32_t(f[3]))); return 2;);
  T_("ldp q,q,[x,#off]", kIdLdp_v, FL(Vf(0), Vf(1), B(2), OFF(32, 1, 16)), o[0] = Vq(f[0]); o[1] = Vq(f[1]); o[2] = a64::Mem(X(f[2]), int32_t(f[3])); return 3;);
  T_("fadd v.4s,v.4s,v.4s", kIdFadd_v, FL(Vf(0), Vf(1), Vf(2)), o[0] = Vq(f[0]).s4(); o[1] = Vq(f[1]).s4(); o[2] = Vq(f[2]).s4(); return 3;);
  T_("fadd d,d,d", kIdFadd_v, FL(Vf(0), Vf(1), Vf(2)), o[0] = Vec::make_v64(uint32_t(f[0])); o[1] = Vec::make_v64(uint32_t(f[1])); o[2] = Vec::make_v64(uint32_t(f[2])); return 3;);
  T_("add v.<et>,v.<et>,v.<et>", kIdAdd_v, FL(Vf(0), Vf(1), Vf(2), FieldT{F_ETYPE, 3, 0, 0}), o[0] = Vec::make_v128_with_element_type(VecElementType(uint32_t(f[3])), uint32_t(f[0])); o[1] = Vec::make_v128_with_element_type(VecElementType(uint32_t(f[3])), uint32_t(f[1])); o[2] = Vec::make_v128_with_element_type(VecElementType(uint32_t(f[3])), uint32_t(f[2])); return 3;);
  T_("mul v.8h,v.8h,v.8h", kIdMul_v, FL(Vf(0), Vf(1), Vf(2)), o[0] = Vq(f[0]).h8(); o[1] = Vq(f[1]).h8(); o[2] = Vq(f[2]).h8(); return 3;);
  T_("fmla v.4s,v.4s,v.s[i]", kIdFmla_v, FL(Vf(0), Vf(1), Vf(2), FieldT{F_EIDX, 1, 4, 0}), o[0] = Vq(f[0]).s4(); o[1] = Vq(f[1]).s4(); o[2] = Vq(f[2]).s(uint32_t(f[3])); return 3;);
  T_("fmla v.2d,v.2d,v.d[i]", kIdFmla_v, FL(Vf(0), Vf(1), Vf(2), FieldT{F_EIDX, 1, 2, 0}), o[0] = Vq(f[0]).d2(); o[1] = Vq(f[1]).d2(); o[2] = Vq(f[2]).d(uint32_t(f[3])); return 3;);
  T_("mul v.8h,v.8h,v.h[i]", kIdMul_v, FL(Vf(0), Vf(1), FieldT{F_VEC16, 2, 0, 0}, FieldT{F_EIDX, 1, 8, 0}), o[0] = Vq(f[0]).h8(); o[1] = Vq(f[1]).h8(); o[2] = Vq(f[2]).h(uint32_t(f[3])); return 3;);
  T_("ins v.s[i],w", kIdIns_v, FL(Vf(0), FieldT{F_EIDX, 1, 4, 0}, G(1)), o[0] = Vq(f[0]).s(uint32_t(f[1])); o[1] = Wr(f[2]); return 2;);
  T_("ins v.b[i],v.b[j]", kIdIns_v, FL(Vf(0), FieldT{F_EIDX, 3, 16, 0}, Vf(1), FieldT{F_EIDX, 5, 16, 0}), o[0] = Vq(f[0]).b(uint32_t(f[1])); o[1] = Vq(f[2]).b(uint32_t(f[3])); return 2;);
  T_("umov w,v.h[i]", kIdUmov_v, FL(G(0), Vf(1), FieldT{F_EIDX, 1, 8, 0}), o[0] = Wr(f[0]); o[1] = Vq(f[1]).h(uint32_t(f[2])); return 2;);
  T_("umov x,v.d[i]", kIdUmov_v, FL(G(0), Vf(1), FieldT{F_EIDX, 1, 2, 0}), o[0] = X(f[0]); o[1] = Vq(f[1]).d(uint32_t(f[2])); return 2;);
  T_("dup v.4s,v.s[i]", kIdDup_v, FL(Vf(0), Vf(1), FieldT{F_EIDX, 1, 4, 0}), o[0] = Vq(f[0]).s4(); o[1] = Vq(f[1]).s(uint32_t(f[2])); return 2;);
  T_("dup v.4s,w", kIdDup_v, FL(Vf(0), G(1)), o[0] = Vq(f[0]).s4(); o[1] = Wr(f[1]); return 2;);
  T_("tbl v.16b,{v.16b},v.16b", kIdTbl_v, FL(Vf(0), Vf(1), Vf(2)), o[0] = Vq(f[0]).b16(); o[1] = Vq(f[1]).b16(); o[2] = Vq(f[2]).b16(); return 3;);
  T_("tbl v.16b,{v.16b,v.16b},v.16b", kIdTbl_v, FL(Vf(0), Vf(1), Vf(3)), o[0] = Vq(f[0]).b16(); o[1] = Vq(f[1]).b16(); o[2] = Vq((f[1] + 1) & (f[1] < 32 ? 31 : ~0ll)).b16(); o[3] = Vq(f[2]).b16(); return 4;);
  T_("ld1 {v.16b},[x]", kIdLd1_v, FL(Vf(0), B(1)), o[0] = Vq(f[0]).b16(); o[1] = a64::Mem(X(f[1])); return 2;);
  T_("ld1 {v.16b},[x],#imm", kIdLd1_v, FL(Vf(0), B(1), OFF(16, 4, 16)), o[0] = Vq(f[0]).b16(); o[1] = a64::Mem(X(f[1])).post(f[2]); return 2;);
  T_("ld1 {v.4s,v.4s},[x]", kIdLd1_v, FL(Vf(0), B(1)), o[0] = Vq(f[0]).s4(); o[1] = Vq((f[0] + 1) & (f[0] < 32 ? 31 : ~0ll)).s4(); o[2] = a64::Mem(X(f[1])); return 3;);
  T_("ld1 {v.s}[i],[x]", kIdLd1_v, FL(Vf(0), FieldT{F_EIDX, 1, 4, 0}, B(1)), o[0] = Vq(f[0]).s(uint32_t(f[1])); o[1] = a64::Mem(X(f[2])); return 2;);
  T_("st1 {v.d}[i],[x]", kIdSt1_v, FL(Vf(0), FieldT{F_EIDX, 1, 2, 0}, B(1)), o[0] = Vq(f[0]).d(uint32_t(f[1])); o[1] = a64::Mem(X(f[2])); return 2;);
  T_("ld1r {v.4s},[x]", kIdLd1r_v, FL(Vf(0), B(1)), o[0] = Vq(f[0]).s4(); o[1] = a64::Mem(X(f[1])); return 2;);
  T_("movi v.16b,#imm8", kIdMovi_v, FL(Vf(0), IMM(0x55, 0, 255)), o[0] = Vq(f[0]).b16(); o[1] = Imm(f[1]); return 2;);
  T_("shl v.4s,v.4s,#n", kIdShl_v, FL(Vf(0), Vf(1), IMM(3, 0, 31)), o[0] = Vq(f[0]).s4(); o[1] = Vq(f[1]).s4(); o[2] = Imm(f[2]); return 3;);
  T_("sshr v.8h,v.8h,#n", kIdSshr_v, FL(Vf(0), Vf(1), IMM(3, 1, 16)), o[0] = Vq(f[0]).h8(); o[1] = Vq(f[1]).h8(); o[2] = Imm(f[2]); return 3;);
  T_("ext v.16b,v.16b,v.16b,#i", kIdExt_v, FL(Vf(0), Vf(1), Vf(2), IMM(3, 0, 15)), o[0] = Vq(f[0]).b16(); o[1] = Vq(f[1]).b16(); o[2] = Vq(f[2]).b16(); o[3] = Imm(f[3]); return 4;);
  T_("fcvtzs v.4s,v.4s", kIdFcvtzs_v, FL(Vf(0), Vf(1)), o[0] = Vq(f[0]).s4(); o[1] = Vq(f[1]).s4(); return 2;);
  T_("fcvtzs w,s,#fbits", kIdFcvtzs_v, FL(G(0), Vf(1), IMM(8, 1, 32)), o[0] = Wr(f[0]); o[1] = Vec::make_v32(uint32_t(f[1])); o[2] = Imm(f[2]); return 3;);
  T_("scvtf d,x", kIdScvtf_v, FL(Vf(0), G(1)), o[0] = Vec::make_v64(uint32_t(f[0])); o[1] = X(f[1]); return 2;);
  T_("fmov x,d", kIdFmov_v, FL(G(0), Vf(1)), o[0] = X(f[0]); o[1] = Vec::make_v64(uint32_t(f[1])); return 2;);
  T_("fmov s,w", kIdFmov_v, FL(Vf(0), G(1)), o[0] = Vec::make_v32(uint32_t(f[0])); o[1] = Wr(f[1]); return 2;);
  T_("aese v.16b,v.16b", kIdAese_v, FL(Vf(0), Vf(1)), o[0] = Vq(f[0]).b16(); o[1] = Vq(f[1]).b16(); return 2;);
  T_("sha256h q,q,v.4s", kIdSha256h_v, FL(Vf(0), Vf(1), Vf(2)), o[0] = Vq(f[0]); o[1] = Vq(f[1]); o[2] = Vq(f[2]).s4(); return 3;);
  T_("sdot v.4s,v.16b,v.4b[i]", kIdSdot_v, FL(Vf(0), Vf(1), Vf(2), FieldT{F_EIDX, 1, 4, 0}), o[0] = Vq(f[0]).s4(); o[1] = Vq(f[1]).b16(); o[2] = Vq(f[2]).b4(uint32_t(f[3])); return 3;);
  T_("cnt v.8b,v.8b", kIdCnt_v, FL(Vf(0), Vf(1)), o[0] = Vec::make_v64(uint32_t(f[0])).b8(); o[1] = Vec::make_v64(uint32_t(f[1])).b8(); return 2;);
  T_("addv s,v.4s", kIdAddv_v, FL(Vf(0), Vf(1)), o[0] = Vec::make_v32(uint32_t(f[0])); o[1] = Vq(f[1]).s4(); return 2;);
  T_("xtn v.4h,v.4s", kIdXtn_v, FL(Vf(0), Vf(1)), o[0] = Vec::make_v64(uint32_t(f[0])).h4(); o[1] = Vq(f[1]).s4(); return 2;);
#undef T_
#undef FL
  return t;
}

static Call a64_call(const A64T& t, const std::vector<int64_t>& f, const std::string& must, int64_t id_override = -1) {
  Call c; c.kind = 'I'; c.id = id_override >= 0 ? uint32_t(id_override) : t.id;
  c.nops = t.build(f.data(), c.ops);
  c.tag = t.name; c.must = must;
  return c;
}

static void gen_a64(Gen& g, bool thorough) {
  static std::vector<A64T> T = build_a64_templates();
  int kmax = thorough ? 2 : 1;
  for (EmK ek : {EASM, EBUILDER, ECOMPILER}) {
    for (HdK hk : {HREC, HTHROW, HNONE}) {
      for (const A64T& t : T) {
        std::vector<int64_t> dflt; for (auto& f : t.fields) dflt.push_back(f.dflt);
        std::vector<std::vector<FVal>> alph; for (auto& f : t.fields) alph.push_back(field_alphabet(f, ek));
        auto emit1 = [&](const Call& c) {
          if (!g.want_cfg(100 + int(ek) * 3 + int(hk))) return;
          Unit u; u.cfg.arch = AA64; u.cfg.ek = ek; u.cfg.hk = hk; u.cfg.logger = ek == EASM && hk == HREC && (g.idx % 4) == 0; u.group = "a64:fields";
          u.calls.push_back(c); g.sink(u);
        };
        // "warm" twin of a unit: no logger, no validation, and a valid instruction first, so that the perturbed call is not the
        // first one of an empty buffer - only then a64::Assembler::_emit() takes its fast path (AArch64 has no operand validator,
        // the must-reject reasons do not depend on the diagnostic options)
        auto emit_warm = [&](const Call& c) {
          if (!g.want_cfg(200 + int(ek) * 3 + int(hk) + (g.idx % 16))) return;
          Unit u; u.cfg.arch = AA64; u.cfg.ek = ek; u.cfg.hk = hk; u.cfg.logger = false; u.cfg.validate = false; u.group = "a64:fields-warm";
          Call nop; nop.kind = 'I'; nop.id = a64::Inst::kIdNop; nop.nops = 0; nop.tag = "nop"; nop.expect_ok = true;
          u.calls.push_back(nop); u.calls.push_back(c); g.sink(u);
        };
        // k = 0 (default instantiation; must be accepted - harness self check)
        { Call c = a64_call(t, dflt, ""); c.expect_ok = true; emit1(c); emit_warm(c); }
        // k = 1
        int alt = 0;
        for (size_t i = 0; i < t.fields.size(); i++) for (auto& v : alph[i]) {
          if (v.v == dflt[i]) continue;
          std::vector<int64_t> f = dflt; f[i] = v.v;
          Call c = a64_call(t, f, v.must ? v.must : "");
          // every other perturbed call carries one-shot state (inline comment, an option bit without meaning on AArch64)
          if ((alt++ & 1) != 0) { c.comment = true; c.opt = uint32_t(InstOptions::kOverwrite); }
          emit1(c);
          c.comment = false; c.opt = 0;        // (an option bit is one of the things that force the slow path)
          emit_warm(c);
        }
        // k = 2
        if (kmax >= 2) for (size_t i = 0; i < t.fields.size(); i++) for (size_t j = i + 1; j < t.fields.size(); j++) for (auto& v : alph[i]) for (auto& w : alph[j]) {
          if (v.v == dflt[i] || w.v == dflt[j]) continue;
          std::vector<int64_t> f = dflt; f[i] = v.v; f[j] = w.v;
          emit1(a64_call(t, f, v.must ? v.must : (w.must ? w.must : "")));
        }
        // instruction id perturbation with the operands kept
        const uint32_t cnt = uint32_t(a64::Inst::_kIdCount);
        for (uint32_t id : {0u, 0x10000000u /* id 0 with a condition */, cnt, cnt + 1, 0xFFFFu, 0xFFFFFFFFu}) { Call c = a64_call(t, dflt, "invalid-instruction-id", int64_t(id)); emit1(c); emit_warm(c); }
        if (t.id != a64::Inst::kIdB) for (arm::CondCode cc : {arm::CondCode::kEQ, arm::CondCode::kNA, arm::CondCode::kLE}) {
          Call c = a64_call(t, dflt, "condition-code-on-unconditional-instruction", int64_t(BaseInst::compose_arm_inst_id(t.id, cc)));
          if (cc == arm::CondCode::kEQ) emit1(c);
          emit_warm(c);
        }
      }
      // b.<cond> label with every condition
      if (g.want_cfg(100 + int(ek) * 3 + int(hk))) {
        Unit u; u.cfg.arch = AA64; u.cfg.ek = ek; u.cfg.hk = hk; u.group = "a64:fields";
        for (uint32_t cc = 0; cc < 16; cc++) for (uint32_t l : {0u, 1u, 12345u}) {
          Call c; c.kind = 'I'; c.id = BaseInst::compose_arm_inst_id(a64::Inst::kIdB, arm::CondCode(cc)); c.nops = 1; c.ops[0] = Label(l); c.tag = "b.cond label"; if (l > 2) c.must = "label-invalid";
          u.calls.push_back(c);
        }
        if (ek == EASM) g.sink(u); else for (auto& c : u.calls) { Unit v; v.cfg = u.cfg; v.group = u.group; v.calls.push_back(c); g.sink(v); }
      }
    }
  }
}

// ---------------------------------------------------------------------------------------------------------
// BOTH architectures: label / section / alignment / data calls in 3-step histories  valid, X, valid
// ---------------------------------------------------------------------------------------------------------
static Call misc(char kind, uint64_t a0 = 0, uint64_t a1 = 0, uint64_t a2 = 0, const char* must = nullptr) {
  Call c; c.kind = kind; c.a0 = a0; c.a1 = a1; c.a2 = a2; c.tag = call_kind_name(kind); if (must) c.must = must; return c;
}

static std::vector<Call> valid_calls(ArchK arch) {
  std::vector<Call> v;
  Call i1, i2; i1.kind = i2.kind = 'I';
  if (arch == AA64) {
    i1.id = a64::Inst::kIdAdd; i1.nops = 3; i1.ops[0] = a64::x0; i1.ops[1] = a64::x1; i1.ops[2] = a64::x2;
    i2.id = a64::Inst::kIdB; i2.nops = 1; i2.ops[0] = Label(1);
  } else {
    i1.id = x86::Inst::kIdMov; i1.nops = 2; i1.ops[0] = x86::eax; i1.ops[1] = x86::ecx;
    i2.id = x86::Inst::kIdJmp; i2.nops = 1; i2.ops[0] = Label(1);
  }
  i1.tag = inst_name(arch, i1.id); i2.tag = inst_name(arch, i2.id);
  v.push_back(i1); v.push_back(i2);
  v.push_back(misc('E', 1, 4));
  v.push_back(misc('A', 0, 16));
  v.push_back(misc('n', 1));
  return v;
}

static std::vector<Call> weird_misc_calls(ArchK arch) {
  std::vector<Call> x;
  const uint64_t INV = Globals::kInvalidId;
  // bind
  x.push_back(misc('B', 1)); x.push_back(misc('B', 0, 0, 0, "label-already-bound")); x.push_back(misc('B', 12345, 0, 0, "label-invalid")); x.push_back(misc('B', INV, 0, 0, "label-invalid"));
  x.push_back(misc('B', 2));
  // ids at the end of the label table: the environment owns 0..2, a preceding new_label() adds 3.  Whether 3 / 4 / 5 name a
  // label is decided when the call is made (run_history); the far ids above carry their reason statically.
  x.push_back(misc('B', 3)); x.push_back(misc('B', 4)); x.push_back(misc('B', 5));
  // align
  for (uint64_t mode : {0ull, 1ull, 2ull, 3ull, 255ull})
    for (uint64_t al : {0ull, 1ull, 3ull, 64ull, 65ull, 128ull, 0xFFFFFFFFull}) {
      const char* must = nullptr;
      bool pow2 = al && !(al & (al - 1));
      if (mode > 2) must = "align-mode-out-of-range";
      else if (al > 1 && !pow2) must = "alignment-not-power-of-2";
      x.push_back(misc('A', mode, al, 0, must));
    }
  // embed
  x.push_back(misc('E', 0, 0)); x.push_back(misc('E', 1, 0)); x.push_back(misc('E', 1, 1)); x.push_back(misc('E', 1, 64));
  // embed_data_array (type, items, repeat)
  const uint64_t U8 = uint64_t(TypeId::kUInt8), U32 = uint64_t(TypeId::kUInt32), IPTR = uint64_t(TypeId::kIntPtr);
  x.push_back(misc('D', U8, 3, 2)); x.push_back(misc('D', U32, 2, 1)); x.push_back(misc('D', IPTR, 1, 1)); x.push_back(misc('D', U8, 0, 5)); x.push_back(misc('D', U8, 5, 0));
  x.push_back(misc('D', uint64_t(TypeId::kVoid), 1, 1)); x.push_back(misc('D', 255, 1, 1, "type-id-invalid")); x.push_back(misc('D', 200, 4, 4, "type-id-invalid"));
  x.push_back(misc('D', U32, uint64_t(SIZE_MAX / 2), 1, "size-overflow")); x.push_back(misc('D', U8, 16, uint64_t(SIZE_MAX / 4), "size-overflow")); x.push_back(misc('D', uint64_t(TypeId::kUInt64), uint64_t(SIZE_MAX / 8) + 1, 8, "size-overflow"));
  x.push_back(misc('D', U8, 1, uint64_t(SIZE_MAX), "size-unallocatable"));
  // embed_label
  // (sizes above 2^32 whose low word alone would be a valid size: the nodes of Builder/Compiler store 32 bits)
  for (uint64_t sz : {0ull, 1ull, 2ull, 3ull, 4ull, 8ull, 9ull, 16ull, 0x100000004ull, 0x100000000ull, 0xFFFFFFFF00000008ull}) {
    bool ok = sz == 0 || sz == 1 || sz == 2 || sz == 4 || sz == 8;
    x.push_back(misc('L', 1, sz, 0, ok ? nullptr : "label-data-size"));
    x.push_back(misc('L', 0, sz, 0, ok ? nullptr : "label-data-size"));
  }
  x.push_back(misc('L', 3, 0)); x.push_back(misc('L', 4, 4));
  x.push_back(misc('L', 12345, 0, 0, "label-invalid")); x.push_back(misc('L', INV, 4, 0, "label-invalid")); x.push_back(misc('L', 12345, 3, 0, "label-invalid"));
  // embed_label_delta
  for (uint64_t sz : {0ull, 1ull, 3ull, 4ull, 8ull, 9ull, 0x100000004ull, 0x8000000000000001ull}) {
    bool ok = sz == 0 || sz == 1 || sz == 4 || sz == 8;
    x.push_back(misc('X', 1, 0, sz, ok ? nullptr : "label-data-size"));
    x.push_back(misc('X', 0, 0, sz, ok ? nullptr : "label-data-size"));
  }
  x.push_back(misc('X', 3, 0, 4)); x.push_back(misc('X', 0, 3, 4)); x.push_back(misc('X', 4, 1, 0)); x.push_back(misc('X', 1, 4, 0));
  x.push_back(misc('X', 12345, 0, 4, "label-invalid")); x.push_back(misc('X', 0, 12345, 4, "label-invalid")); x.push_back(misc('X', INV, INV, 0, "label-invalid")); x.push_back(misc('X', 1, 12345, 3, "label-invalid"));
  // section
  x.push_back(misc('S', 1)); x.push_back(misc('S', 2)); x.push_back(misc('S', 3, 0, 0, "section-of-another-holder")); x.push_back(misc('S', 0, 0, 0, "section-nullptr"));
  // new_named_label (name kind, type, parent)
  const uint64_t GLOBAL = uint64_t(LabelType::kGlobal), LOCAL = uint64_t(LabelType::kLocal), ANON = uint64_t(LabelType::kAnonymous), EXT = uint64_t(LabelType::kExternal);
  x.push_back(misc('N', 1, GLOBAL, INV)); x.push_back(misc('N', 1, LOCAL, 0)); x.push_back(misc('N', 1, ANON, INV)); x.push_back(misc('N', 0, ANON, INV)); x.push_back(misc('N', 1, EXT, INV));
  x.push_back(misc('N', 0, GLOBAL, INV)); x.push_back(misc('N', 2, GLOBAL, INV)); x.push_back(misc('N', 3, GLOBAL, INV, "duplicate-label-name"));
  x.push_back(misc('N', 1, GLOBAL, 0)); x.push_back(misc('N', 1, LOCAL, 12345, "parent-label-invalid"));
  // boundary parents: the environment owns labels 0..2, a preceding new_label()/new_named_label() adds one more.
  // parent 4 never exists; parent 3 exists only behind a call that created a label (gen_misc adds the must-reject then)
  x.push_back(misc('N', 1, LOCAL, 4, "parent-label-invalid")); x.push_back(misc('N', 1, LOCAL, 3)); x.push_back(misc('N', 1, LOCAL, 2)); x.push_back(misc('N', 1, LOCAL, INV, "parent-label-invalid"));
  x.push_back(misc('N', 1, 77, INV, "label-type-invalid")); x.push_back(misc('N', 1, ANON, 0)); x.push_back(misc('N', 2, LOCAL, 0));
  // a few invalid instructions as the middle step
  Call i; i.kind = 'I';
  for (uint32_t lid : {3u, 4u}) {      // label operands at the end of the label table
    Call j; j.kind = 'I';
    if (arch == AA64) {
      j.id = a64::Inst::kIdB; j.nops = 1; j.ops[0] = Label(lid); j.tag = "b"; x.push_back(j);
      j.id = a64::Inst::kIdAdr; j.nops = 2; j.ops[0] = a64::x0; j.ops[1] = Label(lid); j.tag = "adr"; x.push_back(j);
      j.id = a64::Inst::kIdLdr; j.nops = 2; j.ops[0] = a64::x0; j.ops[1] = a64::Mem(Label(lid)); j.tag = "ldr"; x.push_back(j);
    } else {
      j.id = x86::Inst::kIdJmp; j.nops = 1; j.ops[0] = Label(lid); j.tag = "jmp"; x.push_back(j);
      j.id = x86::Inst::kIdLea; j.nops = 2; j.ops[0] = x86::eax; j.ops[1] = x86::ptr(Label(lid)); j.tag = "lea"; x.push_back(j);
      j.id = x86::Inst::kIdMov; j.nops = 2; j.ops[0] = x86::eax; j.ops[1] = x86::ptr(Label(lid), 4); j.tag = "mov"; x.push_back(j);
    }
  }
  if (arch != AA64) {                  // label base + index register (gp and VSIB), boundary and far ids
    x86::Gp idx = arch == AX64 ? x86::Gp(x86::rcx) : x86::Gp(x86::ecx);
    for (uint32_t lid : {3u, 4u, 12345u, 1u}) {
      const char* must = lid > 64 ? "mem-label-invalid" : "";
      Call j; j.kind = 'I'; j.must = must;
      j.id = x86::Inst::kIdMov; j.nops = 2; j.ops[0] = x86::eax; j.ops[1] = x86::ptr(Label(lid), idx, 2); j.tag = "mov"; x.push_back(j);
      j.id = x86::Inst::kIdLea; j.nops = 2; j.ops[0] = x86::edx; j.ops[1] = x86::ptr(Label(lid), idx, 0, 16); j.tag = "lea"; x.push_back(j);
      j.id = x86::Inst::kIdVpgatherdd; j.nops = 3; j.ops[0] = x86::xmm0; j.ops[1] = x86::ptr(Label(lid), x86::xmm1, 2); j.ops[2] = x86::xmm2; j.tag = "vpgatherdd"; x.push_back(j);
    }
  }
  if (arch == AA64) {
    i.id = a64::Inst::kIdB; i.nops = 1; i.ops[0] = Label(12345); i.tag = "b"; i.must = "label-invalid"; x.push_back(i);
    i.id = a64::Inst::kIdAdd; i.nops = 3; i.ops[0] = a64::x0; i.ops[1] = a64::x1; i.ops[2] = a64::Gp::make_r64(40); i.tag = "add"; i.must = "gp-id"; x.push_back(i);
    i.id = 0; i.must = "invalid-instruction-id"; i.tag = "id0"; x.push_back(i);
  } else {
    i.id = x86::Inst::kIdJmp; i.nops = 1; i.ops[0] = Label(12345); i.tag = "jmp"; i.must = "label-invalid"; x.push_back(i);
    i.id = x86::Inst::kIdMov; i.nops = 2; i.ops[0] = x86::eax; i.ops[1] = x86::gpd(40); i.tag = "mov"; i.must = "reg-gp32-id"; i.opt = uint32_t(InstOptions::kX86_Rep); i.comment = true; i.has_extra = true; i.extra = x86::k1; x.push_back(i);
    i = Call(); i.kind = 'I'; i.id = 0; i.nops = 1; i.ops[0] = x86::eax; i.must = "invalid-instruction-id"; i.tag = "id0"; x.push_back(i);
    i.id = x86::Inst::kIdCall; i.ops[0] = Imm(0x7fff00000000ull); i.must = ""; i.tag = "call"; x.push_back(i);     // valid: relocation + address table
  }
  return x;
}

static void gen_misc(Gen& g, bool thorough) {
  for (ArchK arch : {AX86, AX64, AA64}) {
    std::vector<Call> V = valid_calls(arch), X = weird_misc_calls(arch);
    for (EmK ek : {EASM, EBUILDER, ECOMPILER}) for (HdK hk : {HREC, HTHROW, HNONE}) {
      long long ck = (long long)(int(arch) * 9 + int(ek) * 3 + int(hk));
      for (size_t x = 0; x < X.size(); x++) for (size_t a = 0; a < V.size(); a++) for (size_t b = 0; b < V.size(); b++) {
        bool end_of_table = false;                              // X names a label id at the end of the label table
        { std::vector<uint32_t> ids; label_ids_of(X[x], ids); for (uint32_t id : ids) if (id >= 3 && id <= 5) end_of_table = true; }
        // quick: every X with every valid predecessor, the successor rotates (+ new_label() as successor when X names an id that
        // new_label() is going to hand out next)
        if (!thorough && b != (a + x) % V.size() && !(end_of_table && V[b].kind == 'n')) continue;
        if (!g.want_cfg(ck)) continue;
        Unit u; u.cfg.arch = arch; u.cfg.ek = ek; u.cfg.hk = hk; u.cfg.logger = ((x + a + b) % 5) == 0; u.group = "misc:3-step";
        u.calls.push_back(V[a]); u.calls.push_back(X[x]); u.calls.push_back(V[b]);
        if (X[x].kind == 'N' && X[x].a1 == uint64_t(LabelType::kLocal) && X[x].a2 == 3 && V[a].kind != 'n') u.calls[1].must = "parent-label-invalid";   // parent id == label_count()
        g.sink(u);
      }
      // embed_label_delta() of two labels that are bound 208 bytes apart: -208 fits neither int8 nor uint8 (the statement of
      // embed_label_delta: "label - base" stored in data_size bytes), +208 fits uint8, both fit 2 bytes
      for (int v = 0; v < 4; v++) {
        if (!g.want_cfg(ck)) continue;
        Unit u; u.cfg.arch = arch; u.cfg.ek = ek; u.cfg.hk = hk; u.group = "misc:delta";
        u.calls.push_back(misc('D', uint64_t(TypeId::kUInt8), 16, 13));
        u.calls.push_back(misc('B', 1));
        if (v == 0) u.calls.push_back(misc('X', 0, 1, 1, "label-delta-does-not-fit-data-size"));
        if (v == 1) u.calls.push_back(misc('X', 1, 0, 1));
        if (v == 2) u.calls.push_back(misc('X', 0, 1, 2));
        if (v == 3) { u.calls.push_back(misc('D', uint64_t(TypeId::kUInt8), 16, 4093)); u.calls.push_back(misc('B', 2)); u.calls.push_back(misc('X', 0, 2, 2, "label-delta-does-not-fit-data-size")); }   // -65696
        u.calls.push_back(V[0]);
        g.sink(u);
      }
      // the call alone, and two weird calls in a row (thorough: all pairs)
      for (size_t x = 0; x < X.size(); x++) {
        if (g.want_cfg(ck)) { Unit u; u.cfg.arch = arch; u.cfg.ek = ek; u.cfg.hk = hk; u.group = "misc:alone"; u.calls.push_back(X[x]);
          if (X[x].kind == 'N' && X[x].a1 == uint64_t(LabelType::kLocal) && X[x].a2 == 3) u.calls[0].must = "parent-label-invalid";
          g.sink(u); }
        for (size_t y = 0; y < X.size(); y++) {
          if (ek != EASM) break;        // Builder/Compiler: one weird call per history (errors may surface in finalize: exact attribution)
          if (!thorough && ((x * 7 + y) % 18) != 0) continue;
          if (!g.want_cfg(ck)) continue;
          Unit u; u.cfg.arch = arch; u.cfg.ek = ek; u.cfg.hk = hk; u.group = "misc:pairs"; u.calls.push_back(X[x]); u.calls.push_back(X[y]); u.calls.push_back(V[0]); g.sink(u);
        }
      }
    }
  }
}

// ---------------------------------------------------------------------------------------------------------
// known base address + absolute (immediate) targets: units [nop, <pc relative instruction to an absolute address>]
// ---------------------------------------------------------------------------------------------------------
static void gen_abs(Gen& g, bool thorough) {
  (void)thorough;
  struct Form { ArchK arch; int form; const char* name; int64_t limit; /* |distance| limit of the form in bytes */ };
  const Form forms[] = {
    {AA64, AF_IMM26, "b imm", int64_t(1) << 27}, {AA64, AF_IMM26, "bl imm", int64_t(1) << 27}, {AA64, AF_IMM19, "b.ne imm", int64_t(1) << 20},
    {AA64, AF_IMM19, "cbz x,imm", int64_t(1) << 20}, {AA64, AF_IMM19, "cbnz w,imm", int64_t(1) << 20}, {AA64, AF_IMM14, "tbz x,#33,imm", int64_t(1) << 15},
    {AA64, AF_IMM14, "tbnz w,#3,imm", int64_t(1) << 15}, {AA64, AF_ADR, "adr x,imm", int64_t(1) << 20}, {AA64, AF_ADRP, "adrp x,imm", int64_t(1) << 32},
    {AA64, AF_IMM19, "ldr x,[abs]", int64_t(1) << 20},
    {AX64, AF_X86_JMP, "jmp imm", int64_t(1) << 31}, {AX64, AF_X86_JMP, "call imm", int64_t(1) << 31}, {AX64, AF_X86_JCC, "jz imm", int64_t(1) << 31},
    {AX64, AF_X86_JCC, "jnz imm (short)", 128}, {AX64, AF_X86_MEM, "mov eax,[rel abs]", int64_t(1) << 31}, {AX64, AF_X86_MEM, "lea rax,[abs]", int64_t(1) << 31},
  };
  long long row = 0;
  for (const Form& f : forms) {
    std::vector<int64_t> ds = {0, 4, -4, 8, 0x40, -0x40, 2, -2, 1, 0x1000, -0x1000, 0x1004};
    for (int64_t sgn : {int64_t(1), int64_t(-1)}) {
      for (int64_t k : {-8, -4, 0, 4, 8}) ds.push_back(sgn * f.limit + k);
      if (f.form == AF_ADRP) for (int64_t k : {-0x2000, -0x1000, 0x1000, 0x2000, 0x1234}) { ds.push_back(sgn * f.limit + k); ds.push_back(sgn * (int64_t(1) << 31) + k); }
      for (int64_t big : {int64_t(1) << 31, int64_t(1) << 32, (int64_t(1) << 32) + 0x40, int64_t(1) << 33, int64_t(12) << 30, (int64_t(1) << 39) - (int64_t(1) << 32), int64_t(1) << 39})
        for (int64_t k : {0, 4, -4, 2}) ds.push_back(sgn * big + k);
    }
    std::sort(ds.begin(), ds.end()); ds.erase(std::unique(ds.begin(), ds.end()), ds.end());
    for (int base = 0; base < 4; base++) for (EmK ek : {EASM, EBUILDER, ECOMPILER}) for (int64_t d : ds) {
      row++;
      if (!g.want()) continue;
      Unit u; u.cfg.arch = f.arch; u.cfg.ek = ek; u.cfg.hk = HdK(row % 3); u.cfg.base = base; u.group = "abs:targets";
      u.cfg.validate = f.arch != AA64 || (row & 1) != 0;          // AArch64: also without validation (fast path of _emit)
      Call nop; nop.kind = 'I'; nop.id = f.arch == AA64 ? uint32_t(a64::Inst::kIdNop) : uint32_t(x86::Inst::kIdNop); nop.tag = "nop"; nop.expect_ok = true;
      uint64_t pc = (base ? kBases[base] : 0x10000ull) + (f.arch == AA64 ? 4 : 1);       // the nop is 4 bytes / 1 byte
      uint64_t target = pc + uint64_t(d);
      Call c; c.kind = 'I'; c.tag = f.name; c.abs_form = f.form; c.abs_target = target;
      std::string n = f.name;
      if (f.arch == AA64) {
        using namespace a64;
        if (n == "b imm") { c.id = Inst::kIdB; c.nops = 1; c.ops[0] = Imm(target); }
        else if (n == "bl imm") { c.id = Inst::kIdBl; c.nops = 1; c.ops[0] = Imm(target); }
        else if (n == "b.ne imm") { c.id = BaseInst::compose_arm_inst_id(Inst::kIdB, arm::CondCode::kNE); c.nops = 1; c.ops[0] = Imm(target); }
        else if (n == "cbz x,imm") { c.id = Inst::kIdCbz; c.nops = 2; c.ops[0] = x0; c.ops[1] = Imm(target); }
        else if (n == "cbnz w,imm") { c.id = Inst::kIdCbnz; c.nops = 2; c.ops[0] = w1; c.ops[1] = Imm(target); }
        else if (n == "tbz x,#33,imm") { c.id = Inst::kIdTbz; c.nops = 3; c.ops[0] = x0; c.ops[1] = Imm(33); c.ops[2] = Imm(target); }
        else if (n == "tbnz w,#3,imm") { c.id = Inst::kIdTbnz; c.nops = 3; c.ops[0] = w1; c.ops[1] = Imm(3); c.ops[2] = Imm(target); }
        else if (n == "adr x,imm") { c.id = Inst::kIdAdr; c.nops = 2; c.ops[0] = x0; c.ops[1] = Imm(target); }
        else if (n == "adrp x,imm") { c.id = Inst::kIdAdrp; c.nops = 2; c.ops[0] = x0; c.ops[1] = Imm(target); }
        else { c.id = Inst::kIdLdr; c.nops = 2; c.ops[0] = x0; c.ops[1] = a64::Mem(target); }
        if (base && !a64_reachable(f.form, pc, target)) c.must = std::string(((d & 3) && f.form != AF_ADR && f.form != AF_ADRP) ? "target-misaligned@" : "target-out-of-range@") + f.name;
      } else {
        using namespace x86;
        bool far = d > (int64_t(1) << 31) + 16 || d < -(int64_t(1) << 31) - 16;     // beyond rel32 whatever the instruction length is
        if (n == "jmp imm") { c.id = Inst::kIdJmp; c.nops = 1; c.ops[0] = Imm(target); }
        else if (n == "call imm") { c.id = Inst::kIdCall; c.nops = 1; c.ops[0] = Imm(target); }
        else if (n == "jz imm") { c.id = Inst::kIdJz; c.nops = 1; c.ops[0] = Imm(target); if (base && far) c.must = "jcc-target-beyond-rel32"; }
        else if (n == "jnz imm (short)") { c.id = Inst::kIdJnz; c.opt = uint32_t(InstOptions::kShortForm); c.nops = 1; c.ops[0] = Imm(target); if (base && (d > 127 + 16 || d < -128 - 16)) c.must = "short-jcc-target-beyond-rel8"; }
        else if (n == "mov eax,[rel abs]") { c.id = Inst::kIdMov; c.nops = 2; c.ops[0] = eax; c.ops[1] = ptr_rel(target, 4); if (base && far) c.must = "rel-address-beyond-rel32"; }
        else { c.id = Inst::kIdLea; c.nops = 2; c.ops[0] = rax; c.ops[1] = ptr(target); }
      }
      u.calls.push_back(nop); u.calls.push_back(c);
      g.sink(u);
    }
  }
}

// ---------------------------------------------------------------------------------------------------------
// forked execution of unit batches
// ---------------------------------------------------------------------------------------------------------
static std::string esc(const std::string& s) {
  std::string o;
  for (char ch : s) { if (ch == '\n') o += "\\n"; else if (ch == '\\') o += "\\\\"; else o += ch; }
  return o;
}
static std::string unesc(const std::string& s) {
  std::string o;
  for (size_t i = 0; i < s.size(); i++) {
    if (s[i] == '\\' && i + 1 < s.size()) { o += s[i + 1] == 'n' ? '\n' : s[i + 1]; i++; } else o += s[i];
  }
  return o;
}

static void write_ur(FILE* f, long unit, const UR& ur) {
  for (auto& kv : ur.cnt) fprintf(f, "C\x1e%s\x1e%lld\n", kv.first.c_str(), kv.second);
  for (auto& v : ur.viol) fprintf(f, "V\x1e%s\x1e%s\x1e%s\n", esc(v.key).c_str(), esc(v.desc).c_str(), esc(v.replay).c_str());
  for (auto& a : ur.acc) fprintf(f, "A\x1e%s\n", esc(a).c_str());
  for (auto& s : ur.samples) fprintf(f, "S\x1e%s\n", esc(s).c_str());
  for (auto& s : ur.notes) fprintf(f, "N\x1e%s\n", esc(s).c_str());
  for (auto& s : ur.outcomes) fprintf(f, "O\x1e%s\n", esc(s).c_str());
  fprintf(f, "U\x1e%ld\n", unit);
  fflush(f);
}

struct Parent {
  std::set<std::string> acc_seen, notes_seen;
  FILE* acc_file = nullptr;
  std::map<std::string, int> crash_count;
  bool selfcheck_failed = false;
  long long units_done = 0;
};
static Parent g_par;

static void merge_lines(const std::vector<std::string>& lines) {
  vh::Ctx& c = vh::ctx();
  for (auto& l : lines) {
    std::vector<std::string> p = vh::split(l, '\x1e');
    if (p.empty()) continue;
    if (p[0] == "C" && p.size() >= 3) c.counters[p[1]] += atoll(p[2].c_str());
    else if (p[0] == "V" && p.size() >= 4) c.violation(unesc(p[1]), unesc(p[2]), unesc(p[3]));
    else if (p[0] == "A" && p.size() >= 2) {
      std::string a = unesc(p[1]);
      std::vector<std::string> q = vh::split(a, '\x1f');
      std::string k = q.size() >= 3 ? q[0] + "|" + q[1] + "|" + q[2] : a;
      if (g_par.acc_seen.insert(k).second && g_par.acc_file) { fputs(esc(a).c_str(), g_par.acc_file); fputc('\n', g_par.acc_file); c.n("accepted_distinct")++; }
    }
    else if (p[0] == "S" && p.size() >= 2) c.sample(unesc(p[1]), 16);
    else if (p[0] == "N" && p.size() >= 2) { std::string n = unesc(p[1]); if (n.rfind("SELFCHECK", 0) == 0) g_par.selfcheck_failed = true; if (g_par.notes_seen.insert(n).second) c.note(n); }
    else if (p[0] == "O" && p.size() >= 2) c.outcomes.insert(unesc(p[1]));
  }
}

static void child_run(const std::vector<Unit>& batch, size_t from, const std::map<long, std::set<int>>& skips, const std::string& path) {
  FILE* f = fopen(path.c_str(), "wb");
  if (!f) _exit(3);
  if (!freopen((path + ".err").c_str(), "wb", stderr)) _exit(3);
  UR ur;
  for (size_t k = from; k < batch.size(); k++) {
    const Unit& u = batch[k];
    g_sh->unit = long(k); g_sh->call = -1; g_sh->phase = 0;
    { struct itimerval tv; memset(&tv, 0, sizeof tv); tv.it_value.tv_sec = long(u.calls.size() / 1000); tv.it_value.tv_usec = 300000; setitimer(ITIMER_VIRTUAL, &tv, nullptr); }   // watchdog in CPU time: a unit is milliseconds of work; SIGVTALRM ends a hang, the parent attributes it
    ur.clear();
    static const std::set<int> none;
    auto it = skips.find(long(k));
    if (it != skips.end() && it->second.count(-1)) { ur.cnt["units_abandoned_after_crash"]++; write_ur(f, long(k), ur); continue; }
    UnitVerdict uv;
    bool ok = judge_calls(u.cfg, u.calls, it == skips.end() ? none : it->second, uv, ur, false);
    if (!ok) ur.notes.push_back("SELFCHECK environment setup failed for " + u.cfg.str());
    if (uv.bad) ur.violation(uv.key, uv.desc, uv.replay);
    else if ((k % 97) == 0 && !u.calls.empty()) ur.samples.push_back(std::string(u.group) + " :: " + u.cfg.str() + " :: " + desc_call(u.cfg.arch, u.calls[u.calls.size() / 2]) + " (+" + num((long long)u.calls.size() - 1) + " more calls)");
    ur.cnt["units"]++;
    ur.cnt[std::string("units:") + u.group]++;
    write_ur(f, long(k), ur);
  }
  fclose(f);
  _exit(0);
}

static void run_batch(const std::vector<Unit>& batch) {
  vh::Ctx& c = vh::ctx();
  if (batch.empty()) return;
  std::string path = (c.out.empty() ? std::string("/tmp/c14_invalid") : c.out) + ".child" + std::to_string(getpid());
  size_t from = 0;
  std::map<long, std::set<int>> skips;
  int restarts = 0;
  while (from < batch.size()) {
    fflush(stdout); fflush(stderr);
    pid_t pid = fork();
    if (pid < 0) { perror("fork"); exit(2); }
    if (pid == 0) child_run(batch, from, skips, path);
    int st = 0;
    while (waitpid(pid, &st, 0) < 0 && errno == EINTR) {}
    // read what the child completed
    std::vector<std::string> pending, done;
    long last_done = long(from) - 1;
    if (FILE* f = fopen(path.c_str(), "rb")) {
      std::string line; int ch;
      while ((ch = fgetc(f)) != EOF) {
        if (ch != '\n') { line += char(ch); continue; }
        if (line.rfind("U\x1e", 0) == 0) { last_done = atol(line.c_str() + 2); for (auto& p : pending) done.push_back(p); pending.clear(); }
        else pending.push_back(line);
        line.clear();
      }
      fclose(f);
    }
    remove(path.c_str());
    std::string errtxt;
    if (FILE* f = fopen((path + ".err").c_str(), "rb")) { char buf[4096]; size_t n; while ((n = fread(buf, 1, sizeof buf, f)) > 0 && errtxt.size() < 200000) errtxt.append(buf, n); fclose(f); }
    remove((path + ".err").c_str());
    merge_lines(done);
    if (WIFEXITED(st) && WEXITSTATUS(st) == 0) { from = batch.size(); break; }
    if (WIFEXITED(st) && WEXITSTATUS(st) == 3) { fprintf(stderr, "c14: cannot write %s\n", path.c_str()); exit(2); }
    // the child died: attribute
    long ku = g_sh->unit; int kc = g_sh->call, ph = g_sh->phase;
    if (ku < long(from) || ku >= long(batch.size())) ku = last_done + 1;
    if (ku >= long(batch.size())) break;
    const Unit& u = batch[ku];
    bool hang = WIFSIGNALED(st) && WTERMSIG(st) == SIGVTALRM;
    std::string how = hang ? std::string("did not return within the watchdog time (endless loop)") : WIFSIGNALED(st) ? "signal " + num(WTERMSIG(st)) : "exit code " + num(WEXITSTATUS(st));
    {
      // what the sanitizer said (description only; keys stay stable)
      size_t p1 = errtxt.find("runtime error: "), p2 = errtxt.find("ERROR: AddressSanitizer: ");
      size_t pp = p1 != std::string::npos ? p1 : p2;
      if (pp != std::string::npos) how += ": " + errtxt.substr(pp, errtxt.find('\n', pp) - pp).substr(0, 160);
      else if (errtxt.find("terminate called") != std::string::npos) how += ": std::terminate - the exception thrown by the error handler met a noexcept function";
      size_t fr = errtxt.find("/repo/asmjit/", pp == std::string::npos ? 0 : pp);
      { if (fr != std::string::npos) { size_t ls = errtxt.rfind(" in ", fr); size_t le = errtxt.find('\n', fr); if (ls != std::string::npos && ls < fr) how += " at" + errtxt.substr(ls + 3, le - ls - 3).substr(0, 200); } }
      if (c.n("crashes") < 6) fputs(errtxt.substr(0, 3000).c_str(), stderr);
    }
    static const char* phn[] = {"setup", "call", "probe/finalize", "twin run", "assembler cross run", "single-call rerun"};
    if ((ph == 1 || ph == 5) && kc >= 0 && size_t(kc) < u.calls.size()) {
      const Call& cc = u.calls[kc];
      std::string cot = culprit_or_tag(cc);
      std::string key = vkey(u.cfg, cc, "ub-crash", (hang ? "hang:" : "") + cot);
      c.violation(key, "process died (" + how + ") inside the call :: " + u.cfg.str() + " :: " + desc_call(u.cfg.arch, cc), ser_unit(u.cfg, {cc}));
      skips[ku].insert(kc);
      std::string dk = dead_key(u.cfg, cc);
      if (++g_par.crash_count[dk] >= (hang ? 1 : 2)) g_dead.insert(dk);
    } else {
      Call none; none.kind = u.calls.empty() ? 'I' : u.calls[0].kind;
      std::string cot = "-";
      if (!u.calls.empty()) { cot = culprit_or_tag(u.calls[0]); none = u.calls[0]; for (auto& cc : u.calls) if (!cc.must.empty()) { cot = cc.must; none = cc; break; } }
      c.violation(vkey(u.cfg, none, "ub-crash", std::string(hang ? "hang:" : "") + cot), "process died (" + how + ") during " + phn[ph < 0 || ph > 5 ? 0 : ph] + " of a history containing :: " + u.cfg.str() + " :: " + (u.calls.empty() ? "" : desc_call(u.cfg.arch, none)), ser_unit(u.cfg, u.calls));
      skips[ku].insert(-1);
      if (!u.calls.empty()) {
        const Call* cul = &u.calls[0];
        for (auto& cc : u.calls) if (!cc.must.empty()) { cul = &cc; break; }
        std::string dk = dead_key(u.cfg, *cul); if (++g_par.crash_count[dk] >= (hang ? 1 : 2)) g_dead.insert(dk);
      }
    }
    c.n("crashes")++;
    from = size_t(ku);
    if (++restarts > 4000) { c.note("too many crashes in one batch; rest of the batch not explored"); c.exhaustive = false; break; }
  }
}

int main(int argc, char** argv) {
  vh::parse_args(argc, argv);
  vh::Ctx& c = vh::ctx();
  g_sh = (Shared*)mmap(nullptr, 4096, PROT_READ | PROT_WRITE, MAP_SHARED | MAP_ANONYMOUS, -1, 0);
  if (g_sh == MAP_FAILED) { perror("mmap"); return 2; }
  if (!c.out.empty()) g_par.acc_file = fopen((c.out + ".acc").c_str(), "wb");

  if (c.replaying()) {
    Unit u;
    if (!parse_unit(c.replay_text, u)) { fprintf(stderr, "c14: cannot parse replay file\n"); return 2; }
    // the replay text carries no must-reject reasons for x86 calls that were generated without one: keep as written
    std::vector<Unit> b{u};
    run_batch(b);
    if (g_par.acc_file) fclose(g_par.acc_file);
    return vh::finish();
  }

  bool thorough = c.thorough();
  std::string only = c.opt("only", "");
  std::vector<Unit> batch;
  size_t batch_calls = 0;
  bool stop = false;
  Gen g;
  g.sink = [&](Unit& u) {
    if (stop) return;
    batch_calls += u.calls.size();
    batch.push_back(std::move(u));
    if (batch.size() >= 1500 || batch_calls >= 150000) {
      run_batch(batch); batch.clear(); batch_calls = 0;
      if (c.out_of_time()) stop = true;
    }
  };
  if (only.empty() || only == "misc") gen_misc(g, thorough);
  if (only.empty() || only == "a64") gen_a64(g, thorough);
  if (only.empty() || only == "x86") gen_x86(g, thorough);
  if (only.empty() || only == "abs") gen_abs(g, thorough);
  if (!stop) run_batch(batch);
  if (g_par.acc_file) fclose(g_par.acc_file);

  if (c.shard_i == 0) c.n("enumeration_slots") = g.idx;
  c.n("distinct_nontrivial") = c.n("failed_calls_checked") + c.n("accepted_distinct");
  c.n("states") = c.n("units");
  c.n("transitions") = c.n("evaluations");
  c.strs["bound"] = thorough ? "x86: W x W for every instruction id, W x W x {w,imm} for 1 id per encoding class, options/extra-reg/3..6 operands for 3 ids per class, all ids x 3 handlers; a64: <=2 perturbed fields; misc: all pairs"
                             : "x86: all ids x 1-operand W, 2-3 operand patterns for every 4th id, a rotating quarter of W x W for 1 id per encoding class, a rotating 1/3..1/6 of the Builder/Compiler units; a64: <=1 perturbed field; misc: valid,X,valid for every X and every valid predecessor (successor rotating) + 1/18 of the pairs";
  c.strs["rule"] = "units = short call histories on a fresh real emitter, arch{x86-32,x64,a64} x {Assembler,Builder,Compiler} x handler{none,recording,throwing}. "
                   "x86 (strict validation): every inst id (0..count+1,0xFFFF,0xFFFFFFFF,0x80000001) x every 1-operand tuple over the weird-operand alphabet W (registers of every type x boundary ids incl. virtual, "
                   "memory with every base/index type, labels valid/unbound/invalid, segments, shifts, broadcasts, extreme/absolute offsets, sizes, immediates), diagonal and (valid,w)/(w,valid) 2-3 operand tuples for all ids, "
                   "W x W and 3..6-operand patterns for a representative of every encoding class, every single option bit and every extra register. "
                   "AArch64: instruction templates with operand kinds kept and every field (register ids, element type/index, shift op/amount, extend, offsets, immediates, label ids, inst id/cond) replaced by the field's weird alphabet. "
                   "Both: bind/align/embed/embed_data_array/embed_label/embed_label_delta/section/new_named_label with valid and invalid arguments inside valid,X,valid histories. "
                   "Oracle per failing call: handler exactly once with the returned code and the emitter as origin, sections/labels/fixups/relocations/nodes unchanged, one-shot state cleared; per unit: identical final image "
                   "(probe program appended) as a fresh emitter given only the accepted calls; unrepresentable components must not be accepted; Builder/Compiler output == Assembler output; ASan/UBSan silent.";
  c.assumptions.push_back("finite value alphabets: ids/offsets/immediates outside the listed boundary values are not explored; x86 W x W only for one (thorough: three) instruction(s) per encoding class");
  c.assumptions.push_back("after 2 crashes caused by the same unrepresentable component (per arch, emitter and - for the Assembler - handler kind) in a shard, further calls naming that component are skipped (counter skipped_after_repeated_crash)");
  if (g_par.selfcheck_failed) { vh::finish(); fprintf(stderr, "c14: harness self-check failed (see notes)\n"); return 2; }
  return vh::finish();
}
