// C18 - arena allocator, arena-backed containers and asmjit::String against textbook data types.
//
// One TU, several "parts" (selected with --part NAME, default all):
//   arena, arenasizes, vector, hash, tree, treeperm, list, bitset, bitprims, pool, string, arenastring, mix
// BFS parts run xplor::bfs_histories on fresh real objects; the reference models are std:: containers and the
// structural invariants are evaluated after EVERY operation.  The shared-arena invariant ("partition"): live
// container storage, free-list entries (with their slot size), pooled chunks and the unallocated tail of the
// arena are pairwise disjoint and lie inside blocks the arena owns.
#include "xplor.h"
#include <asmjit/core.h>
#include <asmjit/support/arena.h>
#include <asmjit/support/arenavector.h>
#include <asmjit/support/arenahash.h>
#include <asmjit/support/arenatree.h>
#include <asmjit/support/arenalist.h>
#include <asmjit/support/arenapool.h>
#include <asmjit/support/arenastring.h>
#include <asmjit/support/arenabitset_p.h>
#include <asmjit/core/string.h>
#include <algorithm>
#include <list>
#include <memory>
#include <unistd.h>

#if defined(__has_feature)
# if __has_feature(address_sanitizer)
#  define C18_ASAN 1
# endif
#endif
#ifdef C18_ASAN
# include <sanitizer/asan_interface.h>
# include <sanitizer/common_interface_defs.h>
static inline bool poisoned(const void* p) { return __asan_address_is_poisoned(p) != 0; }
#else
static inline bool poisoned(const void*) { return false; }
#endif

using namespace asmjit;

// c18_arenastring.cpp includes this file with C18_ARENASTRING_WIDE and is compiled with -fno-sanitize=bounds: ArenaString<N>
// addresses its embedded buffer through the 12-byte array member of a union whose other member spans N bytes (a deliberate
// layout idiom that UBSan's array-bounds check rejects for N > 16); only that part is run from the second binary.
#ifdef C18_ARENASTRING_WIDE
# define C18_HARNESS_NAME "c18_arenastring"
#else
# define C18_HARNESS_NAME "c18_containers"
#endif

// ------------------------------------------------------------------------------------------------------------
// plumbing
// ------------------------------------------------------------------------------------------------------------
static std::string g_why, g_clause, g_opkind;
static const char* g_part = "";
static std::string g_cfg;
static int g_hist[256];
static int g_hist_n = 0;

#define FAIL(clause, ...) do { char _b[600]; snprintf(_b, sizeof _b, __VA_ARGS__); g_why = _b; g_clause = clause; return false; } while (0)

static inline void hist_reset() { g_hist_n = 0; }
static inline void hist_push(int op) { if (g_hist_n < 256) g_hist[g_hist_n++] = op; }

static std::string opkind_of(const std::string& name) { return name.substr(0, name.find('(')); }

// clauses that start with '@' describe a lookup/structure that is wrong independently of the operation that led to the state
static std::string make_key(const std::string& part, const std::string& opkind) {
  if (!g_clause.empty() && g_clause[0] == '@') return part + ":" + g_clause.substr(1);
  return part + ":" + opkind + ":" + g_clause;
}

static std::string ops_str(const std::vector<int>& h) {
  std::string s;
  for (size_t i = 0; i < h.size(); i++) { if (i) s += ","; s += std::to_string(h[i]); }
  return s;
}

static void on_death() {
  static bool once = false;
  if (once) return;
  once = true;
  alarm(20);
  fprintf(stderr, "\nC18-CURRENT part=%s cfg=%s ops=", g_part, g_cfg.c_str());
  for (int i = 0; i < g_hist_n; i++) fprintf(stderr, "%s%d", i ? "," : "", g_hist[i]);
  fprintf(stderr, "\n");
  vh::Ctx& c = vh::ctx();
  c.exhaustive = false;
  c.note(std::string("process died while executing part ") + g_part + " cfg " + g_cfg + "; partial results written");
  vh::finish();
}

static std::string g_bounds;   // accumulated "bound" text of this process

template<class Sys, class Cfg>
static void run_bfs(const char* part, const Cfg& cfg, const std::string& cfgname, int depth) {
  vh::Ctx& c = vh::ctx();
  g_part = part; g_cfg = cfgname;
  auto onv = [&](const std::vector<int>& h, const std::string& names, const std::string& why) {
    std::string key = make_key(part, g_opkind);
    c.violation(key, why + " [cfg " + cfgname + "] after history " + names,
                "harness=" C18_HARNESS_NAME "\npart=" + std::string(part) + "\ncfg=" + cfgname + "\nops=" + ops_str(h) + "\n# " + names + "\n");
  };
  xplor::BfsStats st = xplor::bfs_histories<Sys, Cfg>(cfg, depth, std::string(part) + "/" + cfgname, onv, -1, c.shard_i, c.shard_n);
  c.n("states") += st.states;
  c.n("transitions") += st.transitions;
  c.n("traces") += st.transitions;
  c.n("evaluations") += st.transitions;
  c.n("distinct_nontrivial") += st.states;
  c.n("replays") += st.replays;
  c.n("merged_transitions") += st.pruned;
  c.n((std::string("states_") + part).c_str()) += st.states;
  c.n((std::string("transitions_") + part).c_str()) += st.transitions;
  g_bounds += std::string(part) + "/" + cfgname + ":depth<=" + std::to_string(depth) + "(completed " + std::to_string(st.depth_completed) +
              ", deepest new state " + std::to_string(st.max_depth) + ") ";
}

template<class Sys, class Cfg>
static void replay_bfs(const Cfg& cfg, const std::vector<int>& h, const char* part, const std::string& cfgname) {
  vh::Ctx& c = vh::ctx();
  g_part = part; g_cfg = cfgname;
  Sys s(cfg);
  std::string why, names;
  for (size_t i = 0; i < h.size(); i++) {
    if (h[i] < 0 || h[i] >= s.num_ops()) { fprintf(stderr, "replay: op %d out of range\n", h[i]); exit(2); }
    names += s.op_name(h[i]) + ";";
    if (!s.apply(h[i], why)) {
      c.violation(make_key(part, g_opkind), why + " [cfg " + cfgname + "] after history " + names, c.replay_text);
      break;
    }
  }
}

static void sweep_violation(const char* part, const std::string& opkind, const std::string& casetext) {
  vh::ctx().violation(make_key(part, opkind), g_why + " :: " + casetext,
                      "harness=" C18_HARNESS_NAME "\npart=" + std::string(part) + "\ncase=" + casetext + "\n");
}

// A violation that leaves the object in a usable state (a wrong lookup result; contents that can be adopted by the model) is
// recorded with the current history and exploration continues, so that one defect does not hide the states behind it.
static void soft_violation(const std::string& names) {
  std::vector<int> h(g_hist, g_hist + g_hist_n);
  vh::ctx().violation(make_key(g_part, g_opkind), g_why + " [cfg " + g_cfg + "] after history " + names,
                      "harness=" C18_HARNESS_NAME "\npart=" + std::string(g_part) + "\ncfg=" + g_cfg + "\nops=" + ops_str(h) + "\n# " + names + "\n");
}
template<class Sys> static std::string hist_names(const Sys& s) {
  std::string n;
  for (int i = 0; i < g_hist_n; i++) { if (i) n += ";"; n += s.op_name(g_hist[i]); }
  return n;
}

// ------------------------------------------------------------------------------------------------------------
// arena structure view, partition invariant, canonical form
// ------------------------------------------------------------------------------------------------------------
struct Live { const uint8_t* p; size_t n; bool reusable; const char* what; };

struct AV {
  std::vector<Arena::ManagedBlock*> blocks;
  int cur = -1;
  std::vector<Arena::DynamicBlock*> dyn;
  struct Fr { const uint8_t* p; size_t n; int slot; };
  std::vector<Fr> frees;
};

static int block_of(const AV& v, const uint8_t* p, size_t n) {
  for (size_t i = 0; i < v.blocks.size(); i++) {
    const uint8_t* d = v.blocks[i]->data();
    const uint8_t* e = v.blocks[i]->end();
    if (p >= d && p <= e && n <= size_t(e - p)) return int(i);
  }
  return -1;
}

static bool arena_view(Arena& a, AV& v) {
  v = AV();
  int guard = 0;
  for (Arena::ManagedBlock* b = a._first_block; b; b = b->next) {
    if (poisoned(b)) FAIL("@arena-block-list-dangling", "the managed block list links to freed memory at position %zu", v.blocks.size());
    if (++guard > 4096) FAIL("@arena-block-list-cycle", "the managed block list does not terminate");
    if (b == a._current_block) v.cur = int(v.blocks.size());
    v.blocks.push_back(b);
  }
  if (v.cur < 0) FAIL("@arena-current-block", "the current block is not a member of the block list");
  Arena::ManagedBlock* cb = v.blocks[v.cur];
  if (a._ptr < cb->data() || a._ptr > a._end || a._end > cb->end()) FAIL("@arena-cursor", "the allocation cursor is outside the current block");
  guard = 0;
  Arena::DynamicBlock* prev = nullptr;
  for (Arena::DynamicBlock* d = a._dynamic_blocks; d; d = d->next) {
    if (poisoned(d)) FAIL("@arena-dynamic-list-dangling", "the dynamic block list links to freed memory at position %zu", v.dyn.size());
    if (++guard > 100000) FAIL("@arena-dynamic-list-cycle", "the dynamic block list does not terminate");
    if (d->prev != prev) FAIL("@arena-dynamic-list-links", "dynamic block list prev/next links are not symmetric at position %zu", v.dyn.size());
    v.dyn.push_back(d);
    prev = d;
  }
  for (int i = 0; i < int(Arena::kReusableSlotCount); i++) {
    size_t sz = Arena::kMinReusableSlotSize << i;
    guard = 0;
    for (Arena::ReusableSlot* s = a._reusable_slots[i]; s; s = s->next) {
      const uint8_t* p = reinterpret_cast<const uint8_t*>(s);
      if (block_of(v, p, sz) < 0) FAIL("@arena-free-entry-outside", "free-list entry of the %zu-byte slot is not inside a block the arena owns", sz);
      if (++guard > 1000000) FAIL("@arena-free-list-cycle", "free list of the %zu-byte slot does not terminate", sz);
      v.frees.push_back(AV::Fr{p, sz, i});
    }
  }
  return true;
}

// lives: storage currently owned by clients; extra_free: chunks pooled by ArenaPool (free but not known to the arena)
static bool arena_partition(Arena& a, const AV& v, const std::vector<Live>& lives, const std::vector<Live>* extra_free = nullptr) {
  struct R { const uint8_t* p; size_t n; const char* what; bool live; };
  std::vector<R> rs;
  rs.reserve(v.frees.size() + lives.size() + v.blocks.size() + (extra_free ? extra_free->size() : 0) + 2);
  for (auto& f : v.frees) rs.push_back(R{f.p, f.n, "a free-list entry", false});
  if (a._end > a._ptr) rs.push_back(R{a._ptr, size_t(a._end - a._ptr), "the unallocated tail of the current block", false});
  for (size_t i = size_t(v.cur) + 1; i < v.blocks.size(); i++)
    if (v.blocks[i]->size) rs.push_back(R{v.blocks[i]->data(), v.blocks[i]->size, "an unused block behind the current one", false});
  if (extra_free) for (auto& l : *extra_free) {
    if (block_of(v, l.p, l.n) < 0) FAIL("pool-entry-outside", "%s is not inside a block the arena owns", l.what);
    rs.push_back(R{l.p, l.n, l.what, false});
  }
  for (auto& l : lives) {
    if (!l.n) continue;
    if (!l.p) FAIL("null-storage", "%s has null storage", l.what);
    if (uintptr_t(l.p) % Arena::kAlignment) FAIL("alignment", "%s at offset %% %zu = %zu is not aligned", l.what, size_t(Arena::kAlignment), size_t(uintptr_t(l.p) % Arena::kAlignment));
    if (l.reusable && l.n > Arena::kMaxReusableSlotSize) {
      Arena::DynamicBlock* hdr = reinterpret_cast<Arena::DynamicBlock* const*>(l.p)[-1];
      if (std::find(v.dyn.begin(), v.dyn.end(), hdr) == v.dyn.end()) FAIL("not-owned", "%s (%zu bytes) is not a dynamic block owned by the arena", l.what, l.n);
      continue;   // separate malloc block: bounds are ASan's business
    }
    int b = block_of(v, l.p, l.n);
    if (b < 0) FAIL("not-owned", "%s (%zu bytes) is not inside a block the arena owns", l.what, l.n);
    rs.push_back(R{l.p, l.n, l.what, true});
  }
  std::sort(rs.begin(), rs.end(), [](const R& x, const R& y) { return x.p < y.p; });
  for (size_t i = 1; i < rs.size(); i++) {
    if (rs[i - 1].p + rs[i - 1].n > rs[i].p) {
      const R& x = rs[i - 1]; const R& y = rs[i];
      const char* cl = (x.live && y.live) ? "live-overlap" : (x.live || y.live) ? "live-overlaps-free" : "free-overlap";
      FAIL(cl, "%s (%zu bytes) overlaps %s (%zu bytes) by %zu bytes", x.what, x.n, y.what, y.n, size_t(x.p + x.n - y.p));
    }
  }
  return true;
}

static inline void app_num(std::string& s, size_t v) {
  char b[24]; int n = 0;
  do { b[n++] = char('0' + v % 10); v /= 10; } while (v);
  while (n) s += b[--n];
}

static void app_loc(std::string& s, const AV& v, const void* q) {
  const uint8_t* p = static_cast<const uint8_t*>(q);
  if (!p) { s += "null"; return; }
  for (size_t i = 0; i < v.blocks.size(); i++)
    if (p >= v.blocks[i]->data() && p < v.blocks[i]->end()) { app_num(s, i); s += ':'; app_num(s, size_t(p - v.blocks[i]->data())); return; }
  s += "dyn";
}

static std::string loc(const AV& v, const void* q) { std::string s; app_loc(s, v, q); return s; }

static std::string arena_canon(Arena& a, const AV& v) {
  std::string s;
  s.reserve(256);
  s += "A{";
  for (auto* b : v.blocks) { app_num(s, b->size); s += ','; }
  s += 'c'; app_num(s, size_t(v.cur));
  s += 'p'; app_num(s, size_t(a._ptr - v.blocks[v.cur]->data()));
  s += 'e'; app_num(s, size_t(a._end - v.blocks[v.cur]->data()));
  s += 's'; app_num(s, size_t(a._current_block_size_shift));
  s += 'D'; app_num(s, v.dyn.size());
  int slot = -1;
  for (auto& f : v.frees) { if (f.slot != slot) { s += '|'; app_num(s, size_t(f.slot)); s += ':'; slot = f.slot; } app_loc(s, v, f.p); s += ','; }
  s += '}';
  return s;
}

static inline bool all_eq(const uint8_t* p, size_t n, uint8_t pat) { return n == 0 || (p[0] == pat && memcmp(p, p + 1, n - 1) == 0); }

// keep sanitizer bookkeeping cheap: millions of tiny systems are built and torn down
extern "C" const char* __asan_default_options() { return "malloc_context_size=12:quarantine_size_mb=64"; }

// The arena of a system under test.  After a violation the arena may be structurally broken (e.g. a dangling block
// link): its destructor is then skipped so that the report is the violation and not a crash inside ~Arena().
struct ArenaBox {
  alignas(16) uint8_t stat[1024];
  alignas(Arena) unsigned char raw[sizeof(Arena)];
  bool broken = false;
  Arena* a;
  explicit ArenaBox(size_t st) { if (st) memset(stat, 0xA5, st); a = new (static_cast<void*>(raw)) Arena(1024, Span<uint8_t>(stat, st)); }
  ~ArenaBox() { if (!broken) a->~Arena(); }
};

// ------------------------------------------------------------------------------------------------------------
// part "arena": alloc_oneshot / alloc_reusable / zeroed / dup / free_reusable / reset
// ------------------------------------------------------------------------------------------------------------
enum AK { A_R, A_RZ, A_O, A_OZ, A_DUP, A_FREE_REQ, A_FREE_ALLOC, A_RESET_SOFT, A_RESET_HARD };
struct AOp { AK k; size_t arg; };
struct ArenaCfg { size_t stat; const std::vector<AOp>* ops; };

static std::string aop_name(const AOp& o) {
  static const char* n[] = {"alloc_reusable", "alloc_reusable_zeroed", "alloc_oneshot", "alloc_oneshot_zeroed", "dup", "free_reusable_reqsize", "free_reusable_allocsize", "reset_soft", "reset_hard"};
  return std::string(n[o.k]) + "(" + std::to_string(o.arg) + ")";
}

static bool g_noted_leak = false;

struct ArenaSys {
  ArenaBox box;
  const std::vector<AOp>& ops;
  Arena& arena;
  struct Blk { uint8_t* p; size_t req, alloc; bool reusable; uint8_t pat; };
  std::vector<Blk> live;
  unsigned counter = 0;

  ArenaSys(const ArenaCfg& c) : box(c.stat), ops(*c.ops), arena(*box.a) { hist_reset(); }
  int num_ops() const { return int(ops.size()); }
  std::string op_name(int op) const { return aop_name(ops[op]); }

  bool record(void* vp, size_t req, size_t alloc, bool reusable, bool zeroed) {
    uint8_t* p = static_cast<uint8_t*>(vp);
    if (!p) FAIL("null", "returned null for %zu bytes without memory pressure", req);
    if (uintptr_t(p) % Arena::kAlignment) FAIL("alignment", "block of %zu bytes is not %zu-byte aligned (address %% 8 = %zu)", req, size_t(Arena::kAlignment), size_t(uintptr_t(p) % 8));
    if (alloc < req) FAIL("allocated-size", "allocated_size %zu is smaller than the requested %zu", alloc, req);
    if (zeroed && !all_eq(p, req, 0)) FAIL("not-zeroed", "a zeroed %zu-byte block contains non-zero bytes", req);
    uint8_t pat = uint8_t(1 + (counter++ % 250));
    memset(p, pat, alloc);      // ASan is the oracle for blocks that are separate malloc blocks
    live.push_back(Blk{p, req, alloc, reusable, pat});
    return true;
  }

  bool check() {
    AV v;
    if (!arena_view(arena, v)) return false;
    std::vector<Live> ls;
    for (auto& b : live) ls.push_back(Live{b.p, b.alloc, b.reusable, b.reusable ? "a live reusable block" : "a live oneshot block"});
    if (!arena_partition(arena, v, ls)) return false;
    for (size_t k = 0; k < live.size(); k++) {
      auto& b = live[k];
      if (!all_eq(b.p, b.alloc, b.pat)) FAIL("live-block-corrupted", "live block #%zu (%zu bytes) was overwritten", k, b.alloc);
    }
    return true;
  }

  bool apply(int op, std::string& why) {
    hist_push(op);
    const AOp& o = ops[op];
    g_opkind = opkind_of(aop_name(o));
    bool ok = step(o) && check();
    if (!ok) { why = g_why; box.broken = true; }
    return ok;
  }

  bool step(const AOp& o) {
    switch (o.k) {
      case A_R: case A_RZ: {
        size_t al = 0;
        void* p = o.k == A_R ? arena.alloc_reusable(o.arg, Out(al)) : arena.alloc_reusable_zeroed(o.arg, Out(al));
        return record(p, o.arg, al, true, o.k == A_RZ);
      }
      case A_O: return record(arena.alloc_oneshot(o.arg), o.arg, o.arg, false, false);
      case A_OZ: return record(arena.alloc_oneshot_zeroed(o.arg), o.arg, o.arg, false, true);
      case A_DUP: {
        static const char D[] = "0123456789abcdefghijklmnopqrstuvwxyz0123456789abcdefghijklmnopqrstuvwxyz";
        size_t n = o.arg;
        char* p = static_cast<char*>(arena.dup(D, n, true));
        if (p) { if (memcmp(p, D, n) != 0) FAIL("content", "dup() copy differs from the source"); if (p[n] != 0) FAIL("nul", "dup(null_terminate) result is not NUL terminated"); }
        return record(p, n + 1, n + 1, false, false);
      }
      case A_FREE_REQ: case A_FREE_ALLOC: {
        std::vector<size_t> idx;
        for (size_t i = 0; i < live.size(); i++) if (live[i].reusable) idx.push_back(i);
        if (idx.empty()) return true;
        size_t i = o.arg == 0 ? idx.front() : idx.back();
        Blk b = live[i];
        arena.free_reusable(b.p, o.k == A_FREE_REQ ? b.req : b.alloc);
        live.erase(live.begin() + i);
        return true;
      }
      case A_RESET_SOFT: case A_RESET_HARD:
        arena.reset(o.k == A_RESET_SOFT ? ResetPolicy::kSoft : ResetPolicy::kHard);
        live.clear();
        if (arena._dynamic_blocks && !g_noted_leak) { g_noted_leak = true; vh::ctx().note("Arena::reset(kHard) on an arena that owns dynamic (>2048 byte) blocks but no managed block returns early and keeps the dynamic blocks (leak; not part of C18's statement)"); }
        return true;
    }
    return true;
  }

  std::string canon() {
    AV v;
    if (!arena_view(arena, v)) return "BROKEN:" + g_clause;
    std::string s = arena_canon(arena, v);
    s += 'L';
    for (auto& b : live) { app_loc(s, v, b.p); s += '/'; app_num(s, b.req); s += '/'; app_num(s, b.alloc); s += b.reusable ? "r," : "o,"; }
    return s;
  }
};

static std::vector<AOp> arena_alphabet(bool wide) {
  std::vector<AOp> o;
  for (size_t s : {size_t(1), size_t(16), size_t(17), size_t(32), size_t(100), size_t(2048), size_t(2049), size_t(5000)}) o.push_back(AOp{A_R, s});
  o.push_back(AOp{A_RZ, 33});
  for (size_t s : {size_t(8), size_t(24), size_t(1000), size_t(2040), size_t(5000)}) o.push_back(AOp{A_O, s});
  o.push_back(AOp{A_OZ, 40});
  o.push_back(AOp{A_DUP, 13});
  o.push_back(AOp{A_FREE_REQ, 0}); o.push_back(AOp{A_FREE_REQ, 1});
  o.push_back(AOp{A_FREE_ALLOC, 0}); o.push_back(AOp{A_FREE_ALLOC, 1});
  o.push_back(AOp{A_RESET_SOFT, 0}); o.push_back(AOp{A_RESET_HARD, 0});
  if (wide) {
    for (size_t s : {size_t(15), size_t(31), size_t(33), size_t(64), size_t(65), size_t(1024), size_t(1025), size_t(2047), size_t(4000)}) o.push_back(AOp{A_R, s});
    for (size_t s : {size_t(16), size_t(4048), size_t(1992)}) o.push_back(AOp{A_O, s});
    o.push_back(AOp{A_RZ, 2049}); o.push_back(AOp{A_DUP, 71});
  }
  return o;
}

static std::vector<AOp> g_arena_ops_narrow = arena_alphabet(false), g_arena_ops_wide = arena_alphabet(true);

static ArenaCfg arena_cfg_from(const std::string& name) {
  // name: <narrow|wide>-<static bytes>
  ArenaCfg c;
  c.ops = name.rfind("wide", 0) == 0 ? &g_arena_ops_wide : &g_arena_ops_narrow;
  c.stat = size_t(atol(name.substr(name.find('-') + 1).c_str()));
  return c;
}

// "arenasizes": every request size 1..4200 through one fixed script (alloc, alloc, oneshot, free, alloc, neighbours, free...)
static std::vector<AOp> sizes_script(size_t s, int variant) {
  // variant 2: the one-shot entry points with every size, as the first request of a block and as a request that needs a new block
  // (sizes next to the managed block sizes decide between a regular and a custom-sized block)
  if (variant == 2)
    return {AOp{A_O, s}, AOp{A_O, 8}, AOp{A_O, s}, AOp{A_OZ, s}, AOp{A_R, 24}, AOp{A_O, s > 8 ? s - 8 : 8}, AOp{A_O, s + 8}, AOp{A_RESET_SOFT, 0}, AOp{A_O, 40}, AOp{A_O, s}, AOp{A_OZ, s + 8},
            AOp{A_RESET_HARD, 0}, AOp{A_OZ, s}, AOp{A_O, s}};
  AK fr = variant ? A_FREE_ALLOC : A_FREE_REQ;
  return {AOp{A_R, s}, AOp{A_R, s}, AOp{A_O, 8}, AOp{fr, 0}, AOp{A_R, s}, AOp{A_R, s + 1}, AOp{A_R, s > 1 ? s - 1 : 1}, AOp{fr, 0}, AOp{fr, 1},
          AOp{A_RZ, s}, AOp{A_R, s}, AOp{fr, 1}, AOp{fr, 0}, AOp{A_R, s}, AOp{A_RESET_SOFT, 0}, AOp{A_R, s}, AOp{A_RZ, s}, AOp{fr, 0}, AOp{A_R, s}};
}

static bool run_sizes_case(size_t s, int variant, size_t stat, std::string& opk) {
  std::vector<AOp> sc = sizes_script(s, variant);
  ArenaCfg cfg{stat, &sc};
  ArenaSys sys(cfg);
  std::string why;
  for (int i = 0; i < int(sc.size()); i++) {
    vh::ctx().n("transitions")++;
    if (!sys.apply(i, why)) { opk = g_opkind + "@step" + std::to_string(i); return false; }
  }
  return true;
}

static void part_arenasizes() {
  vh::Ctx& c = vh::ctx();
  g_part = "arenasizes";
  size_t maxs = c.thorough() ? 9000 : 4200;
  long long idx = 0;
  for (size_t s = 1; s <= maxs; s++) for (int variant = 0; variant < 3; variant++) for (size_t stat : {size_t(0), size_t(256)}) {
    if (variant == 2 && (s % Arena::kAlignment)) continue;   // the one-shot API requires sizes aligned to Arena::kAlignment
    if (!c.mine(idx++)) continue;
    if (c.out_of_time()) return;
    std::string text = "size=" + std::to_string(s) + " variant=" + std::to_string(variant) + " static=" + std::to_string(stat);
    g_cfg = text;
    std::string opk;
    c.n("evaluations")++; c.n("distinct_nontrivial")++; c.n("traces")++; c.n("states")++;
    if (!run_sizes_case(s, variant, stat, opk)) sweep_violation("arenasizes", opk, text);
    else if (s % 997 == 0) c.sample("arenasizes: " + text, 16);
  }
  g_bounds += "arenasizes:request sizes 1.." + std::to_string(maxs) + " x {reusable script freeing with requested size, with allocated size, one-shot script} x {heap arena, 256-byte static arena} ";
}

// ------------------------------------------------------------------------------------------------------------
// part "vector": ArenaVector<T> v, w on one arena; model std::vector<T>
// ------------------------------------------------------------------------------------------------------------
struct T12 {
  uint32_t a, b, c;
  bool operator==(const T12& o) const { return a == o.a && b == o.b && c == o.c; }
  bool operator!=(const T12& o) const { return !(*this == o); }
  bool operator<(const T12& o) const { return a < o.a; }
  bool operator>(const T12& o) const { return a > o.a; }
};
template<class T> static T mkval(int x) { return T(x); }
template<> T12 mkval<T12>(int x) { return x ? T12{uint32_t(x), uint32_t(x * 3 + 1), ~uint32_t(x)} : T12{0, 0, 0}; }   // 0 = the all-zero item resize() creates

enum VK { V_APPEND, V_PREPEND, V_INSERT, V_REMOVE, V_POP, V_RESIZE_FIT, V_RESIZE_GROW, V_RESERVE_FIT, V_RESERVE_GROW, V_RESERVE_ADD, V_TRUNC, V_CLEAR, V_RELEASE, V_SWAP, V_CONCAT, V_MOVE, V_BAD,
          V_UNCHECKED, V_SORT, V_ASSIGN_UNCHECKED };
struct VOp { VK k; int a; const char* name; };
static const VOp kVecOps[] = {
  {V_APPEND, 1, "append(1)"}, {V_APPEND, 2, "append(2)"}, {V_PREPEND, 1, "prepend(1)"},
  {V_INSERT, 0, "insert(0,2)"}, {V_INSERT, 1, "insert(mid,2)"}, {V_INSERT, 2, "insert(size,2)"},
  {V_REMOVE, 0, "remove_at(0)"}, {V_REMOVE, 1, "remove_at(mid)"}, {V_REMOVE, 2, "remove_at(last)"},
  {V_POP, 0, "pop()"},
  {V_RESIZE_FIT, 0, "resize_fit(0)"}, {V_RESIZE_FIT, 1, "resize_fit(1)"}, {V_RESIZE_FIT, 2, "resize_fit(cap)"}, {V_RESIZE_FIT, 3, "resize_fit(cap+1)"},
  {V_RESIZE_GROW, 0, "resize_grow(size+1)"}, {V_RESIZE_GROW, 1, "resize_grow(cap+1)"},
  {V_RESERVE_FIT, 0, "reserve_fit(cap+1)"}, {V_RESERVE_GROW, 0, "reserve_grow(cap+1)"}, {V_RESERVE_ADD, 0, "reserve_additional(cap-size+1)"},
  {V_TRUNC, 0, "truncate(0)"}, {V_TRUNC, 1, "truncate(1)"}, {V_TRUNC, 2, "truncate(size+1)"},
  {V_CLEAR, 0, "clear()"}, {V_RELEASE, 0, "release()"}, {V_SWAP, 0, "swap(w)"}, {V_CONCAT, 0, "concat(w)"}, {V_MOVE, 0, "move_construct()"},
  {V_BAD, 0, "reserve_fit(SIZE_MAX)"}, {V_BAD, 1, "reserve_grow(0xFFFFFFFF)"}, {V_BAD, 2, "resize_fit(SIZE_MAX)"}, {V_BAD, 3, "resize_grow(2^32)"}, {V_BAD, 4, "reserve_additional(SIZE_MAX)"},
  // extended alphabet (configurations "x"): unchecked variants (legal only with spare capacity), sort, assign_unchecked
  {V_UNCHECKED, 0, "append_unchecked(3)"}, {V_UNCHECKED, 1, "prepend_unchecked(3)"}, {V_UNCHECKED, 2, "insert_unchecked(mid,3)"}, {V_UNCHECKED, 3, "concat_unchecked(w)"},
  {V_SORT, 0, "sort()"}, {V_SORT, 1, "sort(descending)"}, {V_ASSIGN_UNCHECKED, 0, "assign_unchecked(w)"},
};
static const int kNumVecOps = int(sizeof(kVecOps) / sizeof(kVecOps[0]));
static const int kNumVecCoreOps = 32;

struct VecCfg { size_t stat; bool extended; };

template<class T>
static bool check_vec(ArenaVector<T>& v, const std::vector<T>& m, const char* nm, bool lookups = true) {
  if (v.size() != m.size()) FAIL("size", "%s.size() is %zu, the model holds %zu elements", nm, v.size(), m.size());
  if (v.is_empty() != m.empty()) FAIL("is_empty", "%s.is_empty() disagrees with size %zu", nm, m.size());
  if (v.capacity() < v.size()) FAIL("capacity", "%s.capacity() %zu < size() %zu", nm, v.capacity(), v.size());
  if (v.capacity() && !v.data()) FAIL("data-null", "%s has capacity %zu but null data", nm, v.capacity());
  const T* d = v.data();
  for (size_t i = 0; i < m.size(); i++) {
    if (memcmp(&d[i], &m[i], sizeof(T)) != 0) FAIL("content", "%s[%zu] differs from the model (size %zu)", nm, i, m.size());
    if (memcmp(&v[i], &m[i], sizeof(T)) != 0 || memcmp(&v.at(i), &m[i], sizeof(T)) != 0) FAIL("index", "%s operator[]/at(%zu) differs from the model", nm, i);
  }
  if (v.begin() != d || v.end() != d + m.size() || v.cbegin() != d || v.cend() != d + m.size()) FAIL("begin-end", "%s begin()/end() do not delimit data()..data()+size()", nm);
  Span<T> sp = v.as_span();
  if (sp.data() != d || sp.size() != m.size()) FAIL("as_span", "%s.as_span() does not describe data()/size()", nm);
  {
    size_t i = 0;
    for (T& x : v.iterate()) { if (i >= m.size() || memcmp(&x, &m[i], sizeof(T)) != 0) FAIL("@iterate", "%s.iterate() element %zu differs from the model", nm, i); i++; }
    if (i != m.size()) FAIL("@iterate", "%s.iterate() produced %zu of %zu elements", nm, i, m.size());
    i = m.size();
    for (T& x : v.iterate_reverse()) { if (i == 0 || memcmp(&x, &m[i - 1], sizeof(T)) != 0) FAIL("@iterate_reverse", "%s.iterate_reverse() differs from the reversed model near index %zu", nm, i); i--; }
    if (i != 0) FAIL("@iterate_reverse", "%s.iterate_reverse() stopped with %zu elements left", nm, i);
  }
  if (!m.empty()) {
    if (memcmp(&v.first(), &m.front(), sizeof(T)) != 0) FAIL("first", "%s.first() differs from the model", nm);
    if (memcmp(&v.last(), &m.back(), sizeof(T)) != 0) FAIL("last", "%s.last() differs from the model", nm);
  }
  if (lookups) for (int x : {0, 1, 2, 9}) {
    T val = mkval<T>(x);
    size_t first = SIZE_MAX, last = SIZE_MAX;
    for (size_t i = 0; i < m.size(); i++) if (m[i] == val) { if (first == SIZE_MAX) first = i; last = i; }
    size_t got = v.index_of(val);
    if (got != first) FAIL("@index_of", "%s.index_of(%d) returned %zd, first occurrence in the model is %zd (size %zu)", nm, x, ssize_t(got), ssize_t(first), m.size());
    if (v.contains(val) != (first != SIZE_MAX)) FAIL("@contains", "%s.contains(%d) is wrong", nm, x);
    got = sp.last_index_of(val);
    if (got != last) FAIL("@span-last_index_of", "Span::last_index_of(%d) returned %zd, last occurrence in the model is %zd", x, ssize_t(got), ssize_t(last));
    got = v.last_index_of(val);
    if (got != last) FAIL("@last_index_of", "%s.last_index_of(%d) returned %zd, last occurrence in the model is %zd (size %zu)", nm, x, ssize_t(got), ssize_t(last), m.size());
  }
  return true;
}

template<class T>
struct VecSys {
  ArenaBox box;
  Arena& arena;
  ArenaVector<T> v, w;
  std::vector<T> mv, mw;

  VecSys(const VecCfg& c) : box(c.stat), arena(*box.a), extended(c.extended) { hist_reset(); }
  bool extended;
  int num_ops() const { return extended ? kNumVecOps : kNumVecCoreOps; }
  std::string op_name(int op) const { return kVecOps[op].name; }

  bool check(bool lookups = true) {
    if (lookups) {
      Span<T> a = v.as_span(), b = w.as_span();
      bool eq = mv.size() == mw.size() && (mv.empty() || memcmp(mv.data(), mw.data(), mv.size() * sizeof(T)) == 0);
      if (a.equals(b) != eq || (a == b) != eq || (a != b) == eq || !a.equals(a)) FAIL("@span-equals", "Span::equals(v, w) is %d, the models are %s", int(a.equals(b)), eq ? "equal" : "different");
      for (int x : {0, 1, 2, 9}) {
        T val = mkval<T>(x);
        size_t first = SIZE_MAX;
        for (size_t i = 0; i < mv.size(); i++) if (mv[i] == val) { first = i; break; }
        if (a.index_of(val) != first || a.contains(val) != (first != SIZE_MAX)) FAIL("@span-index_of", "Span::index_of/contains(%d) disagree with the model", x);
      }
      if (!mv.empty() && (memcmp(&a.first(), &mv.front(), sizeof(T)) != 0 || memcmp(&a.last(), &mv.back(), sizeof(T)) != 0)) FAIL("@span-first-last", "Span::first()/last() differ from the model");
    }
    if (!check_vec(v, mv, "v", lookups) || !check_vec(w, mw, "w", lookups)) return false;
    AV av;
    if (!arena_view(arena, av)) return false;
    std::vector<Live> ls = {Live{(const uint8_t*)v.data(), v.capacity() * sizeof(T), true, "the storage of vector v"}, Live{(const uint8_t*)w.data(), w.capacity() * sizeof(T), true, "the storage of vector w"}};
    return arena_partition(arena, av, ls);
  }

  bool apply(int op, std::string& why) {
    hist_push(op);
    g_opkind = opkind_of(kVecOps[op].name);
    // the arguments of the BAD ops are part of the key (different clauses)
    if (kVecOps[op].k == V_BAD) g_opkind = kVecOps[op].name;
    bool ok = step(kVecOps[op]);
    if (ok && !check()) {
      ok = false;
      if (g_clause[0] == '@' && g_clause.compare(0, 7, "@arena-") != 0) { soft_violation(hist_names(*this)); ok = check(false); }   // wrong lookup result: contents are intact
    }
    if (!ok) { why = g_why; box.broken = true; }
    return ok;
  }

  bool step(const VOp& o) {
    size_t size = mv.size(), cap = v.capacity();
    const void* data0 = v.data();
    switch (o.k) {
      case V_APPEND: if (v.append(arena, mkval<T>(o.a)) != Error::kOk) FAIL("error", "append failed"); mv.push_back(mkval<T>(o.a)); break;
      case V_PREPEND: if (v.prepend(arena, mkval<T>(o.a)) != Error::kOk) FAIL("error", "prepend failed"); mv.insert(mv.begin(), mkval<T>(o.a)); break;
      case V_INSERT: {
        size_t i = o.a == 0 ? 0 : o.a == 1 ? size / 2 : size;
        if (v.insert(arena, i, mkval<T>(2)) != Error::kOk) FAIL("error", "insert failed");
        mv.insert(mv.begin() + i, mkval<T>(2));
        break;
      }
      case V_REMOVE: {
        if (!size) return true;
        size_t i = o.a == 0 ? 0 : o.a == 1 ? size / 2 : size - 1;
        v.remove_at(i); mv.erase(mv.begin() + i);
        break;
      }
      case V_POP: {
        if (!size) return true;
        T x = v.pop();
        if (memcmp(&x, &mv.back(), sizeof(T)) != 0) FAIL("result", "pop() returned a value different from the last element");
        mv.pop_back();
        break;
      }
      case V_RESIZE_FIT: case V_RESIZE_GROW: {
        size_t n = o.k == V_RESIZE_FIT ? (o.a == 0 ? 0 : o.a == 1 ? 1 : o.a == 2 ? cap : cap + 1) : (o.a == 0 ? size + 1 : cap + 1);
        Error e = o.k == V_RESIZE_FIT ? v.resize_fit(arena, n) : v.resize_grow(arena, n);
        if (e != Error::kOk) FAIL("error", "resize to %zu failed", n);
        mv.resize(n, mkval<T>(0));
        break;
      }
      case V_RESERVE_FIT: case V_RESERVE_GROW: {
        size_t n = cap + 1;
        Error e = o.k == V_RESERVE_FIT ? v.reserve_fit(arena, n) : v.reserve_grow(arena, n);
        if (e != Error::kOk) FAIL("error", "reserve %zu failed", n);
        if (v.capacity() < n) FAIL("capacity", "capacity %zu after reserving %zu", v.capacity(), n);
        break;
      }
      case V_RESERVE_ADD: {
        size_t n = cap - size + 1;
        if (v.reserve_additional(arena, n) != Error::kOk) FAIL("error", "reserve_additional(%zu) failed", n);
        if (v.capacity() - v.size() < n) FAIL("capacity", "capacity %zu, size %zu after reserve_additional(%zu)", v.capacity(), v.size(), n);
        break;
      }
      case V_TRUNC: {
        size_t n = o.a == 0 ? 0 : o.a == 1 ? 1 : size + 1;
        v.truncate(n);
        if (n < mv.size()) mv.resize(n);
        break;
      }
      case V_CLEAR: v.clear(); mv.clear(); break;
      case V_RELEASE: v.release(arena); mv.clear(); break;
      case V_SWAP: v.swap(w); mv.swap(mw); break;
      case V_CONCAT:
        if (v.concat(arena, w) != Error::kOk) FAIL("error", "concat failed");
        mv.insert(mv.end(), mw.begin(), mw.end());
        break;
      case V_MOVE: {
        ArenaVector<T> tmp(std::move(v));
        if (v.data() || v.size() || v.capacity()) FAIL("source-not-reset", "moved-from vector is not empty");
        if (tmp.data() != data0 || tmp.size() != size || tmp.capacity() != cap) FAIL("target", "move-constructed vector does not own the source's storage");
        v.swap(tmp);
        break;
      }
      case V_UNCHECKED: {
        if (o.a == 3) {
          if (cap - size < mw.size()) return true;
          v.concat_unchecked(w); mv.insert(mv.end(), mw.begin(), mw.end());
          break;
        }
        if (size >= cap) return true;
        if (o.a == 0) { v.append_unchecked(mkval<T>(3)); mv.push_back(mkval<T>(3)); }
        else if (o.a == 1) { v.prepend_unchecked(mkval<T>(3)); mv.insert(mv.begin(), mkval<T>(3)); }
        else { v.insert_unchecked(size / 2, mkval<T>(3)); mv.insert(mv.begin() + size / 2, mkval<T>(3)); }
        break;
      }
      case V_SORT:
        if (o.a == 0) { v.sort(); std::stable_sort(mv.begin(), mv.end(), [](const T& x, const T& y) { return x < y; }); }
        else { v.sort(Support::Compare<Support::SortOrder::kDescending>()); std::stable_sort(mv.begin(), mv.end(), [](const T& x, const T& y) { return x > y; }); }
        break;
      case V_ASSIGN_UNCHECKED:
        if (cap < mw.size()) return true;
        v.assign_unchecked(w); mv = mw;
        break;
      case V_BAD: {
        Error e = Error::kOk;
        switch (o.a) {
          case 0: e = v.reserve_fit(arena, SIZE_MAX); break;
          case 1: e = v.reserve_grow(arena, size_t(0xFFFFFFFFu)); break;
          case 2: e = v.resize_fit(arena, SIZE_MAX); break;
          case 3: e = v.resize_grow(arena, size_t(1) << 32); break;
          case 4: e = v.reserve_additional(arena, SIZE_MAX); break;
        }
        if (e == Error::kOk) FAIL("accepted", "%s reported success", o.name);
        (void)cap; (void)data0;      // contents after the refused request are compared with the model by check()
        break;
      }
    }
    return true;
  }

  std::string canon() {
    AV av;
    if (!arena_view(arena, av)) return "BROKEN:" + g_clause;
    return arena_canon(arena, av) + "v" + loc(av, v.data()) + "c" + std::to_string(v.capacity()) + ":" + vh::hex(mv.data(), mv.size() * sizeof(T)) +
           "w" + loc(av, w.data()) + "c" + std::to_string(w.capacity()) + ":" + vh::hex(mw.data(), mw.size() * sizeof(T));
  }
};

// ------------------------------------------------------------------------------------------------------------
// part "hash": ArenaHash<HNode> h, h2; model = multiset of live nodes per key
// ------------------------------------------------------------------------------------------------------------
struct HNode : public ArenaHashNode {
  uint32_t key; int id;
  HNode(uint32_t hash, uint32_t k, int i) : ArenaHashNode(hash), key(k), id(i) {}
};
struct HKey {
  uint32_t hash, key;
  uint32_t hash_code() const { return hash; }
  bool matches(const HNode* n) const { return n->key == key; }
};
// 29*59*131*269: multiples collide in bucket 0 for every bucket count among the first growth steps (1, 29, 59, 131, 269)
static const uint32_t kHM = 60293929u;
static const HKey kHKeys[6] = {{0, 100}, {kHM, 101}, {2 * kHM, 102}, {0, 103}, {1, 104}, {0xFFFFFFFFu, 105}};

enum HK { H_INSERT, H_REMOVE, H_REMOVE_ABSENT, H_FILL, H_SWAP, H_RELEASE };
struct HOp { HK k; int a; };
static const HOp kHashOps[] = {{H_INSERT, 0}, {H_INSERT, 1}, {H_INSERT, 2}, {H_INSERT, 3}, {H_INSERT, 4}, {H_INSERT, 5},
                               {H_REMOVE, 0}, {H_REMOVE, 1}, {H_REMOVE, 2}, {H_REMOVE, 3}, {H_REMOVE, 4}, {H_REMOVE, 5},
                               {H_REMOVE_ABSENT, 0}, {H_FILL, 0}, {H_SWAP, 0}, {H_RELEASE, 0}};
static const int kNumHashOps = int(sizeof(kHashOps) / sizeof(kHashOps[0]));
static std::string hop_name(const HOp& o) {
  static const char* n[] = {"insert", "remove", "remove_absent", "fill_to_threshold", "swap", "release"};
  return std::string(n[o.k]) + "(" + (o.k <= H_REMOVE ? "k" + std::to_string(o.a) : std::string()) + ")";
}

struct HashModel { std::vector<HNode*> nodes; };   // live nodes in insertion order

static bool check_hash(ArenaHash<HNode>& h, const HashModel& m, const char* nm) {
  if (h.size() != m.nodes.size()) FAIL("size", "%s.size() is %zu, the model holds %zu nodes", nm, h.size(), m.nodes.size());
  if (h.is_empty() != m.nodes.empty()) FAIL("is_empty", "%s.is_empty() disagrees with size %zu", nm, m.nodes.size());
  uint32_t bc = h._buckets_count;
  if (!bc || !h._data) FAIL("buckets", "%s has no bucket array", nm);
  std::set<const HNode*> seen;
  for (uint32_t b = 0; b < bc; b++) {
    size_t guard = 0;
    for (ArenaHashNode* n = h._data[b]; n; n = n->_hash_next) {
      if (++guard > m.nodes.size() + 1) FAIL("chain-cycle", "%s bucket %u chain is longer than the table size", nm, b);
      if (n->_hash_code % bc != b) FAIL("wrong-bucket", "%s: node with hash 0x%08x sits in bucket %u of %u (hash %% count = %u)", nm, n->_hash_code, b, bc, n->_hash_code % bc);
      if (h._calc_mod(n->_hash_code) != n->_hash_code % bc) FAIL("calc_mod", "%s: _calc_mod(0x%08x) = %u with %u buckets, hash %% count = %u", nm, n->_hash_code, h._calc_mod(n->_hash_code), bc, n->_hash_code % bc);
      if (!seen.insert(static_cast<HNode*>(n)).second) FAIL("duplicate-node", "%s: a node is linked twice", nm);
    }
  }
  for (HNode* n : m.nodes) if (!seen.count(n)) FAIL("unreachable", "%s: node id %d (key %u, hash 0x%08x) is not reachable from any bucket (%u buckets)", nm, n->id, n->key, n->_hash_code, bc);
  if (seen.size() != m.nodes.size()) FAIL("stale-node", "%s: %zu nodes are linked, the model holds %zu", nm, seen.size(), m.nodes.size());
  for (int k = 0; k <= 6; k++) {
    HKey key = k < 6 ? kHKeys[k] : HKey{0, 999};
    bool present = false;
    for (HNode* n : m.nodes) if (n->key == key.key) present = true;
    HNode* got = h.get(key);
    if (present && !got) FAIL("get-miss", "%s.get(key %u, hash 0x%08x) returned null although the key was inserted (%u buckets, size %zu)", nm, key.key, key.hash, bc, m.nodes.size());
    if (!present && got) FAIL("get-ghost", "%s.get(key %u) returned a node although no such key is stored", nm, key.key);
    if (got && (got->key != key.key || std::find(m.nodes.begin(), m.nodes.end(), got) == m.nodes.end())) FAIL("get-wrong", "%s.get(key %u) returned a node with key %u / a node that is not stored", nm, key.key, got->key);
  }
  return true;
}

struct HashCfg { size_t stat; };

struct HashSys {
  ArenaBox box;
  Arena& arena;
  ArenaHash<HNode> h, h2;
  HashModel m, m2;
  std::vector<HNode*> all;    // every node ever allocated (arena memory stays owned)
  int next_id = 0; uint32_t filler = 0;

  HashSys(const HashCfg& c) : box(c.stat), arena(*box.a) { hist_reset(); }
  int num_ops() const { return kNumHashOps; }
  std::string op_name(int op) const { return hop_name(kHashOps[op]); }

  HNode* mk(uint32_t hash, uint32_t key) {
    HNode* n = arena.new_oneshot<HNode>(hash, key, next_id++);
    if (n) all.push_back(n);
    return n;
  }

  bool check() {
    if (!check_hash(h, m, "h") || !check_hash(h2, m2, "h2")) return false;
    AV av;
    if (!arena_view(arena, av)) return false;
    std::vector<Live> ls;
    if (h._data != h._embedded) ls.push_back(Live{(const uint8_t*)h._data, size_t(h._buckets_count) * sizeof(void*), true, "the bucket array of h"});
    if (h2._data != h2._embedded) ls.push_back(Live{(const uint8_t*)h2._data, size_t(h2._buckets_count) * sizeof(void*), true, "the bucket array of h2"});
    for (HNode* n : all) ls.push_back(Live{(const uint8_t*)n, sizeof(HNode), false, "a hash node"});
    return arena_partition(arena, av, ls);
  }

  bool apply(int op, std::string& why) {
    hist_push(op);
    g_opkind = opkind_of(hop_name(kHashOps[op]));
    bool ok = step(kHashOps[op]) && check();
    if (!ok) { why = g_why; box.broken = true; }
    return ok;
  }

  bool step(const HOp& o) {
    switch (o.k) {
      case H_INSERT: {
        HNode* n = mk(kHKeys[o.a].hash, kHKeys[o.a].key);
        if (!n) FAIL("null", "node allocation failed");
        if (h.insert(arena, n) != n) FAIL("result", "insert did not return the node");
        m.nodes.push_back(n);
        break;
      }
      case H_REMOVE: {
        size_t i = 0;
        for (; i < m.nodes.size(); i++) if (m.nodes[i]->key == kHKeys[o.a].key) break;
        if (i == m.nodes.size()) return true;
        HNode* n = m.nodes[i];
        if (h.remove(arena, n) != n) FAIL("result", "remove of a stored node did not return it");
        m.nodes.erase(m.nodes.begin() + i);
        break;
      }
      case H_REMOVE_ABSENT: {
        HNode* n = mk(0, 100);    // same hash and key as k0, but never inserted
        if (!n) FAIL("null", "node allocation failed");
        if (h.remove(arena, n) != nullptr) FAIL("result", "remove of a node that is not stored did not return null");
        break;
      }
      case H_FILL: {
        // distinct filler keys; every third one collides with the k0..k2 family
        size_t guard = 0;
        while (h.size() < h._buckets_grow) {
          uint32_t f = filler++;
          uint32_t hash = (f % 3 == 0) ? (3 + f / 3) * kHM : 1000 + f * 7;
          HNode* n = mk(hash, 1000 + f);
          if (!n) FAIL("null", "node allocation failed");
          h.insert(arena, n);
          m.nodes.push_back(n);
          if (++guard > 100000) break;
        }
        break;
      }
      case H_SWAP: h.swap(h2); std::swap(m, m2); break;
      case H_RELEASE:
        h.release(arena); m.nodes.clear();
        break;
    }
    return true;
  }

  static std::string table_canon(ArenaHash<HNode>& t, const AV& av) {
    std::string s = "n" + std::to_string(t._buckets_count) + "g" + std::to_string(t._buckets_grow) + "@" + (t._data == t._embedded ? std::string("emb") : loc(av, t._data)) + "[";
    for (uint32_t b = 0; b < t._buckets_count; b++) {
      if (!t._data[b]) continue;
      s += std::to_string(b) + ":";
      size_t guard = 0;
      for (ArenaHashNode* n = t._data[b]; n && guard < 100000; n = n->_hash_next, guard++) s += std::to_string(static_cast<HNode*>(n)->key) + ",";
    }
    return s + "]";
  }
  std::string canon() {
    AV av;
    if (!arena_view(arena, av)) return "BROKEN:" + g_clause;
    std::string s = arena_canon(arena, av) + table_canon(h, av) + table_canon(h2, av) + "O";
    // insertion order of equal keys decides which node remove(k) picks: order of keys in the model
    for (HNode* n : m.nodes) s += std::to_string(n->key) + ",";
    return s + "f" + std::to_string(filler);
  }
};

// "hashgrow": long scripts through many rehash boundaries with key families that collide modulo the table primes
static bool hashgrow_case(int family, uint32_t n, uint32_t* primes_seen) {
  Arena arena(4096);
  ArenaHash<HNode> h;
  HashModel m;
  auto hash_of = [&](uint32_t j) -> uint32_t {
    switch (family) {
      case 0: return j * kHM;                    // multiples of 29*59*131*269 (wrapping)
      case 1: return j;                          // dense
      case 2: return j * 2099u * 4111u;          // multiples of two later table primes
      case 3: return 0xFFFFFFFFu - j * 8087u;    // from the top of the range
      default: return (j & 1) ? 0u : j * 11u * 41u * 83u * 191u;   // half of the keys share hash code 0
    }
  };
  uint32_t last_count = h._buckets_count;
  *primes_seen = 0;
  auto spot = [&](uint32_t j, const char* phase) -> bool {   // stored / removed keys around j are found / not found
    for (uint32_t d = 0; d < 3 && d <= j; d++) {
      HKey k{hash_of(j - d), 5000 + (j - d)};
      HNode* got = h.get(k);
      bool present = std::find_if(m.nodes.begin(), m.nodes.end(), [&](HNode* x) { return x->key == k.key; }) != m.nodes.end();
      if (present != (got != nullptr) || (got && got->key != k.key)) FAIL("get", "%s: get(key %u, hash 0x%08x) is %s with %u buckets, size %zu", phase, k.key, k.hash, got ? "a node" : "null", h._buckets_count, h.size());
    }
    return true;
  };
  for (uint32_t j = 0; j < n; j++) {
    HNode* nd = arena.new_oneshot<HNode>(hash_of(j), 5000 + j, int(j));
    if (!nd) FAIL("null", "node allocation failed");
    h.insert(arena, nd);
    m.nodes.push_back(nd);
    if (h._buckets_count != last_count || j + 1 == n) {
      last_count = h._buckets_count; (*primes_seen)++;
      g_opkind = "insert";
      if (!check_hash(h, m, "h")) return false;      // full structural check right after every rehash
      for (uint32_t q = 0; q <= j; q += (j / 64 + 1)) if (!spot(q, "after rehash")) return false;
    } else if ((j & 63) == 0) { g_opkind = "insert"; if (!spot(j, "insert")) return false; }
  }
  // remove every other node (first to last), then the rest (last to first)
  g_opkind = "remove";
  std::vector<HNode*> order;
  for (size_t i = 0; i < m.nodes.size(); i += 2) order.push_back(m.nodes[i]);
  for (size_t i = m.nodes.size() | 1; i-- > 0;) if ((i & 1) && i < m.nodes.size()) order.push_back(m.nodes[i]);
  size_t step = 0;
  for (HNode* nd : order) {
    if (h.remove(arena, nd) != nd) FAIL("result", "remove of stored node id %d did not return it", nd->id);
    m.nodes.erase(std::find(m.nodes.begin(), m.nodes.end(), nd));
    if (h.get(HKey{nd->_hash_code, nd->key}) != nullptr) FAIL("get-ghost", "removed key %u is still found", nd->key);
    if ((++step % (n / 8 + 1)) == 0 && !check_hash(h, m, "h")) return false;
  }
  if (!check_hash(h, m, "h")) return false;
  h.release(arena);
  return true;
}

static void part_hashgrow(const std::string* only = nullptr) {
  vh::Ctx& c = vh::ctx();
  g_part = "hashgrow";
  long long idx = 0;
  std::vector<uint32_t> ns = c.thorough() ? std::vector<uint32_t>{28, 60, 500, 4000, 20000, 60000} : std::vector<uint32_t>{28, 60, 500, 4000, 20000};
  for (int family = 0; family < 5; family++) for (uint32_t n : ns) {
    std::string text = "family=" + std::to_string(family) + " n=" + std::to_string(n);
    if (only && *only != text) continue;
    if (!c.mine(idx++)) continue;
    g_cfg = text;
    uint32_t primes = 0;
    c.n("evaluations")++; c.n("distinct_nontrivial")++; c.n("traces")++; c.n("states")++; c.n("transitions") += 2 * (long long)n;
    if (!hashgrow_case(family, n, &primes)) sweep_violation("hashgrow", g_opkind, text);
    else c.sample("hashgrow: " + text + " crossed " + std::to_string(primes) + " table sizes", 16);
    c.n("hashgrow_table_sizes_crossed") += primes;
  }
  g_bounds += "hashgrow:5 hash-code families (multiples of 29*59*131*269, dense, multiples of 2099*4111, descending from 2^32-1, half equal hash codes) x n in {28,60,500,4000,20000" +
              std::string(c.thorough() ? ",60000" : "") + "} inserts then removals in two interleaved orders; full structural check after every rehash ";
}

// ------------------------------------------------------------------------------------------------------------
// parts "tree" (BFS to closure over toggle(k)) and "treeperm" (all insertion orders x all removal orders)
// ------------------------------------------------------------------------------------------------------------
struct TNode : public ArenaTreeNodeT<TNode> {
  uint32_t key;
  explicit TNode(uint32_t k) : key(k) {}
  bool operator<(const TNode& o) const { return key < o.key; }
  bool operator>(const TNode& o) const { return key > o.key; }
  bool operator<(uint32_t k) const { return key < k; }
  bool operator>(uint32_t k) const { return key > k; }
};

struct TreeWalk { std::vector<TNode*> inorder; size_t visited = 0; };
// returns the black height (>= 1) or 0 after FAIL
static int tree_rec(TNode* n, bool parent_red, int depth, TreeWalk& w, size_t limit) {
  if (!n) return 1;
  if (depth > 64 || ++w.visited > limit) { g_clause = "cycle"; g_why = "the tree links more nodes than were inserted (cycle or stale node)"; return 0; }
  if (parent_red && n->is_red()) { g_clause = "red-red"; g_why = "red node " + std::to_string(n->key) + " has a red parent"; return 0; }
  int lh = tree_rec(n->left(), n->is_red(), depth + 1, w, limit);
  if (!lh) return 0;
  w.inorder.push_back(n);
  int rh = tree_rec(n->right(), n->is_red(), depth + 1, w, limit);
  if (!rh) return 0;
  if (lh != rh) { g_clause = "black-height"; g_why = "black heights " + std::to_string(lh) + " and " + std::to_string(rh) + " differ below node " + std::to_string(n->key); return 0; }
  return lh + (n->is_red() ? 0 : 1);
}

static bool check_tree(ArenaTree<TNode>& t, const std::map<uint32_t, TNode*>& m, uint32_t nkeys) {
  if (t.is_empty() != m.empty()) FAIL("is_empty", "is_empty() disagrees with the model size %zu", m.size());
  if (t.root() && t.root()->is_red()) FAIL("root-red", "the root is red");
  TreeWalk w;
  if (!tree_rec(t.root(), false, 0, w, m.size())) return false;
  if (w.inorder.size() != m.size()) FAIL("count", "the tree holds %zu nodes, the model %zu", w.inorder.size(), m.size());
  size_t i = 0;
  for (auto& kv : m) {
    TNode* n = w.inorder[i++];
    if (n->key != kv.first) FAIL("order", "in-order position %zu holds key %u, the sorted model has %u", i - 1, n->key, kv.first);
    if (n != kv.second) FAIL("identity", "key %u is represented by a different node object than the one inserted", kv.first);
  }
  for (uint32_t k = 0; k <= nkeys; k++) {
    auto it = m.find(k);
    TNode* got = t.get(k);
    if (it == m.end() ? got != nullptr : got != it->second) FAIL("get", "get(%u) returned %s", k, got ? "a wrong/stale node" : "null for a stored key");
  }
  return true;
}

static std::string tree_canon_rec(TNode* n, int depth) {
  if (!n || depth > 64) return ".";
  return std::string(n->is_red() ? "r" : "b") + std::to_string(n->key) + "(" + tree_canon_rec(n->left(), depth + 1) + tree_canon_rec(n->right(), depth + 1) + ")";
}

struct TreeCfg { uint32_t nkeys; };

struct TreeSys {
  Arena arena;
  ArenaPool<TNode> pool;
  ArenaTree<TNode> tree;
  std::map<uint32_t, TNode*> m;
  uint32_t nkeys;

  TreeSys(const TreeCfg& c) : arena(1024), nkeys(c.nkeys) { hist_reset(); }
  int num_ops() const { return int(nkeys); }
  std::string op_name(int op) const { return std::string(m.count(uint32_t(op)) ? "remove(" : "insert(") + std::to_string(op) + ")"; }

  bool apply(int op, std::string& why) {
    hist_push(op);
    uint32_t k = uint32_t(op);
    auto it = m.find(k);
    if (it == m.end()) {
      g_opkind = "insert";
      TNode* n = pool.alloc(arena);
      if (!n) { g_clause = "null"; why = g_why = "pool allocation failed"; return false; }
      n = new (static_cast<void*>(n)) TNode(k);
      tree.insert(n);
      m[k] = n;
    } else {
      g_opkind = "remove";
      TNode* n = it->second;
      tree.remove(n);
      m.erase(it);
      n->~TNode();
      pool.release(n);
    }
    bool ok = check_tree(tree, m, nkeys);
    if (!ok) why = g_why;
    return ok;
  }
  std::string canon() { return tree_canon_rec(tree.root(), 0); }
};

static bool treeperm_run(const std::vector<int>& ins, const std::vector<int>& rem, std::string* final_canon) {
  TreeCfg cfg{uint32_t(ins.size())};
  TreeSys s(cfg);
  std::string why;
  for (int k : ins) if (!s.apply(k, why)) return false;
  if (final_canon) *final_canon = s.canon();
  for (int k : rem) if (!s.apply(k, why)) return false;
  return true;
}

static void part_treeperm() {
  vh::Ctx& c = vh::ctx();
  g_part = "tree";      // a crash is replayed as a toggle history of part "tree"
  int maxn = c.thorough() ? 8 : 7;
  long long idx = 0;
  for (int n = 1; n <= maxn; n++) {
    std::vector<int> ins(n);
    for (int i = 0; i < n; i++) ins[i] = i;
    g_cfg = std::to_string(n);
    std::map<std::string, std::vector<int>> distinct;    // final tree -> representative insertion order (identical in every shard)
    do {
      // insertion orders are cheap: every shard runs all of them (needed for the distinct-tree table), shard 0 counts them
      std::string canon;
      bool ok = treeperm_run(ins, {}, &canon);
      if (c.shard_i == 0) { c.n("evaluations")++; c.n("traces")++; c.n("transitions") += n; }
      if (!ok) { if (c.shard_i == 0) sweep_violation("treeperm", g_opkind, "ins=" + ops_str(ins) + " rem="); continue; }
      distinct.emplace(canon, ins);
    } while (std::next_permutation(ins.begin(), ins.end()));
    if (c.shard_i == 0) { c.n("states") += (long long)distinct.size(); c.n("distinct_nontrivial") += (long long)distinct.size(); }
    for (auto& kv : distinct) {
      std::vector<int> rem(n);
      for (int i = 0; i < n; i++) rem[i] = i;
      do {
        if (!c.mine(idx++)) continue;
        if ((idx & 1023) == 0 && c.out_of_time()) return;
        c.n("evaluations")++; c.n("traces")++; c.n("transitions") += 2 * n;
        if (!treeperm_run(kv.second, rem, nullptr)) sweep_violation("treeperm", g_opkind, "ins=" + ops_str(kv.second) + " rem=" + ops_str(rem));
        else if ((idx % 50021) == 0) c.sample("treeperm: ins=" + ops_str(kv.second) + " rem=" + ops_str(rem), 16);
      } while (std::next_permutation(rem.begin(), rem.end()));
    }
    c.n((std::string("treeperm_distinct_trees_n") + std::to_string(n)).c_str()) = (long long)distinct.size();
  }
  g_bounds += "treeperm:all n! insertion orders for n<=" + std::to_string(maxn) + ", then every distinct resulting tree x all n! removal orders ";
}

// ------------------------------------------------------------------------------------------------------------
// part "list": ArenaList<LNode> l, l2 over a fixed set of nodes; BFS to closure
// ------------------------------------------------------------------------------------------------------------
struct LNode : public ArenaListNode<LNode> { int id = 0; };
enum LK { L_APPEND, L_PREPEND, L_INS_BEFORE, L_INS_AFTER, L_UNLINK, L_POP, L_POP_FIRST, L_SWAP, L_RESET };
struct LOp { LK k; int a; const char* name; };
static const LOp kListOps[] = {
  {L_APPEND, 0, "append()"}, {L_PREPEND, 0, "prepend()"},
  {L_INS_BEFORE, 0, "insert_before(first)"}, {L_INS_BEFORE, 1, "insert_before(mid)"}, {L_INS_BEFORE, 2, "insert_before(last)"},
  {L_INS_AFTER, 0, "insert_after(first)"}, {L_INS_AFTER, 1, "insert_after(mid)"}, {L_INS_AFTER, 2, "insert_after(last)"},
  {L_UNLINK, 0, "unlink(first)"}, {L_UNLINK, 1, "unlink(mid)"}, {L_UNLINK, 2, "unlink(last)"},
  {L_POP, 0, "pop()"}, {L_POP_FIRST, 0, "pop_first()"}, {L_SWAP, 0, "swap(l2)"}, {L_RESET, 0, "reset()"}};
static const int kNumListOps = int(sizeof(kListOps) / sizeof(kListOps[0]));
struct ListCfg { int nodes; };

static bool check_list(ArenaList<LNode>& l, const std::vector<LNode*>& m, const char* nm) {
  if (l.is_empty() != m.empty()) FAIL("is_empty", "%s.is_empty() disagrees with the model size %zu", nm, m.size());
  if (m.empty()) { if (l.first() || l.last()) FAIL("ends", "%s is empty but first()/last() are not null", nm); return true; }
  if (l.first() != m.front()) FAIL("first", "%s.first() is not the model's first node", nm);
  if (l.last() != m.back()) FAIL("last", "%s.last() is not the model's last node", nm);
  size_t i = 0; LNode* prev = nullptr;
  for (LNode* n = l.first(); n; n = n->next()) {
    if (i >= m.size()) FAIL("forward", "%s: forward walk is longer than the model (%zu nodes)", nm, m.size());
    if (n != m[i]) FAIL("forward", "%s: forward position %zu holds node %d, the model has node %d", nm, i, n->id, m[i]->id);
    if (n->prev() != prev) FAIL("links", "%s: prev link of node %d at position %zu does not point to its predecessor", nm, n->id, i);
    if (n->has_prev() != (prev != nullptr) || n->has_next() != (n->next() != nullptr)) FAIL("links", "%s: has_prev/has_next disagree with the links", nm);
    prev = n; i++;
  }
  if (i != m.size()) FAIL("forward", "%s: forward walk visits %zu of %zu nodes", nm, i, m.size());
  i = m.size();
  for (LNode* n = l.last(); n; n = n->prev()) {
    if (i == 0) FAIL("backward", "%s: backward walk is longer than the model", nm);
    if (n != m[i - 1]) FAIL("backward", "%s: backward walk differs from the reversed model at position %zu", nm, i - 1);
    i--;
  }
  if (i != 0) FAIL("backward", "%s: backward walk stops early", nm);
  return true;
}

struct ListSys {
  Arena arena;
  ArenaList<LNode> l, l2;
  std::vector<LNode*> nodes, m, m2;
  ListSys(const ListCfg& c) : arena(1024) {
    hist_reset();
    for (int i = 0; i < c.nodes; i++) { LNode* n = arena.new_oneshot<LNode>(); n->id = i; nodes.push_back(n); }
  }
  int num_ops() const { return kNumListOps; }
  std::string op_name(int op) const { return kListOps[op].name; }
  bool in_use(LNode* n) const { return std::find(m.begin(), m.end(), n) != m.end() || std::find(m2.begin(), m2.end(), n) != m2.end(); }
  LNode* fresh() { for (LNode* n : nodes) if (!in_use(n)) return n; return nullptr; }
  size_t pos(int a) const { return a == 0 ? 0 : a == 1 ? m.size() / 2 : m.size() - 1; }

  bool apply(int op, std::string& why) {
    hist_push(op);
    const LOp& o = kListOps[op];
    g_opkind = opkind_of(o.name);
    bool ok = step(o) && check_list(l, m, "l") && check_list(l2, m2, "l2") && check_free();
    if (!ok) why = g_why;
    return ok;
  }
  bool check_free() {
    for (LNode* n : nodes) if (!in_use(n) && (n->prev() || n->next())) FAIL("stale-links", "node %d is in no list but still has a prev/next link", n->id);
    return true;
  }
  bool step(const LOp& o) {
    switch (o.k) {
      case L_APPEND: { LNode* n = fresh(); if (!n) return true; l.append(n); m.push_back(n); break; }
      case L_PREPEND: { LNode* n = fresh(); if (!n) return true; l.prepend(n); m.insert(m.begin(), n); break; }
      case L_INS_BEFORE: case L_INS_AFTER: {
        LNode* n = fresh(); if (!n || m.empty()) return true;
        size_t p = pos(o.a);
        if (o.k == L_INS_BEFORE) { l.insert_before(m[p], n); m.insert(m.begin() + p, n); }
        else { l.insert_after(m[p], n); m.insert(m.begin() + p + 1, n); }
        break;
      }
      case L_UNLINK: {
        if (m.empty()) return true;
        size_t p = pos(o.a);
        if (l.unlink(m[p]) != m[p]) FAIL("result", "unlink did not return the node");
        m.erase(m.begin() + p);
        break;
      }
      case L_POP: { if (m.empty()) return true; LNode* n = l.pop(); if (n != m.back()) FAIL("result", "pop() did not return the last node"); m.pop_back(); break; }
      case L_POP_FIRST: { if (m.empty()) return true; LNode* n = l.pop_first(); if (n != m.front()) FAIL("result", "pop_first() did not return the first node"); m.erase(m.begin()); break; }
      case L_SWAP: l.swap(l2); m.swap(m2); break;
      case L_RESET:
        l.reset();
        for (LNode* n : m) { int id = n->id; new (static_cast<void*>(n)) LNode(); n->id = id; }   // the client re-initialises nodes of a dropped list
        m.clear();
        break;
    }
    return true;
  }
  std::string canon() {
    std::string s = "l";
    for (LNode* n : m) s += std::to_string(n->id) + ",";
    s += "|";
    for (LNode* n : m2) s += std::to_string(n->id) + ",";
    return s;
  }
};

// ------------------------------------------------------------------------------------------------------------
// part "bitset": ArenaBitSet a, b on one arena; model std::vector<bool>
// ------------------------------------------------------------------------------------------------------------
enum BK { B_RESIZE, B_APPEND, B_SET, B_SET_LAST0, B_CLEARBIT, B_XOR, B_ADD, B_FILL_ALL, B_CLEAR_ALL, B_TRUNC, B_CLEAR, B_FILL_BITS, B_CLEAR_BITS,
          B_AND, B_OR, B_ANDNOT, B_COPY, B_SWAP, B_RELEASE, B_BAD };
struct BOp { BK k; size_t a; int v; std::string name; };
static std::vector<BOp> bitset_alphabet() {
  std::vector<BOp> o;
  for (size_t n : {size_t(0), size_t(1), size_t(63), size_t(64), size_t(65), size_t(128), size_t(129)}) for (int v = 0; v < 2; v++)
    o.push_back(BOp{B_RESIZE, n, v, "resize(" + std::to_string(n) + "," + std::to_string(v) + ")"});
  o.push_back(BOp{B_RESIZE, 16448, 0, "resize(16448,0)"});     // > 2048 bytes: a dynamic block of the arena
  o.push_back(BOp{B_APPEND, 0, 0, "append(0)"}); o.push_back(BOp{B_APPEND, 0, 1, "append(1)"});
  for (size_t p : {size_t(0), size_t(63), size_t(64), size_t(128)}) o.push_back(BOp{B_SET, p, 1, "set_bit(" + std::to_string(p) + ",1)"});
  o.push_back(BOp{B_SET_LAST0, 0, 0, "set_bit(size-1,0)"});
  o.push_back(BOp{B_CLEARBIT, 0, 0, "clear_bit(0)"});
  o.push_back(BOp{B_XOR, 1, 1, "xor_bit(1,1)"});
  o.push_back(BOp{B_ADD, 64, 1, "add_bit(64,1)"});
  o.push_back(BOp{B_FILL_ALL, 0, 0, "fill_all()"}); o.push_back(BOp{B_CLEAR_ALL, 0, 0, "clear_all()"});
  o.push_back(BOp{B_TRUNC, 1, 0, "truncate(1)"}); o.push_back(BOp{B_TRUNC, 64, 0, "truncate(64)"});
  o.push_back(BOp{B_CLEAR, 0, 0, "clear()"});
  o.push_back(BOp{B_FILL_BITS, 0, 0, "fill_bits(1,size-2)"}); o.push_back(BOp{B_CLEAR_BITS, 0, 0, "clear_bits(63,<=2)"});
  o.push_back(BOp{B_AND, 0, 0, "and_(b)"}); o.push_back(BOp{B_OR, 0, 0, "or_(b)"}); o.push_back(BOp{B_ANDNOT, 0, 0, "and_not(b)"}); o.push_back(BOp{B_COPY, 0, 0, "copy_from(b)"});
  o.push_back(BOp{B_SWAP, 0, 0, "swap(b)"}); o.push_back(BOp{B_RELEASE, 0, 0, "release()"});
  o.push_back(BOp{B_BAD, 0, 0, "resize(SIZE_MAX)"});
  return o;
}
static const std::vector<BOp> g_bit_ops = bitset_alphabet();
struct BitCfg { size_t stat; };

static bool check_bits(const ArenaBitSet& a, const std::vector<bool>& m, const char* nm) {
  if (a.size() != m.size()) FAIL("size", "%s.size() is %zu, the model holds %zu bits", nm, a.size(), m.size());
  if (a.is_empty() != m.empty()) FAIL("is_empty", "%s.is_empty() disagrees with size %zu", nm, m.size());
  if (a.capacity() < a.size()) FAIL("capacity", "%s.capacity() %zu < size() %zu", nm, a.capacity(), a.size());
  if (a.size_in_bit_words() != (m.size() + 63) / 64) FAIL("words", "%s.size_in_bit_words() is %zu for %zu bits", nm, a.size_in_bit_words(), m.size());
  for (size_t i = 0; i < m.size(); i++) if (a.bit_at(i) != m[i]) FAIL("content", "%s bit %zu is %d, the model has %d (size %zu)", nm, i, int(a.bit_at(i)), int(m[i]), m.size());
  ArenaBitSet::ForEachBitSet it(a);
  size_t i = 0;
  for (;;) {
    while (i < m.size() && !m[i]) i++;
    bool has = it.has_next();
    if (i == m.size()) { if (has) FAIL("@iterate-extra", "%s: iteration yields bit %zu beyond the set bits of the model (size %zu)", nm, it.peek_next(), m.size()); break; }
    if (!has) FAIL("@iterate-missing", "%s: iteration ends before set bit %zu", nm, i);
    size_t got = it.next();
    if (got != i) FAIL("@iterate", "%s: iteration yields bit %zu, next set bit of the model is %zu", nm, got, i);
    i++;
  }
  return true;
}

struct BitSys {
  ArenaBox box;
  Arena& arena;
  ArenaBitSet a, b;
  std::vector<bool> ma, mb;
  BitSys(const BitCfg& c) : box(c.stat), arena(*box.a) { hist_reset(); }
  int num_ops() const { return int(g_bit_ops.size()); }
  std::string op_name(int op) const { return g_bit_ops[op].name; }

  bool check() {
    if (!check_bits(a, ma, "a") || !check_bits(b, mb, "b")) return false;
    bool eq = ma == mb;
    if (a.equals(b) != eq || (a == b) != eq || (a != b) == eq || b.equals(a) != eq) FAIL("equals", "equals() is %d, the models are %s (sizes %zu/%zu)", int(a.equals(b)), eq ? "equal" : "different", ma.size(), mb.size());
    AV av;
    if (!arena_view(arena, av)) return false;
    std::vector<Live> ls = {Live{(const uint8_t*)a.data(), a.capacity() / 8, true, "the storage of bit set a"}, Live{(const uint8_t*)b.data(), b.capacity() / 8, true, "the storage of bit set b"}};
    return arena_partition(arena, av, ls);
  }
  bool apply(int op, std::string& why) {
    hist_push(op);
    const BOp& o = g_bit_ops[op];
    g_opkind = opkind_of(o.name);
    if (o.k == B_BAD) g_opkind = o.name;
    bool ok = step(o);
    if (ok && !check()) {
      ok = false;
      if ((g_clause == "content" || g_clause == "@iterate-extra" || g_clause == "@iterate-missing" || g_clause == "@iterate") && a.size() == ma.size() && b.size() == mb.size() && a.size() <= a.capacity()) {
        // the bits differ but the object is well formed: report, let the model adopt the implementation's bits, go on
        soft_violation(hist_names(*this));
        for (size_t i = 0; i < ma.size(); i++) ma[i] = a.bit_at(i);
        for (size_t i = 0; i < mb.size(); i++) mb[i] = b.bit_at(i);
        ok = check();
      }
    }
    if (!ok) { why = g_why; box.broken = true; }
    return ok;
  }
  bool step(const BOp& o) {
    size_t size = ma.size();
    switch (o.k) {
      case B_RESIZE: if (a.resize(arena, o.a, o.v != 0) != Error::kOk) FAIL("error", "resize(%zu) failed", o.a); ma.resize(o.a, o.v != 0); break;
      case B_APPEND: if (a.append(arena, o.v != 0) != Error::kOk) FAIL("error", "append failed"); ma.push_back(o.v != 0); break;
      case B_SET: if (o.a >= size) return true; a.set_bit(o.a, true); ma[o.a] = true; break;
      case B_SET_LAST0: if (!size) return true; a.set_bit(size - 1, false); ma[size - 1] = false; break;
      case B_CLEARBIT: if (!size) return true; a.clear_bit(size_t(0)); ma[0] = false; break;
      case B_XOR: if (o.a >= size) return true; a.xor_bit(o.a, true); ma[o.a] = !ma[o.a]; break;
      case B_ADD: if (o.a >= size) return true; a.add_bit(o.a, true); ma[o.a] = true; break;
      case B_FILL_ALL: if (!size) return true; a.fill_all(); ma.assign(size, true); break;
      case B_CLEAR_ALL: if (!size) return true; a.clear_all(); ma.assign(size, false); break;
      case B_TRUNC: a.truncate(uint32_t(o.a)); if (o.a < size) ma.resize(o.a); break;
      case B_CLEAR: a.clear(); ma.clear(); break;
      case B_FILL_BITS: if (size < 2) return true; a.fill_bits(1, size - 2); for (size_t i = 1; i < size - 1; i++) ma[i] = true; break;
      case B_CLEAR_BITS: { if (size <= 63) return true; size_t n = std::min<size_t>(2, size - 63); a.clear_bits(63, n); for (size_t i = 63; i < 63 + n; i++) ma[i] = false; break; }
      case B_AND: a.and_(b); for (size_t i = 0; i < size; i++) ma[i] = ma[i] && (i < mb.size() && mb[i]); break;
      case B_OR: a.or_(b); for (size_t i = 0; i < size; i++) ma[i] = ma[i] || (i < mb.size() && mb[i]); break;
      case B_ANDNOT: a.and_not(b); for (size_t i = 0; i < size; i++) ma[i] = ma[i] && !(i < mb.size() && mb[i]); break;
      case B_COPY: if (a.copy_from(arena, b) != Error::kOk) FAIL("error", "copy_from failed"); ma = mb; break;
      case B_SWAP: a.swap(b); ma.swap(mb); break;
      case B_RELEASE: a.release(arena); ma.clear(); break;
      case B_BAD: {
        if (a.resize(arena, SIZE_MAX, true) == Error::kOk) FAIL("accepted", "resize(SIZE_MAX) reported success");
        break;
      }
    }
    return true;
  }
  static std::string bits(const std::vector<bool>& m) { std::string s; for (bool x : m) s += x ? '1' : '0'; return s; }
  std::string canon() {
    AV av;
    if (!arena_view(arena, av)) return "BROKEN:" + g_clause;
    return arena_canon(arena, av) + "a" + loc(av, a.data()) + "c" + std::to_string(a.capacity()) + ":" + bits(ma) + "b" + loc(av, b.data()) + "c" + std::to_string(b.capacity()) + ":" + bits(mb);
  }
};

// ------------------------------------------------------------------------------------------------------------
// part "bitprims": Support::bit_vector_* / BitVectorIterator / BitVectorOpIterator / BitWordIterator / BitOps sweeps
// ------------------------------------------------------------------------------------------------------------
template<class T>
struct GuardBuf {
  static constexpr size_t W = 4;
  T w[W + 2];
  static constexpr T G = T(0x5AA55AA55AA55AA5ull);
  void init(T v) { w[0] = G; w[W + 1] = G; for (size_t i = 1; i <= W; i++) w[i] = v; }
  T* buf() { return w + 1; }
  bool guards() const { return w[0] == G && w[W + 1] == G; }
  bool get(size_t i) const { return (w[1 + i / (sizeof(T) * 8)] >> (i % (sizeof(T) * 8))) & 1; }
};

template<class T>
static bool prim_fill_clear(size_t start, size_t count, int init, bool fill) {
  constexpr size_t B = sizeof(T) * 8, N = GuardBuf<T>::W * B;
  static const T inits[3] = {T(0), T(~T(0)), T(0xA5A5A5A5A5A5A5A5ull)};
  GuardBuf<T> g, ref; g.init(inits[init]); ref.init(inits[init]);
  if (fill) Support::bit_vector_fill(g.buf(), start, count); else Support::bit_vector_clear(g.buf(), start, count);
  if (!g.guards()) FAIL("oob", "wrote outside the %zu-bit buffer", N);
  for (size_t i = 0; i < N; i++) {
    bool exp = (i >= start && i < start + count) ? fill : ref.get(i);
    if (g.get(i) != exp) FAIL("content", "bit %zu is %d, expected %d", i, int(g.get(i)), int(exp));
  }
  return true;
}

template<class T>
static bool prim_bit(size_t index, int init, int opk, bool value) {
  constexpr size_t B = sizeof(T) * 8, N = GuardBuf<T>::W * B;
  static const T inits[3] = {T(0), T(~T(0)), T(0xA5A5A5A5A5A5A5A5ull)};
  GuardBuf<T> g, ref; g.init(inits[init]); ref.init(inits[init]);
  bool old = ref.get(index), exp = old;
  if (Support::bit_vector_get_bit(g.buf(), index) != old) FAIL("get_bit", "bit_vector_get_bit(%zu) is wrong", index);
  Span<T> sp(g.buf(), GuardBuf<T>::W);
  switch (opk) {
    case 0: Support::bit_vector_set_bit(g.buf(), index, value); exp = value; break;
    case 1: Support::bit_vector_or_bit(g.buf(), index, value); exp = old || value; break;
    case 2: Support::bit_vector_xor_bit(g.buf(), index, value); exp = old != value; break;
    // BitOps::set_bit/or_bit/xor_bit/clear_bit (arenabitset_p.h) cannot be instantiated (T& bound to an element of a const Span): dead code, not testable
  }
  if (!g.guards()) FAIL("oob", "wrote outside the buffer");
  if (BitOps::bit_at(sp, index) != exp) FAIL("bit_at", "BitOps::bit_at(%zu) disagrees after the update", index);
  for (size_t i = 0; i < N; i++) { bool e = i == index ? exp : ref.get(i); if (g.get(i) != e) FAIL("content", "bit %zu is %d, expected %d", i, int(g.get(i)), int(e)); }
  return true;
}

template<class T>
static bool prim_index_of(size_t start, size_t target, bool value, bool later) {
  constexpr size_t B = sizeof(T) * 8, N = GuardBuf<T>::W * B;
  GuardBuf<T> g; g.init(value ? T(0) : T(~T(0)));
  auto put = [&](size_t i) { if (value) g.buf()[i / B] |= T(1) << (i % B); else g.buf()[i / B] &= T(~(T(1) << (i % B))); };
  put(target);
  if (later && target + 1 < N) put(N - 1);
  if (start > 0) put(start - 1);      // a match before `start` must be ignored
  size_t exp = (start > 0 && start - 1 == target) ? target : target;
  size_t got = Support::bit_vector_index_of(g.buf(), start, value);
  if (got != exp) FAIL("result", "returned %zu, first matching bit at or after start is %zu", got, exp);
  return true;
}

static const size_t kBitPos[7] = {0, 1, 63, 64, 65, 127, 128};
static void subset_words(unsigned mask, uint64_t w[3]) { w[0] = w[1] = w[2] = 0; for (int i = 0; i < 7; i++) if (mask & (1u << i)) w[kBitPos[i] / 64] |= uint64_t(1) << (kBitPos[i] % 64); }

static bool prim_iter(unsigned mask, size_t start, bool ones) {
  uint64_t w[3];
  subset_words(mask, w);
  if (ones) w[0] = w[1] = w[2] = ~uint64_t(0);
  Support::BitVectorIterator<uint64_t> it(Span<const uint64_t>(w, 3), start);
  for (size_t i = start; i < 192; i++) {
    if (!((w[i / 64] >> (i % 64)) & 1)) continue;
    if (!it.has_next()) FAIL("missing", "iteration ends before set bit %zu", i);
    if (it.peek_next() != i) FAIL("peek", "peek_next() is %zu, expected %zu", it.peek_next(), i);
    size_t got = it.next();
    if (got != i) FAIL("order", "next() is %zu, expected %zu", got, i);
  }
  if (it.has_next()) FAIL("extra", "iteration continues beyond the last set bit");
  return true;
}

template<class Op>
static bool prim_opiter(unsigned ma, unsigned mb, size_t start, uint64_t (*ref)(uint64_t, uint64_t)) {
  uint64_t a[3], b[3], r[3];
  subset_words(ma, a); subset_words(mb, b);
  for (int i = 0; i < 3; i++) r[i] = ref(a[i], b[i]);
  Support::BitVectorOpIterator<uint64_t, Op> it(a, b, 3, start);
  for (size_t i = start; i < 192; i++) {
    if (!((r[i / 64] >> (i % 64)) & 1)) continue;
    if (!it.has_next()) FAIL("missing", "iteration ends before bit %zu", i);
    size_t got = it.next();
    if (got != i) FAIL("order", "next() is %zu, expected %zu", got, i);
  }
  if (it.has_next()) FAIL("extra", "iteration continues beyond the last result bit");
  return true;
}

template<class T>
static bool prim_worditer(unsigned mask) {
  constexpr unsigned B = sizeof(T) * 8;
  const unsigned pos[6] = {0, 1, B / 2 - 1, B / 2, B - 2, B - 1};
  T w = 0;
  for (int i = 0; i < 6; i++) if (mask & (1u << i)) w |= T(T(1) << pos[i]);
  Support::BitWordIterator<T> it(w);
  for (unsigned i = 0; i < B; i++) {
    if (!((w >> i) & 1)) continue;
    if (!it.has_next()) FAIL("missing", "iteration ends before bit %u", i);
    uint32_t got = it.next();
    if (got != i) FAIL("order", "next() is %u, expected %u", got, i);
  }
  if (it.has_next()) FAIL("extra", "iteration continues beyond the last set bit");
  return true;
}

#define PRIM_CASE(opk, text, call) do { if (c.mine(idx++)) { c.n("evaluations")++; c.n("distinct_nontrivial")++; c.n("traces")++; c.n("states")++; c.n("transitions")++; \
    if (!(call)) sweep_violation("bitprims", opk, text); } } while (0)

static void part_bitprims(const std::string* only = nullptr) {
  vh::Ctx& c = vh::ctx();
  g_part = "bitprims";
  long long idx = 0;
  char t[200];
  // only != nullptr: replay of one case text (every case is regenerated and compared by text)
  auto want = [&](const char* text) { return !only || *only == text; };
  for (int ty = 0; ty < 2; ty++) {
    size_t N = ty == 0 ? 256 : 128;
    for (int fill = 0; fill < 2; fill++) for (int init = 0; init < 3; init++) for (size_t start = 0; start <= N; start++) for (size_t count = 0; start + count <= N; count++) {
      snprintf(t, sizeof t, "%s<u%d> start=%zu count=%zu init=%d", fill ? "bit_vector_fill" : "bit_vector_clear", ty == 0 ? 64 : 32, start, count, init);
      if (!want(t)) continue;
      PRIM_CASE(fill ? "bit_vector_fill" : "bit_vector_clear", t, ty == 0 ? prim_fill_clear<uint64_t>(start, count, init, fill) : prim_fill_clear<uint32_t>(start, count, init, fill));
    }
    static const char* on[3] = {"bit_vector_set_bit", "bit_vector_or_bit", "bit_vector_xor_bit"};
    for (int opk = 0; opk < 3; opk++) for (int init = 0; init < 3; init++) for (int v = 0; v < 2; v++) for (size_t i = 0; i < N; i++) {
      snprintf(t, sizeof t, "%s<u%d> index=%zu value=%d init=%d", on[opk], ty == 0 ? 64 : 32, i, v, init);
      if (!want(t)) continue;
      PRIM_CASE(on[opk], t, ty == 0 ? prim_bit<uint64_t>(i, init, opk, v) : prim_bit<uint32_t>(i, init, opk, v));
    }
    for (int v = 0; v < 2; v++) for (int later = 0; later < 2; later++) for (size_t start = 0; start < N; start++) for (size_t target = start; target < N; target++) {
      snprintf(t, sizeof t, "bit_vector_index_of<u%d> start=%zu target=%zu value=%d later=%d", ty == 0 ? 64 : 32, start, target, v, later);
      if (!want(t)) continue;
      PRIM_CASE("bit_vector_index_of", t, ty == 0 ? prim_index_of<uint64_t>(start, target, v, later) : prim_index_of<uint32_t>(start, target, v, later));
    }
  }
  static const size_t starts[11] = {0, 1, 63, 64, 65, 127, 128, 129, 190, 191, 192};
  for (unsigned m = 0; m <= 128; m++) for (size_t s : starts) {
    snprintf(t, sizeof t, "BitVectorIterator mask=%u start=%zu", m, s);
    if (!want(t)) continue;
    PRIM_CASE("BitVectorIterator", t, prim_iter(m & 127, s, m == 128));
  }
  for (int op = 0; op < 4; op++) for (unsigned ma = 0; ma < 128; ma++) for (unsigned mb = 0; mb < 128; mb++) for (size_t s : starts) {
    static const char* nm[4] = {"And", "Or", "Xor", "AndNot"};
    snprintf(t, sizeof t, "BitVectorOpIterator<%s> a=%u b=%u start=%zu", nm[op], ma, mb, s);
    if (!want(t)) continue;
    bool ok = true;
    if (c.mine(idx++)) {
      c.n("evaluations")++; c.n("distinct_nontrivial")++; c.n("traces")++; c.n("states")++; c.n("transitions")++;
      switch (op) {
        case 0: ok = prim_opiter<Support::And>(ma, mb, s, [](uint64_t x, uint64_t y) { return x & y; }); break;
        case 1: ok = prim_opiter<Support::Or>(ma, mb, s, [](uint64_t x, uint64_t y) { return x | y; }); break;
        case 2: ok = prim_opiter<Support::Xor>(ma, mb, s, [](uint64_t x, uint64_t y) { return x ^ y; }); break;
        case 3: ok = prim_opiter<Support::AndNot>(ma, mb, s, [](uint64_t x, uint64_t y) { return x & ~y; }); break;
      }
      if (!ok) sweep_violation("bitprims", std::string("BitVectorOpIterator<") + nm[op] + ">", t);
    }
  }
  for (unsigned m = 0; m < 64; m++) {
    snprintf(t, sizeof t, "BitWordIterator<u64> mask=%u", m);
    if (want(t)) PRIM_CASE("BitWordIterator", t, prim_worditer<uint64_t>(m));
    snprintf(t, sizeof t, "BitWordIterator<u32> mask=%u", m);
    if (want(t)) PRIM_CASE("BitWordIterator", t, prim_worditer<uint32_t>(m));
  }
  g_bounds += "bitprims:bit_vector_fill/clear all (start,count) in a 4-word buffer x 3 initial patterns x {u64,u32}; set/or/xor/clear/get bit all indexes; index_of all (start,target); "
              "BitVectorIterator / BitVectorOpIterator{And,Or,Xor,AndNot} all subsets of bit positions {0,1,63,64,65,127,128} x 11 start offsets; BitWordIterator 64 masks x {u64,u32} ";
}

// ------------------------------------------------------------------------------------------------------------
// part "pool": two ArenaPool instances of different chunk sizes on one arena
// ------------------------------------------------------------------------------------------------------------
struct P8 { uint64_t x; };
struct P20 { uint32_t x[5]; };
enum PK { P_ALLOC_A, P_ALLOC_B, P_REL_A, P_REL_B, P_RESET_SOFT, P_RESET_HARD };
struct POp { PK k; int a; const char* name; };
static const POp kPoolOps[] = {{P_ALLOC_A, 0, "A.alloc()"}, {P_ALLOC_B, 0, "B.alloc()"}, {P_REL_A, 0, "A.release(oldest)"}, {P_REL_A, 1, "A.release(newest)"},
                               {P_REL_B, 0, "B.release(oldest)"}, {P_REL_B, 1, "B.release(newest)"}, {P_RESET_SOFT, 0, "reset_soft()"}, {P_RESET_HARD, 0, "reset_hard()"}};
struct PoolCfg { size_t stat; };

struct PoolSys {
  ArenaBox box;
  Arena& arena;
  ArenaPool<P8> pa;
  ArenaPool<P20> pb;
  struct Chunk { uint8_t* p; uint8_t pat; };
  std::vector<Chunk> la, lb;
  size_t pooled_a = 0, pooled_b = 0;
  unsigned counter = 0;
  PoolSys(const PoolCfg& c) : box(c.stat), arena(*box.a) { hist_reset(); }
  int num_ops() const { return int(sizeof(kPoolOps) / sizeof(kPoolOps[0])); }
  std::string op_name(int op) const { return kPoolOps[op].name; }

  template<class Pool>
  bool pooled(Pool& p, size_t n, const char* what, std::vector<Live>& out, const AV& av) {
    size_t guard = 0;
    for (auto* l = p._data; l; l = l->next) {
      if (block_of(av, (const uint8_t*)l, n) < 0) FAIL("pool-entry-outside", "%s is not inside a block the arena owns", what);
      out.push_back(Live{(const uint8_t*)l, n, false, what});
      if (++guard > 100000) FAIL("pool-cycle", "pool free list does not terminate");
    }
    return true;
  }
  bool check() {
    if (pa.pooled_item_count() != pooled_a) FAIL("pooled-count", "pool A holds %zu chunks, the model %zu", pa.pooled_item_count(), pooled_a);
    if (pb.pooled_item_count() != pooled_b) FAIL("pooled-count", "pool B holds %zu chunks, the model %zu", pb.pooled_item_count(), pooled_b);
    AV av;
    if (!arena_view(arena, av)) return false;
    std::vector<Live> ls, fr;
    for (auto& ch : la) ls.push_back(Live{ch.p, 8, false, "a live chunk of pool A"});
    for (auto& ch : lb) ls.push_back(Live{ch.p, 24, false, "a live chunk of pool B"});
    if (!pooled(pa, 8, "a pooled chunk of pool A", fr, av) || !pooled(pb, 24, "a pooled chunk of pool B", fr, av)) return false;
    if (!arena_partition(arena, av, ls, &fr)) return false;
    for (auto& ch : la) for (int i = 0; i < 8; i++) if (ch.p[i] != ch.pat) FAIL("live-chunk-corrupted", "a live chunk of pool A was overwritten");
    for (auto& ch : lb) for (int i = 0; i < 20; i++) if (ch.p[i] != ch.pat) FAIL("live-chunk-corrupted", "a live chunk of pool B was overwritten");
    return true;
  }
  bool apply(int op, std::string& why) {
    hist_push(op);
    const POp& o = kPoolOps[op];
    g_opkind = opkind_of(o.name);
    bool ok = step(o) && check();
    if (!ok) { why = g_why; box.broken = true; }
    return ok;
  }
  bool step(const POp& o) {
    switch (o.k) {
      case P_ALLOC_A: case P_ALLOC_B: {
        bool A = o.k == P_ALLOC_A;
        uint8_t* p = A ? (uint8_t*)pa.alloc(arena) : (uint8_t*)pb.alloc(arena);
        if (!p) FAIL("null", "alloc returned null");
        if (uintptr_t(p) % 8) FAIL("alignment", "chunk is not 8-byte aligned");
        uint8_t pat = uint8_t(1 + (counter++ % 250));
        memset(p, pat, A ? 8 : 20);
        (A ? la : lb).push_back(Chunk{p, pat});
        size_t& pooledn = A ? pooled_a : pooled_b;
        if (pooledn) pooledn--;     // a pooled chunk must be reused before the arena is asked again (checked through pooled_item_count)
        break;
      }
      case P_REL_A: case P_REL_B: {
        bool A = o.k == P_REL_A;
        auto& l = A ? la : lb;
        if (l.empty()) return true;
        size_t i = o.a == 0 ? 0 : l.size() - 1;
        if (A) pa.release(reinterpret_cast<P8*>(l[i].p)); else pb.release(reinterpret_cast<P20*>(l[i].p));
        l.erase(l.begin() + i);
        (A ? pooled_a : pooled_b)++;
        break;
      }
      case P_RESET_SOFT: case P_RESET_HARD:
        pa.reset(); pb.reset();
        arena.reset(o.k == P_RESET_SOFT ? ResetPolicy::kSoft : ResetPolicy::kHard);
        la.clear(); lb.clear(); pooled_a = pooled_b = 0;
        break;
    }
    return true;
  }
  std::string canon() {
    AV av;
    if (!arena_view(arena, av)) return "BROKEN:" + g_clause;
    std::string s = arena_canon(arena, av) + "A";
    for (auto& ch : la) s += loc(av, ch.p) + ",";
    s += "|"; size_t g = 0;
    for (auto* l = pa._data; l && g < 1000; l = l->next, g++) s += loc(av, l) + ",";
    s += "B";
    for (auto& ch : lb) s += loc(av, ch.p) + ",";
    s += "|"; g = 0;
    for (auto* l = pb._data; l && g < 1000; l = l->next, g++) s += loc(av, l) + ",";
    return s;
  }
};

// ------------------------------------------------------------------------------------------------------------
// part "string": asmjit::String / StringTmp<N> s and String t; model std::string
// ------------------------------------------------------------------------------------------------------------
static char SRC[4096];
static void init_src() { for (size_t i = 0; i < sizeof SRC; i++) SRC[i] = char('a' + (i * 7 + i / 26) % 26); SRC[sizeof SRC - 1] = 0; }

enum SK { S_ASSIGN, S_ASSIGN_NULL, S_ASSIGN_CSTR, S_ASSIGN_SPAN, S_ASSIGN_STR, S_ASSIGN_CHAR, S_ASSIGN_CHARS, S_APPEND, S_APPEND_CSTR, S_APPEND_STR, S_APPEND_CHAR,
          S_APPEND_CHARS, S_NUM, S_HEX, S_FMT, S_PAD, S_TRUNC, S_PREP_ASSIGN, S_PREP_APPEND, S_PREP_BAD, S_CLEAR, S_RESET, S_SWAP, S_MOVE };
struct SOp { SK k; int a; const char* name; };
// symbolic lengths: -1 = capacity, -2 = capacity+1, -3 = remaining (capacity-size), -4 = remaining+1, -5 = size-1, -6 = size+1, -7 = size+3, -8 = size
static const SOp kStrOps[] = {
  {S_ASSIGN, 0, "assign(data,0)"}, {S_ASSIGN, 1, "assign(data,1)"}, {S_ASSIGN, 30, "assign(data,30)"}, {S_ASSIGN, 31, "assign(data,31)"}, {S_ASSIGN, -1, "assign(data,cap)"}, {S_ASSIGN, -2, "assign(data,cap+1)"},
  {S_ASSIGN_NULL, 0, "assign(nullptr)"}, {S_ASSIGN_CSTR, 0, "assign(cstr)"},
  {S_ASSIGN_SPAN, 0, "assign(span,0)"}, {S_ASSIGN_SPAN, 5, "assign(span,5)"},
  {S_ASSIGN_STR, 0, "assign(String)"}, {S_ASSIGN_CHAR, 0, "assign(char)"},
  {S_ASSIGN_CHARS, 0, "assign_chars(c,0)"}, {S_ASSIGN_CHARS, 31, "assign_chars(c,31)"},
  {S_APPEND, 1, "append(data,1)"}, {S_APPEND, 29, "append(data,29)"}, {S_APPEND, -3, "append(data,remaining)"}, {S_APPEND, -4, "append(data,remaining+1)"},
  {S_APPEND_CSTR, 0, "append(cstr)"}, {S_APPEND_STR, 0, "append(String)"}, {S_APPEND_CHAR, 0, "append(char)"},
  {S_APPEND_CHARS, 0, "append_chars(c,0)"}, {S_APPEND_CHARS, -4, "append_chars(c,remaining+1)"},
  {S_NUM, 0, "append_int(-123)"}, {S_NUM, 1, "append_uint(UINT64_MAX,base2)"}, {S_NUM, 2, "append_uint(255,16,alternate)"}, {S_NUM, 3, "append_uint(7,10,width5)"},
  {S_NUM, 4, "assign_int(0)"}, {S_NUM, 5, "append_int(5,showsign)"}, {S_NUM, 6, "append_uint(5,base3)"}, {S_NUM, 7, "append_int(INT64_MIN,base16,width300)"},
  {S_HEX, 0, "append_hex(4,':')"}, {S_HEX, 1, "append_hex(16)"}, {S_HEX, 2, "assign_hex(0)"},
  {S_FMT, 0, "append_format(%s,remaining)"}, {S_FMT, 1, "append_format(%d-%s)"}, {S_FMT, 2, "assign_format(empty)"}, {S_FMT, 3, "append_format(%s,1100)"}, {S_FMT, 4, "assign_format(%s,cap)"},
  {S_PAD, -7, "pad_end(size+3)"}, {S_PAD, -2, "pad_end(cap+1)"}, {S_PAD, -5, "pad_end(size-1)"},
  {S_TRUNC, 0, "truncate(0)"}, {S_TRUNC, -5, "truncate(size-1)"}, {S_TRUNC, -6, "truncate(size+1)"},
  {S_PREP_ASSIGN, 0, "prepare(assign,0)"}, {S_PREP_ASSIGN, 5, "prepare(assign,5)"}, {S_PREP_ASSIGN, -2, "prepare(assign,cap+1)"},
  {S_PREP_APPEND, 0, "prepare(append,0)"}, {S_PREP_APPEND, 5, "prepare(append,5)"}, {S_PREP_APPEND, -4, "prepare(append,remaining+1)"},
  {S_PREP_BAD, 0, "prepare(assign,SIZE_MAX-1)"}, {S_PREP_BAD, 1, "prepare(append,SIZE_MAX-1-size)"},
  {S_CLEAR, 0, "clear()"}, {S_RESET, 0, "reset()"}, {S_SWAP, 0, "swap(t)"}, {S_MOVE, 0, "move_assign(t)"},
};
static const int kNumStrOps = int(sizeof(kStrOps) / sizeof(kStrOps[0]));
struct StrCfg { int kind; };   // 0 String, 1 StringTmp<136>, 2 StringTmp<8>

static bool check_str(const String& s, const std::string& m, const char* nm) {
  if (s.size() != m.size()) FAIL("size", "%s.size() is %zu, the model holds %zu chars", nm, s.size(), m.size());
  if (s.is_empty() != m.empty()) FAIL("is_empty", "%s.is_empty() disagrees with size %zu", nm, m.size());
  if (s.capacity() < s.size()) FAIL("capacity", "%s.capacity() %zu < size() %zu", nm, s.capacity(), s.size());
  const char* d = s.data();
  if (!d) FAIL("data-null", "%s.data() is null", nm);
  for (size_t i = 0; i < m.size(); i++) if (d[i] != m[i]) FAIL("content", "%s char %zu is 0x%02x, the model has 0x%02x (size %zu, capacity %zu)", nm, i, (unsigned char)d[i], (unsigned char)m[i], m.size(), s.capacity());
  if (d[m.size()] != 0) FAIL("nul", "%s is not NUL terminated at size %zu (capacity %zu)", nm, m.size(), s.capacity());
  if (s.end() != d + m.size() || s.begin() != d) FAIL("begin-end", "%s begin()/end() do not delimit the content", nm);
  if (!s.equals(m.c_str()) || !s.equals(m.data(), m.size()) || !(s == m.c_str())) FAIL("equals", "%s.equals(own content) is false", nm);
  std::string other = m + "x";
  if (s.equals(other.c_str()) || s.equals(other.data(), other.size())) FAIL("equals", "%s.equals(content + 'x') is true", nm);
  if (!m.empty()) { other = m.substr(0, m.size() - 1); if (s.equals(other.c_str())) FAIL("equals", "%s.equals(proper prefix) is true", nm); }
  if (!s.is_large_or_external() && s.capacity() != String::kSSOCapacity) FAIL("capacity", "%s small string reports capacity %zu", nm, s.capacity());
  return true;
}

static bool hex_eq_nocase(const std::string& a, const std::string& b) {
  if (a.size() != b.size()) return false;
  for (size_t i = 0; i < a.size(); i++) if (tolower((unsigned char)a[i]) != tolower((unsigned char)b[i])) return false;
  return true;
}

struct StrSys {
  String s0;
  StringTmp<136> s1;
  StringTmp<8> s2;
  String t;
  String* sp;
  std::string ms, mt;
  bool nocase = false;   // last op produced hex digits: compare case-insensitively once, then adopt

  StrSys(const StrCfg& c) { hist_reset(); sp = c.kind == 0 ? &s0 : c.kind == 1 ? static_cast<String*>(&s1) : static_cast<String*>(&s2); }
  int num_ops() const { return kNumStrOps; }
  std::string op_name(int op) const { return kStrOps[op].name; }
  String& S() { return *sp; }

  size_t len(int a) {
    size_t size = S().size(), cap = S().capacity();
    switch (a) {
      case -1: return cap; case -2: return cap + 1; case -3: return cap - size; case -4: return cap - size + 1;
      case -5: return size ? size - 1 : 0; case -6: return size + 1; case -7: return size + 3; case -8: return size;
    }
    return size_t(a);
  }

  bool apply(int op, std::string& why) {
    hist_push(op);
    const SOp& o = kStrOps[op];
    g_opkind = o.name;      // full op text: the argument class is part of the clause
    nocase = false;
    bool ok = step(o);
    if (ok && nocase) {
      // hex digits may be either case: accept the implementation's case if it matches case-insensitively
      std::string got(S().data(), S().size());
      if (hex_eq_nocase(got, ms)) ms = got;
    }
    if (ok && !(check_str(S(), ms, "s") && check_str(t, mt, "t"))) {
      ok = false;
      auto well_formed = [](const String& x) { return x.data() && x.size() <= x.capacity() && x.data()[x.size()] == 0 && strlen(x.data()) == x.size(); };
      if ((g_clause == "size" || g_clause == "content") && well_formed(S()) && well_formed(t)) {
        // a well formed string with other contents than the textbook type: report, adopt, go on
        soft_violation(hist_names(*this));
        ms.assign(S().data(), S().size()); mt.assign(t.data(), t.size());
        ok = check_str(S(), ms, "s") && check_str(t, mt, "t");
      }
    }
    if (ok && (S() == t) != (ms == mt)) { g_clause = "equals"; g_why = "s == t disagrees with the models"; ok = false; }
    if (!ok) why = g_why;
    return ok;
  }

  bool expect_ok(Error e, const char* what) { if (e != Error::kOk) FAIL("error", "%s failed with error %u", what, unsigned(e)); return true; }

  bool step(const SOp& o) {
    String& s = S();
    size_t size = s.size();
    if (size > 3000) return true;     // keep the source window valid: no further growth
    switch (o.k) {
      case S_ASSIGN: { size_t n = len(o.a); if (n > 3000) return true; if (!expect_ok(s.assign(SRC, n), o.name)) return false; ms.assign(SRC, n); break; }
      case S_ASSIGN_NULL: if (!expect_ok(s.assign(nullptr, SIZE_MAX), o.name)) return false; ms.clear(); break;
      case S_ASSIGN_CSTR: if (!expect_ok(s.assign("hello"), o.name)) return false; ms = "hello"; break;
      case S_ASSIGN_SPAN: if (!expect_ok(s.assign(Span<const char>(SRC + 3, size_t(o.a))), o.name)) return false; ms.assign(SRC + 3, size_t(o.a)); break;
      case S_ASSIGN_STR: if (!expect_ok(s.assign(t), o.name)) return false; ms = mt; break;
      case S_ASSIGN_CHAR: if (!expect_ok(s.assign('x'), o.name)) return false; ms = "x"; break;
      case S_ASSIGN_CHARS: if (!expect_ok(s.assign_chars('q', size_t(o.a)), o.name)) return false; ms.assign(size_t(o.a), 'q'); break;
      case S_APPEND: { size_t n = len(o.a); if (n > 3000) return true; if (!expect_ok(s.append(SRC + 1, n), o.name)) return false; ms.append(SRC + 1, n); break; }
      case S_APPEND_CSTR: if (!expect_ok(s.append("xyz"), o.name)) return false; ms += "xyz"; break;
      case S_APPEND_STR: if (!expect_ok(s.append(t), o.name)) return false; ms += mt; break;
      case S_APPEND_CHAR: if (!expect_ok(s.append('c'), o.name)) return false; ms += 'c'; break;
      case S_APPEND_CHARS: { size_t n = len(o.a); if (n > 3000) return true; if (!expect_ok(s.append_chars('z', n), o.name)) return false; ms.append(n, 'z'); break; }
      case S_NUM: {
        Error e = Error::kOk;
        switch (o.a) {
          case 0: e = s.append_int(-123); ms += "-123"; break;
          case 1: e = s.append_uint(UINT64_MAX, 2); ms += std::string(64, '1'); break;
          case 2: e = s.append_uint(255, 16, 0, StringFormatFlags::kAlternate); ms += "0xFF"; nocase = true; break;
          case 3: e = s.append_uint(7, 10, 5); ms += "00007"; break;
          case 4: e = s.assign_int(0); ms = "0"; break;
          case 5: e = s.append_int(5, 10, 0, StringFormatFlags::kShowSign); ms += "+5"; break;
          case 6: {
            e = s.append_uint(5, 3);
            if (e == Error::kOk) FAIL("accepted", "base 3 was accepted");
            return true;
          }
          case 7: {
            // width beyond the internal limit: only the shape is demanded: '-' , zero padding, then the 16 digits
            e = s.append_int(INT64_MIN, 16, 300);
            if (e != Error::kOk) FAIL("error", "%s failed", o.name);
            std::string got(s.data(), s.size());
            if (got.size() < size + 17 || got.compare(0, size, ms) != 0) FAIL("content", "%s damaged the existing content", o.name);
            std::string tail = got.substr(size);
            if (tail[0] != '-' || !hex_eq_nocase(tail.substr(tail.size() - 16), "8000000000000000")) FAIL("content", "%s produced '%.40s...'", o.name, tail.c_str());
            for (size_t i = 1; i + 16 < tail.size(); i++) if (tail[i] != '0') FAIL("content", "%s padding contains '%c'", o.name, tail[i]);
            ms = got;
            return true;
          }
        }
        if (!expect_ok(e, o.name)) return false;
        break;
      }
      case S_HEX: {
        static const uint8_t bytes[16] = {0xDE, 0xAD, 0xBE, 0xEF, 0x00, 0x01, 0x7F, 0x80, 0xFF, 0x10, 0x0A, 0xA0, 0x99, 0x5C, 0xC5, 0x3B};
        nocase = true;
        if (o.a == 0) { if (!expect_ok(s.append_hex(bytes, 4, ':'), o.name)) return false; ms += "DE:AD:BE:EF"; }
        else if (o.a == 1) { if (!expect_ok(s.append_hex(bytes, 16), o.name)) return false; ms += "DEADBEEF00017F80FF100AA0995CC53B"; }
        else { if (!expect_ok(s.assign_hex(bytes, 0), o.name)) return false; ms.clear(); }
        break;
      }
      case S_FMT: {
        switch (o.a) {
          case 0: { size_t n = len(-3); if (n > 3000) return true; std::string arg(SRC + 2, n); if (!expect_ok(s.append_format("%s", arg.c_str()), o.name)) return false; ms += arg; break; }
          case 1: if (!expect_ok(s.append_format("%d-%s", 42, "ab"), o.name)) return false; ms += "42-ab"; break;
          case 2: if (!expect_ok(s.assign_format("%s", ""), o.name)) return false; ms.clear(); break;
          case 3: { std::string arg(SRC + 5, 1100); if (!expect_ok(s.append_format("%s", arg.c_str()), o.name)) return false; ms += arg; break; }
          case 4: { size_t n = len(-1); if (n > 3000) return true; std::string arg(SRC + 4, n); if (!expect_ok(s.assign_format("%s", arg.c_str()), o.name)) return false; ms = arg; break; }
        }
        break;
      }
      case S_PAD: { size_t n = len(o.a); if (n > 3000) return true; if (!expect_ok(s.pad_end(n, '.'), o.name)) return false; if (n > ms.size()) ms.append(n - ms.size(), '.'); break; }
      case S_TRUNC: { size_t n = len(o.a); if (!expect_ok(s.truncate(n), o.name)) return false; if (n < ms.size()) ms.resize(n); break; }
      case S_PREP_ASSIGN: case S_PREP_APPEND: {
        size_t n = len(o.a); if (n > 3000) return true;
        bool app = o.k == S_PREP_APPEND;
        char* p = s.prepare(app ? String::ModifyOp::kAppend : String::ModifyOp::kAssign, n);
        if (!p) FAIL("null", "%s returned null", o.name);
        if (p != s.data() + (app ? size : 0)) FAIL("pointer", "%s did not return data()+%zu", o.name, app ? size : size_t(0));
        memset(p, 'P', n);     // ASan checks the promised room
        if (app) ms.append(n, 'P'); else ms.assign(n, 'P');
        break;
      }
      case S_PREP_BAD: {
        char* p = o.a == 0 ? s.prepare(String::ModifyOp::kAssign, SIZE_MAX - 1) : s.prepare(String::ModifyOp::kAppend, SIZE_MAX - 1 - size);
        if (p) FAIL("accepted", "%s returned a buffer", o.name);
        break;
      }
      case S_CLEAR: if (!expect_ok(s.clear(), o.name)) return false; ms.clear(); break;
      case S_RESET: if (!expect_ok(s.reset(), o.name)) return false; ms.clear(); if (s.is_large_or_external()) FAIL("not-reset", "reset() left a large/external string"); break;
      case S_SWAP: s.swap(t); ms.swap(mt); break;
      case S_MOVE: s = std::move(t); ms = mt; mt.clear(); break;
    }
    return true;
  }
  static std::string one(const String& x, const std::string& m) {
    return std::string(x.is_external() ? "E" : x.is_large_or_external() ? "L" : "S") + std::to_string(x.capacity()) + ":" + m;
  }
  std::string canon() { return one(S(), ms) + "|" + one(t, mt); }
};

// ------------------------------------------------------------------------------------------------------------
// part "arenastring": ArenaString<N>::set_data twice with all length pairs
// ------------------------------------------------------------------------------------------------------------
template<size_t N>
static bool arenastring_case(size_t l1, size_t l2, size_t stat, bool use_strlen) {
  alignas(16) static uint8_t buf[512];
  memset(buf, 0xA5, sizeof buf);
  Arena arena(1024, Span<uint8_t>(buf, stat));
  ArenaString<N> s;
  if (!s.is_empty() || s.size() != 0 || !s.is_embedded()) FAIL("initial", "a fresh ArenaString is not empty/embedded");
  std::vector<Live> ls;
  for (size_t l : {l1, l2}) {
    std::string src(SRC + 9, l);
    Error e = s.set_data(arena, src.c_str(), use_strlen ? SIZE_MAX : l);
    if (e != Error::kOk) FAIL("error", "set_data(%zu) failed", l);
    if (s.size() != l) FAIL("size", "size() is %u after set_data of %zu chars", s.size(), l);
    if (s.is_empty() != (l == 0)) FAIL("is_empty", "is_empty() wrong for %zu chars", l);
    const char* d = s.data();
    if (memcmp(d, src.data(), l) != 0) FAIL("content", "data() differs from the %zu chars stored", l);
    if (d[l] != 0) FAIL("nul", "data() is not NUL terminated at size %zu", l);
    if (s.is_embedded()) { if (d < reinterpret_cast<const char*>(&s) || d + l + 1 > reinterpret_cast<const char*>(&s) + sizeof(s)) FAIL("embedded-range", "embedded data of %zu chars leaves the %zu-byte structure", l, sizeof(s)); }
    else ls.push_back(Live{(const uint8_t*)d, l + 1, false, "external string data"});
    AV av;
    if (!arena_view(arena, av) || !arena_partition(arena, av, ls)) return false;
  }
  return true;
}

static void part_arenastring(const std::string* only = nullptr) {
  vh::Ctx& c = vh::ctx();
  g_part = "arenastring";
  long long idx = 0;
  char t[160];
#ifdef C18_ARENASTRING_WIDE
  const int n0 = 1, n1 = 3;
#else
  const int n0 = 0, n1 = 1;
#endif
  for (int n = n0; n < n1; n++) for (size_t stat : {size_t(0), size_t(256)}) for (int sl = 0; sl < 2; sl++) {
    size_t N = n == 0 ? 16 : n == 1 ? 32 : 64;
    for (size_t l1 = 0; l1 <= N + 12; l1++) for (size_t l2 = 0; l2 <= N + 12; l2++) {
      snprintf(t, sizeof t, "N=%zu l1=%zu l2=%zu static=%zu strlen=%d", N, l1, l2, stat, sl);
      if (only && *only != t) continue;
      if (!c.mine(idx++)) continue;
      g_cfg = t;
      c.n("evaluations")++; c.n("distinct_nontrivial")++; c.n("traces")++; c.n("states")++; c.n("transitions") += 2;
      bool ok = n == 0 ? arenastring_case<16>(l1, l2, stat, sl) : n == 1 ? arenastring_case<32>(l1, l2, stat, sl) : arenastring_case<64>(l1, l2, stat, sl);
      if (!ok) sweep_violation("arenastring", "set_data", t);
    }
  }
  g_bounds += "arenastring(" C18_HARNESS_NAME "):ArenaString<16 | 32,64> set_data(l1) then set_data(l2) for all l1,l2 in 0..N+12 x {explicit size, strlen} x {heap arena, dirty 256-byte static arena} ";
}

// ------------------------------------------------------------------------------------------------------------
// part "mix": pairs of containers interleaved on ONE arena, with raw allocations and arena.reset() as operations
// components: V vector<u32>, B bit set, H hash, S ArenaString<16>, P pool-backed tree
// ------------------------------------------------------------------------------------------------------------
enum MK { M_V_APPEND, M_V_RESIZE, M_V_REMOVE, M_V_RELEASE, M_V_BIG,
          M_B_RESIZE65, M_B_APPEND, M_B_RESIZE129, M_B_RELEASE, M_B_BIG,
          M_H_INSERT0, M_H_INSERT1, M_H_REMOVE, M_H_FILL, M_H_RELEASE,
          M_S_SHORT, M_S_LONG, M_S_LONGER,
          M_P_INSERT, M_P_REMOVE_MIN, M_P_REMOVE_MAX,
          M_RAW_ALLOC, M_RAW_FREE, M_RESET_SOFT, M_RESET_HARD };
static const char* kMixNames[] = {"V.append(1)", "V.resize_fit(cap+1)", "V.remove_at(0)", "V.release()", "V.reserve_grow(600)",
                                  "B.resize(65,0)", "B.append(1)", "B.resize(129,0)", "B.release()", "B.resize(1,0)",
                                  "H.insert(k0)", "H.insert(k1)", "H.remove(oldest)", "H.fill_to_threshold()", "H.release()",
                                  "S.set_data(5)", "S.set_data(40)", "S.set_data(300)",
                                  "P.insert(next)", "P.remove(min)", "P.remove(max)",
                                  "arena.alloc_reusable(48)", "arena.free_reusable(oldest)", "arena.reset(soft)", "arena.reset(hard)"};
static const int kMixFirst[6] = {M_V_APPEND, M_B_RESIZE65, M_H_INSERT0, M_S_SHORT, M_P_INSERT, M_RAW_ALLOC};   // component c owns [first[c], first[c+1])
struct MixCfg { int c1, c2; size_t stat; };
static const char kMixLetters[] = "VBHSP";

struct MixSys {
  ArenaBox box;
  Arena& arena;
  std::vector<int> ops;
  // V
  ArenaVector<uint32_t> v; std::vector<uint32_t> mv;
  // B
  ArenaBitSet b; std::vector<bool> mb;
  // H
  ArenaHash<HNode> h; HashModel mh; std::vector<HNode*> hall; int hid = 0; uint32_t filler = 0;
  // S
  ArenaString<16> s; std::string msr;
  // P
  ArenaPool<TNode> pool; ArenaTree<TNode> tree; std::map<uint32_t, TNode*> mt; std::vector<TNode*> tlive; size_t pooled = 0; uint32_t next_key = 0;
  // raw
  struct Raw { uint8_t* p; size_t alloc; uint8_t pat; };
  std::vector<Raw> raws; unsigned counter = 0;

  MixSys(const MixCfg& c) : box(c.stat), arena(*box.a) {
    hist_reset();
    for (int comp : {c.c1, c.c2, 5}) for (int k = kMixFirst[comp]; k < (comp == 5 ? int(M_RESET_HARD) + 1 : kMixFirst[comp + 1]); k++) ops.push_back(k);
  }
  int num_ops() const { return int(ops.size()); }
  std::string op_name(int op) const { return kMixNames[ops[op]]; }

  void drop_all() {   // arena.reset() invalidates everything: clients reset their containers without releasing
    v.reset(); mv.clear(); b.reset(); mb.clear(); h.reset(); mh.nodes.clear(); hall.clear(); s.reset(); msr.clear();
    pool.reset(); tree.reset(); mt.clear(); tlive.clear(); pooled = 0; raws.clear();
  }

  bool check() {
    if (!check_vec(v, mv, "V", false) || !check_bits(b, mb, "B") || !check_hash(h, mh, "H") || !check_tree(tree, mt, next_key)) return false;
    if (s.size() != msr.size() || memcmp(s.data(), msr.data(), msr.size()) != 0 || s.data()[msr.size()] != 0) FAIL("S-content", "ArenaString content differs from the model (%zu chars)", msr.size());
    if (pool.pooled_item_count() != pooled) FAIL("P-pooled-count", "the pool holds %zu chunks, the model %zu", pool.pooled_item_count(), pooled);
    AV av;
    if (!arena_view(arena, av)) return false;
    std::vector<Live> ls, fr;
    ls.push_back(Live{(const uint8_t*)v.data(), v.capacity() * 4, true, "the storage of vector V"});
    ls.push_back(Live{(const uint8_t*)b.data(), b.capacity() / 8, true, "the storage of bit set B"});
    if (h._data != h._embedded) ls.push_back(Live{(const uint8_t*)h._data, size_t(h._buckets_count) * sizeof(void*), true, "the bucket array of H"});
    for (HNode* n : hall) ls.push_back(Live{(const uint8_t*)n, sizeof(HNode), false, "a hash node"});
    if (!s.is_embedded()) ls.push_back(Live{(const uint8_t*)s.data(), msr.size() + 1, false, "external string data of S"});
    for (TNode* n : tlive) ls.push_back(Live{(const uint8_t*)n, sizeof(TNode), false, "a live tree node"});
    for (auto& r : raws) ls.push_back(Live{r.p, r.alloc, true, "a raw reusable block"});
    size_t guard = 0;
    for (auto* l = pool._data; l && guard < 100000; l = l->next, guard++) fr.push_back(Live{(const uint8_t*)l, sizeof(TNode), false, "a pooled tree node"});
    if (!arena_partition(arena, av, ls, &fr)) return false;
    for (auto& r : raws) if (!all_eq(r.p, r.alloc, r.pat)) FAIL("raw-block-corrupted", "a live raw block was overwritten");
    return true;
  }

  bool apply(int op, std::string& why) {
    hist_push(op);
    g_opkind = opkind_of(kMixNames[ops[op]]);
    bool ok = step(MK(ops[op])) && check();
    if (!ok) { why = g_why; box.broken = true; }
    return ok;
  }

  bool step(MK k) {
    switch (k) {
      case M_V_APPEND: if (v.append(arena, 1u) != Error::kOk) FAIL("error", "append failed"); mv.push_back(1); break;
      case M_V_RESIZE: { size_t n = v.capacity() + 1; if (v.resize_fit(arena, n) != Error::kOk) FAIL("error", "resize failed"); mv.resize(n, 0); break; }
      case M_V_REMOVE: if (mv.empty()) return true; v.remove_at(0); mv.erase(mv.begin()); break;
      case M_V_RELEASE: v.release(arena); mv.clear(); break;
      case M_V_BIG: if (v.reserve_grow(arena, 600) != Error::kOk) FAIL("error", "reserve_grow(600) failed"); if (v.capacity() < 600) FAIL("capacity", "capacity %zu after reserve_grow(600)", v.capacity()); break;
      case M_B_RESIZE65: if (b.resize(arena, 65, false) != Error::kOk) FAIL("error", "resize failed"); mb.resize(65, false); break;
      case M_B_APPEND: if (b.append(arena, true) != Error::kOk) FAIL("error", "append failed"); mb.push_back(true); break;
      case M_B_RESIZE129: if (b.resize(arena, 129, false) != Error::kOk) FAIL("error", "resize failed"); mb.resize(129, false); break;
      case M_B_RELEASE: b.release(arena); mb.clear(); break;
      case M_B_BIG: if (b.resize(arena, 1, false) != Error::kOk) FAIL("error", "resize failed"); mb.resize(1, false); break;
      case M_H_INSERT0: case M_H_INSERT1: {
        const HKey& key = kHKeys[k == M_H_INSERT0 ? 0 : 1];
        HNode* n = arena.new_oneshot<HNode>(key.hash, key.key, hid++);
        if (!n) FAIL("null", "node allocation failed");
        hall.push_back(n); h.insert(arena, n); mh.nodes.push_back(n);
        break;
      }
      case M_H_REMOVE: if (mh.nodes.empty()) return true; if (h.remove(arena, mh.nodes[0]) != mh.nodes[0]) FAIL("result", "remove did not return the node"); mh.nodes.erase(mh.nodes.begin()); break;
      case M_H_FILL:
        while (h.size() < h._buckets_grow && h.size() < 100000) {
          uint32_t f = filler++;
          HNode* n = arena.new_oneshot<HNode>((f % 3 == 0) ? (3 + f / 3) * kHM : 1000 + f * 7, 1000 + f, hid++);
          if (!n) FAIL("null", "node allocation failed");
          hall.push_back(n); h.insert(arena, n); mh.nodes.push_back(n);
        }
        break;
      case M_H_RELEASE: h.release(arena); mh.nodes.clear(); break;
      case M_S_SHORT: case M_S_LONG: case M_S_LONGER: {
        size_t n = k == M_S_SHORT ? 5 : k == M_S_LONG ? 40 : 300;
        msr.assign(SRC + 11, n);
        if (s.set_data(arena, msr.c_str(), n) != Error::kOk) FAIL("error", "set_data failed");
        break;
      }
      case M_P_INSERT: {
        TNode* n = pool.alloc(arena);
        if (!n) FAIL("null", "pool allocation failed");
        if (pooled) pooled--;
        n = new (static_cast<void*>(n)) TNode(next_key);
        tree.insert(n); mt[next_key] = n; tlive.push_back(n); next_key++;
        break;
      }
      case M_P_REMOVE_MIN: case M_P_REMOVE_MAX: {
        if (mt.empty()) return true;
        auto it = k == M_P_REMOVE_MIN ? mt.begin() : std::prev(mt.end());
        TNode* n = it->second;
        tree.remove(n); mt.erase(it);
        tlive.erase(std::find(tlive.begin(), tlive.end(), n));
        pool.release(n); pooled++;
        break;
      }
      case M_RAW_ALLOC: {
        size_t al = 0;
        uint8_t* p = arena.alloc_reusable<uint8_t>(48, Out(al));
        if (!p) FAIL("null", "alloc_reusable(48) returned null");
        if (al < 48) FAIL("allocated-size", "allocated_size %zu < 48", al);
        uint8_t pat = uint8_t(1 + (counter++ % 250));
        memset(p, pat, al);
        raws.push_back(Raw{p, al, pat});
        break;
      }
      case M_RAW_FREE: if (raws.empty()) return true; arena.free_reusable(raws[0].p, raws[0].alloc); raws.erase(raws.begin()); break;
      case M_RESET_SOFT: case M_RESET_HARD: drop_all(); arena.reset(k == M_RESET_SOFT ? ResetPolicy::kSoft : ResetPolicy::kHard); break;
    }
    return true;
  }

  std::string canon() {
    AV av;
    if (!arena_view(arena, av)) return "BROKEN:" + g_clause;
    std::string c = arena_canon(arena, av);
    c += "V" + loc(av, v.data()) + "c" + std::to_string(v.capacity()) + ":" + vh::hex(mv.data(), mv.size() * 4);
    c += "B" + loc(av, b.data()) + "c" + std::to_string(b.capacity()) + ":" + std::to_string(mb.size()) + "/" + std::to_string(std::count(mb.begin(), mb.end(), true));
    for (size_t i = 0; i < mb.size() && i < 200; i++) c += mb[i] ? '1' : '0';
    c += "H" + HashSys::table_canon(h, av) + "f" + std::to_string(filler) + "S" + std::to_string(msr.size()) + "@" + (s.is_embedded() ? std::string("emb") : loc(av, s.data()));
    c += "P" + tree_canon_rec(tree.root(), 0) + "k" + std::to_string(next_key) + "|";
    size_t g = 0;
    for (auto* l = pool._data; l && g < 1000; l = l->next, g++) c += loc(av, l) + ",";
    c += "R";
    for (auto& r : raws) c += loc(av, r.p) + ",";
    return c;
  }
};

static MixCfg mix_cfg_from(const std::string& name) {   // e.g. "VB-0", "HS-512"
  MixCfg c{0, 1, 0};
  c.c1 = int(strchr(kMixLetters, name[0]) - kMixLetters);
  c.c2 = int(strchr(kMixLetters, name[1]) - kMixLetters);
  c.stat = size_t(atol(name.substr(3).c_str()));
  return c;
}

// ------------------------------------------------------------------------------------------------------------
// driver
// ------------------------------------------------------------------------------------------------------------
static int opt_depth(int dflt) { std::string d = vh::ctx().opt("depth"); return d.empty() ? dflt : atoi(d.c_str()); }

template<class T> static void vec_run(const char* tname, size_t stat, int depth, bool ext) {
  VecCfg cfg{stat, ext};
  run_bfs<VecSys<T>, VecCfg>("vector", cfg, std::string(tname) + (ext ? "x-" : "-") + std::to_string(stat), depth);
}

// "vecsort": ArenaVector::sort on all permutations of <= 8 keys, all arrays over {0,1,2} of length <= 9, structured long arrays
static bool vecsort_case(const std::vector<uint32_t>& in, bool desc) {
  Arena arena(4096);
  ArenaVector<uint32_t> v;
  for (uint32_t x : in) if (v.append(arena, x) != Error::kOk) FAIL("error", "append failed");
  std::vector<uint32_t> m = in;
  if (desc) { v.sort(Support::Compare<Support::SortOrder::kDescending>()); std::sort(m.begin(), m.end(), std::greater<uint32_t>()); }
  else { v.sort(); std::sort(m.begin(), m.end()); }
  if (v.size() != m.size()) FAIL("size", "sort changed the size");
  for (size_t i = 0; i < m.size(); i++) if (v[i] != m[i]) FAIL("content", "element %zu is %u, sorted model has %u (n=%zu)", i, v[i], m[i], m.size());
  return true;
}

static std::vector<uint32_t> vecsort_input(const std::string& text) {
  // "perm n idx" | "tern n idx" | "long kind n"
  char kind[16]; unsigned long n = 0, idx = 0;
  sscanf(text.c_str(), "%15s %lu %lu", kind, &n, &idx);
  std::vector<uint32_t> a;
  if (!strcmp(kind, "perm")) {
    std::vector<uint32_t> pool; for (unsigned long i = 0; i < n; i++) pool.push_back(uint32_t(i));
    for (unsigned long i = n; i > 0; i--) { unsigned long f = 1; for (unsigned long k = 2; k < i; k++) f *= k; unsigned long q = idx / f; idx %= f; a.push_back(pool[q]); pool.erase(pool.begin() + q); }
  } else if (!strcmp(kind, "tern")) {
    for (unsigned long i = 0; i < n; i++) { a.push_back(uint32_t(idx % 3)); idx /= 3; }
  } else {
    // long: n = length, idx = shape
    for (unsigned long i = 0; i < n; i++) {
      switch (idx) {
        case 0: a.push_back(uint32_t(i)); break;                               // sorted
        case 1: a.push_back(uint32_t(n - i)); break;                           // reversed
        case 2: a.push_back(uint32_t(i < n / 2 ? i : n - i)); break;           // organ pipe
        case 3: a.push_back(uint32_t((i * 7919u) % 1009u)); break;             // scrambled with duplicates
        case 4: a.push_back(uint32_t(i % 2)); break;                           // two values
        case 5: a.push_back(7u); break;                                        // all equal
        default: a.push_back(uint32_t((i * 2654435761u) >> 7)); break;         // scrambled, distinct-ish
      }
    }
  }
  return a;
}

static void part_vecsort(const std::string* only = nullptr) {
  vh::Ctx& c = vh::ctx();
  g_part = "vecsort";
  long long idx = 0;
  auto one = [&](const std::string& text) {
    for (int desc = 0; desc < 2; desc++) {
      std::string t2 = text + (desc ? " desc" : " asc");
      if (only && *only != t2) continue;
      if (!c.mine(idx++)) continue;
      g_cfg = t2;
      std::vector<uint32_t> in = vecsort_input(text);
      c.n("evaluations")++; c.n("distinct_nontrivial")++; c.n("traces")++; c.n("states")++; c.n("transitions") += (long long)in.size() + 1;
      g_opkind = "sort";
      if (!vecsort_case(in, desc)) sweep_violation("vecsort", "sort", t2);
    }
  };
  int maxperm = c.thorough() ? 9 : 8, maxtern = c.thorough() ? 11 : 9;
  for (int n = 0; n <= maxperm; n++) { unsigned long f = 1; for (int k = 2; k <= n; k++) f *= k; for (unsigned long i = 0; i < f; i++) one("perm " + std::to_string(n) + " " + std::to_string(i)); }
  for (int n = 1; n <= maxtern; n++) { unsigned long f = 1; for (int k = 0; k < n; k++) f *= 3; for (unsigned long i = 0; i < f; i++) one("tern " + std::to_string(n) + " " + std::to_string(i)); }
  for (unsigned long n : {10ul, 15ul, 16ul, 17ul, 31ul, 64ul, 100ul, 129ul, 1000ul, 4097ul}) for (int shape = 0; shape < 7; shape++) one("long " + std::to_string(n) + " " + std::to_string(shape));
  g_bounds += "vecsort:all permutations of n<=" + std::to_string(maxperm) + " keys, all arrays over {0,1,2} of length<=" + std::to_string(maxtern) + ", 7 shapes x 10 lengths up to 4097; ascending and descending ";
}

static void explore_part(const std::string& part) {
  vh::Ctx& c = vh::ctx();
  bool T = c.thorough();
  if (part == "arena") {
    run_bfs<ArenaSys, ArenaCfg>("arena", arena_cfg_from("narrow-0"), "narrow-0", opt_depth(T ? 6 : 5));
    run_bfs<ArenaSys, ArenaCfg>("arena", arena_cfg_from("narrow-256"), "narrow-256", opt_depth(T ? 5 : 4));
    run_bfs<ArenaSys, ArenaCfg>("arena", arena_cfg_from("wide-0"), "wide-0", opt_depth(T ? 4 : 3));
  } else if (part == "arenasizes") part_arenasizes();
  else if (part == "vector") {
    vec_run<uint32_t>("u32", 0, opt_depth(T ? 6 : 5), false);
    vec_run<uint8_t>("u8", 0, opt_depth(T ? 5 : 4), true);
    vec_run<uint64_t>("u64", 0, opt_depth(T ? 5 : 4), true);
    vec_run<T12>("t12", 0, opt_depth(T ? 5 : 4), true);
    vec_run<uint32_t>("u32", 256, opt_depth(T ? 5 : 4), true);
  } else if (part == "hash") {
    run_bfs<HashSys, HashCfg>("hash", HashCfg{0}, "0", opt_depth(T ? 6 : 5));
    run_bfs<HashSys, HashCfg>("hash", HashCfg{256}, "256", opt_depth(T ? 5 : 4));
  } else if (part == "vecsort") part_vecsort();
  else if (part == "hashgrow") part_hashgrow();
  else if (part == "tree") {
    run_bfs<TreeSys, TreeCfg>("tree", TreeCfg{7}, "7", opt_depth(64));
    if (T) run_bfs<TreeSys, TreeCfg>("tree", TreeCfg{9}, "9", opt_depth(64));
  } else if (part == "treeperm") part_treeperm();
  else if (part == "list") {
    run_bfs<ListSys, ListCfg>("list", ListCfg{T ? 6 : 5}, T ? "6" : "5", opt_depth(64));
  } else if (part == "bitset") {
    run_bfs<BitSys, BitCfg>("bitset", BitCfg{0}, "0", opt_depth(T ? 5 : 4));
    run_bfs<BitSys, BitCfg>("bitset", BitCfg{256}, "256", opt_depth(T ? 4 : 3));
  } else if (part == "bitprims") part_bitprims();
  else if (part == "pool") {
    run_bfs<PoolSys, PoolCfg>("pool", PoolCfg{0}, "0", opt_depth(T ? 9 : 7));
    run_bfs<PoolSys, PoolCfg>("pool", PoolCfg{256}, "256", opt_depth(T ? 8 : 6));
  } else if (part == "string") {
    run_bfs<StrSys, StrCfg>("string", StrCfg{0}, "0", opt_depth(T ? 5 : 4));
    run_bfs<StrSys, StrCfg>("string", StrCfg{1}, "1", opt_depth(T ? 4 : 3));
    run_bfs<StrSys, StrCfg>("string", StrCfg{2}, "2", opt_depth(T ? 4 : 3));
  } else if (part == "arenastring") part_arenastring();
  else if (part == "mix") {
    for (int a = 0; a < 5; a++) for (int b = a + 1; b < 5; b++) for (size_t stat : {size_t(0), size_t(512)}) {
      std::string name = std::string(1, kMixLetters[a]) + std::string(1, kMixLetters[b]) + "-" + std::to_string(stat);
      run_bfs<MixSys, MixCfg>("mix", mix_cfg_from(name), name, opt_depth(stat ? (T ? 5 : 4) : (T ? 6 : 5)));
    }
  } else { fprintf(stderr, "unknown part %s\n", part.c_str()); exit(2); }
}

static const char* kAllParts[] = {"arena", "arenasizes", "vector", "vecsort", "hash", "hashgrow", "tree", "treeperm", "list", "bitset", "bitprims", "pool", "string", "arenastring", "mix"};

static void do_replay() {
  vh::Ctx& c = vh::ctx();
  std::string part, cfg, casetext, ops;
  bool have_ops = false;
  for (auto& line : vh::split(c.replay_text, '\n')) {
    size_t cur = line.find("C18-CURRENT part=");
    if (cur != std::string::npos) {
      size_t pc = line.find(" cfg=", cur), po = line.rfind(" ops=");
      if (pc == std::string::npos || po == std::string::npos) continue;
      part = line.substr(cur + 17, pc - cur - 17); cfg = line.substr(pc + 5, po - pc - 5); ops = line.substr(po + 5); have_ops = true; casetext = cfg;
      continue;
    }
    if (line.rfind("part=", 0) == 0) part = line.substr(5);
    else if (line.rfind("cfg=", 0) == 0) cfg = line.substr(4);
    else if (line.rfind("ops=", 0) == 0) { ops = line.substr(4); have_ops = true; }
    else if (line.rfind("case=", 0) == 0) casetext = line.substr(5);
  }
  std::vector<int> h;
  for (auto& x : vh::split(ops, ',')) if (!x.empty()) h.push_back(atoi(x.c_str()));
  (void)have_ops;
  if (part == "arena") replay_bfs<ArenaSys, ArenaCfg>(arena_cfg_from(cfg), h, "arena", cfg);
  else if (part == "vector") {
    VecCfg vc{size_t(atol(cfg.substr(cfg.find('-') + 1).c_str())), cfg.find("x-") != std::string::npos};
    if (cfg.rfind("u32", 0) == 0) replay_bfs<VecSys<uint32_t>, VecCfg>(vc, h, "vector", cfg);
    else if (cfg.rfind("u8", 0) == 0) replay_bfs<VecSys<uint8_t>, VecCfg>(vc, h, "vector", cfg);
    else if (cfg.rfind("u64", 0) == 0) replay_bfs<VecSys<uint64_t>, VecCfg>(vc, h, "vector", cfg);
    else replay_bfs<VecSys<T12>, VecCfg>(vc, h, "vector", cfg);
  }
  else if (part == "hash") replay_bfs<HashSys, HashCfg>(HashCfg{size_t(atol(cfg.c_str()))}, h, "hash", cfg);
  else if (part == "tree") replay_bfs<TreeSys, TreeCfg>(TreeCfg{uint32_t(atoi(cfg.c_str()))}, h, "tree", cfg);
  else if (part == "list") replay_bfs<ListSys, ListCfg>(ListCfg{atoi(cfg.c_str())}, h, "list", cfg);
  else if (part == "bitset") replay_bfs<BitSys, BitCfg>(BitCfg{size_t(atol(cfg.c_str()))}, h, "bitset", cfg);
  else if (part == "pool") replay_bfs<PoolSys, PoolCfg>(PoolCfg{size_t(atol(cfg.c_str()))}, h, "pool", cfg);
  else if (part == "string") replay_bfs<StrSys, StrCfg>(StrCfg{atoi(cfg.c_str())}, h, "string", cfg);
  else if (part == "mix") replay_bfs<MixSys, MixCfg>(mix_cfg_from(cfg), h, "mix", cfg);
  else if (part == "arenasizes") {
    unsigned long s = 1, st = 0; int variant = 0;
    sscanf(casetext.c_str(), "size=%lu variant=%d static=%lu", &s, &variant, &st);
    std::string opk;
    g_part = "arenasizes"; g_cfg = casetext;
    if (!run_sizes_case(s, variant, st, opk)) sweep_violation("arenasizes", opk, casetext);
  }
  else if (part == "treeperm") {
    std::vector<int> ins, rem;
    size_t pi = casetext.find("ins="), pr = casetext.find(" rem=");
    if (pi != std::string::npos && pr != std::string::npos) {
      for (auto& x : vh::split(casetext.substr(pi + 4, pr - pi - 4), ',')) if (!x.empty()) ins.push_back(atoi(x.c_str()));
      for (auto& x : vh::split(casetext.substr(pr + 5), ',')) if (!x.empty()) rem.push_back(atoi(x.c_str()));
    }
    g_part = "tree"; g_cfg = std::to_string(ins.size());
    if (!treeperm_run(ins, rem, nullptr)) sweep_violation("treeperm", g_opkind, casetext);
  }
  else if (part == "bitprims") part_bitprims(&casetext);
  else if (part == "hashgrow") part_hashgrow(&casetext);
  else if (part == "vecsort") part_vecsort(&casetext);
  else if (part == "arenastring") part_arenastring(&casetext);
  else { fprintf(stderr, "replay: unknown part '%s'\n", part.c_str()); exit(2); }
  for (auto& v : c.violations) v.replay = c.replay_text;
}

int main(int argc, char** argv) {
  vh::parse_args(argc, argv);
  vh::Ctx& c = vh::ctx();
  init_src();
#ifdef C18_ASAN
  __sanitizer_set_death_callback(on_death);
#endif
  if (c.replaying()) { c.shard_i = 0; c.shard_n = 1; do_replay(); return vh::finish(); }
  std::string part = c.opt("part", "all");
  if (part == "all") { for (const char* p : kAllParts) explore_part(p); }
  else explore_part(part);
  c.strs["bound_" + part + "_" C18_HARNESS_NAME] = g_bounds;
  c.strs["rule"] =
    "BFS over operation histories on fresh real objects (state = canonical form of reference contents + capacities + arena structure: block sizes, cursor, free lists, "
    "storage locations as block:offset), evaluated after every operation against std::vector / std::multi-set of nodes / std::map / std::vector<Node*> / std::vector<bool> / std::string "
    "and the structural invariants (RB: root black, no red-red, equal black height, order, node identity; hash: every node in bucket hash%count, each stored node reachable once, "
    "_calc_mod == %; list: symmetric links; string: NUL at size; arena partition: live storage, free-list entries, pooled chunks and unallocated tail pairwise disjoint, aligned, inside owned blocks). "
    "Parts: arena(alloc_reusable/_zeroed, alloc_oneshot/_zeroed, dup, free_reusable by requested or allocated size, reset soft/hard; heap and dirty static-buffer arenas), "
    "arenasizes(every request size through a fixed script), vector(u8,u32,u64,12-byte items: append/prepend/insert/remove_at/pop/resize_fit/resize_grow/reserve_*/truncate/clear/release/swap/concat/move + "
    "SIZE_MAX/2^32 arguments), hash(6 keys colliding modulo 29,59,131,269 incl. equal hash codes, duplicates, remove, remove of a non-member, fill to the growth threshold, swap, release), "
    "tree(toggle(k) to closure over all reachable trees; all insertion x removal orders), list(two lists over a fixed node set, to closure), bitset(resize/append/set/clear/xor/add/fill/clear ranges/"
    "truncate/and/or/and_not/copy/swap/release over sizes 0,1,63,64,65,128,129), bitprims(Support::bit_vector_* and bit iterators, full small scope), pool(two pools on one arena), "
    "string(String, StringTmp<136>, StringTmp<8>: assign/append/chars/int/uint/hex/format/pad_end/truncate/prepare/clear/reset/swap/move with lengths at 0,1,SSO,capacity,capacity+1), "
    "arenastring(all length pairs), mix(all pairs of {vector,bitset,hash,ArenaString,pool-backed tree} + raw blocks on one arena with reset soft/hard, heap and dirty static arenas). "
    "A state is distinct when its canonical form was not seen before in the same shard.";
  c.strs["bound"] = "see bound_<part> entries";
  c.assumptions.push_back("malloc never fails (no fault injection): out-of-memory paths are only reached through sizes that must be refused arithmetically");
  c.assumptions.push_back("container behaviour depends on element values only through equality; three element values stand for all");
  return vh::finish();
}

