#!/usr/bin/env python3
"""Rewrites the generated blocks of DESIGN.md (between <!-- GEN:x --> ... <!-- /GEN:x -->) from
known_findings.txt and seeded/*/meta.json."""
import json, os, re, glob, subprocess
V = os.path.dirname(os.path.dirname(os.path.abspath(__file__)))
d = open(os.path.join(V, "DESIGN.md")).read()


def block(name, text):
    global d
    a, b = "<!-- GEN:%s -->" % name, "<!-- /GEN:%s -->" % name
    if a in d:
        d = d[:d.index(a) + len(a)] + "\n" + text + "\n" + d[d.index(b):]
    else:
        d += "\n" + a + "\n" + text + "\n" + b + "\n"


# seeded table
rows = []
for m in sorted(glob.glob(os.path.join(V, "seeded", "*", "meta.json"))):
    j = json.load(open(m)); sid = os.path.basename(os.path.dirname(m))
    notes = os.path.join(os.path.dirname(m), "notes.md")
    what = ""
    if os.path.exists(notes):
        for line in open(notes):
            line = line.strip()
            if line and not line.startswith("#"):
                what = re.sub(r"[*`|]", "", line)[:150]; break
    det = j.get("detection") or {}
    caught = ", ".join("%s%s" % (k, "" if v.get("detected") else " (missed)") for k, v in sorted(det.items())) or "not run yet"
    if j.get("status_on_head"):
        caught += " - " + j["status_on_head"][:160]
    rows.append("| %s | %s | %s |" % (sid, what, caught))
block("seeded", "| seeded | change (first line of its notes.md) | run against -> result |\n|---|---|---|\n" + "\n".join(rows))

# fixed / finding lists
fixed, finding = [], []
for line in open(os.path.join(V, "known_findings.txt")):
    if line.startswith("fixed:"):
        m = re.match(r"fixed:\s+property=(\S+)\s+(\S+)\s+(.*)", line)
        if m: fixed.append("| %s | %s | %s |" % (m.group(1), m.group(2), m.group(3).strip().replace("|", "/")[:260]))
    elif line.startswith("finding:"):
        m = re.match(r"finding:\s+property=(\S+)\s+key=(\S+)\s+(.*)", line)
        if m: finding.append("| %s | `%s` | %s |" % (m.group(1), m.group(2).replace("|", "\\|"), m.group(3).strip().replace("|", "/")[:220]))
block("fixed", "%d genuine defects repaired by `fix:` commits in /repo:\n\n| property | commit | what failed |\n|---|---|---|\n%s" % (len(fixed), "\n".join(fixed)))
block("findings", "%d known findings (genuine, not repaired - see the text for why):\n\n| property | key | what fails |\n|---|---|---|\n%s" % (len(finding), "\n".join(finding)))
open(os.path.join(V, "DESIGN.md"), "w").write(d)
print("DESIGN.md: %d seeded rows, %d fixed, %d findings" % (len(rows), len(fixed), len(finding)))
