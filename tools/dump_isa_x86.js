#!/usr/bin/env node
// tools/dump_isa_x86.js [<db dir>] - dumps every x86 form of <db dir>/isa_x86.json (default /repo/db) as one JSON
// document on stdout, using the project's own parser <db dir>/x86.js.  The parsed JSON MUST be passed to
// `new x86.ISA(json)` (a bare `new x86.ISA()` is empty).
//
// Output: {"forms":[ {idx,name,aliasOf,arch,encoding,prefix,opcodeString,opcode:{byte,ri,_67h,mm,pp,w,l,nd,nf,scc,
//   mod,modr,modrm},imm,rel,moff,tupleType,elementSize,broadcast,bcstSize,kmask,zmask,er,sae,k,vsibReg,vsibSize,tsib,
//   groupPattern,groupIndex,prefixes:[..],ext:[..],category:[..],operands:[{data,type,reg,regType,mem,memSize,memOff,
//   memFar,memSegment,memRegOnly,vsibReg,vsibSize,bcstSize,imm,immSign,immValue,rel,implicit,optional,read,write,
//   regIndexRel,consecutive}]}, ...]}
"use strict";
const fs = require("fs");
const path = require("path");

const dbDir = path.resolve(process.argv[2] || "/repo/db");
const x86 = require(path.join(dbDir, "x86.js"));
const json = JSON.parse(fs.readFileSync(path.join(dbDir, "isa_x86.json"), "utf8"));

// x86.js reports db problems through console.log; keep stdout clean.
const origLog = console.log;
const reports = [];
console.log = function () { reports.push(Array.prototype.join.call(arguments, " ")); };
const isa = new x86.ISA(json);
console.log = origLog;

function dumpOperand(op) {
  return {
    data: op.data, type: op.type,
    reg: op.reg || "", regType: op.regType || "",
    mem: op.mem || "", memSize: op.memSize, memOff: !!op.memOff, memFar: !!op.memFar,
    memSegment: op.memSegment || "", memRegOnly: op.memRegOnly || "",
    vsibReg: op.vsibReg || "", vsibSize: op.vsibSize, bcstSize: op.bcstSize,
    imm: op.imm || 0, immSign: op.immSign || "", immValue: op.immValue === undefined ? null : op.immValue,
    rel: op.rel || 0,
    implicit: !!op.implicit, optional: !!op.optional, read: !!op.read, write: !!op.write,
    regIndexRel: op.regIndexRel || 0, consecutive: op.consecutive_lead_count || 0
  };
}

const forms = [];
const insts = isa.instructions;
for (let i = 0; i < insts.length; i++) {
  const I = insts[i];
  forms.push({
    idx: i, name: I.name, aliasOf: I.aliasOf || "", arch: I.arch, encoding: I.encoding, prefix: I.prefix || "",
    opcodeString: I.opcodeString,
    opcode: {
      byte: I.opcode.byte, ri: !!I.opcode.ri, _67h: !!I.opcode._67h, mm: I.opcode.mm, pp: I.opcode.pp, w: I.opcode.w,
      l: I.opcode.l, nd: I.opcode.nd ? 1 : 0, nf: I.opcode.nf ? 1 : 0, scc: I.opcode.scc, mod: I.opcode.mod,
      modr: I.opcode.modr, modrm: I.opcode.modrm
    },
    imm: I.imm || 0, rel: I.rel || 0, moff: !!I.moff,
    tupleType: I.tupleType || "", elementSize: I.elementSize, broadcast: !!I.broadcast, bcstSize: I.bcstSize,
    kmask: !!I.kmask, zmask: !!I.zmask, er: !!I.er, sae: !!I.sae, k: I.k || "",
    vsibReg: I.vsibReg || "", vsibSize: I.vsibSize, tsib: !!I.tsib,
    groupPattern: I.groupPattern || "", groupIndex: I.groupIndex,
    prefixes: Object.keys(I.prefixes || {}).sort(), ext: Object.keys(I.ext || {}).sort(),
    category: Object.keys(I.category || {}).sort(),
    operands: I.operands.map(dumpOperand)
  });
}
process.stdout.write(JSON.stringify({ count: forms.length, reports: reports, forms: forms }));
process.stdout.write("\n");
