#!/bin/bash
# tools/rebase_seeded.sh <seeded-dir>: re-create patch.diff against /repo HEAD when context moved (after fix: commits)
set -u
D=$(readlink -f "$1")
W=$(mktemp -d /tmp/rb-XXXXXX)
git -C /repo worktree add --detach "$W" HEAD >/dev/null 2>&1
if git -C "$W" apply "$D/patch.diff" 2>/dev/null; then echo "applies cleanly"; else
  (cd "$W" && patch -p1 -F3 --no-backup-if-mismatch < "$D/patch.diff") || { echo "REBASE FAILED"; git -C /repo worktree remove --force "$W"; exit 1; }
  cp "$D/patch.diff" "$D/patch.orig.diff"
  git -C "$W" diff > "$D/patch.diff"; echo "rebased"
fi
git -C /repo worktree remove --force "$W"
