#!/bin/bash
# tools/process_round.sh <worktree-prefix> <n-per-id> ID...   confirm the seeded changes a round of sub-agents left in
# <prefix>-<ID>/out/ (patch<i>.diff, demo<i>.cpp/.sh, notes<i>.md), store them under seeded/<ID>-<next index>/ and run
# the property's quick check against each; one summary line per change on stdout.
P=$1; N=$2; shift 2
for id in "$@"; do
  for i in $(seq 1 $N); do
    [ -f $P-$id/out/patch$i.diff ] || { echo "$id #$i: no patch"; continue; }
    n=$(( $(ls -d /verif/seeded/$id-* 2>/dev/null | wc -l) + 1 ))
    r=$(/verif/tools/confirm_seeded.sh $id $P-$id $i $n 2>&1 | tail -1)
    case "$r" in
      CONFIRMED*) o=$(/verif/tools/run_seeded.sh $id-$n 2>&1 | grep -v '^KNOWN'); d=$(echo "$o" | tail -1); x=$(echo "$o" | grep -o 'exhaustive=[A-Za-z]* capped=[A-Za-z]* violations=[0-9]*' | tail -1); echo "$id-$n: $d $x" ;;
      *) echo "$id #$i: $r" ;;
    esac
  done
done
echo BATCHDONE
