#!/usr/bin/env python3
"""Prints the prompt for a mutant-writing sub-agent for property <ID> working in worktree <dir>."""
import json, sys
pid, wt = sys.argv[1], sys.argv[2]
n = sys.argv[3] if len(sys.argv) > 3 else "2"
p = [json.loads(l) for l in open('/verif/properties.jsonl') if json.loads(l)['id'] == pid][0]
print(f"""You are testing how well a semantic property of the C++ library AsmJit is protected by its own test-suite.
You work ONLY inside the scratch git worktree {wt} (a checkout of the asmjit repository at its pinned commit). Do not read or touch /repo or /verif, and do not look at other directories under /tmp.

THE PROPERTY ({pid}: {p['title']}):
{p['statement']}

It is meant to hold for: {p['quantifier']['text']}

Code it is anchored in: {', '.join(p['anchors']['files'])}
Mechanisms meant to make it hold: {json.dumps(p['anchors'].get('mechanism', []))}

YOUR TASK: produce {n} different, realistic source changes ("seeded defects") to the library code under {wt}/asmjit (not to tests, not to the db/ JSON unless the property is about the database) that each BREAK this property, while (a) the library and its test programs still compile, and (b) the repository's own test-suite still passes. Each change must need something specific to manifest - a particular multi-step sequence of operations, an unusual input/boundary value, a particular configuration, a fault at a particular point, a particular thread interleaving, or two cooperating sites that each look fine alone - NOT something ordinary use would expose at once. Think of the kind of bug a maintainer could plausibly introduce in a refactoring or 'optimisation': an off-by-one at a range limit, a wrong field in one rarely-used path, a stale cached value, a missing update on one branch, a condition that is wrong only for one register class or one size, etc. Keep each change small (a few lines). The {n} changes should be in different functions/mechanisms and manifest differently.

For each change i = 1..{n} write into {wt}/out/ :
  - patch<i>.diff   : `git diff` output (relative to the worktree root, applies with `git apply` at the pinned commit). Only the library change - no test, no demo in it.
  - demo<i>.cpp     : a small stand-alone C++17 program using the public AsmJit API (or, if unavoidable, internal headers) that exits 0 when the property holds for its scenario and exits non-zero (printing what went wrong) when it is broken. It must FAIL with patch<i> applied and PASS on the unpatched tree. 
  - demo<i>.sh      : a shell script taking the source tree root as $1 that compiles demo<i>.cpp against that tree (simplest: compile all of $1/asmjit/**/*.cpp with -DASMJIT_STATIC -I$1 -std=c++17 -O1 into objects in a directory next to the script, or link against a static build) and runs it; exit status = the demo's.
  - notes<i>.md     : which mechanism you changed, why the existing tests do not notice, and exactly what is needed for it to manifest.

HOW TO BUILD AND TEST (offline; there is no network): 
  cmake -S {wt} -B {wt}/_build -G Ninja -DCMAKE_BUILD_TYPE=RelWithDebInfo -DASMJIT_TEST=ON && cmake --build {wt}/_build -j8
  ctest --test-dir {wt}/_build -j8 --timeout 900
The suite has 10 tests (asmjit_test_runner, asmjit_test_assembler, asmjit_test_environment, asmjit_test_emitters, asmjit_test_x86_sections, asmjit_test_instinfo, asmjit_test_compiler, asmjit_test_unicompiler, asmjit_bench_overhead, asmjit_bench_regalloc); ALL must pass with each of your patches applied (apply one patch at a time, rebuild, run ctest; then revert with `git checkout -- .`). If a test fails with your change, the change is not acceptable - choose another one. Verify yourself that each demo passes on the clean tree and fails with its patch.

When done, leave the worktree clean (`git checkout -- .`), keep {wt}/out/ with the files above (leave {wt}/_build in place - it will be reused to re-check your work - but delete any other build output you created), and reply with a short summary per change: file/function changed, what is needed to manifest, and confirmation that ctest passed (10/10) and the demo fails/passes as required. Be honest: if you could not make a change that keeps the tests passing, say so.""")
