#!/usr/bin/env python3
"""Regenerates /verif/MANIFEST.json from the table below (single source of truth for what is claimed)."""
import json, os, sys

VERIF = os.path.dirname(os.path.dirname(os.path.abspath(__file__)))
ALL = ["C%02d" % i for i in range(1, 21)]

# id -> dict(level, text, note, technique, design_ref)   (only checks that exist and pass on the unchanged tree)
CLAIMED = {
    "C19": dict(
        level="model_checking",
        text="Explicit-state BFS over all histories of ConstPool::add up to the stated depth, executed on the real "
             "ConstPool; alignment, stability, dedup, overlap, fill() image, guard bands and embed_const_pool are "
             "evaluated in every reached state. Exhaustive within alphabet and depth. Leg 2 (harness/c19_compiler.cpp): every sequence (length <= 4 quick / 5 thorough) of "
             "BaseCompiler::_new_const requests (local and global scope, 6 valid and 3 rejected sizes) and function boundaries on x86 and AArch64 Compilers, finalized; every "
             "returned operand must be bound, aligned, inside the code and hold the constant, and identical requests in one pool share the operand.",
        note="Trusts the harness reference (a list of added constants) and the 3-pattern data alphabet; deeper histories than the bound are not covered.",
        technique="explicit-state BFS over operation histories on the implementation, canonical-state dedup, reference-model oracle",
        design_ref="3/C19"),
}

CLAIMED["C10"] = dict(
    level="model_checking",
    text="Every section configuration of the stated alphabet (full product for <=1-2 extra sections, deviation-bounded beyond) is built "
         "on a real CodeHolder; flatten/code_size/copy_flattened_data (every boundary destination size x all flag sets, guard bands) and "
         "relocate_to_base are checked against the statement-level layout oracle in every configuration; a family of layouts that reach 4 GiB and end within an alignment "
         "step of 2^64 is judged against a 128-bit reference (unrepresentable layouts must be refused).",
    note="Trusts the harness oracle; alignments/orders/sizes outside the alphabet and more than 4 extra sections are not explored.",
    technique="bounded exhaustive enumeration of configurations (deviation-bounded DFS over choice points) on the implementation with reference layout oracle",
    design_ref="3/C10")

CLAIMED["C09"] = dict(
    level="model_checking",
    text="Explicit-state BFS over all histories of alloc/release/shrink/write+shrink/reset on the real JitAllocator (64 KiB blocks, <=4 live "
         "spans) per option set and granularity; after every transition the span model, queries (live, released, padding, free, foreign, null), "
         "statistics, aliasing of rx/rw, fill pattern, reuse of freed memory, empty-block policy and the used/stop bit vectors are checked. "
         "States are merged on the allocator's complete bookkeeping state. Further phases start from non-initial states (exactly filled blocks; a full block with two holes whose "
         "search window was cached by a failed scan next to a full second block) and walk the block-growth steps (2B-pad, 2B, 4B).",
    note="Trusts the harness model; block size fixed to the smallest legal one; histories deeper than the bound and more than 4 live spans "
         "are not explored; large pages only as far as the kernel grants them; the 'random to 10^5 operations' part of the quantifier is "
         "replaced by BFS on canonical states.",
    technique="explicit-state BFS over operation histories on the implementation with canonical-state dedup and reference span model",
    design_ref="3/C09")

CLAIMED["C17"] = dict(
    level="exploration",
    text="Exhaustive sweeps: CodeWriterUtils::write_offset for every OffsetFormat the backends construct or fixup.h defines x every offset in "
         "range plus bands outside (all values for fields <=26 bits in quick, all 2^32 in thorough) x two backgrounds; all logical/add-sub/fp8 "
         "immediates (all 2^32 32-bit values, all DecodeBitMasks images and neighbours); move-wide sequences, bitfield aliases and branch "
         "displacements through a64::Assembler; every case judged by reference decoders written from the Arm ARM / Intel SDM.",
    note="Trusts the harness's architectural reference decoders; 64-bit fields are covered by a boundary lattice only; write_offset is tested with a zero field (it ORs into the word).",
    technique="exhaustive enumeration of the input space (every value of every format) on the implementation against independent reference decoders",
    design_ref="3/C17", engine="harness/c17_codecs.cpp")

CLAIMED["C11"] = dict(
    level="model_checking",
    text="Stateless exploration of all interleavings with <=2 (quick) / <=3 (thorough) preemptions of 2-3 real threads per scenario (allocator "
         "ops, JitRuntime add/call/release, independent Assembler/Compiler use) under a cooperative scheduler; scheduling points at every "
         "interposed pthread_mutex_lock/unlock and operation boundary; ThreadSanitizer judges every explored schedule seeing only the "
         "library's own lock; per-thread content/ownership checks, final statistics, byte equality with the solo run; plus a free-running TSan pass.",
    note="Sequentially consistent interleavings only; weak-memory effects and schedules beyond the preemption bound are not covered; host/VM info is initialised before threads start (as the property allows).",
    technique="stateless model checking of thread schedules with iterative preemption bounding over hooked synchronisation points, TSan as oracle",
    design_ref="3/C11", engine="engine/sched.c")

CLAIMED["C03"] = dict(
    level="model_checking",
    text="Every history up to the stated depth over {reference of each displacement kind to one of two labels, bind, pad (incl. buffer growth), section "
         "switch} on x86-32/x86-64/AArch64 is executed on a fresh CodeHolder+Assembler and finalised (flatten, resolve, relocate, copy); every reference "
         "site of the image is decoded by harness-owned extractors and must designate base+section+bound offset+addend, other instruction bits unchanged, "
         "unrepresentable references reported, unresolved count zero iff none remain; plus the boundary family around each format's range limit.",
    note="Two labels, two sections, one base; rel32 range limits (2 GiB) not reached; adrp through labels is judged with the assembler's own (documented-by-TODO) restriction that the byte distance be page-aligned, anything else must be reported.",
    technique="exhaustive enumeration of operation histories on the implementation with an independent field-extractor oracle",
    design_ref="3/C03", engine="harness/c03_labels.cpp")

CLAIMED["C04"] = dict(
    level="model_checking",
    text="Programs of 1-2 (thorough 3) absolute-reference items x 8 base addresses (straddling 2^31/2^32/2^47/2^63) x {base known at init, relocate afterwards} x "
         "{address table last, user section after it} x 3 architectures; every site of the relocated, copied image is evaluated as the CPU would (incl. loading "
         "address-table slots from the image); JitRuntime::add must install exactly the relocated image and the code is executed on the host.",
    note="Item alphabet limited to the listed instruction shapes and 12 target classes; x86-32/AArch64 images are evaluated, not executed; refusing a reachable target is not judged.",
    technique="exhaustive enumeration of program x configuration space on the implementation with a CPU-style evaluator as oracle",
    design_ref="3/C04", engine="harness/c04_reloc.cpp")

CLAIMED["C07"] = dict(
    level="model_checking",
    text="Frame configurations (dirty GP/vector/mask subsets, local size/alignment, call area, preserved FP, calls, SSE/AVX/AVX-512 save modes, entry SP, "
         "argument counts) are enumerated with <=3 (quick) / <=4 (thorough) deviations from the default frame for 13 conventions/targets; the emitted prolog and epilog "
         "are interpreted by the msim node simulator around a synthetic body that destroys every dirty/volatile register and every byte of the declared areas; "
         "return address, SP, callee-saved registers, caller frame, alignment and stack-argument offsets are checked.",
    note="Prolog/epilog are interpreted (ISA-manual semantics in engine/msim.h), not executed; preserved-register sets come from CallConv (judged by C06); alphabets are finite. "
         "Known finding: AArch64 dynamic stack alignment is not implemented.",
    technique="bounded exhaustive enumeration of configurations (deviation-bounded DFS) with a machine-state simulator as oracle",
    design_ref="3/C07", engine="engine/msim.h")

CLAIMED["C01"] = dict(
    level="exploration",
    text="All 5903 database forms x {32,64}-bit mode: default instantiation + every single deviation (quick; thorough adds pairs on one representative form per "
         "encoder path) over register-id, memory-form (~75 symbols incl. disp8*N boundaries, VSIB, 16-bit, rip, absolute, segments), immediate and decoration/option "
         "alphabets; every accepted case (strict validation) is judged by a database-driven field decoder (prefixes, REX/VEX/EVEX/XOP fields, ModRM/SIB/disp, imm, length), "
         "objdump and llvm-objdump (exactly one instruction of the appended length) and a GNU as reference encoding compared under the same decoder.",
    note="Finite alphabets; APX forms are not encoded by this asmjit and are not judged; third-party tools older than some db entries make their leg inconclusive there; "
         "11 database records that contradict the SDM are patched in the oracle (DB_ERRATA, documented in lib/x86cases.py). 51 known defect classes are listed in known_findings.txt.",
    technique="exhaustive enumeration of a finite input space (forms x alphabets, deviation bounded) on the implementation with independent decoders/reference assembler as oracle",
    design_ref="3/C01", engine="harness/emit_x86.cpp")

CLAIMED["C16"] = dict(
    level="model_checking",
    text="Every history of <=4 (quick) / <=5 (thorough) operations over init/attach/detach/reinit/reset(soft,hard)/logger/section/label/flatten+relocate/10 program "
         "generators (Assembler, Builder, Compiler; incl. failing programs) on one recycled CodeHolder + emitter set, each followed by every final program, in 16 "
         "configurations (static vs dynamic arena, logger, validation, two heap fill patterns); sections, labels, relocations, fixups, address table and ids must equal "
         "the same calls replayed on completely fresh objects; ASan/UBSan silent. Leg 2 (harness/c16_handlers.cpp): explicit-state BFS (depth 6 / 8) over "
         "attach/detach/finalize/reinit and holder/emitter error-handler set/reset for Assembler, Builder, Compiler with a three-line ownership model; after every operation "
         "a provoked error must reach exactly the handler in charge.",
    note="x86-32 not explored; init with explicit base not explored; histories are not merged (hidden residue is the subject).",
    technique="exhaustive enumeration of operation histories on the implementation, differential against fresh objects across configurations",
    design_ref="3/C16", engine="harness/c16_reuse.cpp")

CLAIMED["C18"] = dict(
    level="model_checking",
    text="Explicit-state BFS (canonical-state dedup) over operation histories of Arena, ArenaVector (4 item types), ArenaHash, ArenaTree, ArenaList, ArenaBitSet, "
         "ArenaPool, String/StringTmp and all pairs of containers sharing one arena (heap and dirty static arenas, reset soft/hard), plus exhaustive sweeps (all tree "
         "insertion/removal orders for n<=7, all request sizes, all bit-vector primitive arguments, hash growth table); std:: reference models, structural invariants "
         "and an arena partition invariant after every operation; ASan/UBSan are part of the oracle. Arena::sformat for every output length 0..1100 (4200) on heap "
         "and static-block arenas; every aligned one-shot request size next to the managed block sizes.",
    note="Depth bounds per part (quick 3-7, thorough 4-9); key/size alphabets are finite.",
    technique="explicit-state BFS over operation histories on the implementation with reference-model oracle",
    design_ref="3/C18", engine="harness/c18_containers.cpp")

CLAIMED["C02"] = dict(
    level="exploration",
    text="2379 of the 3602 AArch64 database forms (all that AsmJit has ids and register classes for; SVE/SME excluded) are instantiated with a default assignment plus "
         "<=2 deviations (quick; thorough: full product of the narrow alphabets and all register ids) over register-id (incl. SP/ZR and out-of-range ids), arrangement, "
         "element-index, shift/extend, addressing-mode/offset, immediate, condition and system-register alphabets; accepted words are compared with llvm-mc's encoding of "
         "the harness-printed text and with the database bit template (literal bits, register fields); operands that are not encodable must be refused.",
    note="llvm-mc 14 does not know some newer instructions (template leg only there); 84 database templates that contradict both llvm-mc and the assembler are recorded as "
         "db errors, not judged; value-equivalent encodings (mov/movi immediates) are judged by value.",
    technique="exhaustive enumeration of a finite input space (forms x alphabets, deviation bounded) on the implementation with an independent assembler and the db bit templates as oracle",
    design_ref="3/C02", engine="harness/emit_a64.cpp")

CLAIMED["C12"] = dict(
    level="exploration",
    text="Quick: regenerated x86 tables == committed tables; every non-APX x86 database form in both modes (registers, same-register, each r/m operand in memory, {k}, {k}{z}) "
         "judged against the database's access/flags/feature annotations (coverage, byte masks, flags, features); every operand reported register-or-memory replaced by "
         "memory must validate and assemble; x86 register blocks/mask pairs and all AArch64 register-list forms must report their consecutive run. Thorough adds the silicon "
         "leg: 3838 forms executed natively from 4 base states x 2 perturbations of every location not reported read (write coverage, non-interference, zero-extension, #UD vs features).",
    note="Over-reporting is not judged (only under-reporting breaks the register allocator); privileged, control-flow and nondeterministic instructions are excluded by a stated list; "
         "vector registers are judged at register granularity on silicon. Remaining known findings: casp pairs, per-mnemonic kRegMem aggregation, features of VEX-only forms emitted as EVEX.",
    technique="exhaustive enumeration of database forms x operand variants (and machine states on silicon) with the ISA database and native execution as oracle",
    design_ref="3/C12", engine="harness/c12_rwinfo.cpp")

CLAIMED["C06"] = dict(
    level="exploration",
    text="(a) all signatures of length <=4 (quick) / <=5 (thorough) over 20 argument types and, for lengths 6..32, three default signatures with <=2 deviating positions, "
         "x every calling convention id of 8 targets x varargs x return types, judged by reference classifiers written from the psABIs / Microsoft / Apple documents; a "
         "sanitizer leg; and an executed interop leg on the host (SysV, Win64 and vectorcall, 46 signatures: hand-placed asmjit caller <-> clang-compiled C callee in both directions, "
         "plus x86::Compiler invoke() -> C callee (by-reference arguments as values and as pointers) and C caller -> x86::Compiler function, each at the four 16-byte stack alignments mod 64). "
         "(b) every assignment of <=3 (thorough 4) arguments of 10 type/widening kinds to {own register, register of any other argument (all permutation cycles), two foreign "
         "registers, a stack slot} for 6 conventions (plain frames, dynamically aligned frames, and a family whose float arguments arrive on the stack while the first one is in a register): "
         "emit_prolog + emit_args_assignment are interpreted by the msim node simulator with a token set and its bitwise complement, and every destination must hold its argument.",
    note="Cases where compilers disagree or the ABI is silent (mmx/mask arguments, f80 on Microsoft targets, ...) are counted as undecided; x86-32/AArch64 shuffles are simulated, "
         "not executed; incoming by-reference arguments of Compiler functions are refused by asmjit with an error (documented as not supported) and counted as refused.",
    technique="exhaustive enumeration of signatures x conventions and of argument assignments (full product within bounds) with reference ABI classifiers, a real compiler and a machine-state simulator as oracles",
    design_ref="3/C06", engine="harness/c06_abi.cpp")

CLAIMED["C15"] = dict(
    level="fault_enumeration",
    text="17 workloads (assembler with labels/sections/relocations/address table, builder, x86 and a64 compiler with spills/calls/jump tables/const pools, JitRuntime single/dual "
         "mapping, containers, const pool, String, arena; fresh and recycled objects; a Builder + Assembler pair reused directly after a failed reinit()): for every class (arena requests through hook H1, heap through --wrap malloc/realloc/calloc, "
         "virtual memory through --wrap mmap/munmap/mprotect/ftruncate/memfd) every single failure position k and pairs (same class and cross class within bounds), each in a "
         "forked child under ASan/UBSan: no crash/UB/leak, error or identical output, objects recover (reset/reinit/destroy), retry on the same and on fresh objects equals the clean run.",
    note="At most two injected failures per run; failing munmap/close/free is not injected; far-apart pairs in the largest workload are outside the quick window.",
    technique="exhaustive enumeration of fault positions (every k per request class, bounded pairs) on the implementation with differential and sanitizer oracles",
    design_ref="3/C15", engine="harness/c15_faults.cpp")

CLAIMED["C13"] = dict(
    level="exploration",
    text="Every form of the x86 ISA database x {32,64}-bit mode and every AArch64 form, instantiated with default operands + every single deviation (thorough: pairs / full slot "
         "products) + near-miss mutations (size one class off, swapped operands, wrong count, decorations/prefixes the form does not list) + mode-excluded forms: each request is "
         "observed through Assembler::emit without validation, with kValidateAssembler and through InstAPI::validate(), each on a fresh CodeHolder; validation must not change "
         "success/bytes, what the validator admits the encoder must encode (position-independent errors), excluded-mode forms must be refused, every form/decoration listed in "
         "ref/implemented_*.txt must still be accepted by all three; every instruction name <-> id round trip (all ids, all names, case/length/prefix mutations) on both backends.",
    note="ref/implemented_{x86,a64}.txt is a recorded list of (mode, mnemonic, form, feature) lines the tree accepted through all three routes; it decides only clause (D) "
         "'an implemented form stays accepted'. Known findings: the AArch64 validate() is an accept-everything stub; movabs/movdir64b/tile* address corner cases.",
    technique="exhaustive enumeration of database forms x deviation-bounded operand instantiations on the implementation, differential between validator, validating and non-validating encoder, with the ISA database as oracle",
    design_ref="3/C13", engine="harness/c13_names.cpp")

CLAIMED["C20"] = dict(
    level="exploration",
    text="Every accepted case of the C01 (x86, both modes) and C02 (AArch64) sweeps - every db form, default + every single deviation - is formatted by format_instruction for "
         "every FormatFlags set of the tier x register mode (physical, named/unnamed virtual, virtual of another type) x label mode (anonymous, named, local under named/anonymous "
         "parent), by format_node of the Compiler's node, by format_operand and by the StringLogger (3 logger flag sets); the text is parsed back by a harness-owned grammar and "
         "compared with the request clause by clause (mnemonic, prefix, register name/size, memory size/segment/base/index/scale/disp, broadcast, imm, mask, zeroing, rounding, "
         "label, shift, extend, cond, addressing mode, operand count); the machine-code column must equal the appended bytes; thorough: the text is re-assembled by GNU as / llvm-mc. "
         "Leg 2 (harness/c20_failmsg.cpp): the message handed to the ErrorHandler for every rejected instruction of a small full product (emitters x kinds x masks x options x comment) equals error name + Formatter text + comment.",
    note="Trusts the harness grammar and register tables; texts the external assembler rejects are inconclusive in the re-assembly leg; at most 1 deviation per case.",
    technique="exhaustive enumeration of database forms x single deviations x format flag sets on the implementation with a parse-back oracle and external assemblers as second oracle",
    design_ref="3/C20", engine="harness/c20_format.cpp")

CLAIMED["C05"] = dict(
    level="model_checking",
    text="Enumerated Compiler programs: shape (straight line, diamonds, loops incl. values live only around the back edge and swaps at the back edge, jump tables, calls with 0..N arguments, "
         "invoke inside loops, call-site marshalling of every narrower virtual register type into wider parameters, 16-argument functions with an aligned stack variable and a call) x shrunk register file K x pressure n x argument mode x value mode (gp64, gp32, mixed 64/32, xmm, ymm, zmm, k) x every entry of a 162-op alphabet in the slot (fixed/implicit registers, 64-bit views of 32-bit values, "
         "RW/W zero-extending ops, 8-bit and high-byte ops, spill-prone memory forms, vector and mask groups, cmpxchg/mul/div/shift-by-CL); each program is interpreted by a "
         "reference interpreter over named values and compared with the register-allocated code - executed natively (x86-64, fixed input set: return value, memory buffer, "
         "external-call log) or interpreted by the msim machine simulator (x86-32, AArch64). Lists leg (harness/c05_lists.cpp): 37 register-list forms (AArch64 ld1-ld4/st1-st4/ldNr/lane forms, "
         "tbl/tbx with 1-4 table registers; x86 vp2intersectd/q mask pairs) x every member tuple over the first values (overlapping, conflicting, repeated members) x 1-3 list instructions x "
         "straight/diamond/loop x shrunk and full register files: an uninterpreted-term simulation of the allocated node list against the IR (operand roles from the ISA database): "
         "physical ids consecutive, every instruction reads the reference terms, live members survive, satisfiable programs compile, unsatisfiable ones are refused.",
    note="Programs outside the shapes/alphabet and inputs outside the fixed set are not covered; x86-32 and AArch64 results rely on the harness's simulator; list instructions are judged as uninterpreted functions of their operands.",
    technique="bounded exhaustive enumeration of programs (shape x register-file size x pressure x alphabet) on the real Compiler with a reference interpreter / native execution / simulator as oracle",
    design_ref="3/C05", engine="harness/c05_ra.cpp")

CLAIMED["C08"] = dict(
    level="model_checking",
    text="Every history of emitter calls (instructions with options/extra register/comment, label ops, align, data, constant pool, comment, section switch) and node-list edits "
         "(set_cursor, remove_node(s), add_after/before, re-adding) up to depth 2-3 over a 95-104-op alphabet per architecture, from three prefix programs x 5 configurations "
         "(validation, logger, ...), is issued to Builder and Compiler, finalized, and compared with an Assembler fed the same calls literally and with an Assembler fed the "
         "harness's own edited node list: first error, section bytes/sizes, label state/offsets, relocations, unresolved fixups; node-list integrity (no cycle, links consistent) after every op.",
    note="Trusts the harness mirror of the documented node-edit semantics; histories deeper than the bound and FuncNode-level Compiler features are not covered (C05/C06 cover those).",
    technique="exhaustive enumeration of operation histories up to a depth (full product over the alphabet; deviation layer for configurations) on the implementation, differential against the Assembler",
    design_ref="3/C08", engine="harness/c08_builder.cpp")

CLAIMED["C14"] = dict(
    level="exploration",
    text="Units = short histories of public-API calls on a fresh Assembler/Builder/Compiler (x86-32, x86-64, AArch64) x {no, recording, throwing} error handler x logger: every "
         "instruction id x operand patterns from a weird-operand alphabet (ids out of range, wrong groups, invalid labels, segment 7, vector index, undefined option bits, bad extra "
         "register, element types, huge sizes) + invalid bind/align/embed/section/label calls + valid predecessors/successors; every call judged on the spot (return code, handler "
         "count, holder state before/after, one-shot state) and differentially against a twin that receives only the accepted calls; unrepresentable operands carry a must-reject reason; "
         "accepted bytes are decoded by objdump/llvm-mc (exactly one instruction, no unrequested component); a family with a known base address and absolute targets (16 forms x distances around "
         "every field limit and at 2^31..2^39) whose accepted encodings are decoded back to the requested target. Each unit runs in a forked child under ASan/UBSan with a CPU watchdog. "
         "Leg 2 (harness/c14_faultstate.cpp): calls that fail because the k-th heap / arena request fails (every k) x handler kinds x one-shot decorations x buffer-growth position: "
         "nothing appended, one-shot state cleared, image equal to a fresh twin given the accepted calls.",
    note="The alphabet of invalid values is finite (chosen per field boundary); combinations of more than two invalid fields per call are not explored.",
    technique="exhaustive enumeration of invalid-input alphabets x instruction ids x emitter configurations and short call histories on the implementation with state-differential, sanitizer and disassembler oracles",
    design_ref="3/C14", engine="harness/c14_invalid.cpp")

PENDING = {
    "C05": "model checking applies and the check exists (checks/c05.py, harness/c05_ra.cpp: exhaustive small Compiler programs executed/simulated before and after register "
           "allocation); on the current tree it still reports genuine defects whose repairs are being prepared, so it is not claimed until it exits 0 with them fixed or listed",
    "C08": "model checking applies and the check exists (checks/c08.py, harness/c08_builder.cpp: exhaustive emitter-call histories replayed through Assembler and Builder); "
           "it still reports genuine Builder defects whose repairs are being prepared, so it is not claimed until it exits 0 with them fixed or listed",
    "C14": "model checking applies and the check exists (checks/c14.py, harness/c14_invalid.cpp: exhaustive invalid-input alphabet x emitter states); it still reports genuine "
           "defects whose repairs are being prepared, so it is not claimed until it exits 0 with them fixed or listed",
}
NOT_YET = "check not built yet in this round (planned, see DESIGN.md section 3); not claimed until it exists and passes"


def main():
    checks = []
    for pid in ALL:
        if pid not in CLAIMED:
            continue
        c = CLAIMED[pid]
        checks.append(dict(
            property_id=pid,
            quick_cmd="./check %s --tier quick" % pid,
            thorough_cmd="./check %s --tier thorough" % pid,
            evidence_file="evidence/%s.json" % pid,
            replay_cmd_template="./check %s --replay {path}" % pid,
            engine=c.get("engine", "xplor"),
            level_claimed=dict(category=c["level"], text=c["text"], design_ref="DESIGN.md " + c["design_ref"]),
            level_note=c["note"],
            technique=c["technique"]))
    na = [dict(property_id=p, reason=PENDING.get(p, NOT_YET)) for p in ALL if p not in CLAIMED]
    m = dict(
        version=1,
        setup_cmd="python3 lib/vbuild.py asan fast",
        hooks=dict(guard="ASMJIT_VERIF",
                   enable="every harness build passes -DASMJIT_VERIF (lib/vbuild.py COMMON flags)",
                   baseline_off_cmd="cmake -S /repo -B /verif/build/baseline_off -G Ninja -DCMAKE_BUILD_TYPE=RelWithDebInfo -DASMJIT_TEST=ON "
                                    "&& cmake --build /verif/build/baseline_off -j16 && ctest --test-dir /verif/build/baseline_off -j8 --timeout 900",
                   source_commits=["be3b79b"],
                   add_only=True),
        engines=[
            dict(name="sched", path="engine/sched.c", serves_properties=["C11"],
                 kind_free_text="cooperative scheduler for real pthreads (uninstrumented TU, raw futex hand-off) with link-time interposed "
                                "pthread_mutex_*; preemption-bounded stateless exploration of schedules under ThreadSanitizer"),
            dict(name="xplor", path="engine/xplor.h", serves_properties=sorted(k for k in CLAIMED.keys() if k != "C11"),
                 kind_free_text="bounded exhaustive explorer run on the real code: deviation-bounded DFS over choice "
                                "sequences and BFS over operation histories with canonical-state dedup and canon-on-replay"),
        ],
        checks=checks,
        notes="All checks: ./check <ID> --tier quick|thorough; --replay <file> re-executes one recorded case. "
              "known_findings.txt lists genuine defects (finding:) and repaired ones (fixed:).",
        not_applicable=na)
    with open(os.path.join(VERIF, "MANIFEST.json"), "w") as f:
        json.dump(m, f, indent=1)
        f.write("\n")
    try:
        import jsonschema  # noqa
        jsonschema.validate(m, json.load(open("/root/.vp/MANIFEST.schema.json")))
        print("MANIFEST.json valid; claimed:", sorted(CLAIMED.keys()))
    except ImportError:
        print("MANIFEST.json written (jsonschema not available to validate)")


if __name__ == "__main__":
    main()
