#!/bin/bash
# tools/run_seeded.sh <seeded-id> [check-id] [tier]: run a check against a stored seeded change, record result in meta.json
S=$1; ID=${2:-${S%%-*}}; TIER=${3:-quick}
OUT=$(/verif/tools/mutant.sh /verif/seeded/$S/patch.diff $ID $TIER 2>&1); RC=$?
echo "$OUT" | grep -v "^  key" | tail -3
KEYS=$(echo "$OUT" | grep "^  key=" | sed 's/^  key=\([^ ]*\).*/\1/' | head -5 | tr '\n' ' ')
python3 - "$S" "$ID" "$TIER" "$RC" "$KEYS" <<'PY'
import json,sys
s,cid,tier,rc,keys=sys.argv[1:6]
p='/verif/seeded/%s/meta.json'%s
m=json.load(open(p))
d=m.get('detection') or {}
d['%s/%s'%(cid,tier)]=dict(detected=(rc=='1'), exit=int(rc), violation_keys=keys.split())
m['detection']=d; m.pop('detected_by',None)
json.dump(m,open(p,'w'),indent=1)
PY
