#!/usr/bin/env node
// tools/dump_isa.js [repo-dir] [out.json]
//
// Loads <repo>/db/aarch64.js + <repo>/db/isa_aarch64.json (the parsed JSON *must* be handed to the ISA constructor,
// `new aarch64.ISA()` alone is empty) and dumps every instruction form as JSON:
//
//   { "count": N, "forms": [ { "idx", "name", "operands" (raw db operand string), "op" (raw db bit template),
//                              "opcodeValue", "ext": [...], "category": [...], "aliasOf", "imm", "control",
//                              "fields": { name: { bits, mask, values:[{index,from,size}] } },
//                              "template": [ {"lit": "0101"} | {"field": "Rd", "raw": "Rd", "lo": bit, "size": n, "from": k} ... ]  (msb first),
//                              "ops": [ parsed operand objects of aarch64.js, own enumerable properties ],
//                              "instRaw" (raw "inst" text of the JSON line), "immRaw", "attrs" (all other raw attributes of the
//                              line, e.g. the arrangement lists "t" / "ta.tb"), "groupExt", "groupCategory" } ] }
//
// The order of "forms" is the order of the JSON file (group order, line order, alias order) so that `idx` is stable.
"use strict";

const fs = require("fs");
const path = require("path");

const repo = process.argv[2] || process.env.VERIF_REPO || "/repo";
const out = process.argv[3] || "-";

const aarch64 = require(path.join(repo, "db", "aarch64.js"));
const json = JSON.parse(fs.readFileSync(path.join(repo, "db", "isa_aarch64.json"), "utf8"));

// Keep file order: wrap _addInstruction to record the sequence of created Instruction objects.
const seq = [];
class OrderedISA extends aarch64.ISA {
  _addInstruction(inst) {
    seq.push(inst);
    return super._addInstruction(inst);
  }
}
const isa = new OrderedISA(json);

function plain(v, depth) {
  if (v === null || v === undefined) return null;
  if (typeof v === "number" || typeof v === "string" || typeof v === "boolean") return v;
  if (depth > 6) return String(v);
  if (Array.isArray(v)) return v.map((x) => plain(x, depth + 1));
  if (typeof v === "object") {
    const o = {};
    for (const k of Object.keys(v)) {
      const x = v[k];
      if (typeof x === "function") continue;
      o[k] = plain(x, depth + 1);
    }
    return o;
  }
  return String(v);
}

// Independent re-split of the template (msb first) with absolute bit positions.  Field naming follows aarch64.js:
// "name:N" (N bits), "name[a:b]" / "name[a]" (bit slice of the value), "'name" / "name'" (low / high extra bit),
// bare register-like names (5 or 4 bits from FieldInfo), bare one-letter names (1 bit), runs like "0Q1" split
// into literal bits and one-letter fields.
function splitTemplate(s, fieldInfo) {
  const parts = [];
  for (let p of s.split("|")) {
    p = p.trim();
    if (/^[0-1A-Z]{2,}$/.test(p) && !fieldInfo[p])
      parts.push.apply(parts, p.match(/([0-1]+)|[A-Z]/g));
    else
      parts.push(p);
  }
  let bit = 32;
  const outp = [];
  for (const raw of parts) {
    if (/^[01]+$/.test(raw)) {
      bit -= raw.length;
      outp.push({ lit: raw, lo: bit, size: raw.length });
      continue;
    }
    let key = raw, size = 0, from = -1, m, quote = "";
    if ((m = key.match(/\[\s*(\d+)\s*:\s*(\d+)\s*\]$/))) {
      from = parseInt(m[2], 10); size = parseInt(m[1], 10) - from + 1; key = key.substring(0, m.index).trim();
    } else if ((m = key.match(/\[\s*(\d+)\s*\]$/))) {
      from = parseInt(m[1], 10); size = 1; key = key.substring(0, m.index).trim();
    } else if ((m = key.match(/:\s*(\d+)$/))) {
      size = parseInt(m[1], 10); key = key.substring(0, m.index).trim();
    } else if (key.startsWith("'")) {
      key = key.substring(1); size = 1; quote = "lo";
    } else if (key.endsWith("'")) {
      key = key.substring(0, key.length - 1); size = 1; quote = "hi";
    } else if (fieldInfo[key]) {
      size = fieldInfo[key].bits;
    } else if (key.length === 1) {
      size = 1;
    } else {
      size = 0;
    }
    bit -= size;
    outp.push({ field: key, raw: raw, lo: bit, size: size, from: from, quote: quote });
  }
  return { parts: outp, bits: 32 - bit };
}

const forms = [];
for (let i = 0; i < seq.length; i++) {
  const inst = seq[i];
  const t = splitTemplate(inst.opcodeString, aarch64.FieldInfo);
  forms.push({
    idx: i,
    name: inst.name,
    operands: inst.operands.map((o) => o.data).join(", "),
    op: inst.opcodeString,
    opcodeValue: inst.opcodeValue,
    ext: Object.keys(inst.ext).sort(),
    category: Object.keys(inst.category).sort(),
    aliasOf: inst.aliasOf || "",
    alt: !!inst.alt,
    control: inst.control,
    imm: inst.imm ? String(inst.imm) : "",
    immRaw: null,
    fields: plain(inst.fields, 0),
    template: t.parts,
    templateBits: t.bits,
    ops: inst.operands.map((o) => {
      const p = plain(o, 0);
      p.type = o.type; p.name = o.name; p.scale = o.scale;
      return p;
    })
  });
}

// attach the raw "imm" attribute text of the JSON line (exp.parse() objects do not print back)
{
  let k = 0;
  for (const group of json.instructions) {
    for (const line of group.data) {
      const names = line.inst.match(/^[\w\|]+/)[0].split("|");
      for (let j = 0; j < names.length; j++) {
        if (k < forms.length) {
          forms[k].immRaw = line.imm || null;
          forms[k].instRaw = line.inst;
          // every other raw attribute of the JSON line (arrangement lists "t", "ta.tb", ... , "io", "calc")
          const attrs = {};
          for (const a of Object.keys(line))
            if (a !== "inst" && a !== "op") attrs[a] = line[a];
          forms[k].attrs = attrs;
          forms[k].groupExt = group.ext || "";
          forms[k].groupCategory = group.category || "";
        }
        k++;
      }
    }
  }
  if (k !== forms.length) {
    process.stderr.write("dump_isa: form count mismatch " + k + " vs " + forms.length + "\n");
    process.exit(2);
  }
}

const text = JSON.stringify({ count: forms.length, forms: forms });
if (out === "-") process.stdout.write(text + "\n");
else fs.writeFileSync(out, text + "\n");
