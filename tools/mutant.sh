#!/bin/bash
# tools/mutant.sh <patch-file> <ID> [tier]  - run a check against a patched scratch worktree of /repo.
# The worktree and the matching build dirs are removed afterwards.  (Repo tests are run separately by
# tools/mutant_tests.sh because they take minutes.)
set -u
PATCH=$(readlink -f "$1"); ID=$2; TIER=${3:-quick}
W=$(mktemp -d /tmp/mut-XXXXXX)
git -C /repo worktree add --detach "$W" HEAD >/dev/null 2>&1 || { echo "worktree failed"; exit 2; }
if ! git -C "$W" apply "$PATCH"; then echo "patch does not apply"; git -C /repo worktree remove --force "$W"; exit 2; fi
cd /verif
VERIF_REPO="$W" ./check "$ID" --tier "$TIER"; RC=$?
KEY=$(python3 -c "import hashlib,sys,os;print(hashlib.sha1(os.path.abspath(sys.argv[1]).encode()).hexdigest()[:8])" "$W")
rm -rf /verif/build/*-"$KEY"
git -C /repo worktree remove --force "$W"
echo "mutant rc=$RC"
exit $RC
