#!/bin/bash
# tools/confirm_seeded.sh <ID> <worktree> <i>   - independently confirm a sub-agent's seeded change:
#   demo passes on the clean tree, the patched tree builds, all 10 repo tests pass, demo fails with the patch.
# On success the change is stored under /verif/seeded/<ID>-<i>/ with meta.json.
set -u
ID=$1; W=$2; I=$3; DI=${4:-$3}   # DI: index under seeded/ (later rounds continue the numbering)
O=$W/out
LOG=/verif/build/seeded-$ID-$DI.log
mkdir -p /verif/build
exec > >(tee "$LOG") 2>&1
git -C "$W" checkout -- . || exit 2
echo "== demo on clean tree"
bash "$O/demo$I.sh" "$W" > "$LOG.demo_clean" 2>&1; RC_CLEAN=$?
echo "clean demo rc=$RC_CLEAN"
git -C "$W" apply "$O/patch$I.diff" || { echo "PATCH DOES NOT APPLY"; exit 2; }
echo "== build patched"
if [ ! -d "$W/_build" ]; then cmake -S "$W" -B "$W/_build" -G Ninja -DCMAKE_BUILD_TYPE=RelWithDebInfo -DASMJIT_TEST=ON >/dev/null; fi
cmake --build "$W/_build" -j8 > "$LOG.build" 2>&1; RC_BUILD=$?
echo "build rc=$RC_BUILD"
echo "== ctest patched"
ctest --test-dir "$W/_build" -j8 --timeout 900 > "$LOG.ctest" 2>&1; RC_CTEST=$?
tail -4 "$LOG.ctest"
echo "== demo on patched tree"
bash "$O/demo$I.sh" "$W" > "$LOG.demo_patched" 2>&1; RC_PATCHED=$?
echo "patched demo rc=$RC_PATCHED"; tail -5 "$LOG.demo_patched"
git -C "$W" checkout -- .
if [ $RC_CLEAN -eq 0 ] && [ $RC_BUILD -eq 0 ] && [ $RC_CTEST -eq 0 ] && [ $RC_PATCHED -ne 0 ]; then
  D=/verif/seeded/$ID-$DI; mkdir -p "$D"
  cp "$O/patch$I.diff" "$D/patch.diff"; cp "$O/demo$I.cpp" "$D/demo.cpp"; cp "$O/demo$I.sh" "$D/demo.sh"; cp "$O/notes$I.md" "$D/notes.md" 2>/dev/null
  sed -i "s/demo$I\.cpp/demo.cpp/g; s/demo$I/demo/g" "$D/demo.sh"
  python3 - "$ID" "$DI" "$D" <<PY
import json,sys
pid,i,d=sys.argv[1:4]
json.dump(dict(property=pid, index=int(i), origin="independent sub-agent given only the property text and a scratch worktree",
  confirmed=dict(demo_clean_rc=$RC_CLEAN, build_rc=$RC_BUILD, ctest_rc=$RC_CTEST, ctest_summary=open("$LOG.ctest").read().strip().splitlines()[-3:], demo_patched_rc=$RC_PATCHED),
  ran=["bash demo.sh <clean worktree>", "git apply patch.diff", "cmake --build _build -j8", "ctest --test-dir _build -j8 --timeout 900", "bash demo.sh <patched worktree>"],
  needs="see notes.md", detected_by=None), open(d+"/meta.json","w"), indent=1)
PY
  echo "CONFIRMED $ID-$DI"
else
  echo "REJECTED $ID-$DI (clean=$RC_CLEAN build=$RC_BUILD ctest=$RC_CTEST patched=$RC_PATCHED)"
fi
