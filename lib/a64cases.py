"""AArch64 case generation from the ISA database (checks C02 / C13 / C14 / C20).

Pipeline
    load_db()            -> list of raw form dicts (tools/dump_isa.js output, cached under build/)
    plan_form(form)      -> FormPlan (slots = per-operand alphabets, value 0 = default) or raises Unsupported
    FormPlan.cases(k)    -> every assignment with <= k slots deviating from the default (tuples of value indexes)
    FormPlan.render(ch)  -> Case: .emit (line for harness/emit_a64), .ref (GNU/LLVM assembly text or None),
                            .expect ([(db field, value)] for the template leg), .ev (reference-side reasons why the
                            operands are NOT encodable, '<kind>:<slot>' with kind in badid, gp31, imm, off, idx, shift, arr,
                            vm-range, pair), .flags (zero_wb, plain_b, movimm / modimm = value-leg requests)

The reference-side validity predicates in here are written from the Arm ARM (A64 instruction descriptions), never from
AsmJit sources.  The db syntax is only used to know *which operands a form has*; where the db text is known to be loose
(SP/ZR annotations, pre/post-index scaling) the llvm-mc leg decides and the db is only the second witness.
"""
import json, os, re, subprocess, itertools

VERIF = os.path.dirname(os.path.dirname(os.path.abspath(__file__)))

GP_IDS = [0, 1, 15, 16, 29, 30]
GP_BAD = [32, 40, 62, 255, 256]          # never 31 (= SP in AsmJit) or 63 (= ZR in AsmJit)
VEC_IDS = [0, 1, 15, 16, 31]
VEC_BAD = [32, 40, 63, 255]
CONDS = ["eq", "ne", "cs", "cc", "mi", "pl", "vs", "vc", "hi", "ls", "ge", "lt", "gt", "le", "al", "nv"]
COND_ENC = {c: i for i, c in enumerate(CONDS)}
ARR_ALL = ["8B", "16B", "4H", "8H", "2S", "4S", "1D", "2D"]
ESIZE = {"B": 8, "H": 16, "S": 32, "D": 64, "Q": 128}
EXT_KINDS = ["uxtb", "uxth", "uxtw", "uxtx", "sxtb", "sxth", "sxtw", "sxtx"]


class Unsupported(Exception):
    pass


# --------------------------------------------------------------------------------------------------------------------
# database
# --------------------------------------------------------------------------------------------------------------------

def repo_dir():
    return os.environ.get("VERIF_REPO", "/repo")


def load_db(cache_dir=None):
    """Dumps the db of the *current* repository tree with tools/dump_isa.js (cached per db mtime)."""
    repo = repo_dir()
    cache_dir = cache_dir or os.path.join(VERIF, "build")
    os.makedirs(cache_dir, exist_ok=True)
    srcs = [os.path.join(repo, "db", n) for n in ("isa_aarch64.json", "aarch64.js", "base.js", "exp.js")]
    srcs.append(os.path.join(VERIF, "tools", "dump_isa.js"))
    import hashlib
    h = hashlib.sha1()
    for s in srcs:
        with open(s, "rb") as f:
            h.update(f.read())
    out = os.path.join(cache_dir, "isa_a64_%s.json" % h.hexdigest()[:12])
    if not os.path.exists(out):
        tmp = out + ".%d.tmp" % os.getpid()
        r = subprocess.run(["node", os.path.join(VERIF, "tools", "dump_isa.js"), repo, tmp],
                           stdout=subprocess.PIPE, stderr=subprocess.PIPE, text=True)
        if r.returncode != 0:
            raise RuntimeError("dump_isa.js failed: " + r.stderr[-2000:])
        os.replace(tmp, out)
    with open(out) as f:
        return json.load(f)["forms"]


def split_top(s):
    """Split at top-level commas ([], {} nest)."""
    out, depth, cur = [], 0, ""
    for ch in s:
        if ch in "[{":
            depth += 1
        elif ch in "]}":
            depth -= 1
        if ch == "," and depth == 0:
            out.append(cur.strip())
            cur = ""
        else:
            cur += ch
    if cur.strip():
        out.append(cur.strip())
    return out


def form_signature(form):
    return form["instRaw"].split(None, 1)[1].strip() if " " in form["instRaw"].strip() else ""


def form_key(form):
    """Stable text naming the db form: '<mnemonic> <db operand syntax>' with blanks removed."""
    return (form["name"] + ":" + re.sub(r"\s+", "", form_signature(form))) or form["name"]


# --------------------------------------------------------------------------------------------------------------------
# db operand syntax -> specs
# --------------------------------------------------------------------------------------------------------------------

SUF = r"(d2|dn|s2|t2|x2|d|n|m|a|t|s|x)"
RE_GP = re.compile(r"^([WXR])" + SUF + r"(\|W?SP)?$")
RE_VS = re.compile(r"^([BHSDQ])" + SUF + r"$")
RE_VV = re.compile(r"^([VD])" + SUF + r"(?:\.(ta|tb|t|\d+[BHSDQ]|[BHSD]|\d))?(?:\[#(idx\d?|\d+)\])?$")
RE_LIST = re.compile(r"^(\d)x\{(.+)\}(\+)?(?:\[#(idx)\])?$")
RE_IMM = re.compile(r"^(\{)?#([A-Za-z_]\w*|\d+)(?:\*(\d+))?(?:=(\w+))?\}?$")
RE_SHIFT = re.compile(r"^(\{)?((?:[a-z]+\|)*[a-z]+) #n(?:=([\d|]+))?(?:\*(\d+))?\}?$")


def parse_token(tok):
    m = RE_GP.match(tok)
    if m:
        return dict(k="gp", w=m.group(1), suf=m.group(2), sp=bool(m.group(3)))
    m = RE_VS.match(tok)
    if m:
        return dict(k="vs", sz=m.group(1), suf=m.group(2))
    m = RE_VV.match(tok)
    if m and (m.group(3) or m.group(4)):
        return dict(k="vv", suf=m.group(2), arr=m.group(3), idx=m.group(4))
    m = RE_LIST.match(tok)
    if m:
        item = parse_token(m.group(2))
        if item is None or item["k"] not in ("gp", "vv"):
            return None
        return dict(k="list", n=int(m.group(1)), item=item, idx=bool(m.group(4)))
    m = RE_SHIFT.match(tok)
    if m:
        return dict(k="shift", opt=bool(m.group(1)), ops=m.group(2).split("|"), amounts=m.group(3), scale=m.group(4))
    m = RE_IMM.match(tok)
    if m:
        return dict(k="imm", opt=bool(m.group(1)), name=m.group(2), scale=int(m.group(3)) if m.group(3) else 1,
                    default=m.group(4))
    if tok.startswith("["):
        return parse_mem_token(tok)
    return None


def parse_mem_token(tok):
    modes = []
    t = tok
    while True:
        if t.endswith("{!}"):
            modes.append("pre"); modes.append("off"); t = t[:-3]; continue
        if t.endswith("{@}"):
            modes.append("post"); modes.append("off"); t = t[:-3]; continue
        break
    if t.endswith("!"):
        modes = ["pre"]; t = t[:-1]
    elif t.endswith("@"):
        modes = ["post"]; t = t[:-1]
    if not modes:
        modes = ["off"]
    modes = sorted(set(modes), key=["off", "pre", "post"].index)
    if not (t.startswith("[") and t.endswith("]")):
        return None
    parts = split_top(t[1:-1])
    spec = dict(k="mem", modes=modes, pc=False, off=None, index=None, ext=None)
    if parts[0] == "PC":
        spec["pc"] = True
    else:
        b = RE_GP.match(parts[0])
        if not b or b.group(1) != "X":
            return None
        spec["base_sp"] = bool(b.group(3))
        spec["base_suf"] = b.group(2)
    for p in parts[1:]:
        m = re.match(r"^#(off[SZ]?)(?:\*(\d+))?$", p)
        if m:
            spec["off"] = dict(name=m.group(1), scale=int(m.group(2) or 1), fixed=None)
            continue
        m = re.match(r"^#off==?(.+)$", p)
        if m:
            spec["off"] = dict(name="off", scale=1, fixed=m.group(1))
            continue
        m = re.match(r"^#(\d+)$", p)
        if m:
            spec["off"] = dict(name="off", scale=1, fixed=m.group(1))
            continue
        g = RE_GP.match(p)
        if g:
            spec["index"] = dict(w=g.group(1), suf=g.group(2))
            continue
        m = re.match(r"^\{((?:[a-z]+\|)*[a-z]+) #n(?:\*(\d+))?\}$", p)
        if m:
            spec["ext"] = dict(ops=m.group(1).split("|"), amount=int(m.group(2) or 0))
            continue
        return None
    return spec


# --------------------------------------------------------------------------------------------------------------------
# values -> text
# --------------------------------------------------------------------------------------------------------------------

def gp_name(w, v, ref):
    """w in 'w','x'.  v: int id | 'zr' | 'sp'.  ref=True: GNU/LLVM name (None if there is none)."""
    if v == "zr":
        return w + "zr"
    if v == "sp":
        return "wsp" if w == "w" else "sp"
    if ref and not (0 <= v <= 30):
        return None
    return "%s%d" % (w, v)


def gp_field(v):
    return 31 if v in ("zr", "sp") else (v & 31)


def gp_bad(v):
    return v not in ("zr", "sp") and not (0 <= v <= 30)


def vec_bad(v):
    return not (0 <= v <= 31)


def fmt_imm(v):
    if isinstance(v, float):
        return "#%r" % v
    if isinstance(v, int) and abs(v) > 0xFFFF:
        return "#0x%x" % v if v >= 0 else "#-0x%x" % (-v)
    return "#%d" % v


def has_ev(case, kind):
    """Does the case carry a reference-side 'not encodable' reason of that kind ('badid', 'gp31', 'imm', 'off', ...)?"""
    return any(e == kind or e.startswith(kind + ":") for e in case.ev)


def primary_ev(case):
    """The one reason that goes into the violation key: invalid register ids first, then SP/ZR, then the rest."""
    order = {"badid": 0, "gp31": 1}
    return sorted(case.ev, key=lambda e: (order.get(e.split(":")[0], 2), e))[0] if case.ev else ""


class Case:
    __slots__ = ("form", "choice", "emit", "ref", "expect", "ev", "dev", "nwords", "flags")

    def __init__(self):
        self.emit = None
        self.ref = None
        self.expect = []
        self.ev = []
        self.dev = ()
        self.nwords = 1
        self.flags = {}


class R:
    """Accumulates the two renderings of one case."""
    def __init__(self):
        self.emit = []
        self.ref = []
        self.ref_ok = True
        self.expect = []
        self.ev = []
        self.flags = {}
        self.mn_emit = None
        self.mn_ref = None

    def add(self, e, r):
        self.emit.append(e)
        if r is None:
            self.ref_ok = False
        else:
            self.ref.append(r)


# --------------------------------------------------------------------------------------------------------------------
# form plan
# --------------------------------------------------------------------------------------------------------------------

class FormPlan:
    def __init__(self, form):
        self.form = form
        self.idx = form["idx"]
        self.name = form["name"]
        self.key = form_key(form)
        self.slots = []          # [(name, [values])]
        self.renderers = []      # fn(ctx, R)
        self.mn_emit = form["name"]
        self.mn_ref = form["name"]
        self.opfields = []       # per db operand: register field name or None (for sibling-template matching)

    def slot(self, name, values):
        vals = []
        for v in values:
            if v not in vals:
                vals.append(v)
        self.slots.append((name, vals))
        return name

    def n_cases(self, k):
        """Number of assignments with at most k deviating slots (sum of elementary symmetric polynomials)."""
        sizes = [len(v) - 1 for _, v in self.slots]
        k = min(k, len(sizes))
        e = [1] + [0] * k
        for x in sizes:
            for j in range(k, 0, -1):
                e[j] += e[j - 1] * x
        return sum(e)

    def cases(self, k):
        """All choices (tuples of value indexes) with at most k deviations; default first."""
        n = len(self.slots)
        base = [0] * n
        yield tuple(base)
        for d in range(1, min(k, n) + 1):
            for pos in itertools.combinations(range(n), d):
                ranges = [range(1, len(self.slots[p][1])) for p in pos]
                for combo in itertools.product(*ranges):
                    ch = list(base)
                    for p, c in zip(pos, combo):
                        ch[p] = c
                    yield tuple(ch)

    def ctx_of(self, choice):
        return {name: vals[c] for (name, vals), c in zip(self.slots, choice)}

    def render(self, choice):
        ctx = self.ctx_of(choice)
        r = R()
        r.mn_emit, r.mn_ref = self.mn_emit, self.mn_ref
        for fn in self.renderers:
            fn(ctx, r)
        c = Case()
        c.form = self.idx
        c.choice = tuple(choice)
        c.dev = tuple(self.slots[i][0] for i, x in enumerate(choice) if x)
        c.emit = r.mn_emit + ((" " + ", ".join(r.emit)) if r.emit else "")
        c.ref = (r.mn_ref + ((" " + ", ".join(r.ref)) if r.ref else "")) if r.ref_ok else None
        c.expect = r.expect
        c.ev = r.ev
        c.flags = r.flags
        return c

    def describe(self, choice):
        ctx = self.ctx_of(choice)
        return ", ".join("%s=%s" % (n, ctx[n]) for (n, _), c in zip(self.slots, choice) if c) or "default"


def find_field(form, suf, prefer):
    """Name of the template field that holds the register with db suffix `suf` ('d','n','m','t2',...)."""
    fields = form["fields"]
    for p in prefer:
        if p + suf in fields:
            return p + suf
    for p in "RVWXBHSDQZ":
        if p + suf in fields:
            return p + suf
    # the db sometimes names the operand and its field differently (stores: Sd / Vs, long shifts: Vd / Vx)
    alias = {"d": ["s", "x", "t"], "d2": ["s2", "t2"], "x": ["d"], "s": ["d", "t"], "s2": ["t2"], "t": ["d", "s"], "t2": ["d2", "s2"]}
    for a in alias.get(suf, []):
        for p in prefer + "RV":
            if p + a in fields:
                return p + a
    return None


def plan_form(form, names, wide=False, siblings=()):
    """names: set of mnemonics the assembler under test knows.  wide: every register id 0..30 / 0..31 in the alphabets.
    siblings: the other db forms of the same mnemonic (their arrangement lists tell which arrangements exist at all)."""
    if "SVE" in form["category"] or "SME" in form["category"]:
        raise Unsupported("SVE/SME form (AsmJit has no Z/P registers)")
    name = form["name"]
    p = FormPlan(form)
    m = re.match(r"^(b|bc)\.<cond>$", name)
    if m:
        if m.group(1) not in names:
            raise Unsupported("mnemonic unknown to the assembler")
        p.slot("cc", ["ne"] + CONDS)

        def mn(ctx, r, base=m.group(1)):
            r.mn_emit = "%s.%s" % (base, ctx["cc"])
            r.mn_ref = "%s.%s" % (base, ctx["cc"])
            if base == "b" and ctx["cc"] == "al":
                # CondCode::kAL is AsmJit's "no condition": the instruction id b|AL *is* the plain B
                r.mn_ref = "b"
                r.flags["plain_b"] = True
                return
            r.expect.append(("cond", COND_ENC[ctx["cc"]]))
        p.renderers.append(mn)
    elif name not in names:
        raise Unsupported("mnemonic unknown to the assembler")

    sig = form_signature(form)
    toks = split_top(sig) if sig else []
    specs = []
    for t in toks:
        s = parse_token(t)
        if s is None:
            raise Unsupported("operand syntax '%s'" % t)
        s["tok"] = t
        specs.append(s)
    B = Builder(p, form, specs, wide, siblings)
    B.build()
    return p


# --------------------------------------------------------------------------------------------------------------------
# builder: specs -> slots + renderers
# --------------------------------------------------------------------------------------------------------------------

class Builder:
    def __init__(self, plan, form, specs, wide=False, siblings=()):
        self.siblings = siblings
        self.p = plan
        self.form = form
        self.specs = specs
        self.gp_ids = list(range(31)) if wide else GP_IDS
        self.vec_ids = list(range(32)) if wide else VEC_IDS
        self.attrs = form.get("attrs", {})
        self.name = form["name"]
        self.fields = form["fields"]
        self.immfn = re.sub(r"\(.*", "", form.get("immRaw") or "")
        self.next_gp = 2
        self.next_vec = 2
        self.tslot = None
        self.esize_fn = None     # ctx -> element size relevant for shift immediates

    # -- helpers -------------------------------------------------------------------------------------------------
    def gp_default(self):
        v = self.next_gp
        self.next_gp += 1
        return v

    def vec_default(self, n=1):
        v = self.next_vec
        self.next_vec += n
        return v

    def width_bits(self):
        """Operand size of a GP form (32/64) from its first W/X operand."""
        for s in self.specs:
            if s["k"] == "gp" and s["w"] in "WX":
                return 32 if s["w"] == "W" else 64
        return 64

    def arr_slots(self):
        """Arrangement slot(s) shared by .t / .ta / .tb operands."""
        if self.tslot is not None:
            return
        a = self.attrs
        uses = set(s.get("arr") for s in self.all_vv())
        if "t" in uses:
            if "t" not in a:
                raise Unsupported(".t operand without arrangement list")
            own = [x for x in a["t"].split() if x != "~"]
            # arrangements no form of this mnemonic (same operand count) lists: must be refused
            nops = len(self.specs)
            exist = set(own)
            for f in self.siblings:
                sig = form_signature(f)
                if len(split_top(sig) if sig else []) != nops:
                    continue
                t = f.get("attrs", {}).get("t", "")
                exist.update(x for x in t.split() if "." not in x)
                exist.update(re.findall(r"\.(\d+[BHSD])\b", sig))
            self.t_exist = exist
            # ("1D" is left out: AsmJit spells it as the scalar register d<N>, which usually is a valid scalar form)
            foreign = [x for x in ARR_ALL if x not in exist and x != "1D"]
            self.tslot = self.p.slot("t", own + foreign)
            if foreign:
                def tfn(ctx, r, exist=exist):
                    if ctx["t"] not in exist:
                        r.ev.append("arr")
                self.p.renderers.append(tfn)
        if "ta" in uses or "tb" in uses:
            if "ta.tb" in a:
                self.tslot2 = self.p.slot("ta.tb", [x for x in a["ta.tb"].split() if "." in x])   # '~' = no such size
            elif "t" in a and "." in a["t"] and "t" not in uses:
                self.tslot2 = self.p.slot("ta.tb", [x for x in a["t"].split() if "." in x])   # pairs stored under "t"
            elif "ta" in a and "tb" in a:
                raise Unsupported("separate ta/tb lists")
            elif "ta" not in uses:
                # `.tb` alone (usdot): same arrangement as the preceding fixed-arrangement source operand
                prev = [x.get("arr") for x in self.all_vv() if x.get("arr") not in ("t", "ta", "tb", None)]
                if not prev:
                    raise Unsupported(".tb operand without arrangement list")
                self.tslot2 = self.p.slot("ta.tb", ["%s.%s" % (prev[-1], prev[-1])])
            else:
                raise Unsupported(".ta/.tb operand without arrangement list")

    def all_vv(self):
        for s in self.specs:
            if s["k"] == "vv":
                yield s
            elif s["k"] == "list" and s["item"]["k"] == "vv":
                yield s["item"]

    def arr_of(self, spec, ctx):
        a = spec.get("arr")
        if a == "t":
            return ctx["t"]
        if a == "ta":
            return ctx["ta.tb"].split(".")[0]
        if a == "tb":
            return ctx["ta.tb"].split(".")[1]
        return a

    # -- main ----------------------------------------------------------------------------------------------------
    def build(self):
        self.arr_slots()
        specs = self.specs
        # shift/extend operand directly after a GP operand `Rm`/`Wm` decides that register's width
        for i, s in enumerate(specs):
            k = s["k"]
            if k == "gp":
                nxt = specs[i + 1] if i + 1 < len(specs) else None
                self.op_gp(i, s, nxt)
            elif k == "vs":
                self.op_vs(i, s)
            elif k == "vv":
                self.op_vv(i, s)
            elif k == "list":
                self.op_list(i, s)
            elif k == "imm":
                self.op_imm(i, s)
            elif k == "shift":
                self.op_shift(i, s)
            elif k == "mem":
                self.op_mem(i, s)
            else:
                raise Unsupported("operand kind " + k)

    # -- GP register -----------------------------------------------------------------------------------------------
    def op_gp(self, i, s, nxt):
        p = self.p
        field = find_field(self.form, s["suf"], "R")
        if field is None:
            raise Unsupported("no template field for '%s'" % s["tok"])
        d = self.gp_default()
        sl = p.slot("r%d" % i, [d] + self.gp_ids + ["zr", "sp"] + GP_BAD)
        # a register of the other width (W <-> X) at a position where no form of the mnemonic takes that width: must be refused
        wsl = None
        if s["w"] in ("W", "X"):
            other = "X" if s["w"] == "W" else "W"
            exists = False
            for f in list(self.siblings) + [self.form]:
                sig = form_signature(f)
                toks = split_top(sig) if sig else []
                if i < len(toks):
                    t = parse_token(toks[i])
                    if t is None or t.get("k") != "gp" or t.get("w") in (other, "R"):
                        exists = True
                        break
            if not exists:
                wsl = p.slot("rw%d" % i, [0, 1])
        ext_slot = None
        if s["w"] == "R":
            if nxt is not None and nxt["k"] == "shift" and "extend" in nxt["ops"]:
                ext_slot = "sh%d" % (i + 1)
            elif self.name in ("st64bv", "st64bv0"):
                pass
            else:
                raise Unsupported("R register without extend")

        def fn(ctx, r, s=s, sl=sl, field=field, ext_slot=ext_slot, wsl=wsl):
            v = ctx[sl]
            w = s["w"].lower()
            if wsl is not None and ctx[wsl]:
                w = "x" if w == "w" else "w"
                r.add(gp_name(w, v, False), None)
                r.expect.append((field, gp_field(v)))
                r.ev.append("gpwidth:" + sl)
                if gp_bad(v):
                    r.ev.append("badid:" + sl)
                return
            if w == "r":
                w = "x"
                if ext_slot:
                    sh = ctx[ext_slot]
                    if sh is not None and sh[0] not in ("uxtx", "sxtx", "lsl"):
                        w = "w"
                    if sh is None:
                        w = "x"
            r.add(gp_name(w, v, False), gp_name(w, v, True))
            r.expect.append((field, gp_field(v)))
            if gp_bad(v):
                r.ev.append("badid:" + sl)
            elif (v == "sp" and not s["sp"]) or (v == "zr" and s["sp"]):
                r.ev.append("gp31:" + sl)
        p.renderers.append(fn)

    # -- scalar vector register ------------------------------------------------------------------------------------
    def op_vs(self, i, s):
        p = self.p
        field = find_field(self.form, s["suf"], "V")
        if field is None:
            raise Unsupported("no template field for '%s'" % s["tok"])
        d = self.vec_default()
        sl = p.slot("v%d" % i, [d] + self.vec_ids + VEC_BAD)

        def fn(ctx, r, s=s, sl=sl, field=field):
            v = ctx[sl]
            nm = "%s%d" % (s["sz"].lower(), v)
            r.add(nm, None if vec_bad(v) else nm)
            r.expect.append((field, v & 31))
            if vec_bad(v):
                r.ev.append("badid:" + sl)
        p.renderers.append(fn)

    # -- vector register with arrangement / element ------------------------------------------------------------------
    def idx_bits(self, name):
        f = self.fields.get(name)
        if f is None:
            return None
        return f["bits"]

    def vv_text(self, s, ctx, v, idxval):
        """(emit text, ref text) of one vector operand with id v."""
        arr = self.arr_of(s, ctx)
        if s.get("idx") is None:
            a = arr.lower()
            if a == "1d":
                e = "d%d" % v
            elif a == "1q":
                e = "q%d" % v
            else:
                e = "v%d.%s" % (v, a)
            return e, "v%d.%s" % (v, a)
        # element access
        if arr is None:
            raise Unsupported("element access without type")
        a = arr.lower()
        if a == "4":          # sm3tt*: db writes Vm.4[#idx] for Vm.S[imm2]; AsmJit wants v.4s with an index
            return "v%d.4s[%d]" % (v, idxval), "v%d.s[%d]" % (v, idxval)
        return "v%d.%s[%d]" % (v, a, idxval), "v%d.%s[%d]" % (v, a, idxval)

    def elem_max(self, s):
        """Largest architecturally valid element index for an element operand (None if fixed)."""
        if s["idx"].isdigit():
            return None
        bits = self.idx_bits(s["idx"])
        if bits is None and s["idx"] == "idx":
            bits = self.idx_bits("imm")      # a few forms name the index field imm[..]
        if bits is None:
            raise Unsupported("element index without template field")
        return (1 << bits) - 1

    def op_vv(self, i, s, ):
        p = self.p
        pref = "V"
        field = find_field(self.form, s["suf"], pref)
        if field is None:
            raise Unsupported("no template field for '%s'" % s["tok"])
        d = self.vec_default()
        sl = p.slot("v%d" % i, [d] + self.vec_ids + VEC_BAD)
        isl = None
        fixed_idx = None
        emax = None
        if s.get("idx") is not None:
            if s["idx"].isdigit():
                fixed_idx = int(s["idx"])
            else:
                emax = self.elem_max(s)
                vals = [1 if emax >= 1 else 0, 0, emax]
                if emax + 1 <= 15:
                    vals.append(emax + 1)
                isl = p.slot("i%d" % i, vals)
        fbits = self.fields[field]["bits"]
        braces = (re.match(r"^(ld|st)[1-4]$", self.name) and i == 0) or (self.name in ("tbl", "tbx") and i == 1)

        def fn(ctx, r, s=s, sl=sl, isl=isl, field=field, fixed_idx=fixed_idx, emax=emax, fbits=fbits, braces=braces):
            v = ctx[sl]
            iv = fixed_idx if fixed_idx is not None else (ctx[isl] if isl else None)
            e, t = self.vv_text(s, ctx, v, iv)
            if braces:
                # the db spells one-register lists without braces (ld1 Vx.B[#idx], tbl Vd, Vn.16B, Vm)
                m = re.match(r"^(v\d+\.\w+)(\[\d+\])?$", t)
                t = "{ " + m.group(1) + " }" + (m.group(2) or "")
            r.add(e, None if vec_bad(v) else t)
            r.expect.append((field, v & ((1 << fbits) - 1)))
            if vec_bad(v):
                r.ev.append("badid:" + sl)
            elif v >= (1 << fbits):
                r.ev.append("vm-range:" + sl)      # restricted register range (Vm:4 -> v0..v15)
            if emax is not None and iv > emax:
                r.ev.append("idx:" + isl)
        p.renderers.append(fn)

    # -- register list -----------------------------------------------------------------------------------------------
    def op_list(self, i, s):
        p = self.p
        item = s["item"]
        n = s["n"]
        if item["k"] == "gp":
            field = find_field(self.form, item["suf"], "R")
            if field is None:
                raise Unsupported("no template field for '%s'" % s["tok"])
            d = self.next_gp + (self.next_gp & 1)
            self.next_gp = d + n
            sl = p.slot("r%d" % i, [d, 0, 16, 28, 1, 15, "zr"] + GP_BAD)

            def fn(ctx, r, sl=sl, item=item, field=field, n=n):
                v = ctx[sl]
                w = item["w"].lower()
                for j in range(n):
                    if v == "zr":
                        vj = "zr" if j == 0 else j - 1
                    else:
                        vj = v if j == 0 else ((v + j) if v <= 31 else ((v + j) & 31))
                        if v <= 30 and vj == 31:
                            vj = "zr"
                    r.add(gp_name(w, vj, False), gp_name(w, vj, True))
                r.expect.append((field, gp_field(v)))
                if gp_bad(v):
                    r.ev.append("badid:" + sl)
                elif v == "zr" or (n == 2 and (v & 1)):
                    r.ev.append("pair:" + sl)          # CASP/SYSP pairs: Rs must be even and below 31
            p.renderers.append(fn)
            return
        # vector list
        field = find_field(self.form, item["suf"], "V")
        if field is None:
            raise Unsupported("no template field for '%s'" % s["tok"])
        d = self.vec_default(n)
        sl = p.slot("v%d" % i, [d, 0, 1, 15, 16, 30, 31] + VEC_BAD)
        isl = None
        emax = None
        if s["idx"]:
            bits = self.idx_bits("idx")
            if bits is None:
                # D element forms spell the index as idx:1 only in Q; look at the item type
                raise Unsupported("list element index without template field")
            emax = (1 << bits) - 1
            vals = [1 if emax >= 1 else 0, 0, emax]
            if emax + 1 <= 15:
                vals.append(emax + 1)
            isl = p.slot("i%d" % i, vals)

        def fn(ctx, r, sl=sl, isl=isl, item=item, field=field, n=n, emax=emax):
            v = ctx[sl]
            arr = self.arr_of(item, ctx).lower()
            refs = []
            for j in range(n):
                vj = (v + j) & 31 if not vec_bad(v) else (v + j) & 31 if j else v
                if isl is not None:
                    r.emit.append("v%d.%s[%d]" % (vj, arr, ctx[isl]))
                    refs.append("v%d.%s" % (vj, arr))
                else:
                    if arr == "1d":
                        r.emit.append("d%d" % vj)
                    else:
                        r.emit.append("v%d.%s" % (vj, arr))
                    refs.append("v%d.%s" % (vj, arr))
            if vec_bad(v):
                r.ref_ok = False
                r.ev.append("badid:" + sl)
            else:
                r.ref.append("{ " + ", ".join(refs) + " }" + ("[%d]" % ctx[isl] if isl is not None else ""))
            r.expect.append((field, v & 31))
            if emax is not None and ctx[isl] > emax:
                r.ev.append("idx:" + isl)
        p.renderers.append(fn)

    # -- shift / extend operand --------------------------------------------------------------------------------------
    def op_shift(self, i, s):
        p = self.p
        ops = s["ops"]
        size = self.width_bits()
        vals = []
        if ops == ["extend"]:
            kinds = EXT_KINDS + ["lsl"]
            vals = [("uxtw", 1)] + [(k, a) for k in kinds for a in (0, 4, 5)] + [None]
        elif ops == ["sop"]:
            kinds = ["lsl", "lsr", "asr", "ror"]
            vals = [("lsl", 3)] + [(k, a) for k in kinds for a in (0, 1, size - 1, size)] + [None]
        elif s["amounts"]:
            am = [int(x) for x in s["amounts"].split("|")]
            vals = [(ops[0], am[-1])] + [(ops[0], a) for a in am] + [(ops[0], am[-1] + 1), ("lsr", am[-1]), None]
        elif self.immfn in ("ASimdMovPImm", "ASimdMovNImm", "ASimdLogicalImm"):
            vals = [None, ("lsl", 0), ("lsl", 8), ("lsl", 16), ("lsl", 24), ("lsl", 32), ("lsl", 4), ("msl", 8), ("msl", 16), ("msl", 24), ("msl", 0)]
        elif ops == ["lsl"] and self.name in ("movz", "movn", "movk"):
            vals = [("lsl", 16), ("lsl", 0), ("lsl", 32), ("lsl", 48), ("lsl", 64), ("lsl", 8), ("lsr", 16), None]
        else:
            kinds = ops
            other = [k for k in ("lsl", "lsr", "asr", "ror") if k not in ops]
            vals = [(kinds[0], 3)] + [(k, a) for k in kinds for a in (0, 1, size - 1, size)] + [(other[0], 1)] + [None]
        if not s["opt"]:
            vals = [v for v in vals if v is not None]
        elif self.name in ("cmp", "cmn") and s["amounts"]:
            vals = [None] + vals
        sl = p.slot("sh%d" % i, vals)
        modimm = self.immfn in ("ASimdMovPImm", "ASimdMovNImm", "ASimdLogicalImm")

        def ok(v):
            """Arm ARM: which shift/extend kinds and amounts the instruction class has."""
            kind, amt = v
            if modimm:
                return True                     # judged together with the immediate (simd_modimm)
            if ops == ["extend"]:
                return (kind in EXT_KINDS or kind == "lsl") and 0 <= amt <= 4
            if s["amounts"]:
                return kind == ops[0] and amt in [int(x) for x in s["amounts"].split("|")]
            if ops == ["lsl"] and self.name in ("movz", "movn", "movk"):
                return kind == "lsl" and amt % 16 == 0 and 0 <= amt < size
            kinds = ["lsl", "lsr", "asr", "ror"] if ops == ["sop"] else ops
            return kind in kinds and 0 <= amt < size

        def fn(ctx, r, sl=sl):
            v = ctx[sl]
            if v is None:
                return
            t = "%s #%d" % v
            r.add(t, t)
            if not ok(v):
                r.ev.append("shift:" + sl)
        p.renderers.append(fn)

    # -- memory operand ------------------------------------------------------------------------------------------------
    def op_mem(self, i, s):
        p = self.p
        form = self.form
        if s["pc"]:
            # literal: [PC, #offS*4] with offS:19
            osl = p.slot("off", [16, 0, 4, -4, (1 << 20) - 4, 1 << 20, -(1 << 20), -(1 << 20) - 4, 2, 1])

            def fn(ctx, r, osl=osl):
                o = ctx[osl]
                r.add("[pc, #%d]" % o, "#%d" % o)
                if o % 4 or not (-(1 << 20) <= o < (1 << 20)):
                    r.ev.append("off")
            p.renderers.append(fn)
            return
        d = self.gp_default() + 6
        bsl = p.slot("mb", [d] + self.gp_ids + ["sp", "zr"] + GP_BAD)
        msl = None
        if len(s["modes"]) > 1:
            msl = p.slot("mm", s["modes"])
        osl = isl = esl = None
        cls = None
        if s["off"] is not None and s["off"]["fixed"] is None and s["off"]["name"] not in self.fields:
            s = dict(s)
            s["off"] = None          # db slip: ldxp/ldaxp have no offset (and no field for one)
        if s["off"] is not None:
            o = s["off"]
            if o["fixed"] is not None:
                osl = p.slot("off", ["fixed", 0, "fixed+1", "fixed*2", -1])
            else:
                cls = self.off_class(s)
                osl = p.slot("off", self.off_values(cls))
        if s["index"] is not None:
            di = self.gp_default() + 10
            isl = p.slot("mi", [di] + self.gp_ids + ["zr", "sp"] + GP_BAD)
        if s["ext"] is not None:
            amt = s["ext"]["amount"]
            kinds = ["lsl", "uxtw", "sxtw", "sxtx"]
            vals = [None] + [(k, a) for k in kinds for a in (0, amt)] + [("lsl", amt + 1 if amt else 1), ("uxtw", amt + 1 if amt else 1)]
            vals += [("uxtx", 0), ("uxtb", 0), ("lsr", 0), ("sxtx", 1 if amt != 1 else 2)]
            esl = p.slot("mx", vals)
        bfield = find_field(form, s.get("base_suf", "n"), "R")
        ifield = find_field(form, s["index"]["suf"], "R") if s["index"] else None

        def fn(ctx, r, s=s, bsl=bsl, msl=msl, osl=osl, isl=isl, esl=esl, cls=cls, bfield=bfield, ifield=ifield):
            b = ctx[bsl]
            mode = ctx[msl] if msl else s["modes"][0]
            be, br = gp_name("x", b, False), gp_name("x", b, True)
            if bfield:
                r.expect.append((bfield, gp_field(b)))
            if gp_bad(b):
                r.ev.append("badid:" + bsl)
            elif b == "zr":
                r.ev.append("gp31:" + bsl)
            e_in = [be]
            r_in = [br]
            post_ref = None
            if osl is not None:
                o = ctx[osl]
                if isinstance(o, str):
                    fx = self.fixed_off(s, ctx)
                    o = {"fixed": fx, "fixed+1": fx + 1, "fixed*2": fx * 2}[o]
                    if o != fx:
                        r.ev.append("off")
                elif s["off"]["fixed"] is not None:
                    if o != self.fixed_off(s, ctx):
                        r.ev.append("off")
                else:
                    if not self.off_valid(cls, mode, o):
                        r.ev.append("off")
                e_in.append("#%d" % o)
                if mode in ("pre", "post") and o == 0:
                    r.flags["zero_wb"] = True     # write-back by zero: same architectural effect as no write-back
                if mode == "post":
                    post_ref = "#%d" % o
                else:
                    r_in.append("#%d" % o)
            if isl is not None:
                iv = ctx[isl]
                ext = ctx[esl] if esl else None
                w = "x"
                if s["index"]["w"] == "R" and ext is not None and ext[0] in ("uxtw", "sxtw", "uxtb", "uxth", "sxtb", "sxth"):
                    w = "w"
                ie, ir = gp_name(w, iv, False), gp_name(w, iv, True)
                r.expect.append((ifield, gp_field(iv)))
                if gp_bad(iv):
                    r.ev.append("badid:" + isl)
                elif iv == "sp":
                    r.ev.append("gp31:" + isl)
                elif iv == "zr" and mode == "post":
                    r.ev.append("gp31:" + isl)     # post-index register 31 means "immediate" form, xzr is not an index
                e_in.append(ie)
                if mode == "post":
                    post_ref = ir
                    if ir is None:
                        r.ref_ok = False
                else:
                    r_in.append(ir)
                    if ir is None:
                        r.ref_ok = False
                if ext is not None:
                    e_in.append("%s #%d" % ext)
                    # AsmJit's Mem cannot tell "lsl #0" from "no shift" (and "uxtw #0" from "uxtw"): the operand built
                    # here IS the amount-less one, so that is the text it denotes
                    if ext[1] != 0:
                        r_in.append("%s #%d" % ext)
                    elif ext[0] != "lsl":
                        r_in.append(ext[0])
                    amt = s["ext"]["amount"]
                    if ext[0] not in ("lsl", "uxtw", "sxtw", "sxtx") or ext[1] not in (0, amt):
                        r.ev.append("shift:" + esl)
            if br is None:
                r.ref_ok = False
            suffix_e = {"off": "", "pre": "!", "post": "@"}[mode]
            r.emit.append("[" + ", ".join(e_in) + "]" + suffix_e)
            if r.ref_ok:
                if mode == "post":
                    t = "[" + r_in[0] + "]"
                    if post_ref is not None:
                        t += ", " + post_ref
                    # a post-index operand without offset does not exist in the reference syntax
                    r.ref.append(t)
                else:
                    r.ref.append("[" + ", ".join(r_in) + "]" + ("!" if mode == "pre" else ""))
        p.renderers.append(fn)

    def fixed_off(self, s, ctx):
        fx = s["off"]["fixed"]
        m = re.match(r"^(\d+)<<sz$", fx)
        if m:
            arr = ctx.get("t")
            es = ESIZE[arr[-1]] // 8
            return int(m.group(1)) * es
        return int(fx)

    def off_class(self, s):
        """(kind, bits, scale) of an immediate-offset addressing form, from the Arm ARM encoding classes.
        The db spelling gives field name/width and scale; pre/post-indexed single-register loads/stores have an
        UNSCALED simm9 whatever the db says."""
        o = s["off"]
        f = self.fields.get(o["name"])
        if f is None:
            raise Unsupported("memory offset without template field")
        bits = f["bits"]
        scale = o["scale"]
        signed = o["name"].endswith("S")
        modes = s["modes"]
        if signed and bits == 9 and ("pre" in modes or "post" in modes) and self.name not in ("stg", "st2g", "stzg", "stz2g", "ldg"):
            scale = 1
        if self.name in ("ldraa", "ldrab"):
            return ("simm", 10, 8)
        if not signed:
            # unsigned scaled offset; plain ldr/str forms fall back to the unscaled simm9 encoding (LDUR/STUR alias rules
            # of the reference assembler accept that too), so the reference-side validity is the union
            return ("uimm_or_simm9", bits, scale)
        return ("simm", bits, scale)

    def off_values(self, cls):
        kind, bits, scale = cls
        if kind == "simm":
            mx = ((1 << (bits - 1)) - 1) * scale
            mn = -(1 << (bits - 1)) * scale
            vals = [scale * 2, 0, scale, -scale, mx, mx + scale, mn, mn - scale]
            if scale > 1:
                vals += [1, scale + 1, scale // 2]
            return vals
        mx = ((1 << bits) - 1) * scale
        vals = [scale * 2, 0, scale, -scale, mx, mx + scale, -256, -257, 255, 256 if scale > 1 else 4096]
        if scale > 1:
            vals += [1, scale + 1, mx - 1]
            # multiples of a smaller access size: unaligned for this form, so only the unscaled fallback (if any) may take them
            h = scale // 2
            vals += [h, scale + h, 256 + h, mx - h]
        return vals

    def off_valid(self, cls, mode, o):
        kind, bits, scale = cls
        if kind == "simm":
            return o % scale == 0 and -(1 << (bits - 1)) <= o // scale < (1 << (bits - 1))
        if o % scale == 0 and 0 <= o // scale < (1 << bits):
            return True
        if self.name in ("prfm", "ldr", "str", "ldrb", "strb", "ldrh", "strh", "ldrsb", "ldrsh", "ldrsw"):
            return -256 <= o <= 255
        return False

    # -- immediates ----------------------------------------------------------------------------------------------------
    def op_imm(self, i, s):
        h = ImmKinds(self, i, s)
        h.build()


# --------------------------------------------------------------------------------------------------------------------
# immediates
# --------------------------------------------------------------------------------------------------------------------

def is_logical_imm(v, size):
    """Arm ARM DecodeBitMasks inverse: v is a repetition of a rotated run of ones, not all-zeros / all-ones."""
    mask = (1 << size) - 1
    v &= mask
    if v == 0 or v == mask:
        return False
    e = size
    while e > 2:
        h = e // 2
        if (v & ((1 << h) - 1)) != ((v >> h) & ((1 << h) - 1)):
            break
        e = h
    emask = (1 << e) - 1
    x = v & emask
    # rotated run of ones inside e bits
    for rot in range(e):
        y = ((x >> rot) | (x << (e - rot))) & emask
        if y & (y + 1) == 0 and y != 0 and y != emask:
            return True
    return False


def is_fp8(v):
    """Arm ARM VFPExpandImm: +-(16..31)/16 * 2^(-3..4)."""
    if v != v or v in (float("inf"), float("-inf")) or v == 0:
        return False
    a = abs(v)
    for e in range(-3, 5):
        m = a / (2.0 ** e) * 16
        if m == int(m) and 16 <= m <= 31:
            return True
    return False


class ImmKinds:
    def __init__(self, b, i, s):
        self.b = b
        self.p = b.p
        self.i = i
        self.s = s
        self.name = s["name"]

    def simple(self, values, valid, field=None, enc=None, fmt=None, fmt_ref=None, resolve=None, hook=None):
        """One slot; `valid(v, ctx)` is the reference predicate, `enc(v, ctx)` the expected field value.
        resolve(v, ctx) turns a symbolic alphabet entry ('max', 'max+1', ...) into the number for this context."""
        p = self.p
        sl = p.slot("imm%d" % self.i, values)
        fmt = fmt or (lambda v, ctx: fmt_imm(v))
        fmt_ref = fmt_ref or fmt

        def fn(ctx, r, sl=sl):
            v = ctx[sl]
            if v is None:
                return
            if resolve is not None:
                v = resolve(v, ctx)
            r.add(fmt(v, ctx), fmt_ref(v, ctx))
            ok = valid(v, ctx)
            if not ok:
                r.ev.append("imm:" + sl)
            elif field is not None and enc is not None:
                r.expect.append((field, enc(v, ctx)))
            if hook is not None:
                hook(v, ctx, r)
        p.renderers.append(fn)
        return sl

    def field_bits(self, nm):
        f = self.b.fields.get(nm)
        return f["bits"] if f else None

    def min_esize(self, ctx):
        """Smallest element size among the vector operands (narrow side of narrowing / long shifts)."""
        b = self.b
        es = []
        for sp in b.specs:
            if sp["k"] == "vs":
                es.append(ESIZE[sp["sz"]])
            elif sp["k"] == "vv":
                a = b.arr_of(sp, ctx)
                if a:
                    es.append(ESIZE[a[-1].upper()])
        return min(es) if es else 0

    def int_side_size(self, ctx):
        """Fixed-point conversions: width of the integer side = GP register width if there is one, else element size."""
        for sp in self.b.specs:
            if sp["k"] == "gp":
                return 32 if sp["w"] == "W" else 64
        return self.min_esize(ctx)

    def build(self):
        b, s, nm = self.b, self.s, self.name
        iname = b.name
        immfn = b.immfn
        size = b.width_bits()

        if nm.isdigit():
            # fixed immediate (#0, #8, #16, #32)
            fx = int(nm)
            if fx == 0 and iname.startswith("f"):
                # fcmp/fcmeq ... #0.0 - the reference syntax wants a floating literal
                self.simple([0, 1], lambda v, c: v == 0, fmt=lambda v, c: "#%d" % v,
                            fmt_ref=lambda v, c: "#0.0" if v == 0 else "#1.0")
            else:
                self.simple([fx, fx + 1] + ([0] if fx else []), lambda v, c: v == fx)
            return
        if nm == "cond":
            sl = self.p.slot("imm%d" % self.i, ["ne"] + CONDS)
            field = "cond" if "cond" in b.fields else None
            inv = iname in ("cinc", "cinv", "cneg", "cset", "csetm")

            def fn(ctx, r, sl=sl):
                c = ctx[sl]
                r.add(c, c)
                if inv:
                    if c in ("al", "nv"):
                        r.ev.append("imm:" + sl)
                    elif field:
                        r.expect.append((field, COND_ENC[c] ^ 1))
                elif field:
                    r.expect.append((field, COND_ENC[c]))
            self.p.renderers.append(fn)
            return
        if nm == "nzcv":
            self.simple([5, 0, 15, 16, -1], lambda v, c: 0 <= v <= 15, "nzcv", lambda v, c: v)
            return
        if nm in ("relS",):
            scale = s["scale"]
            bits = self.field_bits("relS")
            if iname == "adrp":
                vals = [0x3000, 0, 0x1000, -0x1000, ((1 << 20) - 1) << 12, 1 << 32, -(1 << 32), -(1 << 32) - 0x1000, 0x800, 4]
                self.simple(vals, lambda v, c: v % 4096 == 0 and -(1 << 32) <= v < (1 << 32))
                return
            mx = ((1 << (bits - 1)) - 1) * scale
            mn = -(1 << (bits - 1)) * scale
            vals = [scale * 4, 0, scale, -scale, mx, mx + scale, mn, mn - scale]
            if scale > 1:
                vals += [1, 2, scale + 2]
            self.simple(vals, lambda v, c: v % scale == 0 and mn <= v <= mx)
            return
        if immfn in ("LogicalImm", "ImmLogical") or nm == "log_imm":
            if size == 32:
                vals = [0xFF, 1, 0x55555555, 0x80000000, 0x7FFFFFFF, 0xFFFFFFFE, 0xFF00FF00, 0x0003C000, 0xE0000007,
                        0, 0xFFFFFFFF, 0x12345, 0x1FFFFFFFF, 5,
                        # wrapping run (valid) and two runs the second of which ends one bit below the top (invalid)
                        0xC0000003, 0x60000001, 0x40000001, 0x41414141]
            else:
                vals = [0xFF, 1, 0x5555555555555555, 0x8000000000000000, 0x7FFFFFFFFFFFFFFF, 0xFFFFFFFFFFFFFFFE,
                        0xFF00FF00FF00FF00, 0x0003C0000003C000, 0xFFFF0000FFFF0000, 0xE000000000000007, 0x00000000FFFFFFFF,
                        0, 0xFFFFFFFFFFFFFFFF, 0x12345, 0x100000001, 5,
                        0xC000000000000003, 0x7F00000000000001, 0x6000000000000001, 0x4141414141414141, 0x4001400140014001]
            if iname == "mov":
                self.mov_imm(vals + [0x1234, 0xFFFF0000, (1 << size) - 1 - 0x1234, 0x123456789ABC,
                                    # MOVN-led sequences (MOVN + one / two MOVK), 32-bit values with a 0xFFFF half in an X register
                                    0xFFFFFFFF12341234, 0xFFFF1234FFFF5678, (1 << size) - 100000, 0x0000FFFFFFFF1234, 0x1234FFFF, 0xFFFF1234], size)
                return
            self.simple(vals, lambda v, c: 0 <= v < (1 << size) and is_logical_imm(v, size))
            return
        if immfn in ("ImmWide", "ImmWideInv") and iname == "mov":
            m = (1 << size) - 1
            if immfn == "ImmWide":
                vals = [0x1234, 0, 0xFFFF, 0x12340000, 0xFFFF0000] + ([0x123400000000, 0xFFFF000000000000] if size == 64 else [])
            else:
                vals = [m ^ 0x1234, m, m ^ 0x12340000] + ([m ^ 0x123400000000, m ^ 0xFFFF000000000000] if size == 64 else [])
            self.mov_imm(vals + [0xFF00FF00, 0x12345], size)
            return
        if iname in ("movz", "movn", "movk") and nm == "imm":
            self.simple([0x1234, 0, 0xFFFF, 0x10000, -1], lambda v, c: 0 <= v <= 0xFFFF, "imm", lambda v, c: v)
            return
        if nm == "n" and immfn == "" and iname in ("asr", "lsl", "lsr", "ror"):
            self.simple([3, 0, 1, size - 1, size, -1], lambda v, c: 0 <= v < size)
            return
        if nm in ("lsb", "width"):
            # bfc/bfi/bfxil/sbfiz/sbfx/ubfiz/ubfx: 0 <= lsb < size, 1 <= width <= size - lsb  (joint constraint)
            if nm == "lsb":
                b._lsb_slot = self.simple([4, 0, 1, size - 1, size, -1], lambda v, c: 0 <= v < size)
            else:
                lsl = getattr(b, "_lsb_slot", None)
                self.simple([8, 1, 2, size - 4, size - 3, size, size + 1, 0, -1],
                            lambda v, c: 1 <= v and 0 <= c[lsl] < size and v <= size - c[lsl])
            return
        if nm in ("immr", "imms"):
            self.simple([5, 0, 1, size - 1, size, -1], lambda v, c: 0 <= v < size, nm, lambda v, c: v)
            return
        if (nm == "immZ" and iname in ("add", "adds", "sub", "subs")) or (nm == "imm" and iname in ("cmp", "cmn")):
            # 12-bit immediate, optionally LSL #12; assemblers also take a 24-bit value with 12 low zero bits
            self.simple([0x123, 0, 1, 0xFFF, 0x1000, 0xFFF000, 0x1001, 0x1000000, -1, 0x12345, 0x100000000, 0x800123000, 0x100000123],
                        lambda v, c: 0 <= v <= 0xFFF or (v & 0xFFF == 0 and 0 <= v <= 0xFFF000 and self.no_shift(c)))
            return
        if nm == "imm" and iname in ("ccmp", "ccmn"):
            self.simple([7, 0, 31, 32, -1], lambda v, c: 0 <= v <= 31, "imm", lambda v, c: v)
            return
        if nm == "imm" and iname == "extr":
            self.simple([5, 0, 1, size - 1, size, -1], lambda v, c: 0 <= v < size, "imm", lambda v, c: v)
            return
        if nm == "imm" and iname in ("tbz", "tbnz"):
            self.simple([5, 0, 31, 32, 63, 64, -1], lambda v, c: 0 <= v < size)
            return
        if nm in ("fbits", "bits"):
            # fixed-point conversions: 1 .. width of the integer side
            def res(v, c):
                n = self.int_side_size(c)
                return {"max": n, "max+1": n + 1}.get(v, v)
            self.simple([3, 1, "max", "max+1", 0], lambda v, c: 1 <= v <= self.int_side_size(c), resolve=res)
            return
        if immfn in ("ASimdShiftNImm", "ASimdSHRN"):
            # right shifts: 1 .. esize of the narrow side
            def res(v, c):
                n = self.min_esize(c)
                return {"max": n, "max+1": n + 1, "max-1": n - 1}.get(v, v)
            self.simple([3, 1, "max-1", "max", "max+1", 0], lambda v, c: 1 <= v <= self.min_esize(c), resolve=res)
            return
        if immfn in ("ASimdShiftPImm", "ASimdSHL"):
            # left shifts: 0 .. esize-1 of the narrow side
            def res(v, c):
                n = self.min_esize(c)
                return {"max": n - 1, "max+1": n, "max+2": n + 1}.get(v, v)
            self.simple([3, 0, 1, "max", "max+1", "max+2", -1], lambda v, c: 0 <= v <= self.min_esize(c) - 1, resolve=res)
            return
        if nm == "fimm":
            # not encodable: one fraction bit below the 4 kept ones set (bits 47, 42, 33, 32 | 31, 16, 0 of the double)
            self.simple([1.5, 1.0, -1.0, 0.125, 31.0, -31.0, 1.9375, 0.1328125, 0.0, 0.1, 32.0, 0.0625,
                         1.0 + 2.0 ** -5, 1.0 + 2.0 ** -10, 2.0 + 2.0 ** -18, -(1.0 + 2.0 ** -20), 1.0 + 2.0 ** -21, 0.5 + 2.0 ** -37, 1.0 + 2.0 ** -52],
                        lambda v, c: is_fp8(v), fmt=lambda v, c: "#%r" % v)
            return
        if nm == "rotate":
            if immfn == "ASimdRotateImm_90_270":
                self.simple([90, 270, 0, 180, 91, 360], lambda v, c: v in (90, 270))
            else:
                self.simple([90, 0, 180, 270, 45, 360], lambda v, c: v in (0, 90, 180, 270))
            return
        if immfn in ("ASimdMovPImm", "ASimdMovNImm", "ASimdLogicalImm"):
            self.simd_modimm()
            return
        if nm == "sysreg":
            # (op0, op1, CRn, CRm, op2); AsmJit's SysReg immediate is op0:op1:CRn:CRm:op2 (16 bits, op0 >= 2)
            regs = [(3, 0, 1, 0, 0), (3, 3, 13, 0, 2), (3, 3, 4, 2, 0), (2, 0, 0, 2, 2), (3, 7, 15, 15, 7), (2, 7, 15, 15, 7),
                    (3, 0, 0, 0, 0), (1, 0, 7, 5, 0), (0, 3, 4, 0, 5), (4, 0, 0, 0, 0)]

            def enc_api(v):
                return (v[0] << 14) | (v[1] << 11) | (v[2] << 7) | (v[3] << 3) | v[4]
            self.simple(regs, lambda v, c: v[0] in (2, 3), "sysreg", lambda v, c: enc_api(v) & 0x7FFF,
                        fmt=lambda v, c: "#0x%x" % enc_api(v), fmt_ref=lambda v, c: "S%d_%d_C%d_C%d_%d" % v)
            return
        if nm in ("at_op", "dc_op", "ic_op", "tlbi_op"):
            tables = {
                "at_op": [(0, 7, 8, 0), (0, 7, 8, 1), (0, 7, 8, 2), (0, 7, 8, 3), (4, 7, 8, 0), (4, 7, 8, 4), (6, 7, 8, 1), (0, 7, 9, 0), (0, 7, 9, 1)],
                "dc_op": [(3, 7, 4, 1), (0, 7, 6, 1), (0, 7, 6, 2), (0, 7, 10, 2), (0, 7, 14, 2), (3, 7, 10, 1), (3, 7, 11, 1), (3, 7, 14, 1), (3, 7, 12, 1)],
                "ic_op": [(3, 7, 5, 1)] if len(b.specs) == 2 else [(0, 7, 5, 0), (0, 7, 1, 0)],
                "tlbi_op": ([(0, 8, 3, 1), (0, 8, 7, 1), (4, 8, 3, 1), (0, 8, 7, 3), (6, 8, 7, 1), (0, 8, 3, 5), (4, 8, 0, 1)] if len(b.specs) == 2
                            else [(0, 8, 3, 0), (0, 8, 7, 0), (4, 8, 3, 0), (4, 8, 7, 0), (6, 8, 7, 0), (4, 8, 3, 4), (4, 8, 7, 6)]),
            }
            vals = tables[nm]
            sl = self.p.slot("imm%d" % self.i, vals)

            def fn(ctx, r, sl=sl):
                v = ctx[sl]
                r.emit.append("#0x%x" % ((v[0] << 11) | (v[1] << 7) | (v[2] << 3) | v[3]))
                # reference text: the generic SYS spelling of the same operation (aliases share the encoding)
                r.mn_ref = "sys"
                r.ref.append("#%d, c%d, c%d, #%d" % v)
                for f, x in (("op1", v[0]), ("CRn", v[1]), ("CRm", v[2]), ("op2", v[3])):
                    if f in b.fields:
                        r.expect.append((f, x))
            self.p.renderers.append(fn)
            self.p.sys_generic = True
            return
        if nm in ("Cn", "Cm", "CRn", "CRm"):
            field = {"Cn": "CRn", "Cm": "CRm"}.get(nm, nm)
            self.simple([7 if nm[-1] == "n" else 5, 0, 15, 16, -1], lambda v, c: 0 <= v <= 15, field, lambda v, c: v,
                        fmt_ref=lambda v, c: "c%d" % v)
            return
        if nm == "prf_op":
            self.simple([5, 0, 31, 32, -1], lambda v, c: 0 <= v <= 31, "prf_op", lambda v, c: v)
            return
        if nm in ("barrier_op", "isb_op") or (nm == "imm" and b.attrs.get("CRm") == "imm"):
            vals = [5, 0, 15, 16, -1] if nm != "isb_op" else [15, 0, 5, 16, -1]
            if iname == "dsb":
                vals = [5, 15, 1, 9, 16, -1]      # 0/4/8/12 denote SSBB / PSSBB / the nXS forms in the reference syntax
            if s["opt"]:
                vals.append(None)
            self.simple(vals, lambda v, c: 0 <= v <= 15, "CRm", lambda v, c: v)
            return
        if nm == "pstatefield":
            names = {(0, 5): "SPSel", (3, 6): "DAIFSet", (3, 7): "DAIFClr", (0, 4): "PAN", (0, 3): "UAO", (3, 2): "DIT", (3, 1): "SSBS", (3, 4): "TCO"}
            vals = [(3, 6), (3, 7), (0, 5), (0, 4), (0, 3), (3, 2), (3, 1), (3, 4)]
            sl = self.p.slot("imm%d" % self.i, vals)
            b._pstate_slot = sl

            def fn(ctx, r, sl=sl):
                v = ctx[sl]
                r.add("#%d" % ((v[0] << 3) | v[1]), names[v])
                r.expect += [("op1", v[0]), ("op2", v[1])]
            self.p.renderers.append(fn)
            return
        if nm == "imm" and iname == "msr":
            def valid(v, c):
                # Arm ARM MSR (immediate): CRm is a free 4-bit field for PAN/UAO/SPSel/SSBS/DIT/TCO/DAIFSet/DAIFClr (only
                # CRm<0> is *used* by some of them; assemblers may be stricter, the encoding exists)
                return 0 <= v <= 15
            self.simple([1, 0, 15, 16, -1], valid, "imm", lambda v, c: v)
            return
        if nm == "targets":
            tn = {0: "", 1: "c", 2: "j", 3: "jc"}
            sl = self.p.slot("imm%d" % self.i, [3, 0, 1, 2, 4, None])

            def fn(ctx, r, sl=sl):
                v = ctx[sl]
                if v is None:
                    return
                r.emit.append("#%d" % v)
                if v in tn:
                    if tn[v]:
                        r.ref.append(tn[v])
                    r.expect.append(("op2", v << 1))
                else:
                    r.ref_ok = False
                    r.ev.append("imm:" + sl)
            self.p.renderers.append(fn)
            return
        if nm == "imm1" and iname in ("addg", "subg"):
            self.simple([32, 0, 16, 1008, 1024, 8, -16], lambda v, c: v % 16 == 0 and 0 <= v <= 1008)
            return
        if nm == "imm2" and iname in ("addg", "subg"):
            self.simple([11, 0, 15, 16, -1], lambda v, c: 0 <= v <= 15)
            return
        # generic: operand named like a template field, unsigned unless the name ends in S
        bits = self.field_bits(nm)
        if bits is not None and immfn == "":
            signed = nm.endswith("S")
            scale = s["scale"]
            if signed:
                mx, mn = ((1 << (bits - 1)) - 1) * scale, -(1 << (bits - 1)) * scale
            else:
                mx, mn = ((1 << bits) - 1) * scale, 0
            vals = [min(mx, 3 * scale), mn, mx, mx + scale, mn - scale] + ([1] if scale > 1 else [])
            if s["opt"]:
                vals.append(None)
            self.simple(vals, lambda v, c: v % scale == 0 and mn <= v <= mx, nm,
                        lambda v, c: (v // scale) & ((1 << bits) - 1))
            return
        raise Unsupported("immediate '%s' (%s)" % (s["tok"], immfn or "no imm function"))

    def mov_imm(self, vals, size):
        """MOV Rd, #imm: an alias with several legal single-instruction encodings (MOVZ, MOVN, ORR-immediate, 32- or
        64-bit).  Judged by value: flags['movimm'] = (requested register, 64-bit value); 'encodable' (reference) iff one
        of the three instructions can produce the value."""
        def single(v):
            v &= (1 << size) - 1
            if movw_ok(v, size) or is_logical_imm(v, size):
                return True
            if size == 64 and v < (1 << 32) and (movw_ok(v, 32) or is_logical_imm(v, 32)):
                return True       # a 32-bit MOVZ/MOVN/ORR zero-extends into the X register
            return False

        def hook(v, ctx, r):
            reg = None
            for k, x in ctx.items():
                if k.startswith("r"):
                    reg = x
                    break
            r.flags["movimm"] = (reg, v & ((1 << size) - 1), size, single(v))
        self.simple(vals, lambda v, c: True, hook=hook)

    def no_shift(self, ctx):
        for k, v in ctx.items():
            if k.startswith("sh"):
                return v is None or v[1] == 0
        return True

    def simd_modimm(self):
        """MOVI / MVNI / ORR / BIC (vector, immediate).  Reference predicate (Arm ARM AdvSIMDExpandImm):
        8-bit elements: imm8, no shift; 16-bit: imm8 LSL 0|8; 32-bit: imm8 LSL 0|8|16|24 or MSL 8|16 (not for ORR/BIC);
        64-bit (MOVI only): every byte 0x00 or 0xFF.  Without an explicit shift operand an assembler may take the shifted
        value itself (0xAB00 == 0xAB LSL 8), so that is 'encodable' too."""
        b = self.b
        iname = b.name

        def arr(ctx):
            for sp in b.specs:
                if sp["k"] == "vs":
                    return "1" + sp["sz"]
                if sp["k"] == "vv":
                    return b.arr_of(sp, ctx)
            return None

        def shift_of(ctx):
            for k, v in ctx.items():
                if k.startswith("sh"):
                    return v
            return None

        def request(v, ctx):
            """(class, q, 64-bit pattern) the operands ask for, or None when they do not denote a constant at all."""
            a = arr(ctx)
            es = ESIZE[a[-1].upper()]
            sh = shift_of(ctx)
            q = 1 if a.upper() in ("16B", "8H", "4S", "2D") else 0
            if v < 0 and es == 64:
                v &= (1 << 64) - 1        # two's complement of the 64-bit pattern
            if v < 0:
                return None
            cls = {"movi": "mov", "mvni": "mov", "orr": "orr", "bic": "bic"}[iname]
            if es == 64:
                if sh is not None and sh != ("lsl", 0):
                    return None
                if v >= (1 << 64) or cls != "mov":
                    return None
                lane = v
            elif sh is None:
                lane = v
            else:
                if sh[0] == "lsl":
                    # (an immediate wider than 8 bits with an explicit LSL still denotes the lane value imm << amount;
                    # whether some encoding produces that lane pattern is decided by the expressible-set below)
                    if sh[1] % 8 or sh[1] >= es:
                        return None
                    lane = v << sh[1]
                elif sh[0] == "msl":
                    if v > 0xFF or es != 32 or sh[1] not in (8, 16) or cls != "mov":
                        return None
                    lane = (v << sh[1]) | ((1 << sh[1]) - 1)
                else:
                    return None
            if lane >= (1 << es):
                return None
            pat = 0
            for k in range(64 // es):
                pat |= lane << (k * es)
            if iname == "mvni":
                pat = ~pat & ((1 << 64) - 1)
            return cls, q, pat

        def valid(v, ctx):
            from . import a64ref
            rq = request(v, ctx)
            return rq is not None and rq[2] in a64ref.modimm_expressible(rq[0])

        def vals_for():
            return ["dflt", 0, 0xFF, 0x100, 0x1FF, 0xAB00, "mask", "badmask", -1]

        def res(v, ctx):
            a = arr(ctx)
            es = ESIZE[a[-1].upper()]
            if v == "dflt":
                return 0xFF00FF0000FFFF00 if es == 64 else 0xAB
            if v == "mask":
                return 0x00FF00FFFF0000FF if es == 64 else 0x7F
            if v == "badmask":
                return 0x0123000000000000 if es == 64 else 0x101
            return v

        def f_ref(v, ctx):
            return "#0x%x" % v if v >= 0 else "#-%d" % -v
        def hook(v, ctx, r):
            # value leg: the constant (class, Q, 64-bit pattern) the emitted word must materialise; None = no such constant
            r.flags["modimm"] = request(v, ctx) if valid(v, ctx) else None
        self.simple(vals_for(), valid, resolve=res, fmt=f_ref, fmt_ref=f_ref, hook=hook)


def movz_ok(v, size):
    for sh in range(0, size, 16):
        if v & ~(0xFFFF << sh) == 0:
            return True
    return False


def movw_ok(v, size):
    m = (1 << size) - 1
    if movz_ok(v & m, size):
        return True
    nv = ~v & m
    if size == 32 and (v & m) in (0xFFFF0000, 0x0000FFFF):
        pass
    return movz_ok(nv, size)
