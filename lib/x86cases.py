"""x86 / x86-64 case generation for the emit_x86 filter (C01; reusable by C12/C13/C14/C20).

A *case* is one request to the assembler: mode, mnemonic, option bits, extra register, operands and the label
set-up around it.  Cases are derived from the forms of the ISA database (tools/dump_isa_x86.js) as
"default instantiation + deviations": every form has *slots* (one per explicit operand, one for the implicit
operands, one for the AVX-512 decoration, one for the prefix/encoding options); a deviation replaces the default
of one slot by another symbol of that slot's finite alphabet.

Everything here is independent of asmjit: register names, sizes and option bit values are written down from the
architecture manuals / asmjit's *public* headers (option bit values, RegType numbers are part of the API).

Abstract operands (plain tuples, hashable):
  ('r', kind, id)      kind: r8 r8hi r16 r32 r64 mm xmm ymm zmm k tmm sreg creg dreg st bnd
                        (r8hi id 0..3 = ah ch dh bh as in asmjit's Gp8Hi; sreg id 1..6 = es cs ss ds fs gs)
  ('m', Mem)           see class Mem
  ('i', value)         python int (any size)
  ('l', n)             label n; where it is bound is described by the case's pre/post ops
"""
import json, os, subprocess, hashlib, collections

VERIF = os.path.dirname(os.path.dirname(os.path.abspath(__file__)))

# ---------------------------------------------------------------------------------------------------------------
# public asmjit API constants (asmjit/core/inst.h InstOptions, asmjit/core/operand.h RegType)
# ---------------------------------------------------------------------------------------------------------------
OPT = dict(short=0x10, long=0x20, modmr=0x100, modrm=0x200, vex3=0x400, vex=0x800, evex=0x1000, lock=0x2000,
           rep=0x4000, repne=0x8000, xacquire=0x10000, xrelease=0x20000, er=0x40000, sae=0x80000,
           rd=0x200000, ru=0x400000, rz=0x600000, z=0x800000, rex=0x40000000)
ER_MODES = {"rn": OPT["er"], "rd": OPT["er"] | OPT["rd"], "ru": OPT["er"] | OPT["ru"], "rz": OPT["er"] | OPT["rz"]}

KIND_TO_REGTYPE = {"r8": "gp8lo", "r8hi": "gp8hi", "r16": "gp16", "r32": "gp32", "r64": "gp64", "mm": "mm",
                   "xmm": "vec128", "ymm": "vec256", "zmm": "vec512", "k": "mask", "tmm": "tile", "sreg": "seg",
                   "creg": "cr", "dreg": "dr", "st": "st", "bnd": "bnd", "rip": "pc"}
KIND_BITS = {"r8": 8, "r8hi": 8, "r16": 16, "r32": 32, "r64": 64, "mm": 64, "xmm": 128, "ymm": 256, "zmm": 512,
             "k": 64, "tmm": 8192, "sreg": 16, "creg": 64, "dreg": 64, "st": 80, "bnd": 128}

# ---------------------------------------------------------------------------------------------------------------
# own register-name tables (Intel SDM vol.1 ch.3 / vol.2 ch.2), NOT taken from asmjit's formatter
# ---------------------------------------------------------------------------------------------------------------
_G8 = ["al", "cl", "dl", "bl", "spl", "bpl", "sil", "dil"] + ["r%db" % i for i in range(8, 16)]
_G8H = ["ah", "ch", "dh", "bh"]
_G16 = ["ax", "cx", "dx", "bx", "sp", "bp", "si", "di"] + ["r%dw" % i for i in range(8, 16)]
_G32 = ["eax", "ecx", "edx", "ebx", "esp", "ebp", "esi", "edi"] + ["r%dd" % i for i in range(8, 16)]
_G64 = ["rax", "rcx", "rdx", "rbx", "rsp", "rbp", "rsi", "rdi"] + ["r%d" % i for i in range(8, 16)]
_SEG = [None, "es", "cs", "ss", "ds", "fs", "gs"]
REG_NAMES = {
    "r8": _G8, "r8hi": _G8H, "r16": _G16, "r32": _G32, "r64": _G64, "sreg": _SEG,
    "mm": ["mm%d" % i for i in range(8)], "xmm": ["xmm%d" % i for i in range(32)],
    "ymm": ["ymm%d" % i for i in range(32)], "zmm": ["zmm%d" % i for i in range(32)],
    "k": ["k%d" % i for i in range(8)], "tmm": ["tmm%d" % i for i in range(8)],
    "creg": ["cr%d" % i for i in range(16)], "dreg": ["dr%d" % i for i in range(16)],
    "st": ["st(%d)" % i for i in range(8)], "bnd": ["bnd%d" % i for i in range(4)],
}
FIXED_REGS = {}
for _k, _names in REG_NAMES.items():
    for _i, _n in enumerate(_names):
        if _n:
            FIXED_REGS[_n] = (_k, _i)
# the database writes "zax/zsi/..." for "the address-size wide register"
Z_REGS = {"zax": 0, "zcx": 1, "zdx": 2, "zbx": 3, "zsp": 4, "zbp": 5, "zsi": 6, "zdi": 7}


def reg_name(kind, rid):
    """Architectural name of a register, or None if the architecture (without APX) has no such register."""
    names = REG_NAMES.get(kind)
    if names is None or rid < 0 or rid >= len(names):
        return None
    return names[rid]


class Mem(object):
    """Memory operand.  size: bytes (0 unspecified); seg: 0 none, 1..6 es cs ss ds fs gs; base: None,
    (kind,id) with kind r16/r32/r64, ('rip',0), ('label',n) or 'abs' (then disp is the absolute address);
    index: None or (kind,id) with kind r16/r32/r64/xmm/ymm/zmm; shift 0..3; disp int; bcst: 0 or N of {1toN};
    addr: 0 default, 1 abs, 2 rel (asmjit's AddrType request)."""
    __slots__ = ("size", "seg", "base", "index", "shift", "disp", "bcst", "addr")

    def __init__(self, size, base=None, index=None, shift=0, disp=0, seg=0, bcst=0, addr=0):
        self.size, self.base, self.index, self.shift, self.disp = size, base, index, shift, disp
        self.seg, self.bcst, self.addr = seg, bcst, addr

    def key(self):
        return (self.size, self.seg, self.base, self.index, self.shift, self.disp, self.bcst, self.addr)

    def __eq__(self, o):
        return isinstance(o, Mem) and self.key() == o.key()

    def __hash__(self):
        return hash(self.key())

    def __repr__(self):
        return "Mem" + repr(self.key())

    def replace(self, **kw):
        m = Mem(self.size, base=self.base, index=self.index, shift=self.shift, disp=self.disp, seg=self.seg,
                bcst=self.bcst, addr=self.addr)
        for k, v in kw.items():
            setattr(m, k, v)
        return m


class Case(object):
    __slots__ = ("mode", "name", "opts", "extra", "ops", "pre", "post", "form", "dev", "sig")

    def __init__(self, mode, name, opts, extra, ops, pre=(), post=(), form=-1, dev="default", sig=""):
        self.mode, self.name, self.opts, self.extra, self.ops = mode, name, opts, extra, tuple(ops)
        self.pre, self.post, self.form, self.dev, self.sig = tuple(pre), tuple(post), form, dev, sig

    def key(self):
        return (self.mode, self.name, self.opts, self.extra, self.ops, self.pre, self.post)


def semantic_canon(c):
    """Requests that denote the same instruction as a simpler one are judged as that one:
    ret/retf 0 == ret/retf (C2 0000 and C3 pop the same number of bytes)."""
    if c.name in ("ret", "retf") and c.ops == (("i", 0),):
        return Case(c.mode, c.name, c.opts, c.extra, (), c.pre, c.post, c.form, c.dev, c.sig)
    return c


# ---------------------------------------------------------------------------------------------------------------
# rendering: emit_x86 input line
# ---------------------------------------------------------------------------------------------------------------
_BCST_CODE = {0: 0, 2: 1, 4: 2, 8: 3, 16: 4, 32: 5, 64: 6}


def _emit_reg(r):
    return "%s.%d" % (KIND_TO_REGTYPE[r[0]], r[1])


def emit_operand(op):
    t = op[0]
    if t == "r":
        return "r,%s,%d" % (KIND_TO_REGTYPE[op[1]], op[2])
    if t == "i":
        v = op[1]
        if v < -(1 << 63) or v >= (1 << 64):
            raise ValueError("immediate does not fit 64 bits")
        return "i,%d" % v if v < (1 << 63) else "i,0x%x" % v
    if t == "l":
        return "l,%d" % op[1]
    if t == "m":
        m = op[1]
        if m.base is None or m.base == "abs":
            b = "abs"
        elif m.base[0] == "label":
            b = "L%d" % m.base[1]
        else:
            b = _emit_reg(m.base)
        i = "-" if m.index is None else _emit_reg(m.index)
        d = m.disp
        if d >= (1 << 63):
            d -= 1 << 64
        return "m,%d,%s,%s,%d,%d,%d,%d,%d" % (m.size, b, i, m.shift, d, m.seg, _BCST_CODE[m.bcst], m.addr)
    raise ValueError(op)


def emit_line(c, validate=True):
    extra = "-" if c.extra is None else _emit_reg(c.extra)
    parts = ["%d" % c.mode, "v" if validate else "n", c.name, "%x" % c.opts, extra]
    parts.extend(c.pre)
    parts.extend(emit_operand(o) for o in c.ops)
    parts.extend("+" + p for p in c.post)
    return " ".join(parts)


# ---------------------------------------------------------------------------------------------------------------
# rendering: Intel syntax for GNU as (own printer)
# ---------------------------------------------------------------------------------------------------------------
_PTR = {1: "byte", 2: "word", 4: "dword", 6: "fword", 8: "qword", 10: "tbyte", 16: "xmmword", 32: "ymmword",
        64: "zmmword"}


def _name_in_mode(kind, rid, mode):
    """Register name usable in `mode` (32-bit mode has only registers 0..7 of every class)."""
    if mode == 32 and rid >= 8:
        return None
    if mode == 32 and kind == "r64":
        return None
    return reg_name(kind, rid)


def intel_mem(m, mode):
    parts = []
    if m.base is None or m.base == "abs":
        pass
    elif m.base[0] == "rip":
        parts.append("rip")
    elif m.base[0] == "label":
        return None  # rendered by the caller (needs the label position)
    else:
        n = _name_in_mode(m.base[0], m.base[1], mode)
        if n is None:
            return None
        parts.append(n)
    if m.index is not None:
        n = _name_in_mode(m.index[0], m.index[1], mode)
        if n is None:
            return None
        # gas has no scale syntax for 16-bit addressing; "*1" is only needed to mark an index without base
        if m.shift == 0 and parts:
            parts.append(n)
        else:
            parts.append("%s*%d" % (n, 1 << m.shift))
    d = m.disp
    if parts:
        if d:
            parts.append("%d" % d)
        s = "+".join(parts).replace("+-", "-")
    else:
        s = "0x%x" % (d & 0xFFFFFFFFFFFFFFFF if mode == 64 else d & 0xFFFFFFFF)
    out = ""
    if m.bcst:
        # element size = m.size for a broadcast operand
        if m.size not in _PTR:
            return None
        out = _PTR[m.size] + " ptr "
    elif m.size:
        if m.size not in _PTR:
            return None
        out = _PTR[m.size] + " ptr "
    if m.seg >= 5:
        out += _SEG[m.seg] + ":"
    out += "[" + s + "]"
    if m.bcst:
        out += "{1to%d}" % m.bcst
    return out


# database / asmjit mnemonic -> GNU as mnemonic where the names differ (the db calls the 16-bit forms iret/popf/...;
# gas calls those iretw/popfw/... and uses the bare name for the mode's default size)
GAS_MNEMONIC = {"iret": "iretw", "popf": "popfw", "pushf": "pushfw", "popa": "popaw", "pusha": "pushaw",
                "popad": "popa", "pushad": "pusha", "iretd": "iret", "popfd": "popf", "pushfd": "pushf"}
_STRING_ES_DEST = {"movs", "cmps", "scas", "stos", "ins"}
_CX_BRANCH = {"jecxz", "loop", "loope", "loopne"}


def intel_text(c, mnemonic=None, length=None):
    """Intel-syntax line for GNU as, or None when the case cannot be written in gas syntax (registers that do not
    exist without APX, ...).  Encoding-choice options (rex, vex3, evex, short/long, mod-mr) are deliberately NOT
    passed on: the comparison is between decodings, which do not depend on the encoding chosen."""
    ops = []
    name = mnemonic or GAS_MNEMONIC.get(c.name, c.name)
    pre_words = ""
    src_ops = list(c.ops)
    if c.name in _CX_BRANCH:
        # gas names the counter through the mnemonic (jcxz/jecxz/jrcxz) or an address-size prefix (loop*)
        cx = None
        if len(src_ops) == 2 and src_ops[0][0] == "r":
            if src_ops[0][2] != 1 or src_ops[0][1] not in ("r16", "r32", "r64"):
                return None
            cx = KIND_BITS[src_ops[0][1]]
            src_ops = src_ops[1:]
        if cx is None:
            cx = c.mode
        if c.name == "jecxz":
            name = {16: "jcxz", 32: "jecxz", 64: "jrcxz"}[cx]
        elif cx != c.mode:
            pre_words = "addr%d " % cx
    for idx, op in enumerate(src_ops):
        t = op[0]
        if t == "r":
            n = _name_in_mode(op[1], op[2], c.mode) if op[1] != "sreg" else reg_name(op[1], op[2])
            if n is None:
                return None
            ops.append(n)
        elif t == "i":
            v = op[1]
            ops.append("%d" % v if -(1 << 31) <= v < (1 << 31) else ("0x%x" % v if v >= 0 else "-0x%x" % -v))
        elif t == "l":
            ops.append(_label_expr(c, op[1], length))
            if ops[-1] is None:
                return None
        elif t == "m" and idx == 0 and c.name in ("movdir64b", "enqcmd", "enqcmds", "umonitor") and isinstance(op[1].base, tuple) and \
                op[1].index is None and op[1].disp == 0 and op[1].seg in (0, 1):
            n = _name_in_mode(op[1].base[0], op[1].base[1], c.mode)      # gas writes the address register itself
            if n is None:
                return None
            ops.append(n)
        elif t == "m":
            m = op[1]
            if m.base is not None and m.base != "abs" and m.base[0] == "label":
                e = _label_expr(c, m.base[1], length)
                if e is None or c.mode != 64 or m.index is not None:
                    return None
                pfx = (_PTR[m.size] + " ptr ") if m.size in _PTR else ""
                s = pfx + (_SEG[m.seg] + ":" if m.seg >= 5 else "") + "[rip+" + e + ("%+d" % m.disp if m.disp else "") + "]"
            else:
                s = intel_mem(m, c.mode)
            if s is None:
                return None
            ops.append(s)
    # decorations
    if c.extra is not None and c.extra[0] == "k":
        if not ops:
            return None
        ops[0] += "{k%d}" % c.extra[1]
        if c.opts & OPT["z"]:
            ops[0] += "{z}"
    elif c.opts & OPT["z"]:
        return None
    rc = None
    if c.opts & OPT["er"]:
        rc = {0: "{rn-sae}", OPT["rd"]: "{rd-sae}", OPT["ru"]: "{ru-sae}", OPT["rz"]: "{rz-sae}"}[c.opts & OPT["rz"]]
    elif c.opts & OPT["sae"]:
        rc = "{sae}"
    if rc:
        pos = len(ops)
        while pos > 0 and c.ops[pos - 1][0] == "i":
            pos -= 1
        ops.insert(pos, rc)
    pfx = ""
    for op in c.ops:
        # es/cs/ss/ds overrides: gas drops a redundant override and refuses "es"/"ss" prefixes in 64-bit mode, so the
        # prefix byte (SDM vol.2 2.1.1: 26 es, 2e cs, 36 ss, 3e ds) is written directly in front of the instruction
        if op[0] == "m" and op[1].seg == 1 and c.name in _STRING_ES_DEST and isinstance(op[1].base, tuple) and op[1].base[1] == 7:
            continue        # es:[zdi] of a string instruction is es anyway: no prefix
        if op[0] == "m" and 1 <= op[1].seg <= 4:
            pfx += ".byte 0x%02x; " % (0x26, 0x2E, 0x36, 0x3E)[op[1].seg - 1]
    if c.opts & OPT["xacquire"]:
        pfx += "xacquire "
    if c.opts & OPT["xrelease"]:
        pfx += "xrelease "
    if c.opts & OPT["lock"]:
        pfx += "lock "
    if c.opts & OPT["rep"]:
        pfx += "rep "
    if c.opts & OPT["repne"]:
        pfx += "repne "
    return pfx + pre_words + name + (" " + ", ".join(ops) if ops else "")


def _label_expr(c, n, length=None):
    """Expression for label n relative to the start of the instruction ('.'): the label is bound `pad` bytes
    before the instruction (pre ops) or right after `pad` bytes following it (post ops; needs the length, which
    gas knows as 1f)."""
    back = 0
    pos = None
    for p in reversed(c.pre):       # walk backwards from the instruction start
        if p.startswith("pad="):
            back += int(p[4:])
        elif p == "bind=%d" % n:
            pos = -back
            break
    if pos is not None:
        return ".%+d" % pos if pos else "."
    fwd = 0
    for p in c.post:
        if p.startswith("pad="):
            fwd += int(p[4:])
        elif p == "bind=%d" % n:
            # distance from the START of the instruction as asmjit laid it out (its own length + padding), so the
            # target does not depend on the encoding the reference assembler picks
            if length is None:
                return None
            return ".+%d" % (length + fwd)
    return None  # unbound label: no reference text


# ---------------------------------------------------------------------------------------------------------------
# database
# ---------------------------------------------------------------------------------------------------------------
_DB_CACHE = {}


def load_db(repo, cache_dir=None):
    """Runs tools/dump_isa_x86.js on <repo>/db and returns the list of forms; the dump is cached by content hash
    (on disk) and per process."""
    if repo in _DB_CACHE:
        return _DB_CACHE[repo]
    forms = _load_db(repo, cache_dir)
    _DB_CACHE[repo] = forms
    return forms


def _load_db(repo, cache_dir=None):
    dbdir = os.path.join(repo, "db")
    h = hashlib.sha1()
    for fn in ("isa_x86.json", "x86.js", "base.js"):
        with open(os.path.join(dbdir, fn), "rb") as f:
            h.update(f.read())
    with open(os.path.join(VERIF, "tools", "dump_isa_x86.js"), "rb") as f:
        h.update(f.read())
    cache_dir = cache_dir or os.path.join(VERIF, "build", "c01")
    os.makedirs(cache_dir, exist_ok=True)
    path = os.path.join(cache_dir, "isa_x86-%s.json" % h.hexdigest()[:12])
    if not os.path.exists(path):
        r = subprocess.run(["node", os.path.join(VERIF, "tools", "dump_isa_x86.js"), dbdir], stdout=subprocess.PIPE,
                           stderr=subprocess.PIPE)
        if r.returncode != 0:
            raise RuntimeError("dump_isa_x86.js failed: " + r.stderr.decode("utf-8", "replace")[-2000:])
        tmp = path + ".tmp%d" % os.getpid()
        with open(tmp, "wb") as f:
            f.write(r.stdout)
        os.replace(tmp, path)
    with open(path) as f:
        d = json.load(f)
    forms = d["forms"]
    for f in forms:
        prepare_form(f)
    return forms


def is_apx(f):
    return ("APX_F" in f["ext"]) or f["prefix"] == "REX2" or f["opcode"]["mm"] == "MAP4" or \
        any(o["data"] == "dfv" for o in f["operands"])


def form_sig(f):
    return ",".join(("<%s>" % o["data"]) if o["implicit"] else o["data"] for o in f["operands"])


def prepare_form(f):
    """Adds derived fields: f['apx'], f['sig'], f['modes'], and per operand o['alts'] =
    list of ('reg',kind) | ('fixed',kind,id) | ('mem',bytes,flavor) | ('imm',bits,sign) | ('one',) | ('rel',bits)
    | ('consec',kind,delta)."""
    f["apx"] = is_apx(f)
    f["sig"] = form_sig(f)
    f["modes"] = {"ANY": (32, 64), "X86": (32,), "X64": (64,)}[f["arch"]]
    for o in f["operands"]:
        alts = []
        if o["reg"]:
            r = o["reg"]
            if o["regIndexRel"]:
                alts.append(("consec", "k" if r.startswith("k") else r, o["regIndexRel"]))
            elif r == "st(i)":
                alts.append(("reg", "st"))
            elif r in KIND_BITS:
                alts.append(("reg", r))
            elif r in FIXED_REGS:
                alts.append(("fixed",) + FIXED_REGS[r])
            elif r == "rip":
                alts.append(("fixed", "rip", 0))
            else:
                alts.append(("unknown", r))
        if o["mem"]:
            m = o["mem"]
            size = o["memSize"] // 8 if o["memSize"] and o["memSize"] > 0 else 0
            flavor = "mem"
            if o["memOff"]:
                flavor = "moff"
            elif o["vsibReg"]:
                flavor = "vsib"
                size = 0
            elif m == "mib":
                flavor = "mib"
            elif m == "tmem":
                flavor = "tmem"
            elif o["memRegOnly"]:
                flavor = "regonly"
            elif o["memFar"]:
                flavor = "far"
            alts.append(("mem", size, flavor))
        if o["imm"]:
            if o["data"] == "1":
                alts.append(("one",))
            else:
                alts.append(("imm", o["imm"], o["immSign"] or "any"))
        elif o["data"] == "dfv":
            alts.append(("dfv",))
        if o["rel"]:
            alts.append(("rel", o["rel"]))
        o["alts"] = alts


# ---------------------------------------------------------------------------------------------------------------
# alphabets
# ---------------------------------------------------------------------------------------------------------------
REG_IDS = (0, 1, 3, 4, 5, 7, 8, 12, 13, 15, 16, 24, 31)
# ids beyond the class are kept on purpose (one or two per class): the assembler has to reject them, and if it
# accepts them the bytes must still denote the requested register - which is impossible - so it is a violation.
CLASS_IDS = {
    "r8": REG_IDS, "r16": REG_IDS, "r32": REG_IDS, "r64": REG_IDS,
    "xmm": REG_IDS, "ymm": REG_IDS, "zmm": REG_IDS,
    "mm": (0, 1, 3, 4, 5, 7, 8), "k": (0, 1, 3, 4, 5, 7, 8), "tmm": (0, 1, 3, 4, 5, 7, 8), "st": (0, 1, 3, 4, 5, 7, 8),
    "sreg": (1, 2, 3, 4, 5, 6, 0, 7), "creg": (0, 1, 3, 4, 5, 7, 8, 12, 13, 15, 16), "dreg": (0, 1, 3, 4, 5, 7, 8, 12, 13, 15, 16),
    "bnd": (0, 1, 3, 4), "r8hi": (0, 1, 2, 3, 4),
}
# default register id by operand position (distinct, so that swapped operands are visible); position 5.. reuse
DEFAULT_IDS = (1, 2, 3, 6, 7, 0)
DEFAULT_MEM_BASE = 7      # rdi / edi
DEFAULT_VSIB_INDEX = 4


def default_reg(kind, pos, mode):
    i = DEFAULT_IDS[pos % len(DEFAULT_IDS)]
    if kind == "sreg":
        return ("r", kind, (4, 1, 5, 6, 3, 2)[pos % 6])     # ds, es, fs, gs, ss, cs
    if kind == "bnd" or kind == "r8hi":
        i &= 3
    if kind == "r8" and mode == 32:
        i &= 3
    if kind in ("mm", "k", "tmm", "st") and i > 7:
        i &= 7
    return ("r", kind, i)


def reg_alphabet(kind, mode):
    out = [("r", kind, i) for i in CLASS_IDS[kind]]
    if kind == "r8":
        out += [("r", "r8hi", i) for i in (0, 1, 2, 3)]
    return out


_IMM_POOL = (0, 1, -1, 2, 0x7F, 0x80, 0xFF, -128, -129, 0x100, 0x7FFF, 0x8000, 0xFFFF, -32768, -32769, 0x10000,
             0x7FFFFFFF, 0x80000000, 0xFFFFFFFF, -(1 << 31), -(1 << 31) - 1, 1 << 32,
             (1 << 63) - 1, 1 << 63, (1 << 64) - 1, -(1 << 63))
_IMM_DEFAULT = {4: 3, 8: 0x11, 16: 0x1122, 32: 0x11223344, 64: 0x1122334455667788}


def imm_alphabet(bits):
    """Boundary immediates up to one step beyond the field (the step beyond must be rejected or, if accepted,
    encoded without loss - judged by the oracle)."""
    lim_hi = 1 << bits
    lim_lo = -(1 << (bits - 1))
    out = []
    for v in _IMM_POOL:
        if v < -(1 << 63) or v >= (1 << 64):
            continue
        if lim_lo - (1 << (bits - 1)) - 1 <= v <= lim_hi * 2 or bits >= 64:
            out.append(v)
    # keep: everything representable + first value beyond on either side
    keep = [v for v in out if lim_lo <= v < lim_hi]
    beyond_hi = [v for v in out if v >= lim_hi]
    beyond_lo = [v for v in out if v < lim_lo]
    if beyond_hi:
        keep.append(min(beyond_hi))
    if beyond_lo:
        keep.append(max(beyond_lo))
    return keep


def addr_kind(mode):
    return "r64" if mode == 64 else "r32"


def disp_alphabet(n):
    """Displacements around the disp8 / disp8*N / disp32 boundaries (N = the form's disp8 scale, 1 if none)."""
    ds = [1, -1, 127, 128, -128, -129, 0x7FFFFFFF, -0x80000000]
    if n > 1:
        ds += [n * 127, n * 128, n * 127 + 1, -n * 128, -n * 128 - n, n, -n]
    out = []
    for d in ds:
        if d not in out:
            out.append(d)
    return out


def mem_alphabet(mode, size, flavor, vsib=None, n=1, bcst=None, wide_abs=False):
    """List of (tag, Mem).  vsib: index register kind for VSIB forms; n: disp8 scale of the form for a full
    (non-broadcast) access; bcst: (element bytes, N of 1toN) where the form supports broadcasting."""
    A = addr_kind(mode)
    B = DEFAULT_MEM_BASE
    out = []

    def add(tag, **kw):
        out.append((tag, Mem(size, **kw)))

    if flavor == "moff":
        for a in (0, 0x11223344, 0x7FFFFFFF, 0x80000000, 0xFFFFFFFF):
            add("abs=%#x" % a, base="abs", disp=a)
        if mode == 64:
            for a in (0x100000000, 0x1122334455667788, 0xFFFFFFFF80000000, 0xFFFFFFFFFFFFFFFF):
                add("abs=%#x" % a, base="abs", disp=a)
        add("abs-fs", base="abs", disp=0x11223344, seg=5)
        add("moff-as-base", base=(A, 3))
        return out
    if flavor == "regonly":
        return out  # handled by the caller (fixed base register)

    vs = vsib is not None
    ix = (vsib, DEFAULT_VSIB_INDEX) if vs else None
    ids = (0, 1, 3, 4, 5, 7, 8, 12, 13, 15, 16, 24, 31)
    # 1. every special base
    for b in ids:
        add("b%d" % b, base=(A, b), index=ix)
    # 2. displacement boundaries on the default base
    for d in disp_alphabet(n):
        add("d%d" % d, base=(A, B), index=ix, disp=d)
    # 3. special bases with displacements
    for b, d in ((4, 8), (4, 128), (5, 8), (5, 128), (12, -129), (13, 127), (13, 0x1000)):
        add("b%d,d%d" % (b, d), base=(A, b), index=ix, disp=d)
    if not vs:
        # 4. base + index * scale
        for i in (0, 1, 5, 8, 12, 13, 15, 4, 16, 24, 31):
            add("b+i%d" % i, base=(A, 3), index=(A, i))
        for sh in (1, 2, 3):
            add("b+i*%d" % (1 << sh), base=(A, 3), index=(A, 1), shift=sh)
        add("b+i*4+d8", base=(A, 5), index=(A, 6), shift=2, disp=-8)
        add("b+i*8+d32", base=(A, 4), index=(A, 5), shift=3, disp=0x12345)
        if mode == 64:
            add("b13+i13*2+d", base=(A, 13), index=(A, 12), shift=1, disp=128)
        # 5. index without base
        for sh in (0, 1, 2, 3):
            add("i*%d+d" % (1 << sh), index=(A, 1), shift=sh, disp=0x100)
        add("i5*4", index=(A, 5), shift=2)
        if mode == 64:
            add("i13*8+d", index=(A, 13), shift=3, disp=-4)
    else:
        # VSIB: index ids / scales / special bases / no base
        for i in (0, 7, 8, 15, 16, 31, 1):
            add("vi%d" % i, base=(A, B), index=(vsib, i))
        for sh in (1, 2, 3):
            add("vi*%d" % (1 << sh), base=(A, B), index=(vsib, 2), shift=sh)
        add("vi-nobase", index=(vsib, 3), shift=2, disp=0x40)
        add("vi-b13-d", base=(A, 13 if mode == 64 else 5), index=(vsib, 9 if mode == 64 else 6), shift=3, disp=n * 128)
        for other in ("xmm", "ymm", "zmm"):
            if other != vsib:
                add("vi-wrong-" + other, base=(A, B), index=(other, 2))
    # 6. absolute
    if not vs:
        for a in (0x1000, 0x7FFFFFFF):
            add("abs=%#x" % a, base="abs", disp=a)
        add("abs=0x80000000", base="abs", disp=0x80000000)
        add("abs=0xffffffff", base="abs", disp=0xFFFFFFFF)
        if mode == 64:
            add("abs=-1", base="abs", disp=0xFFFFFFFFFFFFFFFF)
            add("abs=0xffffffff80000000", base="abs", disp=0xFFFFFFFF80000000)
            add("abs64", base="abs", disp=0x1122334455)
            add("abs-addr-abs", base="abs", disp=0x1000, addr=1)
            # uint32 addresses that do not survive the sign extension of disp32: the assembler inserts 0x67 after the opcode is out
            add("abs-addr-abs=0xfffffff0", base="abs", disp=0xFFFFFFF0, addr=1)
            add("abs-addr-abs=0x80000000", base="abs", disp=0x80000000, addr=1)
            add("abs-fs=0xfffffff0", base="abs", disp=0xFFFFFFF0, seg=5)
            add("abs-addr-rel", base="abs", disp=0x1000, addr=2)
        add("abs-fs", base="abs", disp=0x28, seg=5)
        # 7. rip-relative
        if mode == 64:
            for d in (0, 0x100, -0x100, 0x7FFFFFFF):
                add("rip%+d" % d, base=("rip", 0), disp=d)
        add("rip32" if mode == 32 else "rip-idx", base=("rip", 0), index=(A, 1) if mode == 64 else None)
    # 8. segment overrides
    for s in (1, 2, 3, 4, 5, 6):
        add("seg%d" % s, base=(A, B), index=ix, seg=s)
    add("seg-ss-bp", base=(A, 5), index=ix, seg=3)
    add("seg-ds-bp", base=(A, 5), index=ix, seg=4)
    # 9. the other address size
    if mode == 64:
        add("a32-b", base=("r32", 3), index=(vsib, 2) if vs else None)
        add("a32-b8", base=("r32", 8), index=(vsib, 2) if vs else None)
        if not vs:
            add("a32-b+i*2+d", base=("r32", 3), index=("r32", 1), shift=1, disp=8)
            add("a32-b9+i10", base=("r32", 9), index=("r32", 10))
            add("a32-b12", base=("r32", 12))
            add("a32-b13", base=("r32", 13))
            add("a32-i*4", index=("r32", 6), shift=2, disp=64)
            add("a16-b", base=("r16", 3))
            add("a-mixed", base=("r64", 3), index=("r32", 1))
    else:
        add("a64-b", base=("r64", 3), index=(vsib, 2) if vs else None)
        if not vs:
            for tag, b, i in (("bx+si", 3, 6), ("bx+di", 3, 7), ("bp+si", 5, 6), ("bp+di", 5, 7), ("si", 6, None),
                              ("di", 7, None), ("bp", 5, None), ("bx", 3, None)):
                for d in (0, 8, -129, 0x1234):
                    add("a16-%s%+d" % (tag, d), base=("r16", b), index=("r16", i) if i is not None else None, disp=d)
            add("a16-si+bx", base=("r16", 6), index=("r16", 3))
            add("a16-ax", base=("r16", 0))
            add("a16-bx+si*2", base=("r16", 3), index=("r16", 6), shift=1)
            add("a16-abs", base="abs", disp=0x1234, addr=0)
    # 10. broadcast
    if bcst:
        eb, nn = bcst
        for tag, d in (("", 0), ("+e*127", eb * 127), ("+e*128", eb * 128), ("-e*128", -eb * 128), ("-e*129", -eb * 129),
                       ("+n*127", n * 127), ("+1", 1)):
            out.append(("bcst" + tag, Mem(eb, base=(A, B), index=ix, disp=d, bcst=nn)))
        out.append(("bcst-b13", Mem(eb, base=(A, 13 if mode == 64 else 5), bcst=nn)))
        out.append(("bcst-idx", Mem(eb, base=(A, 3), index=(A, 1), shift=2, disp=eb * 127, bcst=nn)))
        for wrong in (2, 4, 8, 16, 32):
            if wrong != nn:
                out.append(("bcst-wrong%d" % wrong, Mem(eb, base=(A, B), bcst=wrong)))
                break
    # 11. unspecified size
    if size:
        out.append(("nosize", Mem(0, base=(A, B), index=ix)))
    return out


def vector_bits_of_form(f):
    w = 0
    for o in f["operands"]:
        for a in o["alts"]:
            if a[0] == "reg" and a[1] in ("xmm", "ymm", "zmm"):
                w = max(w, KIND_BITS[a[1]])
    return w


def mem_operand_scale(f, o):
    """disp8 scale N a *full* (non-broadcast) access of operand o uses (EVEX forms only, else 1) - only used to
    choose interesting displacements, the oracle derives N itself."""
    if f["prefix"] != "EVEX":
        return 1
    if o["vsibReg"]:
        return _vsib_elem_bytes(f)
    if o["memSize"] and o["memSize"] > 0:
        return max(1, o["memSize"] // 8)
    return 1


def _vsib_elem_bytes(f):
    return 8 if f["opcode"]["w"] == "W1" else 4


def bcst_of(f, o):
    if o["bcstSize"] and o["bcstSize"] > 0 and o["memSize"] and o["memSize"] > 0:
        return (o["bcstSize"] // 8, o["memSize"] // o["bcstSize"])
    return None


# ---------------------------------------------------------------------------------------------------------------
# instantiation
# ---------------------------------------------------------------------------------------------------------------
class Slot(object):
    __slots__ = ("kind", "pos", "default", "alphabet")

    def __init__(self, kind, pos, default, alphabet):
        self.kind, self.pos, self.default, self.alphabet = kind, pos, default, alphabet


def _default_mem(f, o, alt, mode):
    size, flavor = alt[1], alt[2]
    A = addr_kind(mode)
    if flavor == "moff":
        return Mem(size, base="abs", disp=0x11223344)
    if flavor == "regonly":
        r = o["memRegOnly"]
        if r in Z_REGS:
            return Mem(size, base=(A, Z_REGS[r]))
        if r in FIXED_REGS:
            return Mem(size, base=FIXED_REGS[r])
        if r in ("r32", "r64"):      # movdir64b / enqcmd style: register holds the address
            return Mem(size, base=(r, 3))
        return Mem(size, base=(A, 3))
    if flavor == "vsib":
        return Mem(0, base=(A, DEFAULT_MEM_BASE), index=(o["vsibReg"], DEFAULT_VSIB_INDEX))
    if flavor in ("mib", "tmem"):
        return Mem(size, base=(A, DEFAULT_MEM_BASE), index=(A, 1))
    return Mem(size, base=(A, DEFAULT_MEM_BASE))


def _regonly_alphabet(f, o, alt, mode):
    """Implicit-address operands (string instructions, movdir64b...): segment override and other address size."""
    size = alt[1]
    r = o["memRegOnly"]
    out = []
    A = addr_kind(mode)
    other = "r32" if mode == 64 else "r16"
    if r in Z_REGS:
        rid = Z_REGS[r]
        for s in (1, 4, 5, 6):
            out.append(("seg%d" % s, Mem(size, base=(A, rid), seg=s)))
        out.append(("asz", Mem(size, base=(other, rid))))
        out.append(("wrong-base", Mem(size, base=(A, 3 if rid != 3 else 1))))
        out.append(("disp", Mem(size, base=(A, rid), disp=8)))
        out.append(("nosize", Mem(0, base=(A, rid))))
    elif r in ("r16", "r32", "r64"):
        # movdir64b / enqcmd / umonitor style: any register of that width holds the address (REX.B, address-size and
        # segment prefixes all meet in front of the opcode); displacement and index are not encodable
        for b in (0, 1, 4, 5, 7, 8, 9, 12, 13, 15):
            out.append(("b%d" % b, Mem(size, base=(r, b))))
        for sg in (1, 5, 6):
            out.append(("seg%d" % sg, Mem(size, base=(r, 3), seg=sg)))
        out.append(("seg5-b9", Mem(size, base=(r, 9), seg=5)))
        out.append(("seg6-b13", Mem(size, base=(r, 13), seg=6)))
        out.append(("disp", Mem(size, base=(r, 3), disp=8)))
        out.append(("index", Mem(size, base=(r, 3), index=(r, 1))))
    return out


def build_slots(f, mode):
    """Returns (slots, implicit_ops) for form f in `mode`, or None when the form cannot be instantiated."""
    slots = []
    implicit = []
    pos = 0
    prev_reg_slot = None
    for oi, o in enumerate(f["operands"]):
        alts = o["alts"]
        if not alts:
            return None
        if o["implicit"]:
            a = alts[0]
            if a[0] == "fixed":
                implicit.append(("r", a[1], a[2]))
            elif a[0] == "mem":
                implicit.append(("m", _default_mem(f, o, a, mode)))
            elif a[0] == "one":
                implicit.append(("i", 1))
            else:
                implicit.append(None)
            continue
        default = None
        alphabet = []
        for a in alts:
            t = a[0]
            if t == "reg":
                d = default_reg(a[1], pos, mode)
                if default is None:
                    default = d
                else:
                    alphabet.append(("reg-default", d))
                alphabet += [("%s%d" % (x[1], x[2]), x) for x in reg_alphabet(a[1], mode) if x != default]
            elif t == "fixed":
                d = ("r", a[1], a[2])
                if default is None:
                    default = d
                else:
                    alphabet.append(("fixed", d))
                # one wrong register of the same class: must be rejected (or encoded as requested)
                if a[1] in CLASS_IDS:
                    alphabet.append(("fixed-other", ("r", a[1], 3 if a[2] != 3 else 2)))
            elif t == "consec":
                # register number = lead + delta; the lead is the nearest previous register operand
                default = ("consec", a[1], a[2])
            elif t == "mem":
                dm = ("m", _default_mem(f, o, a, mode))
                if a[2] == "regonly":
                    alpha = _regonly_alphabet(f, o, a, mode)
                else:
                    alpha = mem_alphabet(mode, a[1], a[2], vsib=o["vsibReg"] or None, n=mem_operand_scale(f, o),
                                         bcst=bcst_of(f, o))
                if default is None:
                    default = dm
                else:
                    alphabet.append(("mem-default", dm))
                alphabet += [(tag, ("m", m)) for tag, m in alpha if ("m", m) != default]
            elif t == "imm":
                bits = a[1]
                if default is None:
                    default = ("i", _IMM_DEFAULT.get(bits, 1))
                alphabet += [("imm%d" % v, ("i", v)) for v in imm_alphabet(bits)]
            elif t == "one":
                if default is None:
                    default = ("i", 1)
                alphabet += [("imm0", ("i", 0)), ("imm2", ("i", 2))]
            elif t == "rel":
                if default is None:
                    default = ("l", 0)
                # label placement is a property of the case (pre/post ops): handled by the option slot
            elif t == "dfv":
                return None
            else:
                return None
        if default is None:
            return None
        slots.append(Slot("op", pos, default, alphabet))
        pos += 1
    return slots, implicit


def _resolve_consec(ops):
    out = []
    for i, o in enumerate(ops):
        if o[0] == "consec":
            lead = None
            for j in range(i - 1, -1, -1):
                if out[j][0] == "r":
                    lead = out[j]
                    break
            if lead is None:
                return None
            out.append(("r", lead[1], lead[2] + o[2]))
        else:
            out.append(o)
    return out


# label placements for rel operands: (tag, pre, post)
def label_placements(rel_bits):
    out = [("back0", ("bind=0",), ()), ("back1", ("bind=0", "pad=1"), ()),
           ("back125", ("bind=0", "pad=125"), ()), ("back126", ("bind=0", "pad=126"), ()),
           ("back127", ("bind=0", "pad=127"), ()), ("back200", ("bind=0", "pad=200"), ()),
           ("back70000", ("bind=0", "pad=70000"), ()),
           ("fwd0", (), ("bind=0",)), ("fwd127", (), ("pad=127", "bind=0")), ("fwd128", (), ("pad=128", "bind=0")),
           ("fwd70000", (), ("pad=70000", "bind=0"))]
    return out


def first_mem_capable(f):
    pos = 0
    for o in f["operands"]:
        if o["implicit"]:
            continue
        for a in o["alts"]:
            if a[0] == "mem" and a[2] == "mem":
                return pos, o, a
        pos += 1
    return None


def option_symbols(f, mode):
    """List of (tag, opts, extra, needs_mem, er) - symbols of the decoration and the option slots."""
    dec = []
    if f["kmask"]:
        for k in (1, 7, 0):
            dec.append(("k%d" % k, 0, ("k", k), False))
        if f["zmask"]:
            for k in (1, 7):
                dec.append(("k%dz" % k, OPT["z"], ("k", k), False))
            dec.append(("z-nok", OPT["z"], None, False))
        else:
            dec.append(("k1z-unsupported", OPT["z"], ("k", 1), False))
    if f["er"]:
        for n, b in sorted(ER_MODES.items()):
            dec.append((n + "-sae", b, None, False))
    if f["sae"]:
        dec.append(("sae", OPT["sae"], None, False))
    if f["kmask"] and f["er"]:
        dec.append(("k3z-rz" if f["zmask"] else "k3-rz", ER_MODES["rz"] | (OPT["z"] if f["zmask"] else 0), ("k", 3), False))
    opts = []
    pfx = set(f["prefixes"])
    if "lock" in pfx or "ilock" in pfx:
        opts.append(("lock", OPT["lock"], None, True))
    if "xacquire" in pfx:
        opts.append(("xacquire-lock", OPT["lock"] | OPT["xacquire"], None, True))
        opts.append(("xacquire", OPT["xacquire"], None, True))
    if "xrelease" in pfx:
        opts.append(("xrelease-lock", OPT["lock"] | OPT["xrelease"], None, True))
        opts.append(("xrelease", OPT["xrelease"], None, True))
    if "rep" in pfx or "repIgnore" in pfx:
        opts.append(("rep", OPT["rep"], None, False))
        opts.append(("rep-cx", OPT["rep"], ("r64" if mode == 64 else "r32", 1), False))
    if "repne" in pfx or "bnd" in pfx:
        opts.append(("repne", OPT["repne"], None, False))
    if not pfx:
        # a prefix the form does not list: must be rejected
        opts.append(("lock-unsupported", OPT["lock"], None, True))
    if f["prefix"] in ("", "3DNOW") and mode == 64:
        opts.append(("rex", OPT["rex"], None, False))
    if f["prefix"] in ("VEX", "XOP"):
        opts.append(("vex3", OPT["vex3"], None, False))
        opts.append(("evex", OPT["evex"], None, False))
    if f["prefix"] == "EVEX":
        opts.append(("vex", OPT["vex"], None, False))
        opts.append(("evex", OPT["evex"], None, False))
    if len([o for o in f["operands"] if not o["implicit"]]) >= 2 and f["encoding"] in ("RM", "MR", "RVM", "MVR", "RMV", "MRV"):
        opts.append(("modmr", OPT["modmr"], None, False))
        opts.append(("modrm", OPT["modrm"], None, False))
    if any(a[0] == "rel" for o in f["operands"] for a in o["alts"]):
        opts.append(("short", OPT["short"], None, False))
        opts.append(("long", OPT["long"], None, False))
    return dec, opts


def instantiate(f, mode, k=1, pairs=False):
    """Yields the cases of form f in `mode`: the default, every single deviation (k>=1) and, with pairs=True,
    every pair of deviations of two different slots (k=2) over reduced alphabets."""
    bs = build_slots(f, mode)
    if bs is None:
        return
    slots, implicit = bs
    name = f["name"]
    sig = f["sig"]
    fidx = f["idx"]
    has_rel = any(a[0] == "rel" for o in f["operands"] for a in o["alts"])
    base_pre = ("bind=0", "pad=16") if has_rel else ()
    defaults = [s.default for s in slots]

    def mk(ops, opts=0, extra=None, pre=base_pre, post=(), dev="default"):
        ops2 = _resolve_consec(ops)
        if ops2 is None:
            return None
        return Case(mode, name, opts, extra, ops2, pre, post, fidx, dev, sig)

    c = mk(defaults)
    if c is not None:
        yield c
    if k < 1:
        return
    # operand slots
    for si, s in enumerate(slots):
        for tag, sym in s.alphabet:
            ops = list(defaults)
            ops[si] = sym
            c = mk(ops, dev="op%d=%s" % (si, tag))
            if c is not None:
                yield c
    # implicit operands given explicitly
    if implicit and all(x is not None for x in implicit):
        ops = []
        it = iter(defaults)
        ok = True
        for o in f["operands"]:
            if o["implicit"]:
                ops.append(implicit[len([1 for q in f["operands"][:f["operands"].index(o)] if q["implicit"]])])
            else:
                ops.append(next(it))
        if len(ops) <= 6:
            c = mk(ops, dev="implicit-explicit")
            if c is not None:
                yield c
    # decoration and option slots
    dec, opts = option_symbols(f, mode)
    fm = first_mem_capable(f)
    mem_ops = None
    if fm is not None:
        mem_ops = list(defaults)
        mem_ops[fm[0]] = ("m", _default_mem(f, fm[1], fm[2], mode))
    for tag, ob, extra, needs_mem in dec + opts:
        ops = defaults
        if needs_mem:
            if mem_ops is None:
                continue
            ops = mem_ops
        c = mk(ops, opts=ob, extra=extra, dev="opt=" + tag)
        if c is not None:
            yield c
    # decorations on the memory form as well (masking / zeroing with a memory source, {er} must be rejected there)
    if mem_ops is not None and mem_ops != defaults:
        for tag, ob, extra, needs_mem in dec:
            c = mk(mem_ops, opts=ob, extra=extra, dev="opt=%s,mem" % tag)
            if c is not None:
                yield c
    # label placements
    if has_rel:
        for tag, pre, post in label_placements(0):
            for otag, ob in (("", 0), ("short", OPT["short"]), ("long", OPT["long"])):
                c = mk(defaults, opts=ob, pre=pre, post=post, dev="label=%s%s" % (tag, "," + otag if otag else ""))
                if c is not None:
                    yield c
    if not pairs:
        return
    # k = 2: pairs of deviations over reduced alphabets (first PAIR_CAP symbols of a deterministic thinning)
    red = []
    for s in slots:
        red.append(_thin(s.alphabet))
    for i in range(len(slots)):
        for j in range(i + 1, len(slots)):
            for ta, sa in red[i]:
                for tb, sb in red[j]:
                    ops = list(defaults)
                    ops[i] = sa
                    ops[j] = sb
                    c = mk(ops, dev="op%d=%s,op%d=%s" % (i, ta, j, tb))
                    if c is not None:
                        yield c
    # operand deviation x decoration / option
    for tag, ob, extra, needs_mem in dec + opts:
        for i in range(len(slots)):
            for ta, sa in red[i]:
                ops = list(mem_ops if (needs_mem and mem_ops is not None) else defaults)
                if needs_mem and (mem_ops is None or i == fm[0] and sa[0] != "m"):
                    continue
                ops[i] = sa
                c = mk(ops, opts=ob, extra=extra, dev="op%d=%s,opt=%s" % (i, ta, tag))
                if c is not None:
                    yield c


def _thin(alphabet):
    """Reduced alphabet for pair enumeration: registers {0,5,8,13,16,31} of each class, the memory forms that
    exercise distinct encoder paths, boundary immediates."""
    out = []
    for tag, sym in alphabet:
        if sym[0] == "r":
            if sym[2] in (0, 5, 8, 13, 16, 31) and sym[1] != "r8hi" or (sym[1] == "r8hi" and sym[2] in (0, 1)):   # ah shares its id with al
                out.append((tag, sym))
        elif sym[0] == "m":
            if tag in ("mem-default", "b4", "b5", "b12", "b13", "b+i12", "b+i*8", "b+i*8+d32", "i*4+d", "rip+256", "seg5",
                       "a32-b+i*2+d", "abs=0x1000", "bcst", "bcst+e*128", "bcst+e*127", "vi8", "vi16", "vi31", "vi*8",
                       "a16-bp+si+8", "a16-bx+0", "b13,d127", "b12,d-129") or tag.startswith("d") and tag[1:].lstrip("-").isdigit() and abs(int(tag[1:])) not in (1, 0x7FFFFFFF, 0x80000000):
                out.append((tag, sym))
        elif sym[0] == "i":
            if sym[1] in (0, -1, 0x7F, 0x80, 0xFF, 0x7FFFFFFF, 0x80000000, -(1 << 31)):
                out.append((tag, sym))
    return out


def representative_key(f):
    """Forms sharing this key exercise the same encoder path; the thorough tier enumerates pairs on one form
    per key."""
    ops = []
    for o in f["operands"]:
        if o["implicit"]:
            continue
        ops.append("/".join(a[0] + ":" + str(a[1]) if len(a) > 1 else a[0] for a in o["alts"]))
    return (f["encoding"], f["prefix"], f["tupleType"], f["opcode"]["w"], f["opcode"]["l"], f["opcode"]["mm"],
            bool(f["kmask"]), bool(f["zmask"]), bool(f["er"]), bool(f["sae"]), bool(f["broadcast"]), tuple(ops))
