"""C20 - harness-owned grammar for the instruction text asmjit's Formatter / Logger produce (x86 Intel-like syntax and
AArch64), and for the AArch64 *request* syntax of harness/emit_a64.cpp (what was GIVEN).

Everything here is written down from the architecture manuals (register names and sizes: Intel SDM vol.1 ch.3 and
vol.2 ch.2, Arm ARM C1.2 / C1.3), never from asmjit's formatter tables.  The only asmjit-specific notations the grammar
knows are the ones the public documentation of FormatFlags / Compiler describes: `name@type` register casts, `%N` unnamed
virtual registers, `L<id>` anonymous labels, `{...}` option / decoration groups and the `<type>@<id>` fallback asmjit
prints for a register id that has no architectural name.

parse_x86(text)      -> X86Inst      parse_a64(text)       -> A64Inst       parse_a64_given(text) -> A64Inst
All raise ParseError(reason) for text outside the grammar.
"""
import re, struct

MASK64 = (1 << 64) - 1


class ParseError(Exception):
    pass


# ---------------------------------------------------------------------------------------------------------------------
# x86 tables
# ---------------------------------------------------------------------------------------------------------------------
_LEG8 = ["al", "cl", "dl", "bl", "spl", "bpl", "sil", "dil"]
_LEG16 = ["ax", "cx", "dx", "bx", "sp", "bp", "si", "di"]
X86_REGS = {}     # name -> (kind, id, bits)


def _x(name, kind, rid, bits):
    X86_REGS[name] = (kind, rid, bits)


for _i in range(8):
    _x(_LEG8[_i], "r8", _i, 8)
    _x(_LEG16[_i], "r16", _i, 16)
    _x("e" + _LEG16[_i], "r32", _i, 32)
    _x("r" + _LEG16[_i], "r64", _i, 64)
    _x("mm%d" % _i, "mm", _i, 64)
    _x("k%d" % _i, "k", _i, 64)
    _x("st%d" % _i, "st", _i, 80)
    _x("st(%d)" % _i, "st", _i, 80)
    _x("tmm%d" % _i, "tmm", _i, 8192)
for _i, _n in enumerate(["ah", "ch", "dh", "bh"]):
    _x(_n, "r8hi", _i, 8)
for _i in range(8, 32):          # r8..r15, and r16..r31 with APX
    _x("r%db" % _i, "r8", _i, 8)
    _x("r%dw" % _i, "r16", _i, 16)
    _x("r%dd" % _i, "r32", _i, 32)
    _x("r%d" % _i, "r64", _i, 64)
for _i in range(32):
    _x("xmm%d" % _i, "xmm", _i, 128)
    _x("ymm%d" % _i, "ymm", _i, 256)
    _x("zmm%d" % _i, "zmm", _i, 512)
for _i, _n in enumerate(["es", "cs", "ss", "ds", "fs", "gs"]):
    _x(_n, "sreg", _i + 1, 16)
for _i in range(16):
    _x("cr%d" % _i, "creg", _i, 64)
    _x("dr%d" % _i, "dreg", _i, 64)
for _i in range(4):
    _x("bnd%d" % _i, "bnd", _i, 128)
_x("rip", "rip", 0, 64)
_x("eip", "rip32", 0, 32)

X86_SEG_IDS = {"es": 1, "cs": 2, "ss": 3, "ds": 4, "fs": 5, "gs": 6}
X86_PTR = {"byte": 1, "word": 2, "dword": 4, "fword": 6, "qword": 8, "tbyte": 10, "tword": 10, "oword": 16,
           "xmmword": 16, "ymmword": 32, "zmmword": 64}
X86_SIZES_WITH_KEYWORD = set(X86_PTR.values())
# register type words of the `name@type` cast notation (FormatFlags::kRegCasts / kRegType) -> register kind
X86_CASTS = {"gpb": "r8", "gpb.hi": "r8hi", "gpw": "r16", "gpd": "r32", "gpq": "r64", "xmm": "xmm", "ymm": "ymm",
             "zmm": "zmm", "k": "k", "mm": "mm", "st": "st", "seg": "sreg", "cr": "creg", "dr": "dreg", "bnd": "bnd",
             "tmm": "tmm", "rip": "rip"}
X86_PREFIX_WORDS = {"short": "short", "long": "long", "xacquire": "xacquire", "xrelease": "xrelease", "lock": "lock",
                    "rep": "rep", "repe": "rep", "repz": "rep", "repne": "repne", "repnz": "repne", "rex": "rex"}
X86_PREFIX_GROUPS = {"vex": "vex", "vex3": "vex3", "evex": "evex", "modrm": "modrm", "modmr": "modmr"}
X86_ROUNDING = {"rn-sae": "rn", "rd-sae": "rd", "ru-sae": "ru", "rz-sae": "rz", "sae": "sae"}

# condition-code synonyms (SDM vol.2 appendix B.1.4.7 "Condition Test (tttn) Field")
_CC_CLASSES = [("o",), ("no",), ("b", "c", "nae"), ("ae", "nb", "nc"), ("e", "z"), ("ne", "nz"), ("be", "na"), ("a", "nbe"),
               ("s",), ("ns",), ("p", "pe"), ("np", "po"), ("l", "nge"), ("ge", "nl"), ("le", "ng"), ("g", "nle")]
_CC_CANON = {}
for _cls in _CC_CLASSES:
    for _n in _cls:
        _CC_CANON[_n] = _cls[0]
# other documented synonyms (SDM instruction reference: SAL/SHL share the encoding, WAIT/FWAIT, XLAT/XLATB ...)
_X86_SYNONYM = {"sal": "shl", "wait": "fwait", "xlatb": "xlat", "int3": "int3"}


def x86_mnemonic_canon(name):
    """Canonical representative of a mnemonic under the architectural synonyms."""
    for stem in ("cmov", "set", "j"):
        if name.startswith(stem) and name[len(stem):] in _CC_CANON and name not in ("jmp",):
            return stem + _CC_CANON[name[len(stem):]]
    return _X86_SYNONYM.get(name, name)


_IDENT = re.compile(r"^[A-Za-z_][A-Za-z0-9_]*$")
_INT = re.compile(r"^[+-]?(?:0x[0-9A-Fa-f]+|[0-9]+)$")
_ANON = re.compile(r"^L([0-9]+)$")
_GENERIC_REG = re.compile(r"^([a-z][a-z.]*)@([0-9]+)$")


def parse_int(s):
    if not _INT.match(s):
        raise ParseError("not a number: '%s'" % s)
    neg = s[0] == "-"
    t = s.lstrip("+-")
    v = int(t, 16) if t[:2].lower() == "0x" else int(t, 10)
    return -v if neg else v


def split_top(s):
    """Split at commas outside [] and {} (inside {} brackets are not tracked: explanations like '{[1, 2)|..}' exist)."""
    out, cur, depth_b, depth_c = [], "", 0, 0
    for ch in s:
        if ch == "{":
            depth_c += 1
        elif ch == "}":
            depth_c = max(0, depth_c - 1)
        elif depth_c == 0:
            if ch == "[":
                depth_b += 1
            elif ch == "]":
                depth_b = max(0, depth_b - 1)
        if ch == "," and depth_b == 0 and depth_c == 0:
            out.append(cur.strip())
            cur = ""
        else:
            cur += ch
    if cur.strip() or out:
        out.append(cur.strip())
    return out


def parse_label(tok):
    """L<id> | L<id>@name | parent.name | name   ->  ('anon', id) | ('anon-named', id, name) | ('local', parent, name)
    | ('name', name); parent is itself a label spec.  Returns None when tok is no label syntax."""
    if "." in tok:
        p, _, n = tok.partition(".")
        ps = parse_label(p)
        if ps is None or not _IDENT.match(n):
            return None
        return ("local", ps, n)
    if "@" in tok:
        a, _, n = tok.partition("@")
        m = _ANON.match(a)
        if not m or not _IDENT.match(n):
            return None
        return ("anon-named", int(m.group(1)), n)
    m = _ANON.match(tok)
    if m:
        return ("anon", int(m.group(1)))
    if _IDENT.match(tok):
        return ("name", tok)
    return None


def x86_parse_reg(tok):
    """-> ('reg', kind, id, bits) | ('regx', type word, id) [asmjit's fallback for ids without a name]
        | ('vreg', name, cast kind or None) | ('ident', name) [virtual register or named label: the caller knows] | None"""
    r = X86_REGS.get(tok)
    if r is not None:
        return ("reg",) + r
    if tok.startswith("%") and "@" not in tok and tok[1:].isdigit():
        return ("vreg", tok, None)
    if "@" in tok:
        name, _, cast = tok.partition("@")
        if cast in X86_CASTS and (name.startswith("%") and name[1:].isdigit() or _IDENT.match(name)) and name not in X86_REGS:
            return ("vreg", name, X86_CASTS[cast])
        m = _GENERIC_REG.match(tok)
        if m and m.group(1) in X86_CASTS:
            return ("regx", X86_CASTS[m.group(1)], int(m.group(2)))
        return None
    if _IDENT.match(tok):
        return ("ident", tok)
    return None


class X86Mem(object):
    __slots__ = ("size", "seg", "addr", "base", "index", "scale", "disp", "has_disp", "bcst")

    def __init__(self):
        self.size = 0          # bytes named by the size keyword, 0 = none
        self.seg = 0
        self.addr = 0          # 0 none, 1 'abs', 2 'rel'
        self.base = None       # register tuple / ('label', spec) / None
        self.index = None
        self.scale = 1
        self.disp = 0
        self.has_disp = False
        self.bcst = 0


_MEM_HEAD = re.compile(r"^(?:([a-z]+) ptr )?(?:([a-z]{2}):)?\[(.*)\]$")


def x86_parse_mem(main):
    m = _MEM_HEAD.match(main)
    if not m:
        raise ParseError("memory operand syntax: '%s'" % main)
    mem = X86Mem()
    if m.group(1):
        if m.group(1) not in X86_PTR:
            raise ParseError("unknown size keyword '%s'" % m.group(1))
        mem.size = X86_PTR[m.group(1)]
    if m.group(2):
        if m.group(2) not in X86_SEG_IDS:
            raise ParseError("unknown segment '%s'" % m.group(2))
        mem.seg = X86_SEG_IDS[m.group(2)]
    inner = m.group(3).strip()
    if inner.startswith("abs "):
        mem.addr, inner = 1, inner[4:].strip()
    elif inner.startswith("rel "):
        mem.addr, inner = 2, inner[4:].strip()
    # terms separated by + / - (a leading '-' belongs to the first term)
    terms, cur, sign = [], "", "+"
    i = 0
    while i < len(inner):
        ch = inner[i]
        if ch in "+-" and cur != "":
            terms.append((sign, cur))
            cur, sign = "", ch
        elif ch in "+-" and cur == "":
            sign = ch                 # sign of the first term ('[-1]')
        else:
            cur += ch
        i += 1
    if cur == "":
        raise ParseError("empty address term in '%s'" % main)
    terms.append((sign, cur))
    for sign, t in terms:
        t = t.strip()
        if _INT.match(t):
            if mem.has_disp:
                raise ParseError("two displacements in '%s'" % main)
            v = parse_int(t)
            mem.disp = -v if sign == "-" else v
            mem.has_disp = True
            continue
        if sign == "-":
            raise ParseError("subtracted register in '%s'" % main)
        if "*" in t:
            rn, _, sc = t.partition("*")
            if sc not in ("1", "2", "4", "8"):
                raise ParseError("scale '%s' in '%s'" % (sc, main))
            r = x86_parse_reg(rn)
            if r is None:
                raise ParseError("index register '%s'" % rn)
            if mem.index is not None:
                raise ParseError("two index registers in '%s'" % main)
            mem.index, mem.scale = r, int(sc)
            continue
        lab = None
        r = x86_parse_reg(t)
        if r is None or r[0] == "ident":
            lab = parse_label(t)
            if r is None and lab is None:
                raise ParseError("address term '%s'" % t)
        if r is not None and r[0] != "ident":
            if mem.base is None:
                mem.base = r
            elif mem.index is None:
                mem.index, mem.scale = r, 1
            else:
                raise ParseError("three registers in '%s'" % main)
        else:
            # identifier / label syntax: base position only
            if mem.base is None:
                mem.base = ("label?", t, lab, r)
            elif mem.index is None and r is not None:
                mem.index, mem.scale = r, 1
            else:
                raise ParseError("address term '%s' in '%s'" % (t, main))
    return mem


class X86Inst(object):
    __slots__ = ("prefixes", "rep_reg", "mnemonics", "ops", "mask", "zeroing", "rounding", "explains")

    def __init__(self):
        self.prefixes = []       # canonical prefix / option words in order
        self.rep_reg = None
        self.mnemonics = []      # alternatives separated by '|'
        self.ops = []            # ('reg'...) ('regx'...) ('vreg'...) ('ident', n) ('mem', X86Mem) ('imm', v) ('label', spec)
        self.mask = None
        self.zeroing = False
        self.rounding = None
        self.explains = {}       # operand index -> explanation text


def split_mnemonic(w):
    """'a|b' -> [a, b];  'stem.x|y|z' (asmjit's alias notation, FormatFlags::kShowAliases) -> [stemx, stemy, stemz]"""
    stem = ""
    if "|" in w and "." in w.split("|")[0]:
        stem, _, w = w.partition(".")
    return [stem + x for x in w.split("|")]


_GROUP = re.compile(r"\{([^{}]*)\}")
_BCST = re.compile(r"^1to(\d+)$")


def parse_x86(text):
    s = text.strip()
    if not s:
        raise ParseError("empty text")
    inst = X86Inst()
    # prefixes / options, then the mnemonic
    while True:
        m = re.match(r"^\{([a-z0-9]+)\} +", s)
        if m and m.group(1) in X86_PREFIX_GROUPS and not inst.mnemonics:
            inst.prefixes.append(X86_PREFIX_GROUPS[m.group(1)])
            s = s[m.end():]
            continue
        m = re.match(r"^([A-Za-z0-9_|.\[\]=#]+)(?: +|$)", s)
        if not m:
            raise ParseError("no mnemonic in '%s'" % text)
        w = m.group(1)
        if w in X86_PREFIX_WORDS:
            inst.prefixes.append(X86_PREFIX_WORDS[w])
            s = s[m.end():]
            if X86_PREFIX_WORDS[w] in ("rep", "repne"):
                m2 = re.match(r"^\{([^{}]+)\} +", s)
                if m2:
                    r = x86_parse_reg(m2.group(1))
                    if r is None:
                        raise ParseError("rep count register '%s'" % m2.group(1))
                    inst.rep_reg = r
                    s = s[m2.end():]
            continue
        inst.mnemonics = split_mnemonic(w)
        s = s[m.end():]
        break
    for mn in inst.mnemonics:
        if not re.match(r"^[a-z][a-z0-9_]*$", mn):
            raise ParseError("mnemonic '%s'" % mn)
    if not s.strip():
        return inst
    parts = split_top(s)
    for raw in parts:
        if raw == "":
            raise ParseError("empty operand in '%s'" % text)
        k = raw.find("{")
        main = (raw if k < 0 else raw[:k])
        groups = _GROUP.findall(raw[k:]) if k >= 0 else []
        if k >= 0 and re.sub(r"\s+", "", _GROUP.sub("", raw[k:])) != "":
            raise ParseError("text between decoration groups in '%s'" % raw)
        attached = k >= 0 and k > 0 and raw[k - 1] != " "
        main = main.strip()
        if main == "":
            # a group of its own: embedded rounding / sae
            if len(groups) != 1 or groups[0] not in X86_ROUNDING:
                raise ParseError("unknown decoration '%s'" % raw)
            if inst.rounding is not None:
                raise ParseError("two rounding decorations")
            inst.rounding = X86_ROUNDING[groups[0]]
            continue
        idx = len(inst.ops)
        if "[" in main:
            mem = x86_parse_mem(main)
            for g in groups:
                mb = _BCST.match(g)
                if mb:
                    if mem.bcst:
                        raise ParseError("two broadcast decorations")
                    mem.bcst = int(mb.group(1))
                else:
                    _decor(inst, idx, g)
            inst.ops.append(("mem", mem))
            continue
        if _INT.match(main):
            v = parse_int(main)
            if groups:
                if not attached or len(groups) != 1:
                    raise ParseError("decoration after an immediate in '%s'" % raw)
                inst.explains[idx] = groups[0]
            inst.ops.append(("imm", v))
            continue
        r = x86_parse_reg(main)
        lab = parse_label(main)
        if r is None and lab is None:
            raise ParseError("operand '%s'" % main)
        if r is not None and r[0] != "ident":
            inst.ops.append(r)
        elif r is not None and lab is not None:
            inst.ops.append(("ident", main, lab))
        else:
            inst.ops.append(("label", lab))
        for g in groups:
            _decor(inst, idx, g)
    return inst


def _decor(inst, idx, g):
    if g == "z":
        if inst.zeroing:
            raise ParseError("two {z}")
        inst.zeroing = True
        if idx != 0:
            raise ParseError("{z} not on the first operand")
        return
    r = x86_parse_reg(g)
    if r is not None:
        if inst.mask is not None:
            raise ParseError("two mask decorations")
        if idx != 0:
            raise ParseError("mask decoration not on the first operand")
        inst.mask = r
        return
    raise ParseError("unknown decoration '{%s}'" % g)


# ---------------------------------------------------------------------------------------------------------------------
# the logger line
# ---------------------------------------------------------------------------------------------------------------------
def split_logger_line(line):
    """'<text> ; <HEX>' -> (text, hex column or None).  The machine code column is the last ';' separated field if it
    consists of hex digits and dots only."""
    i = line.rfind(";")
    if i >= 0:
        col = line[i + 1:].strip()
        if col and re.match(r"^[0-9A-Fa-f.]+$", col):
            return line[:i].rstrip(), col
    return line.rstrip(), None


# ---------------------------------------------------------------------------------------------------------------------
# AArch64
# ---------------------------------------------------------------------------------------------------------------------
A64_CONDS = {"eq": 0, "ne": 1, "cs": 2, "hs": 2, "cc": 3, "lo": 3, "mi": 4, "pl": 5, "vs": 6, "vc": 7, "hi": 8, "ls": 9,
             "ge": 10, "lt": 11, "gt": 12, "le": 13, "al": 14, "nv": 15}
A64_SHIFT_OPS = ("lsl", "lsr", "asr", "ror", "rrx", "msl", "uxtb", "uxth", "uxtw", "uxtx", "sxtb", "sxth", "sxtw", "sxtx")
_ESIZE = {"b": 8, "h": 16, "s": 32, "d": 64, "q": 128}
_A64_SCALAR = {"b": 8, "h": 16, "s": 32, "d": 64, "q": 128}
_A64_REG = re.compile(r"^([wxbhsdqv])([0-9]+)$")
_A64_VARR = re.compile(r"^(?:v([0-9]+)|(%[0-9]+|[A-Za-z_][A-Za-z0-9_]*))\.([0-9]*)([bhsdq])(?:\[([0-9]+)\])?$")


class A64Mem(object):
    __slots__ = ("base", "index", "off", "has_off", "ext", "mode")

    def __init__(self):
        self.base = None          # reg tuple | ('label', spec / number)
        self.index = None
        self.off = 0
        self.has_off = False
        self.ext = None           # (op, amount) or None
        self.mode = "off"         # off | pre | post


class A64Inst(object):
    __slots__ = ("mnemonics", "cond", "cond_text", "ops")

    def __init__(self):
        self.mnemonics = []
        self.cond = None          # architectural condition number or None
        self.cond_text = None
        self.ops = []             # ('gp', bits, id|'sp'|'zr') ('vec', bits|None, id, elem, idx) ('vreg', name, elem, count, idx)
                                  # ('imm', v) ('shift', op, n) ('mem', A64Mem) ('label', spec) ('ident', name)


def a64_parse_reg(tok, given=False):
    """Register token of the formatter output (given=False) or of the request syntax (given=True)."""
    if tok in ("wzr", "xzr"):
        return ("gp", 32 if tok[0] == "w" else 64, "zr")
    if tok == "wsp":
        return ("gp", 32, "sp")
    if tok == "sp":
        return ("gp", 64, "sp")
    m = _A64_REG.match(tok)
    if m:
        k, n = m.group(1), int(m.group(2))
        if k in "wx":
            if given and n == 31:
                return ("gp", 32 if k == "w" else 64, "sp")
            if given and n == 63:
                return ("gp", 32 if k == "w" else 64, "zr")
            return ("gp", 32 if k == "w" else 64, n)
        if k == "v":
            return ("vec", 128, n, None, None)
        return ("vec", _A64_SCALAR[k], n, None, None)
    m = _A64_VARR.match(tok)
    if m:
        vid, vname, cnt, et, idx = m.groups()
        idx = int(idx) if idx is not None else None
        cnt = int(cnt) if cnt else None
        elem = et
        bits = 128
        if cnt is not None:
            if idx is not None and (cnt, et) in ((4, "b"), (2, "h")):
                elem = et + str(cnt)               # element group of the dot product forms: v.4b[i] / v.2h[i]
            else:
                bits = cnt * _ESIZE[et]
                if bits not in (32, 64, 128) or et == "q" and cnt != 1:
                    raise ParseError("arrangement '.%d%s' does not exist" % (cnt, et))
        elif et == "q":
            raise ParseError("arrangement '.q'")
        if idx is not None:
            bits = None                            # an element is selected: the vector length carries no meaning
        if vid is not None:
            return ("vec", bits, int(vid), elem, idx)
        return ("vreg", vname, bits, elem, idx)
    return None


def _a64_shift(tok, given):
    """'<op> <n>' (formatter) / '<op> #<n>' / '<op>' (request) -> (op, n) or None"""
    m = re.match(r"^([a-z]+)(?:\s+#?\s*([0-9]+|0x[0-9a-fA-F]+))?$", tok) if given else re.match(r"^([a-z]+) ([0-9]+|0x[0-9a-fA-F]+)$", tok)
    if not m or m.group(1) not in A64_SHIFT_OPS:
        return None
    return (m.group(1), parse_int(m.group(2)) if m.group(2) else 0)


def _a64_mem_formatter(tok, trailing):
    """'[base{, index}{, off}{ op n}]{!}' plus, for post-index, the operand that follows the closing bracket."""
    mem = A64Mem()
    s = tok
    if s.endswith("!"):
        mem.mode = "pre"
        s = s[:-1]
    if not (s.startswith("[") and s.endswith("]")):
        raise ParseError("memory operand '%s'" % tok)
    inner = s[1:-1]
    parts = [p.strip() for p in inner.split(",")]
    if trailing is not None:
        if mem.mode == "pre" or len(parts) != 1:
            raise ParseError("operand after a memory operand: '%s, %s'" % (tok, trailing))
        mem.mode = "post"
        parts.append(trailing.strip())
    if not parts or parts[0] == "":
        raise ParseError("memory operand without base '%s'" % tok)
    mem.base = _a64_base(parts[0], False)
    for p in parts[1:]:
        if p == "":
            raise ParseError("empty field in '%s'" % tok)
        # index register optionally followed by ' <op> <n>' or ' <n>'
        words = p.split(" ")
        if _INT.match(words[0]):
            if mem.has_off or len(words) != 1:
                raise ParseError("offset field '%s'" % p)
            mem.off, mem.has_off = parse_int(words[0]), True
            continue
        r = a64_parse_reg(words[0]) or (("vreg", words[0], None, None, None) if (_IDENT.match(words[0]) or re.match(r"^%[0-9]+$", words[0])) else None)
        if r is None or mem.index is not None:
            raise ParseError("index field '%s'" % p)
        mem.index = r
        rest = [w for w in words[1:] if w != ""]
        if rest:
            if len(rest) == 2 and rest[0] in A64_SHIFT_OPS and _INT.match(rest[1]):
                mem.ext = (rest[0], parse_int(rest[1]))
            elif len(rest) == 1 and rest[0] in A64_SHIFT_OPS:
                mem.ext = (rest[0], 0)             # extend without amount: [x2, w3 sxtw]
            else:
                raise ParseError("shift / extend field '%s'" % p)
    return mem


def _a64_base(tok, given):
    if given and tok in ("$0", "pc"):
        return ("label", 0)
    if given and tok == "$u":
        return ("label", 1)
    r = a64_parse_reg(tok, given)
    if r is not None:
        return r
    lab = parse_label(tok)
    if lab is None and not re.match(r"^%[0-9]+$", tok):
        raise ParseError("base '%s'" % tok)
    return ("label?", tok, lab)


def parse_a64(text):
    s = text.strip()
    if not s:
        raise ParseError("empty text")
    inst = A64Inst()
    head, _, rest = s.partition(" ")
    name, dot, cc = head.partition(".")
    inst.mnemonics = name.split("|")
    for mn in inst.mnemonics:
        if not re.match(r"^[a-z][a-z0-9_]*$", mn):
            raise ParseError("mnemonic '%s'" % mn)
    if dot:
        inst.cond_text = cc
        if cc not in A64_CONDS:
            raise ParseError("'%s' is not an A64 condition name" % cc)
        inst.cond = A64_CONDS[cc]
    parts = split_top(rest) if rest.strip() else []
    i = 0
    while i < len(parts):
        p = parts[i]
        if p == "":
            raise ParseError("empty operand in '%s'" % text)
        if p.startswith("["):
            trailing = None
            if not p.endswith("!") and i + 1 < len(parts):
                trailing = parts[i + 1]
                if i + 2 < len(parts):
                    raise ParseError("operands after a post-index memory operand in '%s'" % text)
                i += 1
            inst.ops.append(("mem", _a64_mem_formatter(p, trailing)))
        elif _INT.match(p):
            inst.ops.append(("imm", parse_int(p)))
        else:
            r = a64_parse_reg(p)
            if r is not None:
                inst.ops.append(r)
            else:
                sh = _a64_shift(p, False)
                if sh is not None:
                    inst.ops.append(("shift",) + sh)
                elif p in A64_CONDS:
                    inst.ops.append(("cond", A64_CONDS[p]))
                elif p.startswith("{"):
                    raise ParseError("register list '%s'" % p)
                else:
                    lab = parse_label(p)
                    if re.match(r"^%[0-9]+$", p):
                        inst.ops.append(("vreg", p, None, None, None))
                    elif lab is None:
                        raise ParseError("operand '%s'" % p)
                    elif lab[0] == "name":
                        inst.ops.append(("ident", p, lab))
                    else:
                        inst.ops.append(("label", lab))
        i += 1
    return inst


# AsmJit's public arm::CondCode numbering as documented in harness/emit_a64.cpp (al 0, nv 1, then architectural value + 2)
A64_CONDCODE_API = {"al": 0, "nv": 1, "eq": 2, "ne": 3, "cs": 4, "hs": 4, "cc": 5, "lo": 5, "mi": 6, "pl": 7, "vs": 8, "vc": 9,
                    "hi": 10, "ls": 11, "ge": 12, "lt": 13, "gt": 14, "le": 15}


def parse_a64_given(text):
    """The request syntax of harness/emit_a64.cpp -> A64Inst.  Immediates with a shift/extend kind become ('shift', op, n)
    except LSL, which the API cannot tell from a plain immediate (arm::Shift(LSL, n) == Imm(n)); condition operands become
    ('imm', CondCode value); floats become the int64 bit pattern of the double (Imm(double))."""
    s = text.strip().lower()
    inst = A64Inst()
    head, _, rest = s.partition(" ")
    if "/" in head:
        head = head.split("/")[0]
    name, dot, cc = head.partition(".")
    inst.mnemonics = [name]
    if dot:
        if cc not in A64_CONDS:
            raise ParseError("request condition '%s'" % cc)
        inst.cond = A64_CONDS[cc]
        inst.cond_text = cc
    for p in (split_top(rest) if rest.strip() else []):
        if p == "_":
            break
        if p.startswith("["):
            inst.ops.append(("mem", _a64_mem_given(p)))
        elif p == "$0":
            inst.ops.append(("label", 0))
        elif p == "$u":
            inst.ops.append(("label", 1))
        elif p.startswith("#"):
            v = p[1:].strip()
            if _INT.match(v):
                inst.ops.append(("imm", parse_int(v)))
            else:
                try:
                    d = float(v)
                except ValueError:
                    raise ParseError("request immediate '%s'" % p)
                inst.ops.append(("imm", struct.unpack("<q", struct.pack("<d", d))[0], "float"))
        else:
            r = a64_parse_reg(p, True)
            if r is not None:
                inst.ops.append(r)
                continue
            sh = _a64_shift(p, True)
            if sh is not None:
                inst.ops.append(("imm", sh[1]) if sh[0] == "lsl" else ("shift",) + sh)
            elif p in A64_CONDCODE_API:
                inst.ops.append(("imm", A64_CONDCODE_API[p], "cond", A64_CONDS[p]))
            else:
                raise ParseError("request operand '%s'" % p)
    return inst


def _a64_mem_given(tok):
    mem = A64Mem()
    s = tok
    if s.endswith("!"):
        mem.mode, s = "pre", s[:-1]
    elif s.endswith("@"):
        mem.mode, s = "post", s[:-1]
    s = s.strip()
    if not (s.startswith("[") and s.endswith("]")):
        raise ParseError("request memory operand '%s'" % tok)
    parts = [p.strip() for p in s[1:-1].split(",")]
    if parts[0].startswith("#"):
        mem.base = None
        mem.off, mem.has_off = parse_int(parts[0][1:].strip()), True
        return mem
    mem.base = _a64_base(parts[0], True)
    if len(parts) >= 2:
        if parts[1].startswith("#"):
            mem.off = parse_int(parts[1][1:].strip())
            mem.has_off = mem.off != 0
        else:
            mem.index = a64_parse_reg(parts[1], True)
            if mem.index is None:
                raise ParseError("request index '%s'" % parts[1])
            if len(parts) == 3:
                mem.ext = _a64_shift(parts[2], True)
                if mem.ext is None:
                    raise ParseError("request shift '%s'" % parts[2])
    return mem
