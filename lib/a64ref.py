"""Reference legs for AArch64 encodings.

 (a) llvm_assemble(texts)      - llvm-mc as the independent assembler: text -> word(s) or rejection
 (b) template_check(form, ...) - the db bit template: literal bits + register / simple immediate fields
     llvm_disassemble(words)   - llvm-mc --disassemble, used for the descriptions of violations only
"""
import os, re, subprocess, tempfile

LLVM_MC = os.environ.get("VERIF_LLVM_MC", "llvm-mc")

# every feature llvm-mc 14 has that an A64 (non-SVE/SME) db form may need; unknown instructions stay inconclusive
MATTR = ("+v8.8a,+v9.3a,+neon,+fp-armv8,+fullfp16,+fp16fml,+bf16,+i8mm,+dotprod,+complxnum,+jsconv,+rdm,+crc,+lse,+lse2,"
         "+rcpc,+rcpc-immo,+mte,+rand,+ls64,+flagm,+altnzcv,+fptoint,+predres,+sb,+ssbs,+spe,+pauth,+tme,+xs,+wfxt,+hbc,"
         "+mops,+brbe,+bti,+ras,+lor,+pan,+pan-rwv,+uaops,+vh,+ccpp,+ccdp,+ccidx,+dit,+tlb-rmi,+trbe,+ete,+rme,"
         "+aes,+sha2,+sha3,+sm4,+crypto,+specrestrict,+perfmon,+el2vmsa,+el3,+sel2,+nv,+mpam,+am,+amvs,+fgt,+ecv,+hcx")

_ENC = re.compile(r"encoding: \[([^\]]*)\]")
_ERR = re.compile(r"^(?:[^:\n]*):(\d+):\d+: error: (.*)$", re.M)


def llvm_version():
    try:
        r = subprocess.run([LLVM_MC, "--version"], stdout=subprocess.PIPE, stderr=subprocess.STDOUT, text=True, timeout=20)
        m = re.search(r"LLVM version (\S+)", r.stdout)
        return m.group(1) if m else "?"
    except Exception:   # noqa
        return None


def _run_mc(lines, workdir):
    """One llvm-mc run over `lines`.  Returns (list of word-tuples or None per line, {line index: message})."""
    fd, path = tempfile.mkstemp(suffix=".s", dir=workdir)
    with os.fdopen(fd, "w") as f:
        for l in lines:
            f.write(l + "\n")
    try:
        r = subprocess.run([LLVM_MC, "-triple=aarch64", "-mattr=" + MATTR, "-show-encoding", path],
                           stdin=subprocess.DEVNULL, stdout=subprocess.PIPE, stderr=subprocess.PIPE, text=True, timeout=600)
    finally:
        os.unlink(path)
    errs = {}
    for m in _ERR.finditer(r.stderr):
        errs.setdefault(int(m.group(1)) - 1, m.group(2))
    encs = []
    for l in r.stdout.split("\n"):
        m = _ENC.search(l)
        if m:
            bs = [int(x, 16) for x in m.group(1).split(",")]
            encs.append(bs)
    return encs, errs, r


def llvm_assemble(texts, workdir=None):
    """texts: list of assembly lines.  Returns list of (hex string of the bytes | None, error message | None).

    Accepted lines and encodings are matched by order; if the bookkeeping does not add up (a line that produced neither
    an encoding nor an error, or two encodings), the batch is split and retried so that a mismatch can never shift
    results onto a neighbouring case."""
    workdir = workdir or tempfile.gettempdir()
    out = [None] * len(texts)

    def solve(lo, hi):
        if lo >= hi:
            return
        encs, errs, r = _run_mc(texts[lo:hi], workdir)
        n = hi - lo
        ok_lines = [i for i in range(n) if i not in errs]
        if len(ok_lines) == len(encs) and all(0 <= e < n for e in errs):
            for i, e in zip(ok_lines, encs):
                out[lo + i] = ("".join("%02x" % b for b in e), None)
            for i, msg in errs.items():
                out[lo + i] = (None, msg)
            return
        if n == 1:
            out[lo] = (None, "llvm-mc bookkeeping failure: " + (r.stderr or r.stdout)[-200:])
            return
        mid = (lo + hi) // 2
        solve(lo, mid)
        solve(mid, hi)

    solve(0, len(texts))
    return out


def llvm_disassemble(words, workdir=None):
    """words: list of 32-bit ints.  Returns list of text (or None)."""
    if not words:
        return []
    inp = "\n".join(" ".join("0x%02x" % ((w >> (8 * i)) & 255) for i in range(4)) for w in words) + "\n"
    r = subprocess.run([LLVM_MC, "-triple=aarch64", "-mattr=" + MATTR, "--disassemble"], input=inp,
                       stdout=subprocess.PIPE, stderr=subprocess.PIPE, text=True, timeout=600)
    # invalid encodings produce a warning on stderr and no line on stdout; redo one by one then
    lines = [l.strip() for l in r.stdout.split("\n") if l.strip() and not l.strip().startswith(".text")]
    if len(lines) == len(words):
        return [re.sub(r"\s+", " ", l) for l in lines]
    if len(words) == 1:
        return [None]
    out = []
    for w in words:
        out += llvm_disassemble([w], workdir)
    return out


# ---------------------------------------------------------------------------------------------------------------------
# template leg
# ---------------------------------------------------------------------------------------------------------------------

def template_masks(form):
    """(mask, value) of the literal bits."""
    t = form.get("_lit")
    if t is None:
        mask = val = 0
        for part in form["template"]:
            if "lit" in part:
                n = part["size"]
                mask |= ((1 << n) - 1) << part["lo"]
                val |= int(part["lit"], 2) << part["lo"]
        t = form["_lit"] = (mask, val)
    return t


def field_value(form, name, word):
    """Value of template field `name` in `word` (pieces name[a:b], name:N, 'name / name' put together), or None."""
    parts = [p for p in form["template"] if p.get("field") == name]
    if not parts:
        return None, 0
    v = 0
    total = 0
    # pieces without explicit position are concatenated msb-first in template order
    plain = [p for p in parts if p["from"] < 0 and not p["quote"]]
    pos = sum(p["size"] for p in plain)
    lowq = [p for p in parts if p["quote"] == "lo"]
    base = 1 if lowq else 0
    for p in parts:
        bits = (word >> p["lo"]) & ((1 << p["size"]) - 1)
        if p["from"] >= 0:
            v |= bits << p["from"]
            total = max(total, p["from"] + p["size"])
        elif p["quote"] == "lo":
            v |= bits
            total = max(total, 1)
        elif p["quote"] == "hi":
            v |= bits << (base + pos)
            total = max(total, base + pos + 1)
        else:
            pos -= p["size"]
            v |= bits << (base + pos)
            total = max(total, base + sum(q["size"] for q in plain))
    return v, total


def template_check(form, word, expect):
    """Returns (ok, reason).  expect: [(field, value)]"""
    mask, val = template_masks(form)
    if (word & mask) != val:
        return False, "literal bits: word & %08x = %08x, template wants %08x" % (mask, word & mask, val)
    for name, want in expect:
        got, width = field_value(form, name, word)
        if got is None:
            continue
        if got != (want & ((1 << width) - 1)) or want >= (1 << width):
            return False, "field %s = %d, requested %d" % (name, got, want)
    return True, ""
