"""Reference legs for AArch64 encodings.

 (a) llvm_assemble(texts)      - llvm-mc as the independent assembler: text -> word(s) or rejection
 (b) template_check(form, ...) - the db bit template: literal bits + register / simple immediate fields
     llvm_disassemble(words)   - llvm-mc --disassemble, used for the descriptions of violations only
"""
import os, re, subprocess, tempfile

LLVM_MC = os.environ.get("VERIF_LLVM_MC", "llvm-mc")

# every feature llvm-mc 14 has that an A64 (non-SVE/SME) db form may need; unknown instructions stay inconclusive
MATTR = ("+v8.8a,+v9.3a,+neon,+fp-armv8,+fullfp16,+fp16fml,+bf16,+i8mm,+dotprod,+complxnum,+jsconv,+rdm,+crc,+lse,+lse2,"
         "+rcpc,+rcpc-immo,+mte,+rand,+ls64,+flagm,+altnzcv,+fptoint,+predres,+sb,+ssbs,+spe,+pauth,+tme,+xs,+wfxt,+hbc,"
         "+mops,+brbe,+bti,+ras,+lor,+pan,+pan-rwv,+uaops,+vh,+ccpp,+ccdp,+ccidx,+dit,+tlb-rmi,+trbe,+ete,+rme,"
         "+aes,+sha2,+sha3,+sm4,+crypto,+specrestrict,+perfmon,+el2vmsa,+el3,+sel2,+nv,+mpam,+am,+amvs,+fgt,+ecv,+hcx")

_ENC = re.compile(r"encoding: \[([^\]]*)\]")
_ERR = re.compile(r"^(?:[^:\n]*):(\d+):\d+: error: (.*)$", re.M)


def llvm_version():
    try:
        r = subprocess.run([LLVM_MC, "--version"], stdout=subprocess.PIPE, stderr=subprocess.STDOUT, text=True, timeout=20)
        m = re.search(r"LLVM version (\S+)", r.stdout)
        return m.group(1) if m else "?"
    except Exception:   # noqa
        return None


def _run_mc(lines, workdir):
    """One llvm-mc run over `lines`.  Returns (list of word-tuples or None per line, {line index: message})."""
    fd, path = tempfile.mkstemp(suffix=".s", dir=workdir)
    with os.fdopen(fd, "w") as f:
        for l in lines:
            f.write(l + "\n")
    try:
        r = subprocess.run([LLVM_MC, "-triple=aarch64", "-mattr=" + MATTR, "-show-encoding", path],
                           stdin=subprocess.DEVNULL, stdout=subprocess.PIPE, stderr=subprocess.PIPE, text=True, timeout=600)
    finally:
        os.unlink(path)
    errs = {}
    for m in _ERR.finditer(r.stderr):
        errs.setdefault(int(m.group(1)) - 1, m.group(2))
    encs = []
    for l in r.stdout.split("\n"):
        m = _ENC.search(l)
        if m:
            bs = [int(x, 16) for x in m.group(1).split(",")]
            encs.append(bs)
    return encs, errs, r


def llvm_assemble(texts, workdir=None):
    """texts: list of assembly lines.  Returns list of (hex string of the bytes | None, error message | None).

    Accepted lines and encodings are matched by order; if the bookkeeping does not add up (a line that produced neither
    an encoding nor an error, or two encodings), the batch is split and retried so that a mismatch can never shift
    results onto a neighbouring case."""
    workdir = workdir or tempfile.gettempdir()
    out = [None] * len(texts)

    def solve(lo, hi):
        if lo >= hi:
            return
        encs, errs, r = _run_mc(texts[lo:hi], workdir)
        n = hi - lo
        ok_lines = [i for i in range(n) if i not in errs]
        if len(ok_lines) == len(encs) and all(0 <= e < n for e in errs):
            for i, e in zip(ok_lines, encs):
                out[lo + i] = ("".join("%02x" % b for b in e), None)
            for i, msg in errs.items():
                out[lo + i] = (None, msg)
            return
        if n == 1:
            out[lo] = (None, "llvm-mc bookkeeping failure: " + (r.stderr or r.stdout)[-200:])
            return
        mid = (lo + hi) // 2
        solve(lo, mid)
        solve(mid, hi)

    solve(0, len(texts))
    return out


def llvm_disassemble(words, workdir=None):
    """words: list of 32-bit ints.  Returns list of text (or None)."""
    if not words:
        return []
    inp = "\n".join(" ".join("0x%02x" % ((w >> (8 * i)) & 255) for i in range(4)) for w in words) + "\n"
    r = subprocess.run([LLVM_MC, "-triple=aarch64", "-mattr=" + MATTR, "--disassemble"], input=inp,
                       stdout=subprocess.PIPE, stderr=subprocess.PIPE, text=True, timeout=600)
    # invalid encodings produce a warning on stderr and no line on stdout; redo one by one then
    lines = [l.strip() for l in r.stdout.split("\n") if l.strip() and not l.strip().startswith(".text")]
    if len(lines) == len(words):
        return [re.sub(r"\s+", " ", l) for l in lines]
    if len(words) == 1:
        return [None]
    out = []
    for w in words:
        out += llvm_disassemble([w], workdir)
    return out


# ---------------------------------------------------------------------------------------------------------------------
# template leg
# ---------------------------------------------------------------------------------------------------------------------

def template_masks(form):
    """(mask, value) of the literal bits."""
    t = form.get("_lit")
    if t is None:
        mask = val = 0
        for part in form["template"]:
            if "lit" in part:
                n = part["size"]
                mask |= ((1 << n) - 1) << part["lo"]
                val |= int(part["lit"], 2) << part["lo"]
        t = form["_lit"] = (mask, val)
    return t


def field_value(form, name, word):
    """Value of template field `name` in `word` (pieces name[a:b], name:N, 'name / name' put together), or None."""
    parts = [p for p in form["template"] if p.get("field") == name]
    if not parts:
        return None, 0
    v = 0
    total = 0
    # pieces without explicit position are concatenated msb-first in template order
    plain = [p for p in parts if p["from"] < 0 and not p["quote"]]
    pos = sum(p["size"] for p in plain)
    lowq = [p for p in parts if p["quote"] == "lo"]
    base = 1 if lowq else 0
    for p in parts:
        bits = (word >> p["lo"]) & ((1 << p["size"]) - 1)
        if p["from"] >= 0:
            v |= bits << p["from"]
            total = max(total, p["from"] + p["size"])
        elif p["quote"] == "lo":
            v |= bits
            total = max(total, 1)
        elif p["quote"] == "hi":
            v |= bits << (base + pos)
            total = max(total, base + pos + 1)
        else:
            pos -= p["size"]
            v |= bits << (base + pos)
            total = max(total, base + sum(q["size"] for q in plain))
    return v, total


def field_copies(form, name, word):
    """A field that occurs several times with its full width (cinc: Rn|..|Rn, mov v: Vn|..|Vn) -> list of the copies."""
    parts = [p for p in form["template"] if p.get("field") == name and p["from"] < 0 and not p["quote"]]
    decl = form["fields"].get(name, {}).get("bits", 0)
    if len(parts) > 1 and all(p["size"] == decl for p in parts):
        return [(word >> p["lo"]) & ((1 << p["size"]) - 1) for p in parts], decl
    return None, 0


def template_check(form, word, expect, only_known_fields=False):
    """Returns (ok, reason).  expect: [(field, value)]"""
    mask, val = template_masks(form)
    if (word & mask) != val:
        return False, "literal bits: word & %08x = %08x, template wants %08x" % (mask, word & mask, val)
    for name, want in expect:
        copies, width = field_copies(form, name, word)
        if copies is not None:
            for got in copies:
                if got != (want & ((1 << width) - 1)) or want >= (1 << width):
                    return False, "field %s = %d, requested %d" % (name, got, want)
            continue
        got, width = field_value(form, name, word)
        if got is None:
            if only_known_fields:
                continue
            continue
        if got != (want & ((1 << width) - 1)) or want >= (1 << width):
            return False, "field %s = %d, requested %d" % (name, got, want)
    return True, ""


# ---------------------------------------------------------------------------------------------------------------------
# MOV (immediate) is an alias with several legal encodings (MOVZ / MOVN / ORR-immediate, 32- or 64-bit): compare by value
# ---------------------------------------------------------------------------------------------------------------------

def _ror(x, r, n):
    r %= n
    return ((x >> r) | (x << (n - r))) & ((1 << n) - 1)


def decode_bit_masks(n, imms, immr, size):
    """Arm ARM DecodeBitMasks (wmask only); None for reserved values."""
    v = (n << 6) | (~imms & 0x3F)
    if v == 0:
        return None
    length = v.bit_length() - 1
    if length < 1 or (1 << length) > size:
        return None
    levels = (1 << length) - 1
    s = imms & levels
    r = immr & levels
    if s == levels:
        return None
    esize = 1 << length
    welem = (1 << (s + 1)) - 1
    elem = _ror(welem, r, esize)
    out = 0
    for i in range(size // esize):
        out |= elem << (i * esize)
    return out


def mov_imm_effect(word):
    """(kind, rd, value written to the X register) if `word` is MOVZ / MOVN / ORR Rd, ZR, #imm; else None.
    kind 'wide' (MOVZ/MOVN: Rd=31 is ZR) or 'orr' (Rd=31 is SP)."""
    sf = word >> 31
    size = 64 if sf else 32
    opc = (word >> 29) & 3
    rd = word & 31
    if (word >> 23) & 0x3F == 0b100101 and opc in (0, 2):
        hw = (word >> 21) & 3
        if not sf and hw > 1:
            return None
        v = ((word >> 5) & 0xFFFF) << (16 * hw)
        if opc == 0:
            v = ~v & ((1 << size) - 1)
        return "wide", rd, v
    if (word >> 23) & 0x3F == 0b100100 and opc == 1 and ((word >> 5) & 31) == 31:
        n = (word >> 22) & 1
        if not sf and n:
            return None
        v = decode_bit_masks(n, (word >> 10) & 0x3F, (word >> 16) & 0x3F, size)
        if v is None:
            return None
        return "orr", rd, v
    return None


# ---------------------------------------------------------------------------------------------------------------------
# AdvSIMD modified immediate (MOVI / MVNI / ORR / BIC vector immediate): several encodings give the same vector constant,
# so these are compared by the constant (Arm ARM AdvSIMDExpandImm)
# ---------------------------------------------------------------------------------------------------------------------

def _rep(v, esize):
    out = 0
    for i in range(64 // esize):
        out |= (v & ((1 << esize) - 1)) << (i * esize)
    return out


def adv_simd_expand_imm(op, cmode, imm8):
    """64-bit pattern, or None for the FMOV encodings (cmode 1111)."""
    c = cmode >> 1
    if c == 0:
        return _rep(imm8, 32)
    if c == 1:
        return _rep(imm8 << 8, 32)
    if c == 2:
        return _rep(imm8 << 16, 32)
    if c == 3:
        return _rep(imm8 << 24, 32)
    if c == 4:
        return _rep(imm8, 16)
    if c == 5:
        return _rep(imm8 << 8, 16)
    if c == 6:
        return _rep((imm8 << 8) | 0xFF, 32) if (cmode & 1) == 0 else _rep((imm8 << 16) | 0xFFFF, 32)
    if (cmode & 1) == 0:
        if op == 0:
            return _rep(imm8, 8)
        v = 0
        for i in range(8):
            if (imm8 >> i) & 1:
                v |= 0xFF << (8 * i)
        return v
    return None


def modimm_effect(word):
    """(class, rd, q, 64-bit pattern written / or-ed / and-not-ed per 64-bit half) for the AdvSIMD modified-immediate
    group, class in 'mov' (MOVI and MVNI: pattern is the final constant), 'orr', 'bic'; None otherwise."""
    if (word & 0x9FF80C00) != 0x0F000400:
        return None
    q = (word >> 30) & 1
    op = (word >> 29) & 1
    cmode = (word >> 12) & 15
    imm8 = (((word >> 16) & 7) << 5) | ((word >> 5) & 31)
    rd = word & 31
    pat = adv_simd_expand_imm(op, cmode, imm8)
    if pat is None:
        return None
    if cmode < 12 and (cmode & 1):
        return ("bic" if op else "orr"), rd, q, pat
    if cmode == 14 and op == 1:
        return "mov", rd, q, pat                      # MOVI 64-bit byte mask (Q=0: scalar Dd, Q=1: .2D)
    if cmode == 15:
        return None
    if op:
        pat = ~pat & ((1 << 64) - 1)                   # MVNI
    return "mov", rd, q, pat


_EXPRESSIBLE = {}


def modimm_expressible(cls):
    s = _EXPRESSIBLE.get(cls)
    if s is None:
        s = set()
        for op in (0, 1):
            for cmode in range(15):
                is_logic = cmode < 12 and (cmode & 1)
                if cls == "mov":
                    if is_logic:
                        continue
                elif not is_logic or (cls == "orr") != (op == 0):
                    continue
                for imm8 in range(256):
                    pat = adv_simd_expand_imm(op, cmode, imm8)
                    if pat is None:
                        continue
                    if cls == "mov" and op and not (cmode == 14):
                        pat = ~pat & ((1 << 64) - 1)
                    s.add(pat)
        _EXPRESSIBLE[cls] = s
    return s
