"""C12 helpers: database side of the read/write-information check.

  load_extras(repo)       per-form annotations of db/isa_x86.json that tools/dump_isa_x86.js does not dump (flag "io"
                          annotations, privilege, control, volatile, {k} kind, per-operand bit ranges / zero-extension /
                          segment); same form order as lib/x86cases.load_db()
  x86_cases(f, mode)      C12 instantiations of one db form: ALL operands explicit (implicit ones included, because the
                          RW tables are indexed by db operand position), variants reg / same-register / memory / {k} / {k}{z}
  parse_result(line)      one output line of harness/c12_rwinfo
  judge_*                 the oracle clauses (access, byte masks, flags, features, regmem, consecutive)
  a64_list_cases(forms)   AArch64 register-list forms of the db with consecutive physical registers

Everything here is derived from the ISA database and the architecture manuals (Intel SDM vol.1 3.4.1.1 for the
8/16/32-bit general-purpose write rule; SDM vol.2 2.3/2.7 for the VEX/EVEX escape bytes; Arm ARM C7.2 for LD1-4/ST1-4/TBL/
TBX/CASP); nothing is taken from AsmJit's tables.
"""
import hashlib, json, os, re, subprocess, collections

from . import x86cases as X

VERIF = os.path.dirname(os.path.dirname(os.path.abspath(__file__)))

# OpRWFlags bit values: public API (asmjit/core/inst.h)
F_READ, F_WRITE, F_REGMEM, F_CONSEC, F_ZEXT, F_UNIQUE = 0x1, 0x2, 0x4, 0x8, 0x10, 0x80
F_REGPHYS, F_MEMPHYS, F_MEMFAKE = 0x100, 0x200, 0x400
F_MBASE_R, F_MBASE_W, F_MIDX_R, F_MIDX_W = 0x1000, 0x2000, 0x4000, 0x8000
IF_MOVOP = 0x1

CPU_FLAGS = ("CF", "OF", "SF", "ZF", "AF", "PF", "DF", "IF", "AC", "C0", "C1", "C2", "C3")

# ---------------------------------------------------------------------------------------------------------------
# extra dump of the x86 database (node, the project's own parser)
# ---------------------------------------------------------------------------------------------------------------
_EXTRA_JS = r"""
"use strict";
const fs = require("fs"), path = require("path");
const dbDir = path.resolve(process.argv[1]);
const x86 = require(path.join(dbDir, "x86.js"));
const json = JSON.parse(fs.readFileSync(path.join(dbDir, "isa_x86.json"), "utf8"));
const origLog = console.log; console.log = function () {};
const isa = new x86.ISA(json);
console.log = origLog;
const out = [];
for (const I of isa.instructions) {
  out.push({
    name: I.name, io: Object.assign({}, I.io), privilege: I.privilege || "", control: I.control || "",
    volatile: !!I.volatile, k: I.k || "", fpuTop: I.fpuTop || 0, deprecated: !!I.deprecated,
    ops: I.operands.map((o) => ({ data: o.data, rwxIndex: o.rwxIndex, rwxWidth: o.rwxWidth, zext: !!o.zext,
                                  memSegment: o.memSegment || "", commutative: !!o.commutative }))
  });
}
process.stdout.write(JSON.stringify(out) + "\n");
"""

_EXTRA_CACHE = {}


def load_extras(repo):
    if repo in _EXTRA_CACHE:
        return _EXTRA_CACHE[repo]
    dbdir = os.path.join(repo, "db")
    h = hashlib.sha1(_EXTRA_JS.encode())
    for fn in ("isa_x86.json", "x86.js", "base.js"):
        with open(os.path.join(dbdir, fn), "rb") as f:
            h.update(f.read())
    cdir = os.path.join(VERIF, "build", "c12")
    os.makedirs(cdir, exist_ok=True)
    path = os.path.join(cdir, "x86extra-%s.json" % h.hexdigest()[:12])
    if not os.path.exists(path):
        r = subprocess.run(["node", "-e", _EXTRA_JS, dbdir], stdout=subprocess.PIPE, stderr=subprocess.PIPE)
        if r.returncode != 0:
            raise RuntimeError("x86 extra dump failed: " + r.stderr.decode("utf-8", "replace")[-2000:])
        tmp = path + ".tmp%d" % os.getpid()
        with open(tmp, "wb") as f:
            f.write(r.stdout)
        os.replace(tmp, path)
    with open(path) as f:
        ex = json.load(f)
    _EXTRA_CACHE[repo] = ex
    return ex


def load_forms(repo):
    """x86cases forms with the extra annotations merged in (f['io'], f['privilege'], ..., o['rwxIndex'], ...)."""
    forms = X.load_db(repo)
    ex = load_extras(repo)
    if len(forms) != len(ex):
        raise RuntimeError("db dumps disagree: %d vs %d forms" % (len(forms), len(ex)))
    for f, e in zip(forms, ex):
        if f["name"] != e["name"] or len(f["operands"]) != len(e["ops"]):
            raise RuntimeError("db dumps disagree at form %d (%s vs %s)" % (f["idx"], f["name"], e["name"]))
        for k in ("io", "privilege", "control", "volatile", "k", "fpuTop", "deprecated"):
            f[k] = e[k]
        for o, eo in zip(f["operands"], e["ops"]):
            for k in ("rwxIndex", "rwxWidth", "zext", "memSegment", "commutative"):
                o[k] = eo[k]
    return forms


# ---------------------------------------------------------------------------------------------------------------
# x86 instantiation (all operands explicit)
# ---------------------------------------------------------------------------------------------------------------
class C12Case(object):
    __slots__ = ("case", "form", "variant", "mem_pos", "kinds")

    def __init__(self, case, form, variant, mem_pos=None):
        self.case, self.form, self.variant, self.mem_pos = case, form, variant, mem_pos


def _pick(o, want_mem):
    alts = o["alts"]
    if want_mem:
        for a in alts:
            if a[0] == "mem":
                return a
    for a in alts:
        if a[0] in ("reg", "fixed", "consec"):
            return a
    return alts[0] if alts else None


def full_operands(f, mode, mem_pos=None, same=False, ids=None):
    """Operand tuples for ALL db operands of f (implicit ones included), or None if the form cannot be written."""
    ops = []
    epos = 0
    first_id = {}
    for j, o in enumerate(f["operands"]):
        a = _pick(o, mem_pos == j)
        if a is None:
            return None
        t = a[0]
        if t == "reg":
            r = X.default_reg(a[1], epos, mode)
            if ids is not None and j in ids:
                r = ("r", a[1], ids[j])
            if same and not o["consecutive"]:
                if a[1] in first_id:
                    r = ("r", a[1], first_id[a[1]])
                else:
                    first_id[a[1]] = r[2]
            ops.append(r)
        elif t == "fixed":
            if a[1] == "rip":
                return None
            ops.append(("r", a[1], a[2]))
        elif t == "consec":
            ops.append(("consec", a[1], a[2]))
        elif t == "mem":
            if a[2] == "far":
                return None
            ops.append(("m", X._default_mem(f, o, a, mode)))
        elif t == "imm":
            ops.append(("i", X._IMM_DEFAULT.get(a[1], 1)))
        elif t == "one":
            ops.append(("i", 1))
        elif t == "rel":
            ops.append(("l", 0))
        else:
            return None
        if not o["implicit"]:
            epos += 1
    if len(ops) > 6:
        return None
    return X._resolve_consec(ops)


def vector_length(f):
    """EVEX/VEX vector length of the form in bits (0 = scalar / length ignored)."""
    l = f["opcode"]["l"]
    if l in ("128", "256", "512"):
        return int(l)
    if l in ("LIG", "LZ", "L0", "L1", ""):
        return 0
    w = X.vector_bits_of_form(f)
    for o in f["operands"]:
        if o["vsibReg"]:
            w = max(w, X.KIND_BITS[o["vsibReg"]])
    return w


def x86_cases(f, mode, has_evex_sibling=True):
    """Yields C12Case objects for form f: reg, reg without encoding option, same-register, memory variants, {k}, {k}{z}.

    Encoding selection: an EVEX form is selected the natural way in 64-bit mode (vector registers 16+), by the
    InstOptions::kX86_Evex option in 32-bit mode; a VEX form that has EVEX siblings is requested with kX86_Vex (the
    documented way to ask for e.g. the AVX_VNNI encoding), and once without any option."""
    name, sig, fidx = f["name"], f["sig"], f["idx"]
    opt = 0
    ids = {}
    if f["prefix"] == "EVEX":
        if mode == 64:
            epos = 0
            for j, o in enumerate(f["operands"]):
                a = _pick(o, False)
                if a and a[0] == "reg" and a[1] in ("xmm", "ymm", "zmm"):
                    ids[j] = 16 + X.DEFAULT_IDS[epos % len(X.DEFAULT_IDS)]
                if not o["implicit"]:
                    epos += 1
        else:
            opt = X.OPT["evex"]
    elif f["prefix"] == "VEX" and has_evex_sibling:
        opt = X.OPT["vex"]
    # register runs (k+1, zmm+3): the lead must be aligned to the run length
    for j, o in enumerate(f["operands"]):
        if o["consecutive"]:
            n = o["consecutive"]
            ids[j] = (16 if j in ids else 0) + (2 if n == 2 else 4)
    seen = set()

    def mk(ops, variant, opts=0, extra=None, mem_pos=None):
        if ops is None:
            return None
        c = X.Case(mode, name, opts, extra, ops, (), (), fidx, variant, sig)
        k = c.key()
        if k in seen:
            return None
        seen.add(k)
        return C12Case(c, f, variant, mem_pos)

    base = full_operands(f, mode, ids=ids)
    out = [mk(base, "reg", opt)]
    if f["prefix"] == "VEX" and has_evex_sibling and "vex3" in X.OPT:
        out.append(mk(base, "reg-vex3", X.OPT["vex3"]))     # the other way of asking for the VEX encoding
    if opt or ids:
        out.append(mk(full_operands(f, mode, ids={j: v for j, v in ids.items() if f["operands"][j]["consecutive"]}), "reg-noopt", 0))
    kinds = collections.Counter(a[1] for o in f["operands"] for a in [_pick(o, False)] if a and a[0] == "reg")
    if any(v >= 2 for v in kinds.values()):
        out.append(mk(full_operands(f, mode, same=True, ids=ids), "same", opt))
    for j, o in enumerate(f["operands"]):
        has_reg = any(a[0] in ("reg", "fixed") for a in o["alts"])
        has_mem = any(a[0] == "mem" for a in o["alts"])
        if has_reg and has_mem:
            out.append(mk(full_operands(f, mode, mem_pos=j, ids=ids), "mem%d" % j, opt, mem_pos=j))
    if f["kmask"]:
        out.append(mk(base, "k", opt, ("k", 1)))
        if f["zmask"]:
            out.append(mk(base, "kz", opt | X.OPT["z"], ("k", 1)))
        # {k} together with the memory alternative of every register-or-memory operand (the query has separate paths for them)
        for j, o in enumerate(f["operands"]):
            if any(a[0] in ("reg", "fixed") for a in o["alts"]) and any(a[0] == "mem" for a in o["alts"]):
                out.append(mk(full_operands(f, mode, mem_pos=j, ids=ids), "k+mem%d" % j, opt, ("k", 1), mem_pos=j))
                if f["zmask"]:
                    out.append(mk(full_operands(f, mode, mem_pos=j, ids=ids), "kz+mem%d" % j, opt | X.OPT["z"], ("k", 1), mem_pos=j))
    # {er} / {sae}: register-only decorations - no operand may be offered as a memory alternative under them
    if base:
        if f["er"]:
            out.append(mk(base, "er", opt | X.ER_MODES["ru"]))
        if f["sae"]:
            out.append(mk(base, "sae", opt | X.OPT["sae"]))
    # immediates at the sign / width boundaries (the RW answer of mov depends on the immediate: a value that only the
    # imm64 register form can hold has no memory alternative)
    if base and base[-1][0] == "i" and name not in ("vpternlogd", "vpternlogq"):
        a = _pick(f["operands"][len(base) - 1], False)
        bits = a[1] if a and a[0] == "imm" else 0
        vals = []
        if bits == 32:
            vals = [0x7F, 0x80, 0x7FFFFFFF, 0x80000000, 0xFFFFFFFF]
        elif bits == 64:
            vals = [0x7F, 0x80, 0x7FFFFFFF, 0x80000000, 0xFFFFFFFF, 0x100000000, 0xFFFFFFFF80000000, 0xFFFFFFFFFFFFFFFF]
        for v in vals:
            out.append(mk(list(base[:-1]) + [("i", v)], "imm=%#x" % v, opt))
    if name in ("vpternlogd", "vpternlogq") and base is not None and base[-1][0] == "i":
        # imm8 0x11 (the default) makes the result independent of the destination; 0xCA = A ? B : C depends on it
        # every immediate: the destination is an input exactly when the truth table differs between A=0 and A=1
        for imm in range(256):
            if imm != base[-1][1]:
                out.append(mk(list(base[:-1]) + [("i", imm)], "imm=0x%02x" % imm, opt))
    # register-id alphabet of the features clause: the VEX / EVEX decision depends on the HIGHEST vector register id.
    # Every vector operand position in turn gets id 16 (first EVEX-only id) and 31 while the others stay below 16 (EVEX
    # forms), and id 15 (last VEX id) with no option at all (VEX forms); a VSIB index register gets id 16 as well.
    if mode == 64 and has_evex_sibling and f["prefix"] in ("VEX", "EVEX"):
        low = {j: v for j, v in ids.items() if f["operands"][j]["consecutive"]}
        for j, o in enumerate(f["operands"]):
            a = _pick(o, False)
            if a and a[0] == "reg" and a[1] in ("xmm", "ymm", "zmm") and not o["implicit"]:
                for vid in ((16, 31) if f["prefix"] == "EVEX" else (15,)):
                    d = dict(low)
                    d[j] = vid
                    out.append(mk(full_operands(f, mode, ids=d), "v%d@%d" % (vid, j), 0))
            if o["vsibReg"] and f["prefix"] == "EVEX":
                ops = full_operands(f, mode, ids=low)
                if ops is not None and ops[j][0] == "m" and ops[j][1].index is not None:
                    ops = list(ops)
                    ops[j] = ("m", ops[j][1].replace(index=(ops[j][1].index[0], 16)))
                    out.append(mk(ops, "vi16@%d" % j, 0, ("k", 1) if f["kmask"] else None))
    return [c for c in out if c is not None]


# ---------------------------------------------------------------------------------------------------------------
# harness output
# ---------------------------------------------------------------------------------------------------------------
class OpInfo(object):
    __slots__ = ("flags", "phys", "rm_size", "clc", "rmask", "wmask", "emask")

    def __init__(self, text):
        p = text.split(":")
        self.flags = int(p[0], 16)
        self.phys, self.rm_size, self.clc = int(p[1]), int(p[2]), int(p[3])
        self.rmask, self.wmask, self.emask = int(p[4], 16), int(p[5], 16), int(p[6], 16)

    def __repr__(self):
        return "flags=%#x phys=%d rm=%d lead=%d r=%#x w=%#x ext=%#x" % (self.flags, self.phys, self.rm_size, self.clc,
                                                                       self.rmask, self.wmask, self.emask)


class Result(object):
    __slots__ = ("lineno", "parse", "emit", "bytes", "val", "rw", "iflags", "rf", "wf", "rmf", "n", "x", "ops", "feat",
                 "features")

    def __init__(self):
        self.parse = None
        self.emit = self.val = self.rw = self.feat = None
        self.bytes = None
        self.ops = []
        self.x = None
        self.features = set()
        self.rf = self.wf = set()
        self.iflags = 0
        self.rmf = "0"
        self.n = 0


def _flagset(s):
    return set() if s == "-" else set(s.split(","))


def parse_result(line):
    p = line.split()
    r = Result()
    r.lineno = int(p[0])
    for tok in p[1:]:
        k, _, v = tok.partition("=")
        if k == "parse":
            r.parse = v
        elif k in ("emit", "val", "rw"):
            setattr(r, k, v.split(":", 1)[1])
        elif k == "bytes":
            r.bytes = None if v == "-" else bytes.fromhex(v)
        elif k == "if":
            r.iflags = int(v, 16)
        elif k == "rf":
            r.rf = _flagset(v)
        elif k == "wf":
            r.wf = _flagset(v)
        elif k == "rmf":
            r.rmf = v
        elif k == "n":
            r.n = int(v)
        elif k == "x":
            r.x = OpInfo(v)
        elif k == "feat":
            q = v.split(":")
            r.feat = q[1]
            r.features = set() if (len(q) < 3 or q[2] == "-") else set(q[2].split(","))
        elif re.match(r"^o\d$", k):
            r.ops.append(OpInfo(v))
    return r


def run_filter(exe, lines, workdir, tag):
    """Runs harness/c12_rwinfo over `lines`; returns (list of Result or None per line, crash or None)."""
    os.makedirs(workdir, exist_ok=True)
    inp = os.path.join(workdir, tag + ".in")
    outp = os.path.join(workdir, tag + ".out")
    with open(inp, "w") as f:
        f.write("\n".join(lines) + "\n")
    r = subprocess.run([exe, "--in", inp, "--out", outp], stdout=subprocess.PIPE, stderr=subprocess.PIPE)
    res = [None] * len(lines)
    if os.path.exists(outp):
        with open(outp) as f:
            for line in f:
                if not line.strip():
                    continue
                x = parse_result(line)
                if 1 <= x.lineno <= len(lines):
                    res[x.lineno - 1] = x
    crash = None
    if r.returncode != 0:
        err = r.stderr.decode("utf-8", "replace")
        cur = None
        for l in err.split("\n"):
            if l.startswith("VH-CURRENT-CASE: "):
                cur = l[len("VH-CURRENT-CASE: "):]
        crash = (r.returncode, cur, err[-1500:])
    return res, crash


# ---------------------------------------------------------------------------------------------------------------
# oracle clauses (x86)
# ---------------------------------------------------------------------------------------------------------------
_LEGACY_PREFIXES = {0x66, 0x67, 0xF2, 0xF3, 0x2E, 0x36, 0x3E, 0x26, 0x64, 0x65, 0xF0}


def encoding_class(b):
    """'EVEX' / 'VEX' / 'XOP' / '' from the escape byte of the emitted instruction (SDM vol.2 2.3.5, 2.7; AMD APM
    vol.3 1.2.3: XOP = 8F with map_select >= 8)."""
    i = 0
    while i < len(b) and b[i] in _LEGACY_PREFIXES:
        i += 1
    if i >= len(b):
        return ""
    if b[i] == 0x62:
        return "EVEX"
    if b[i] in (0xC4, 0xC5):
        return "VEX"
    if b[i] == 0x8F and i + 1 < len(b) and (b[i + 1] & 0x1F) >= 8:
        return "XOP"
    return ""


def required_features(f, known):
    """db `ext` of the form refined by vector length: AVX512_VL only for 128/256-bit EVEX encodings."""
    req = set(f["ext"])
    if "AVX512_VL" in req and not (f["prefix"] == "EVEX" and vector_length(f) in (128, 256)):
        req.discard("AVX512_VL")
    unknown = req - known
    return req & known, unknown


def gp_size(kind):
    return {"r8": 1, "r8hi": 1, "r16": 2, "r32": 4, "r64": 8}.get(kind)


def lsb(n):
    return (1 << n) - 1


def judge_operands(cc, res):
    """Access / byte-mask / mem-flags clauses.  Returns (violations [(clause, text)], stats Counter)."""
    f, c = cc.form, cc.case
    viol = []
    st = collections.Counter()
    ops = c.ops
    if res.n != len(ops) or len(res.ops) != len(ops):
        viol.append(("op-count", "query_rw_info reports %d operands for %d given" % (res.n, len(ops))))
        return viol, st
    native = 8 if c.mode == 64 else 4
    for j, (o, op, info) in enumerate(zip(f["operands"], ops, res.ops)):
        if op[0] not in ("r", "m"):
            continue
        need_r, need_w = bool(o["read"]), bool(o["write"])
        is_mem = op[0] == "m"
        loc = "op%d(%s)" % (j, o["data"])
        st["operand_checks"] += 1
        clause_r = "mem-flags" if is_mem else "missing-read:op%d" % j
        clause_w = "mem-flags" if is_mem else "missing-write:op%d" % j
        if need_r and not info.flags & F_READ:
            viol.append((clause_r, "%s is %s by the instruction (db access %s) but not reported kRead [%r]" % (
                loc, "read from memory" if is_mem else "read", _acc(o), info)))
        if need_w and not info.flags & F_WRITE:
            viol.append((clause_w, "%s is %s by the instruction (db access %s) but not reported kWrite [%r]" % (
                loc, "written to memory" if is_mem else "written", _acc(o), info)))
        if (info.flags & F_READ and not need_r) or (info.flags & F_WRITE and not need_w):
            st["over_reported_access"] += 1
        if is_mem:
            m = op[1]
            # a memory operand's address registers are read (implicit string pointers are also written)
            if isinstance(m.base, tuple) and m.base[0] in ("r16", "r32", "r64") and not info.flags & F_MBASE_R and \
                    not info.flags & F_MEMFAKE:
                viol.append(("missing-read:op%d.base" % j, "%s: base register not reported kMemBaseRead [%r]" % (loc, info)))
            if m.index is not None and not info.flags & F_MIDX_R:
                viol.append(("missing-read:op%d.index" % j, "%s: index register not reported kMemIndexRead [%r]" % (loc, info)))
            if o["memSegment"] and o["memRegOnly"] in X.Z_REGS and c.name not in ("xlatb", "maskmovq", "maskmovdqu", "vmaskmovdqu",
                                                                                    "monitor", "monitorx", "clzero", "enqcmd",
                                                                                    "enqcmds", "movdir64b", "invlpga", "vmload",
                                                                                    "vmsave", "vmrun", "umonitor"):
                # string instructions advance their pointer register (SDM vol.1 7.3.9)
                if f["name"] in _STRING_OPS and not info.flags & F_MBASE_W:
                    viol.append(("missing-write:op%d.base" % j, "%s: string instruction advances %s but kMemBaseWrite is not "
                                 "reported [%r]" % (loc, o["memRegOnly"], info)))
            continue
        # ---- vector register written with zero extension (db `W:` / `X:`): every byte of the operand's own width changes
        # (the part the db bit range does not name is zeroed), so write|extend mask must cover the whole operand.
        # Under-reporting only; what is reported above the operand width is not judged here.
        kind = op[1]
        if kind in ("xmm", "ymm", "zmm") and need_w and o["zext"]:
            st["vector_write_checks"] += 1
            width = lsb(X.KIND_BITS[kind] // 8)
            covered = (info.wmask | info.emask) & width
            if covered != width:
                viol.append(("byte-mask", "%s (%s): the db declares a zero-extending write (%s:%s, bit range [%d:%d]) - all %d bytes of the "
                             "register operand change - but write mask %#x | extend mask %#x leave bytes %#x unreported" % (
                                 loc, X.reg_name(kind, op[2]), _acc(o), o["data"], o["rwxIndex"] + o["rwxWidth"] - 1, o["rwxIndex"],
                                 X.KIND_BITS[kind] // 8, info.wmask, info.emask, width & ~covered)))
        # ---- register operand: byte masks of general-purpose writes
        s = gp_size(kind)
        if s is None or not need_w:
            continue
        st["gp_write_checks"] += 1
        covered = info.wmask | info.emask
        # bytes the db says are written
        lo, width = o["rwxIndex"], o["rwxWidth"]
        if lo is None or lo < 0 or width is None or width <= 0:
            lo, width = 0, s * 8
        changed = 0
        for bit in range(lo, min(lo + width, 64), 8):
            changed |= 1 << (bit // 8)
        rule = "db bit range [%d:%d]" % (lo + width - 1, lo)
        if s == 4 and native == 8:
            changed |= 0xF0            # SDM vol.1 3.4.1.1: 32-bit results are zero-extended to 64 bits
            rule += " + 32-bit write zero-extends to 64 bits"
        if s in (4, 8):
            # there are no partial writes of a 32/64-bit general-purpose register: a payload narrower than the register
            # (pmovmskb, movmskps, pextrb, kmovb ...) is zero-extended to the register width
            changed |= lsb(s)
            rule += " + a %d-bit register is always written as a whole" % (s * 8)
        if changed & ~covered:
            viol.append(("byte-mask", "%s (%s): bytes %#x change (%s) but write mask %#x | extend mask %#x cover only %#x" % (
                loc, X.reg_name(kind, op[2]), changed, rule, info.wmask, info.emask, covered)))
        if s in (1, 2):
            preserved = lsb(native) & ~lsb(s)
            if info.emask & preserved:
                viol.append(("byte-mask", "%s (%s): %d-bit write preserves the upper bytes (SDM vol.1 3.4.1.1) but extend mask %#x "
                             "claims bytes %#x are zero-extended [%r]" % (loc, X.reg_name(kind, op[2]), s * 8, info.emask,
                                                                          info.emask & preserved, info)))
            if info.wmask & preserved and not info.flags & F_READ:
                st["gp_write_mask_wider_than_register"] += 1
        if s == 4 and native == 8 and not info.flags & F_ZEXT:
            st["gp32_write_without_kZExt_flag"] += 1
    return viol, st


_STRING_OPS = {"movs", "cmps", "scas", "lods", "stos", "ins", "outs", "movsb", "movsw", "movsd", "movsq", "cmpsb", "cmpsw",
               "cmpsd", "cmpsq", "scasb", "scasw", "scasd", "scasq", "lodsb", "lodsw", "lodsd", "lodsq", "stosb", "stosw",
               "stosd", "stosq", "insb", "insw", "insd", "outsb", "outsw", "outsd"}


def _acc(o):
    return ("X" if o["read"] and o["write"] else "R" if o["read"] else "W" if o["write"] else "-")


def judge_cpu_flags(f, res):
    viol = []
    if f["name"] == "mov":
        return viol      # mov to/from control/debug registers leaves the flags undefined; not a general-purpose form
    need_w = set(k for k, v in f["io"].items() if k in CPU_FLAGS and v in ("W", "X", "0", "1", "U"))
    need_r = set(k for k, v in f["io"].items() if k in CPU_FLAGS and v in ("R", "X"))
    mw = need_w - res.wf
    mr = need_r - res.rf
    if mw:
        viol.append(("cpu-flags", "flags %s are modified (db io: %s) but write_flags() = {%s}" % (
            ",".join(sorted(mw)), _io(f), ",".join(sorted(res.wf)))))
    if mr:
        viol.append(("cpu-flags", "flags %s are read (db io: %s) but read_flags() = {%s}" % (
            ",".join(sorted(mr)), _io(f), ",".join(sorted(res.rf)))))
    return viol


def _io(f):
    return " ".join("%s=%s" % kv for kv in sorted(f["io"].items()))


def judge_mask(cc, res):
    """{k} decoration: the mask register is read; merge-masking keeps destination elements, so a register destination
    is read as well (SDM vol.1 15.6.1)."""
    f, c = cc.form, cc.case
    viol = []
    if c.extra is None or c.extra[0] != "k":
        return viol
    if res.x is None or not res.x.flags & F_READ:
        viol.append(("missing-read:mask", "{k%d} selects the written elements but extra_reg() is not reported kRead [%r]" % (
            c.extra[1], res.x)))
    if any(o["vsibReg"] for o in f["operands"]) and (res.x is None or not res.x.flags & F_WRITE):
        # SDM VGATHER* / VSCATTER*: "the entire mask register will be set to zero by this instruction"
        viol.append(("missing-write:mask", "gather / scatter instructions clear their mask register k%d, but extra_reg() is not "
                     "reported kWrite [%r]" % (c.extra[1], res.x)))
    zeroing = bool(c.opts & X.OPT["z"])
    if not zeroing and f["k"] == "" and c.ops and c.ops[0][0] == "r" and c.ops[0][1] in ("xmm", "ymm", "zmm") and \
            f["operands"][0]["write"] and res.ops and not res.ops[0].flags & F_READ:
        viol.append(("missing-read:op0", "merge-masking {k%d} keeps the masked-off elements of %s, but operand 0 is not "
                     "reported kRead [%r]" % (c.extra[1], X.reg_name(c.ops[0][1], c.ops[0][2]), res.ops[0])))
    return viol


def match_form(g, ops, mode, mem_pos=None, mem_bytes=None):
    """Does db form g describe the operand tuple `ops` (all operands explicit)?  mem_pos/mem_bytes: the operand that
    must be a memory alternative of exactly that size."""
    if mode not in g["modes"] or len(g["operands"]) != len(ops):
        return False
    prev_reg = None
    for j, (o, op) in enumerate(zip(g["operands"], ops)):
        ok = False
        for a in o["alts"]:
            t = a[0]
            if op[0] == "r":
                if t == "reg" and a[1] == op[1]:
                    ok = True
                elif t == "reg" and a[1] == "r8" and op[1] == "r8hi":
                    ok = True
                elif t == "fixed" and (a[1], a[2]) == (op[1], op[2]):
                    ok = True
                elif t == "consec" and prev_reg is not None and a[1] == op[1] and op[2] == prev_reg[2] + a[2]:
                    ok = True
            elif op[0] == "m" and t == "mem":
                if j == mem_pos:
                    ok = a[1] == mem_bytes and a[2] in ("mem", "regonly")
                else:
                    ok = True
            elif op[0] == "i" and t in ("imm", "one"):
                ok = True
            elif op[0] == "l" and t == "rel":
                ok = True
            if ok:
                break
        if not ok:
            return False
        if op[0] == "r" and not any(a[0] == "consec" for a in o["alts"]):
            prev_reg = op
    return True


def judge_consecutive_x86(cc, res):
    """Forms whose db syntax has k+1 / zmm+3 operands: the lead reports the run length, the followers kConsecutive."""
    f = cc.form
    viol = []
    lead = None
    followers = []
    n = 0
    for j, o in enumerate(f["operands"]):
        if o["consecutive"]:
            lead, n = j, o["consecutive"]
        if o["regIndexRel"]:
            followers.append(j)
    if lead is None and not followers:
        return viol, False
    if lead is None:
        lead = followers[0] - f["operands"][followers[0]]["regIndexRel"]
        n = len(followers) + 1
    for j, info in enumerate(res.ops):
        if j == lead:
            if info.clc != n:
                viol.append(("consecutive", "op%d (%s) leads a run of %d consecutive registers (db: %s) but "
                             "consecutive_lead_count() = %d" % (j, f["operands"][j]["data"], n, f["sig"], info.clc)))
            if info.flags & F_CONSEC:
                viol.append(("consecutive", "lead op%d carries kConsecutive" % j))
        elif j in followers:
            if not info.flags & F_CONSEC:
                viol.append(("consecutive", "op%d (%s) must be register lead+%d but kConsecutive is not reported" % (
                    j, f["operands"][j]["data"], f["operands"][j]["regIndexRel"])))
            if info.clc:
                viol.append(("consecutive", "follower op%d reports consecutive_lead_count() = %d" % (j, info.clc)))
        else:
            if info.clc or info.flags & F_CONSEC:
                viol.append(("consecutive", "op%d (%s) is not part of the register run but reports lead=%d kConsecutive=%s" % (
                    j, f["operands"][j]["data"], info.clc, bool(info.flags & F_CONSEC))))
    return viol, True


# ---------------------------------------------------------------------------------------------------------------
# AArch64 register lists
# ---------------------------------------------------------------------------------------------------------------
_RE_LIST = re.compile(r"^(\d)x\{([A-Za-z]+)(?:\.([A-Za-z0-9]+))?\}(\+)?(?:\[#(idx)\])?$")
_RE_VREG = re.compile(r"^V([a-z])\.([A-Za-z0-9]+)(?:\[#(idx)\])?$")
_RE_MEM = re.compile(r"^\[Xn\|SP(?:,\s*(Xm|#off(?:==|=)([^\]]+)))?\](@|!)?$")
_ESZ = {"b": 0, "h": 1, "s": 2, "d": 3}


class A64Case(object):
    __slots__ = ("form", "line", "runs", "access", "arr", "key", "lane_bytes")
    # runs: [(first operand position, N)]; access: {operand position: 'R'|'W'|'X'} (only where the Arm ARM is clear)


def _split_top(s):
    out, depth, cur = [], 0, ""
    for ch in s:
        if ch in "[{":
            depth += 1
        elif ch in "]}":
            depth -= 1
        if ch == "," and depth == 0:
            out.append(cur.strip())
            cur = ""
        else:
            cur += ch
    if cur.strip():
        out.append(cur.strip())
    return out


def a64_list_cases(forms):
    """Returns (cases, skipped) for every db form whose operand text has an Nx{...} list, plus the one-register table
    forms of tbl/tbx.  Register numbers: lists start at 4 (even, so that CASP pairs are encodable), wrap-around is not
    used; other registers from 20 upward."""
    cases, skipped = [], []
    for f in forms:
        raw = f.get("instRaw") or ""
        if "x{" not in raw and f["name"] not in ("tbl", "tbx"):
            continue
        parts = raw.split(None, 1)
        toks = _split_top(parts[1]) if len(parts) > 1 else []
        arrs = (f.get("attrs") or {}).get("t", "").split() or [None]
        for arr in arrs[:1] + arrs[-1:] if len(arrs) > 1 else arrs:
            c = _a64_case(f, toks, arr)
            if c is None:
                skipped.append("%s %s" % (f["name"], parts[1] if len(parts) > 1 else ""))
                break
            cases.append(c)
    return cases, skipped


def _a64_case(f, toks, arr):
    name = f["name"]
    ops, runs, access, lane_bytes = [], [], {}, {}
    next_list, next_other = 4, 20
    esz = None
    for tok in toks:
        m = _RE_LIST.match(tok)
        if m:
            n, regname, t, idx = int(m.group(1)), m.group(2), m.group(3), m.group(5)
            if regname[0] not in "VWX":
                return None
            pos = len(ops)
            if n >= 2:
                runs.append((pos, n))
            for i in range(n):
                rid = next_list + i
                if regname[0] == "V":
                    tt = (arr if t == "t" else t).lower()
                    esz = _ESZ.get(tt[-1], esz)
                    ops.append("v%d.%s%s" % (rid, tt, "[1]" if idx else ""))
                    if idx:
                        lane_bytes[pos + i] = lsb(1 << _ESZ[tt[-1]]) << (1 << _ESZ[tt[-1]])      # element 1
                else:
                    ops.append("%s%d" % (regname[0].lower(), rid))
                access[pos + i] = _a64_access(name, regname, bool(idx))
            next_list += n + (n & 1) + 2      # next list starts at an even register, not adjacent to this one
            continue
        m = _RE_VREG.match(tok)
        if m:
            role, t, idx = m.group(1), m.group(2), m.group(3)
            tt = (arr if t == "t" else t).lower()
            if tt[-1] in _ESZ:
                esz = _ESZ[tt[-1]] if esz is None else esz
            access[len(ops)] = _a64_access(name, "V" + role, bool(idx))
            ops.append("v%d.%s%s" % (next_other, tt, "[1]" if idx else ""))
            next_other += 1
            continue
        m = _RE_MEM.match(tok)
        if m:
            suffix = m.group(3) or ""
            if m.group(1) is None:
                ops.append("[x28]" + suffix)
            elif m.group(1) == "Xm":
                ops.append("[x28, x27]" + suffix)
            else:
                e = m.group(2).strip()
                mm = re.match(r"^(\d+)<<sz$", e)
                if mm:
                    if esz is None:
                        return None
                    off = int(mm.group(1)) << esz
                elif e.isdigit():
                    off = int(e)
                else:
                    return None
                ops.append("[x28, #%d]%s" % (off, suffix))
            continue
        return None
    c = A64Case()
    c.form, c.runs, c.access, c.arr, c.lane_bytes = f, runs, access, arr, lane_bytes
    c.line = "a64 %s %s" % (name, ", ".join(ops))
    sig = re.sub(r"\s+", "", (f.get("instRaw") or name).split(None, 1)[1] if " " in (f.get("instRaw") or "") else "")
    c.key = "%s:%s%s" % (name, sig, ("/" + arr) if arr else "")
    return c


def _a64_access(name, regname, lane):
    """Architectural access of a register operand of the instructions judged here (Arm ARM C7.2.177-, C7.2.319-,
    C7.2.390 TBL, C7.2.391 TBX, C6.2.50 CASP).  None = not judged."""
    if name.startswith("ld") and regname[0] == "V":
        return "X" if (lane and not name.endswith("r")) else "W"      # LDn (single structure) keeps the other lanes
    if name.startswith("st") and regname[0] == "V":
        return "R"
    if name in ("tbl", "tbx"):
        if regname == "Vd":
            return "W"
        if regname == "Vx":
            return "X"        # TBX leaves the destination element unchanged for out-of-range indices: reads Vd
        return "R"
    if name.startswith("casp"):
        return "X" if regname[1] == "s" else "R"      # <Ws>/<Xs> pair: compared and loaded; <Wt> pair: stored
    return None


def judge_a64(c, res):
    viol = []
    lead_of = {}
    follower = set()
    for pos, n in c.runs:
        lead_of[pos] = n
        for i in range(1, n):
            follower.add(pos + i)
    for j, info in enumerate(res.ops):
        if j in lead_of:
            if info.clc != lead_of[j]:
                viol.append(("consecutive", "op%d leads a list of %d consecutive registers but consecutive_lead_count() = %d "
                             "(flags %#x)" % (j, lead_of[j], info.clc, info.flags)))
            if info.flags & F_CONSEC:
                viol.append(("consecutive", "op%d is the first register of its list but carries kConsecutive (it would be "
                             "tied to the register before it)" % j))
        elif j in follower:
            if not info.flags & F_CONSEC:
                viol.append(("consecutive", "op%d is a list member that must follow op%d but kConsecutive is not reported" % (j, j - 1)))
            if info.clc:
                viol.append(("consecutive", "list member op%d reports consecutive_lead_count() = %d" % (j, info.clc)))
        else:
            if info.clc or info.flags & F_CONSEC:
                viol.append(("consecutive", "op%d is not part of a register list but reports lead=%d kConsecutive=%s" % (
                    j, info.clc, bool(info.flags & F_CONSEC))))
        acc = c.access.get(j)
        if acc == "X" and j in c.lane_bytes and not info.flags & F_READ:
            # single-structure load: only one lane is written.  Reporting a write restricted to that lane is as good as
            # reporting a read of the register
            if info.wmask & ~c.lane_bytes[j] & 0xFFFF:
                viol.append(("missing-read:op%d" % j, "op%d: %s loads one lane and keeps the others, but the operand is reported "
                             "write-only with write mask %#x (lane bytes %#x)" % (j, c.form["name"], info.wmask, c.lane_bytes[j])))
        elif acc in ("R", "X") and not info.flags & F_READ:
            viol.append(("missing-read:op%d" % j, "op%d is read by %s but not reported kRead (flags %#x)" % (j, c.form["name"], info.flags)))
        if acc in ("W", "X") and not info.flags & F_WRITE:
            viol.append(("missing-write:op%d" % j, "op%d is written by %s but not reported kWrite (flags %#x)" % (j, c.form["name"], info.flags)))
    return viol
