"""Check driver: builds and runs harnesses, merges their results, applies the known-findings file,
confirms violations by replay, writes evidence, prints VIOLATION / KNOWN-FINDING lines."""
import json, os, subprocess, sys, time, re, hashlib, concurrent.futures

from . import vbuild

VERIF = vbuild.VERIF
EVID = os.path.join(VERIF, "evidence")
KNOWN = os.path.join(VERIF, "known_findings.txt")
OUT = os.path.join(VERIF, "build", "out")
if os.path.realpath(vbuild.REPO) != "/repo":
    # runs against another tree (tools/mutant.sh, fix worktrees) keep their scratch output apart, so that they can run
    # at the same time as a check of /repo itself
    OUT = os.path.join(VERIF, "build", "out-" + os.path.basename(vbuild.REPO.rstrip("/")))
REPLAY = os.path.join(VERIF, "build", "replay")

ASAN_ENV = {
    "ASAN_OPTIONS": "detect_leaks=0:abort_on_error=0:exitcode=99:allocator_may_return_null=1:detect_stack_use_after_return=0",
    "UBSAN_OPTIONS": "print_stacktrace=1:halt_on_error=1:abort_on_error=1",
    "TSAN_OPTIONS": "exitcode=0:halt_on_error=0:report_signal_unsafe=0",
}


class Result:
    """Merged result of one or more harness runs."""

    def __init__(self):
        self.counters = {}
        self.strings = {}
        self.samples = []
        self.notes = []
        self.assumptions = []
        self.violations = []   # dicts key, desc, replay, count, (harness spec for replay)
        self.exhaustive = True
        self.capped = False
        self.outcomes = 0
        self.errors = []       # machinery errors

    def merge_json(self, j, prefix=""):
        for k, v in j.get("counters", {}).items():
            self.counters[k] = self.counters.get(k, 0) + v
        for k, v in j.get("strings", {}).items():
            self.strings.setdefault(k, v)
        for s in j.get("samples", []):
            if len(self.samples) < 24:
                self.samples.append(prefix + s)
        for s in j.get("notes", []):
            if len(self.notes) < 200 and s not in self.notes:
                self.notes.append(s)
        for s in j.get("assumptions", []):
            if s not in self.assumptions:
                self.assumptions.append(s)
        for v in j.get("violations", []):
            self.add_violation(v["key"], v["desc"], v["replay"], v.get("count", 1))
        self.exhaustive = self.exhaustive and j.get("exhaustive", True)
        self.capped = self.capped or j.get("capped", False)
        self.outcomes += j.get("distinct_outcomes", 0)

    def add_violation(self, key, desc, replay, count=1):
        for v in self.violations:
            if v["key"] == key:
                v["count"] += count
                return
        self.violations.append(dict(key=key, desc=desc, replay=replay, count=count))

    def count(self, k, n=1):
        self.counters[k] = self.counters.get(k, 0) + n


def _env():
    e = dict(os.environ)
    e.update(ASAN_ENV)
    return e


def run_exe(exe, args, timeout, out_json):
    """Runs one harness process.  Returns (json or None, returncode, stderr_tail)."""
    if os.path.exists(out_json):
        os.remove(out_json)
    try:
        p = subprocess.run([exe] + args + ["--out", out_json], stdout=subprocess.PIPE, stderr=subprocess.PIPE,
                           env=_env(), timeout=timeout)
        rc, err, so = p.returncode, p.stderr.decode("utf-8", "replace"), p.stdout.decode("utf-8", "replace")
    except subprocess.TimeoutExpired as e:
        return None, -999, "timeout after %ss" % timeout
    j = None
    if os.path.exists(out_json):
        try:
            with open(out_json) as f:
                j = json.load(f)
        except Exception as ex:  # noqa
            j = None
    return j, rc, (so[-2000:] + "\n" + err[-6000:])


def crash_key(err):
    """Stable key for a sanitizer/crash report: kind + first asmjit frame's function."""
    kind = "crash"
    m = re.search(r"ERROR: (AddressSanitizer|LeakSanitizer|ThreadSanitizer): ([\w-]+)", err)
    if m:
        kind = "%s:%s" % (m.group(1), m.group(2))
    else:
        m = re.search(r"runtime error: ([^\n]{0,80})", err)
        if m:
            kind = "ubsan:" + re.sub(r"0x[0-9a-f]+|\d+", "N", m.group(1))[:60]
    fn = ""
    for m in re.finditer(r"#\d+ 0x[0-9a-f]+ in ([^\n]+?) (/[^\s:]+):(\d+)", err):
        if "/asmjit/" in m.group(2) and "/verif/" not in m.group(2):
            fn = re.sub(r"\(.*", "", m.group(1)).strip()
            break
    return "%s@%s" % (kind, fn or "?")


def run_harness(res, src, variant, tier, args=(), shards=1, timeout=3600, deadline=None, name=None,
                extra_cxx=(), extra_ld=(), exclude_objs=(), extra_srcs=(), label="", replay=None):
    """Builds harness `src` for `variant` and runs it (optionally sharded); merges into res.

    Returns the executable path.  A harness that dies (signal / sanitizer) becomes a violation whose key is
    derived from the report, so a crash caused by a changed tree is *reported*, not swallowed."""
    exe = vbuild.build(variant, os.path.join(VERIF, src), extra_cxx=extra_cxx, extra_ld=extra_ld,
                       exclude_objs=exclude_objs, extra_srcs=extra_srcs, out_name=name)
    os.makedirs(OUT, exist_ok=True)
    base = ["--tier", tier] + list(args)
    if deadline:
        base += ["--deadline", str(deadline)]
    if replay:
        base += ["--replay", replay]
    tag = (name or os.path.splitext(os.path.basename(src))[0]) + (("-" + label) if label else "")

    def one(i):
        a = list(base)
        if shards > 1:
            a += ["--shard", "%d/%d" % (i, shards)]
        oj = os.path.join(OUT, "%s-%s-%d.json" % (tag, tier, i))
        return i, a, run_exe(exe, a, timeout, oj)

    with concurrent.futures.ThreadPoolExecutor(max_workers=min(shards, os.cpu_count() or 8)) as ex:
        outs = list(ex.map(one, range(shards)))
    for i, a, (j, rc, err) in outs:
        if j is not None:
            res.merge_json(j)
        if rc in (0, 1) and j is not None:
            continue
        if rc == 2:
            res.errors.append("%s shard %d: harness self-check failed: %s" % (tag, i, err[-1500:]))
        elif rc == -999:
            res.errors.append("%s shard %d: %s" % (tag, i, err))
        else:
            res.exhaustive = False   # the rest of this shard was not explored
            key = crash_key(err)
            m = re.search(r"VH-CURRENT-CASE: ([^\n]*)", err)
            if m:
                # the harness told us which case was running: that case is the replay
                rp = m.group(1).replace("\\n", "\n") + "\n# fatal: " + key + "\n"
            else:
                rp = "CRASH\nexe-args: %s\n%s" % (" ".join(a), err[-5000:])
            res.add_violation("%s:%s" % (tag, key),
                              "harness process died rc=%s (%s)%s" % (rc, key, (" in case " + m.group(1)[:300]) if m else ""), rp)
    return exe


def load_known(pid):
    out = {}
    if not os.path.exists(KNOWN):
        return out
    for line in open(KNOWN):
        line = line.strip()
        if not line.startswith("finding:"):
            continue
        m = re.match(r"finding:\s+property=(\S+)\s+key=(\S+)\s*(.*)", line)
        if m and m.group(1) == pid:
            out[m.group(2)] = m.group(3)
    return out


def key_matches(known, key):
    """A known key matches exactly or as a glob ('*' wildcards)."""
    import fnmatch
    for k, text in known.items():
        if k == key or ("*" in k and fnmatch.fnmatchcase(key, k.replace("[", "[[]"))):
            return k, text
    return None, None


def write_evidence(pid, mod, tier, seed, res, wall, n_viol, n_known):
    level = mod.LEVEL
    c = res.counters
    cov = dict(res.counters)
    ev = int(c.get("evaluations", 0))
    dn = int(c.get("distinct_nontrivial", 0))
    cov["evaluations"] = ev
    cov["distinct_nontrivial"] = dn
    cov["rule"] = res.strings.get("rule", getattr(mod, "RULE", ""))
    cov["samples"] = res.samples if res.samples else ["(no case executed)"]
    cov["exhaustive"] = bool(res.exhaustive)
    cov["capped_by_deadline"] = bool(res.capped)
    cov["distinct_outcomes"] = res.outcomes
    if level == "model_checking":
        cov["states"] = int(c.get("states", 0))
        cov["transitions"] = int(c.get("transitions", 0))
        cov["traces_validated_against_impl"] = int(c.get("traces", c.get("transitions", 0)))
    for k, v in res.strings.items():
        if k != "rule":
            cov[k] = v
    if res.notes:
        cov["notes"] = res.notes
    cov["known_findings_seen"] = n_known
    j = dict(property_id=pid, tier=tier, seed=seed, level=level, coverage=cov,
             assumptions=res.assumptions + list(getattr(mod, "ASSUMPTIONS", [])),
             wall_s=round(wall, 2), violations=n_viol)
    # a run against another tree than /repo (tools/mutant.sh, a fix worktree) must not replace the committed evidence
    evid = EVID
    other = os.environ.get("VERIF_REPO")
    if other and os.path.realpath(other) != "/repo":
        evid = os.path.join(VERIF, "build", "evidence-other-tree")
    os.makedirs(evid, exist_ok=True)
    with open(os.path.join(evid, pid + ".json"), "w") as f:
        json.dump(j, f, indent=1, sort_keys=False)
        f.write("\n")


def drive(pid, mod, tier, seed, replay, opts):
    t0 = time.time()
    res = Result()
    ctx = dict(tier=tier, seed=seed, opts=opts, replay=replay)
    if replay:
        # replay mode: re-execute one recorded case without the explorer; no evidence is written
        rc = mod.replay(res, replay, ctx)
        for v in res.violations:
            print("REPRODUCED property=%s key=%s %s" % (pid, v["key"], v["desc"]))
        for e in res.errors:
            print("ERROR: " + e, file=sys.stderr)
        return 1 if res.violations else (2 if res.errors else 0)
    mod.run(res, ctx)
    known = load_known(pid)
    os.makedirs(os.path.join(REPLAY, pid), exist_ok=True)
    n_viol = 0
    n_known = 0
    lines = []
    for v in res.violations:
        k, text = key_matches(known, v["key"])
        if k is not None:
            n_known += 1
            lines.append("KNOWN-FINDING: property=%s key=%s %s (x%d)" % (pid, v["key"], text, v["count"]))
            continue
        h = hashlib.sha1(v["key"].encode()).hexdigest()[:10]
        path = os.path.join(REPLAY, pid, "%s.replay" % h)
        with open(path, "w") as f:
            f.write(v["replay"])
            if not v["replay"].endswith("\n"):
                f.write("\n")
        confirmed = True
        if hasattr(mod, "replay") and not v["replay"].startswith("CRASH") and not getattr(mod, "NO_CONFIRM", False):
            # replay before report: must reproduce twice in fresh processes
            for _ in range(2):
                r2 = Result()
                try:
                    mod.replay(r2, path, ctx)
                except SystemExit:
                    r2.errors.append("build failed in replay")
                if not r2.violations:
                    confirmed = False
                    break
        if not confirmed:
            res.notes.append("unreproduced (not reported): %s %s" % (v["key"], v["desc"][:200]))
            print("UNCONFIRMED property=%s key=%s (did not reproduce on replay; not reported)" % (pid, v["key"]))
            continue
        n_viol += 1
        lines.append("VIOLATION property=%s replay=%s" % (pid, path))
        lines.append("  key=%s count=%d :: %s" % (v["key"], v["count"], v["desc"][:600]))
    wall = time.time() - t0
    write_evidence(pid, mod, tier, seed, res, wall, n_viol, n_known)
    for l in lines:
        print(l)
    c = res.counters
    print("%s %s: evaluations=%s states=%s transitions=%s exhaustive=%s capped=%s violations=%d known=%d wall=%.1fs" % (
        pid, tier, c.get("evaluations", 0), c.get("states", "-"), c.get("transitions", "-"), res.exhaustive,
        res.capped, n_viol, n_known, wall))
    if res.errors:
        for e in res.errors:
            print("ERROR: " + e, file=sys.stderr)
        if n_viol == 0:
            return 2
    return 1 if n_viol else 0
