"""Third-party tool legs for x86 byte strings: GNU objdump, llvm-objdump (decoders) and GNU as (reference
assembler).  All functions are batch oriented: byte strings are laid into fixed SLOT-byte slots padded with 0xCC
(int3), so that every slot is decoded independently (an x86 instruction is at most 15 bytes long, so a decoder
that runs over the end of one case re-synchronises inside the padding and never reaches the next slot).

Nothing here knows asmjit.  A tool that does not know an instruction yields '(bad)' / '<unknown>' text; callers
treat that as *inconclusive*, never as a verdict.
"""
import os, re, subprocess

SLOT = 16
PAD = b"\xcc"


class Decoded(object):
    """Decoding of one slot: length = bytes consumed by the first instruction (prefix-only lines of llvm-objdump
    are merged into the instruction that follows), text = its text, known = the tool recognised it."""
    __slots__ = ("length", "text", "known")

    def __init__(self, length, text, known):
        self.length, self.text, self.known = length, text, known

    def __repr__(self):
        return "Decoded(%r,%r,%r)" % (self.length, self.text, self.known)


def make_blob(byte_strings):
    parts = []
    for b in byte_strings:
        if b is None:
            b = b""
        if len(b) >= SLOT:
            b = b""            # cannot be a single instruction; callers flag the length themselves
        parts.append(b + PAD * (SLOT - len(b)))
    return b"".join(parts)


_OBJ_LINE = re.compile(r"^\s*([0-9a-f]+):\t((?:[0-9a-f]{2} )+)\s*\t?(.*)$")
_LLVM_LINE = re.compile(r"^\s*([0-9a-f]+):\s((?:[0-9a-f]{2} )+)\s*\t?(.*)$")

# mnemonics llvm-objdump prints as separate "instructions" for prefixes
_LLVM_PREFIX_ONLY = {"lock", "rep", "repne", "repe", "repz", "repnz", "xacquire", "xrelease", "data16", "addr32", "addr16",
                     "notrack", "cs", "ds", "es", "ss", "fs", "gs", "rex64", "data32", "bnd"}


def _run(cmd, **kw):
    return subprocess.run(cmd, stdout=subprocess.PIPE, stderr=subprocess.PIPE, **kw)


def _collect(lines_by_slot, nslots, byte_strings, merge_prefixes):
    out = []
    for i in range(nslots):
        ls = lines_by_slot.get(i)
        b = byte_strings[i] if byte_strings is not None else None
        if not ls:
            # all lines of the slot were pad lines: the case itself is a lone int3 (cc) or empty
            if b:
                out.append(Decoded(1, "int3", True))
            else:
                out.append(None)
            continue
        ls.sort()
        if ls[0][0] != 0:
            # first line is missing: the case starts with cc (int3) followed by something
            out.append(Decoded(1, "int3", True))
            continue
        off, n, text = ls[0]
        j = 1
        if merge_prefixes:
            while text.strip() in _LLVM_PREFIX_ONLY and j < len(ls) and ls[j][0] == off + n:
                text = text.strip() + " " + ls[j][2]
                n += ls[j][1]
                j += 1
        known = not ("(bad)" in text or "<unknown>" in text or ".byte" in text or text.strip() == "")
        out.append(Decoded(n, text, known))
    return out


def objdump_decode(byte_strings, mode, workdir, tag):
    """GNU objdump on a flat binary.  Returns a list of Decoded (None for empty slots)."""
    path = os.path.join(workdir, "%s-%d.bin" % (tag, mode))
    with open(path, "wb") as f:
        f.write(make_blob(byte_strings))
    cmd = ["objdump", "-D", "-b", "binary", "-m", "i386", "-M", "intel", "--insn-width=16"]
    if mode == 64:
        cmd += ["-M", "x86-64"]
    r = _run(cmd + [path])
    if r.returncode != 0:
        raise RuntimeError("objdump failed: " + r.stderr.decode("utf-8", "replace")[-500:])
    by = {}
    for line in r.stdout.decode("utf-8", "replace").split("\n"):
        if line.endswith("\tint3") and "\tcc   " in line:
            continue
        m = _OBJ_LINE.match(line)
        if not m:
            continue
        a = int(m.group(1), 16)
        n = len(m.group(2)) // 3
        by.setdefault(a // SLOT, []).append((a % SLOT, n, m.group(3)))
    return _collect(by, len(byte_strings), byte_strings, False)


def llvm_decode(byte_strings, mode, workdir, tag):
    """llvm-objdump on the same blob wrapped into an ELF object with objcopy."""
    path = os.path.join(workdir, "%s-%d.lbin" % (tag, mode))
    obj = path + ".o"
    with open(path, "wb") as f:
        f.write(make_blob(byte_strings))
    if mode == 64:
        oc = ["objcopy", "-I", "binary", "-O", "elf64-x86-64", "-B", "i386:x86-64"]
    else:
        oc = ["objcopy", "-I", "binary", "-O", "elf32-i386", "-B", "i386"]
    r = _run(oc + ["--rename-section", ".data=.text,alloc,load,readonly,code,contents", path, obj])
    if r.returncode != 0:
        raise RuntimeError("objcopy failed: " + r.stderr.decode("utf-8", "replace")[-500:])
    r = _run(["llvm-objdump", "-d", "--x86-asm-syntax=intel", "--no-show-raw-insn", obj][:0] +
             ["llvm-objdump", "-d", "--x86-asm-syntax=intel", obj])
    if r.returncode != 0:
        raise RuntimeError("llvm-objdump failed: " + r.stderr.decode("utf-8", "replace")[-500:])
    by = {}
    for line in r.stdout.decode("utf-8", "replace").split("\n"):
        if line.endswith("\tint3") and ": cc  " in line:
            continue
        m = _LLVM_LINE.match(line)
        if not m:
            continue
        a = int(m.group(1), 16)
        n = len(m.group(2)) // 3
        by.setdefault(a // SLOT, []).append((a % SLOT, n, m.group(3)))
    return _collect(by, len(byte_strings), byte_strings, True)


_GAS_ERR = re.compile(r"^[^:]+:(\d+): (?:Error|Fatal error): (.*)$")


def gas_assemble(texts, mode, workdir, tag, max_rounds=8):
    """Assembles texts[i] (Intel syntax, or None) into slot i.  Returns (blob bytes, rejected) where rejected maps
    index -> gas message for lines gas refused (those slots hold only padding)."""
    src = os.path.join(workdir, "%s-%d.s" % (tag, mode))
    obj = os.path.join(workdir, "%s-%d.o" % (tag, mode))
    binp = os.path.join(workdir, "%s-%d.gbin" % (tag, mode))
    rejected = {}
    live = [t for t in texts]
    n = len(texts)
    for rnd in range(max_rounds):
        line_to_idx = {}
        out = [".intel_syntax noprefix", ".code%d" % mode, ".text"]
        for i, t in enumerate(live):
            out.append(".org %d, 0xcc" % (i * SLOT))
            if t is not None:
                line_to_idx[len(out) + 1] = i
                out.append(t)
                out.append("1:")
        out.append(".org %d, 0xcc" % (n * SLOT))
        with open(src, "w") as f:
            f.write("\n".join(out) + "\n")
        r = _run(["as", "--64" if mode == 64 else "--32", "-o", obj, src])
        if r.returncode == 0:
            break
        bad = 0
        for line in r.stderr.decode("utf-8", "replace").split("\n"):
            m = _GAS_ERR.match(line)
            if not m:
                continue
            ln = int(m.group(1))
            idx = line_to_idx.get(ln)
            if idx is None:
                idx = line_to_idx.get(ln - 1)       # error attributed to the '1:' / '.org' after an over-long insn
            if idx is None:
                idx = line_to_idx.get(ln - 2)
            if idx is not None and live[idx] is not None:
                rejected[idx] = m.group(2)[:160]
                live[idx] = None
                bad += 1
        if bad == 0:
            raise RuntimeError("gas failed without attributable errors: " + r.stderr.decode("utf-8", "replace")[-800:])
    else:
        raise RuntimeError("gas did not converge")
    r = _run(["objcopy", "-O", "binary", "-j", ".text", obj, binp])
    if r.returncode != 0:
        raise RuntimeError("objcopy failed: " + r.stderr.decode("utf-8", "replace")[-500:])
    with open(binp, "rb") as f:
        blob = f.read()
    if len(blob) < n * SLOT:
        blob += PAD * (n * SLOT - len(blob))
    return blob, rejected


def blob_slots(blob, n):
    """The slot contents of a gas blob with the trailing padding of each slot removed is not recoverable (an
    instruction may end in 0xcc), so slots are returned whole; decoders determine the length."""
    return [blob[i * SLOT:(i + 1) * SLOT] for i in range(n)]


def decode_raw_slots(slots, mode, workdir, tag, tool):
    """Decode already padded SLOT-byte slots (gas output)."""
    # strip the padding that is certainly padding is impossible; feed the slots as they are
    bs = [s for s in slots]
    if tool == "objdump":
        return _decode_padded(bs, mode, workdir, tag, objdump_decode)
    return _decode_padded(bs, mode, workdir, tag, llvm_decode)


def _decode_padded(slots, mode, workdir, tag, fn):
    # make_blob pads to SLOT; a full slot (16 bytes) would be dropped by it, so cut the last pad byte
    # (a slot never holds more than 15 instruction bytes)
    return fn([s[:SLOT - 1] for s in slots], mode, workdir, tag)


_PSEUDO = re.compile(r"^(?:\{(?:evex|vex|vex3|load|store|disp8|disp32|rex)\}\s+|rex(?:\.[wrxb]+)?\s+)+")
_SYM = re.compile(r"\s*<[^>]*>")
_WS = re.compile(r"\s+")


def normalize(text):
    """Normalisation applied to BOTH sides of a same-decoder comparison: comments / symbol annotations /
    whitespace / pseudo prefixes that only name the chosen encoding."""
    t = text
    i = t.find("#")
    if i >= 0:
        t = t[:i]
    t = _SYM.sub("", t)
    t = _WS.sub(" ", t.strip().lower())
    t = _PSEUDO.sub("", t)
    if t.startswith("movabs "):
        t = "mov " + t[7:]
    return t
