"""Third-party tool legs for x86 byte strings: GNU objdump, llvm-objdump (decoders) and GNU as (reference
assembler).  All functions are batch oriented: byte strings are laid into fixed SLOT-byte slots padded with 0xCC
(int3), so that every slot is decoded independently (an x86 instruction is at most 15 bytes long, so a decoder
that runs over the end of one case re-synchronises inside the padding and never reaches the next slot).

Nothing here knows asmjit.  A tool that does not know an instruction yields '(bad)' / '<unknown>' text; callers
treat that as *inconclusive*, never as a verdict.
"""
import os, re, subprocess

SLOT = 16
PAD = b"\xcc"


class Decoded(object):
    """Decoding of one slot: length = bytes consumed by the first instruction (prefix-only lines of llvm-objdump
    are merged into the instruction that follows), text = its text, known = the tool recognised it."""
    __slots__ = ("length", "text", "known")

    def __init__(self, length, text, known):
        self.length, self.text, self.known = length, text, known

    def __repr__(self):
        return "Decoded(%r,%r,%r)" % (self.length, self.text, self.known)


def make_blob(byte_strings):
    parts = []
    for b in byte_strings:
        if b is None:
            b = b""
        if len(b) >= SLOT:
            b = b""            # cannot be a single instruction; callers flag the length themselves
        parts.append(b + PAD * (SLOT - len(b)))
    return b"".join(parts)


_ADDR = re.compile(r"^\s*([0-9a-f]+):[ \t](.*)$")
_HEXBYTES = re.compile(r"^(?:[0-9a-f]{2} )*[0-9a-f]{2}$")


def _split_line(line):
    """'<addr>:<ws><hex bytes><tab><text>' of objdump / llvm-objdump -> (addr, nbytes, text) or None."""
    m = _ADDR.match(line)
    if not m:
        return None
    rest = m.group(2)
    i = rest.find("\t")
    if i < 0:
        hexpart, text = rest, ""
    else:
        hexpart, text = rest[:i], rest[i + 1:]
    hexpart = hexpart.strip()
    if not _HEXBYTES.match(hexpart):
        return None
    return int(m.group(1), 16), (len(hexpart) + 1) // 3, text.strip()

# mnemonics llvm-objdump prints as separate "instructions" for prefixes
_LLVM_PREFIX_ONLY = {"wait", "lock", "rep", "repne", "repe", "repz", "repnz", "xacquire", "xrelease", "data16", "addr32", "addr16",
                     "notrack", "cs", "ds", "es", "ss", "fs", "gs", "rex64", "data32", "bnd"}


def _run(cmd, **kw):
    return subprocess.run(cmd, stdout=subprocess.PIPE, stderr=subprocess.PIPE, **kw)


def _collect(lines_by_slot, nslots, byte_strings, merge_prefixes):
    out = []
    for i in range(nslots):
        ls = lines_by_slot.get(i)
        b = byte_strings[i] if byte_strings is not None else None
        if not ls:
            # all lines of the slot were pad lines: the case itself is a lone int3 (cc) or empty
            if b:
                out.append(Decoded(1, "int3", True))
            else:
                out.append(None)
            continue
        ls.sort()
        if ls[0][0] != 0:
            # first line is missing: the case starts with cc (int3) followed by something
            out.append(Decoded(1, "int3", True))
            continue
        off, n, text = ls[0]
        j = 1
        if merge_prefixes:
            while all(w in _LLVM_PREFIX_ONLY for w in text.split()) and j < len(ls) and ls[j][0] == off + n:
                text = text.strip() + " " + ls[j][2]
                n += ls[j][1]
                j += 1
        known = not ("(bad)" in text or "<unknown>" in text or ".byte" in text or text.strip() == "")
        out.append(Decoded(n, text, known))
    return out


def objdump_decode(byte_strings, mode, workdir, tag):
    """GNU objdump on a flat binary.  Returns a list of Decoded (None for empty slots)."""
    path = os.path.join(workdir, "%s-%d.bin" % (tag, mode))
    with open(path, "wb") as f:
        f.write(make_blob(byte_strings))
    cmd = ["objdump", "-D", "-b", "binary", "-m", "i386", "-M", "intel", "--insn-width=16"]
    if mode == 64:
        cmd += ["-M", "x86-64"]
    r = _run(cmd + [path])
    if r.returncode != 0:
        raise RuntimeError("objdump failed: " + r.stderr.decode("utf-8", "replace")[-500:])
    by = {}
    for line in r.stdout.decode("utf-8", "replace").split("\n"):
        if line.endswith("\tint3") and "\tcc   " in line:
            continue
        p = _split_line(line)
        if p is None:
            continue
        a, n, text = p
        by.setdefault(a // SLOT, []).append((a % SLOT, n, text))
    return _collect(by, len(byte_strings), byte_strings, False)


def llvm_decode(byte_strings, mode, workdir, tag):
    """llvm-objdump on the same blob wrapped into an ELF object with objcopy."""
    path = os.path.join(workdir, "%s-%d.lbin" % (tag, mode))
    obj = path + ".o"
    with open(path, "wb") as f:
        f.write(make_blob(byte_strings))
    if mode == 64:
        oc = ["objcopy", "-I", "binary", "-O", "elf64-x86-64", "-B", "i386:x86-64"]
    else:
        oc = ["objcopy", "-I", "binary", "-O", "elf32-i386", "-B", "i386"]
    r = _run(oc + ["--rename-section", ".data=.text,alloc,load,readonly,code,contents", path, obj])
    if r.returncode != 0:
        raise RuntimeError("objcopy failed: " + r.stderr.decode("utf-8", "replace")[-500:])
    r = _run(["llvm-objdump", "-d", "--x86-asm-syntax=intel", obj])
    if r.returncode != 0:
        raise RuntimeError("llvm-objdump failed: " + r.stderr.decode("utf-8", "replace")[-500:])
    by = {}
    for line in r.stdout.decode("utf-8", "replace").split("\n"):
        if line.endswith("\tint3") and ": cc  " in line:
            continue
        p = _split_line(line)
        if p is None:
            continue
        a, n, text = p
        by.setdefault(a // SLOT, []).append((a % SLOT, n, text))
    return _collect(by, len(byte_strings), byte_strings, True)


_GAS_ERR = re.compile(r"^[^:]+:(\d+): (?:Error|Fatal error): (.*)$")


def gas_assemble(texts, mode, workdir, tag, max_rounds=8):
    """Assembles texts[i] (Intel syntax, or None) into slot i.  Returns (blob bytes, rejected) where rejected maps
    index -> gas message for lines gas refused (those slots hold only padding)."""
    src = os.path.join(workdir, "%s-%d.s" % (tag, mode))
    obj = os.path.join(workdir, "%s-%d.o" % (tag, mode))
    binp = os.path.join(workdir, "%s-%d.gbin" % (tag, mode))
    rejected = {}
    live = [t for t in texts]
    n = len(texts)
    for rnd in range(max_rounds):
        line_to_idx = {}
        out = [".intel_syntax noprefix", ".code%d" % mode, ".text"]
        for i, t in enumerate(live):
            out.append(".org %d, 0xcc" % (i * SLOT))
            if t is not None:
                line_to_idx[len(out) + 1] = i
                out.append(t)
                out.append("1:")
        out.append(".org %d, 0xcc" % (n * SLOT))
        with open(src, "w") as f:
            f.write("\n".join(out) + "\n")
        r = _run(["as", "--64" if mode == 64 else "--32", "-o", obj, src])
        if r.returncode == 0:
            break
        bad = 0
        for line in r.stderr.decode("utf-8", "replace").split("\n"):
            m = _GAS_ERR.match(line)
            if not m:
                continue
            ln = int(m.group(1))
            idx = line_to_idx.get(ln)
            if idx is None:
                idx = line_to_idx.get(ln - 1)       # error attributed to the '1:' / '.org' after an over-long insn
            if idx is None:
                idx = line_to_idx.get(ln - 2)
            if idx is not None and live[idx] is not None:
                rejected[idx] = m.group(2)[:160]
                live[idx] = None
                bad += 1
        if bad == 0:
            raise RuntimeError("gas failed without attributable errors: " + r.stderr.decode("utf-8", "replace")[-800:])
    else:
        raise RuntimeError("gas did not converge")
    r = _run(["objcopy", "-O", "binary", "-j", ".text", obj, binp])
    if r.returncode != 0:
        raise RuntimeError("objcopy failed: " + r.stderr.decode("utf-8", "replace")[-500:])
    with open(binp, "rb") as f:
        blob = f.read()
    if len(blob) < n * SLOT:
        blob += PAD * (n * SLOT - len(blob))
    return blob, rejected


def blob_slots(blob, n):
    """The slot contents of a gas blob with the trailing padding of each slot removed is not recoverable (an
    instruction may end in 0xcc), so slots are returned whole; decoders determine the length."""
    return [blob[i * SLOT:(i + 1) * SLOT] for i in range(n)]


def decode_raw_slots(slots, mode, workdir, tag, tool):
    """Decode already padded SLOT-byte slots (gas output)."""
    # strip the padding that is certainly padding is impossible; feed the slots as they are
    bs = [s for s in slots]
    if tool == "objdump":
        return _decode_padded(bs, mode, workdir, tag, objdump_decode)
    return _decode_padded(bs, mode, workdir, tag, llvm_decode)


def _decode_padded(slots, mode, workdir, tag, fn):
    # make_blob pads to SLOT; a full slot (16 bytes) would be dropped by it, so cut the last pad byte
    # (a slot never holds more than 15 instruction bytes)
    return fn([s[:SLOT - 1] for s in slots], mode, workdir, tag)


_PSEUDO = re.compile(r"^(?:\{(?:evex|vex|vex3|load|store|disp8|disp32|rex)\}\s+|rex(?:\.[wrxb]+)?\s+)+")
_SYM = re.compile(r"\s*<[^>]*>")
_WS = re.compile(r"\s+")


_G16 = ["ax", "cx", "dx", "bx", "sp", "bp", "si", "di"]
_TO32 = {}
for _i, _n in enumerate(_G16):
    _TO32[_n] = "e" + _n
    _TO32["r" + _n] = "e" + _n
for _i in range(8, 16):
    _TO32["r%dw" % _i] = "r%dd" % _i
    _TO32["r%d" % _i] = "r%dd" % _i
_TO32_FROM64 = {k: v for k, v in _TO32.items() if k.startswith("r") and not k.endswith("w")}
_SEGMOV = re.compile(r"^(mov) ((?:[ecsdfg]s),\s*)(\w+)$|^(mov) (\w+)(,\s*(?:[ecsdfg]s))$|^(sldt|str|smsw) (\w+)$")


def _canon_width_insensitive(t):
    """mov sreg,r16/r32/r64, mov r,sreg, sldt/str/smsw r: the register width does not change what is executed
    (SDM: the upper bits are zero-extended / ignored; a 66 or REX.W prefix is redundant) - compare with the
    32-bit register name."""
    if t.startswith("data16 mov ") and t[-2:] in ("es", "cs", "ss", "ds", "fs", "gs") and "ptr" in t:
        t = t[7:]           # objdump names the redundant 66 of "mov m16,sreg"
    m = _SEGMOV.match(t)
    if not m:
        return t
    if m.group(1):
        return "%s %s%s" % (m.group(1), m.group(2), _TO32.get(m.group(3), m.group(3)))
    # destination register: only 64 -> 32 is equivalent (a 16-bit destination keeps the upper bits)
    if m.group(4):
        return "%s %s%s" % (m.group(4), _TO32_FROM64.get(m.group(5), m.group(5)), m.group(6))
    return "%s %s" % (m.group(7), _TO32_FROM64.get(m.group(8), m.group(8)))


def normalize(text):
    """Normalisation applied to BOTH sides of a same-decoder comparison: comments / symbol annotations /
    whitespace / pseudo prefixes that only name the chosen encoding."""
    t = text
    i = t.find("#")
    if i >= 0:
        t = t[:i]
    t = _SYM.sub("", t)
    t = _WS.sub(" ", t.strip().lower())
    t = _PSEUDO.sub("", t)
    if t.startswith("movabs "):
        t = "mov " + t[7:]
    return _canon_width_insensitive(t)
