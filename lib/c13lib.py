"""C13 helpers: near-miss mutations of db forms (x86 + AArch64), the 'does this db form admit these operands' matcher used
for the mode clause, deviation classes for violation keys and the vendored implemented-forms lists.

Nothing in here looks at asmjit: register classes / sizes come from lib/x86cases.py (architecture manuals), the form
records from the ISA database dumps.
"""
import os, re

from lib import x86cases as X

VERIF = os.path.dirname(os.path.dirname(os.path.abspath(__file__)))
REF = os.path.join(VERIF, "ref")

# ---------------------------------------------------------------------------------------------------------------------
# x86: which deviation tags of lib/x86cases.instantiate are still *instances of the form itself*
# (default operands, the other alternative of a reg/mem operand, the fixed register, implicit operands written out, another
# register 0..7 of the operand's own class - e.g. the even/odd pair constraint of vp2intersectd needs k0 or k2)
# ---------------------------------------------------------------------------------------------------------------------
_SAME_FORM = re.compile(r"^(default|implicit-explicit|op\d=(reg-default|mem-default|fixed))$")
_REG_DEV = re.compile(r"^op\d=(r8hi|r8|r16|r32|r64|mm|xmm|ymm|zmm|k|tmm|st|sreg|creg|dreg|bnd)(\d+)$")


def is_form_instance(dev, mode=64):
    if _SAME_FORM.match(dev):
        return True
    m = _REG_DEV.match(dev)
    if not m:
        return False
    kind, rid = m.group(1), int(m.group(2))
    if kind in ("bnd", "r8hi"):
        return rid < 4
    if kind == "sreg":
        return 1 <= rid <= 6
    if kind == "r8" and mode == 32:
        return rid < 4
    return rid < 8          # registers 0..7 exist in every mode and under every encoding (legacy / VEX / EVEX)


# Decorations / prefixes / encoding options the db form lists: a case carrying exactly one of them is an instance of the
# form's *feature*  '<signature> +<feature>'  (own lines in the vendored list, e.g. 'zmm,zmm,zmm/m512 +er').
_FEATURES = {"k1": "k", "k7": "k", "k1z": "kz", "k7z": "kz", "rn-sae": "er", "rd-sae": "er", "ru-sae": "er", "rz-sae": "er",
             "sae": "sae", "lock": "lock", "xacquire-lock": "xacquire", "xrelease-lock": "xrelease", "rep": "rep", "rep-cx": "rep",
             "repne": "repne", "vex3": "vex3", "modmr": "modmr", "modrm": "modrm", "short": "short", "long": "long", "rex": "rex"}
_BCST_DEV = re.compile(r"^op\d=bcst(?!-wrong)")


def x86_feature_of(dev):
    if dev.startswith("opt="):
        t = dev[4:]
        if t.endswith(",mem"):
            t = t[:-4]
        return _FEATURES.get(t)
    if _BCST_DEV.match(dev):
        return "bcst"
    return None


# ---------------------------------------------------------------------------------------------------------------------
# x86 near-miss mutations (E): operand size one class off, two operands swapped, illegal decoration
# ---------------------------------------------------------------------------------------------------------------------
_REG_NEIGHBOURS = {"r8": ("r16",), "r8hi": ("r16",), "r16": ("r8", "r32"), "r32": ("r16", "r64"), "r64": ("r32",),
                   "xmm": ("ymm", "mm"), "ymm": ("xmm", "zmm"), "zmm": ("ymm",), "mm": ("xmm",), "k": ("r32",),
                   "tmm": ("zmm",), "st": ("mm",), "bnd": ("xmm",), "sreg": ("r16",), "creg": ("dreg",), "dreg": ("creg",)}
_MEM_SIZES = (1, 2, 4, 8, 16, 32, 64)


def _mem_neighbours(size):
    if size not in _MEM_SIZES:
        return ()
    i = _MEM_SIZES.index(size)
    return tuple(_MEM_SIZES[j] for j in (i - 1, i + 1) if 0 <= j < len(_MEM_SIZES))


def _fit_id(kind, rid):
    n = len(X.REG_NAMES.get(kind, ())) or 8
    if kind in ("r8hi", "bnd"):
        n = 4
    if kind in ("mm", "k", "tmm", "st"):
        n = 8
    if kind == "sreg":
        return rid if 1 <= rid <= 6 else 1
    return rid % n if rid >= n else rid


def x86_near_misses(f, mode):
    """Yields X.Case objects derived from the default instantiation of form f in `mode`; .dev = 'nm=<class>:<detail>'."""
    bs = X.build_slots(f, mode)
    if bs is None:
        return
    slots, implicit = bs
    defaults = X._resolve_consec([s.default for s in slots])
    if defaults is None:
        return
    has_rel = any(a[0] == "rel" for o in f["operands"] for a in o["alts"])
    pre = ("bind=0", "pad=16") if has_rel else ()

    def mk(ops, dev, opts=0, extra=None):
        return X.Case(mode, f["name"], opts, extra, ops, pre, (), f["idx"], dev, f["sig"])

    # 1. size one class off (every explicit register / memory operand, also the memory alternative of a reg/mem operand)
    for i, op in enumerate(defaults):
        variants = [op]
        for tag, sym in slots[i].alphabet:
            if tag in ("mem-default", "reg-default"):
                variants.append(sym)
        for v in variants:
            if v[0] == "r":
                for nk in _REG_NEIGHBOURS.get(v[1], ()):
                    ops = list(defaults)
                    ops[i] = ("r", nk, _fit_id(nk, v[2]))
                    yield mk(ops, "nm=size:op%d:%s>%s" % (i, v[1], nk))
            elif v[0] == "m":
                for ns in _mem_neighbours(v[1].size):
                    ops = list(defaults)
                    ops[i] = ("m", v[1].replace(size=ns))
                    yield mk(ops, "nm=size:op%d:m%d>m%d" % (i, v[1].size * 8, ns * 8))
    # 2. two operands swapped
    for i in range(len(defaults)):
        for j in range(i + 1, len(defaults)):
            if defaults[i] == defaults[j]:
                continue
            ops = list(defaults)
            ops[i], ops[j] = ops[j], ops[i]
            yield mk(ops, "nm=swap:op%d<>op%d" % (i, j))
    # 3. decorations / prefixes the form does not list
    fm = X.first_mem_capable(f)
    mem_ops = None
    if fm is not None:
        mem_ops = list(defaults)
        mem_ops[fm[0]] = ("m", X._default_mem(f, fm[1], fm[2], mode))
    O = X.OPT
    if not f["kmask"]:
        yield mk(defaults, "nm=deco:k", extra=("k", 1))
        yield mk(defaults, "nm=deco:kz", opts=O["z"], extra=("k", 1))
    if not f["zmask"]:
        yield mk(defaults, "nm=deco:z-nok", opts=O["z"])
    if not f["er"]:
        yield mk(defaults, "nm=deco:er", opts=X.ER_MODES["rd"])
    if not f["sae"]:
        yield mk(defaults, "nm=deco:sae", opts=O["sae"])
    if mem_ops is not None and X.bcst_of(f, fm[1]) is None and fm[2][1]:
        m = mem_ops[fm[0]][1]
        for eb in (4, 8):
            if m.size and m.size > eb and m.size % eb == 0:
                ops = list(mem_ops)
                ops[fm[0]] = ("m", m.replace(size=eb, bcst=m.size // eb))
                yield mk(ops, "nm=deco:bcst%d" % (eb * 8))
    pfx = set(f["prefixes"])
    tgt = mem_ops if mem_ops is not None else defaults
    if not ({"lock", "ilock"} & pfx):
        yield mk(tgt, "nm=deco:lock", opts=O["lock"])
    if "xacquire" not in pfx:
        yield mk(tgt, "nm=deco:xacquire-lock", opts=O["lock"] | O["xacquire"])
    if "xrelease" not in pfx:
        yield mk(tgt, "nm=deco:xrelease-lock", opts=O["lock"] | O["xrelease"])
    if not ({"rep", "repIgnore"} & pfx):
        yield mk(defaults, "nm=deco:rep", opts=O["rep"])
    if not ({"repne", "bnd", "rep", "repIgnore"} & pfx):
        yield mk(defaults, "nm=deco:repne", opts=O["repne"])
    if pfx & {"rep", "repne"}:
        yield mk(defaults, "nm=deco:rep+repne", opts=O["rep"] | O["repne"])


# ---------------------------------------------------------------------------------------------------------------------
# x86: does db form g admit this operand list (used for the mode clause: the same mnemonic + operands may be ANOTHER form
# that IS allowed in the mode).  Deliberately generous: a 'maybe' counts as admitted, because a shadowed case is merely
# not judged.
# ---------------------------------------------------------------------------------------------------------------------
def _op_admitted(o, op, strict_size=False):
    for a in o["alts"]:
        t = a[0]
        if op[0] == "r":
            if t == "reg" and (a[1] == op[1] or (a[1] == "r8" and op[1] == "r8hi")):
                return True
            if t == "fixed" and a[1] == op[1] and a[2] == op[2]:
                return True
            if t == "consec" and a[1] == op[1]:
                return True
            if t == "unknown":
                return True
        elif op[0] == "m":
            if t == "mem" and (a[1] == op[1].size or a[1] == 0 or op[1].size == 0):
                return True
        elif op[0] == "i":
            if t in ("imm", "one"):
                return True
        elif op[0] == "l":
            if t in ("rel", "imm"):
                return True
    return False


def form_admits(g, ops):
    explicit = [o for o in g["operands"] if not o["implicit"]]
    for olist in (explicit, g["operands"]):
        if len(olist) == len(ops) and all(_op_admitted(o, op) for o, op in zip(olist, ops)):
            return True
    return False


# ---------------------------------------------------------------------------------------------------------------------
# deviation classes (violation keys carry the class of the deviation that exposes a clause)
# ---------------------------------------------------------------------------------------------------------------------
def x86_dev_class(dev):
    out = []
    for part in dev.split(","):
        if part.startswith("nm="):
            out.append(part.split(":")[0] + ":" + (part.split(":")[1] if part.startswith("nm=deco") else ""))
            out[-1] = out[-1].rstrip(":")
            continue
        part = re.sub(r"^op\d=", "", part)
        if part.startswith("opt=") or part in ("default", "implicit-explicit", "mem", "reg-default", "mem-default", "fixed", "fixed-other"):
            out.append(part)
        elif part.startswith("label="):
            out.append("label")
        else:
            m = re.match(r"[a-z]+", part)
            out.append(m.group(0) if m else part[:3])
    return "+".join(out)


# ---------------------------------------------------------------------------------------------------------------------
# AArch64 near-miss mutations on the emit_a64 text of a form's default case
# ---------------------------------------------------------------------------------------------------------------------
_A64_SCALAR = {"w": ("x",), "x": ("w",), "b": ("h",), "h": ("b", "s"), "s": ("h", "d"), "d": ("s", "q"), "q": ("d",)}
_A64_ARR = {"8b": ("16b", "4h"), "16b": ("8b", "8h"), "4h": ("8h", "2s"), "8h": ("4h", "4s"), "2s": ("4s", "4h"),
            "4s": ("2s", "2d"), "1d": ("2d", "2s"), "2d": ("1d", "4s")}
_RE_SCALAR = re.compile(r"^([wxbhsdq])(\d+)$")
_RE_VEC = re.compile(r"^(v\d+)\.(\d+[bhsd])(\[\d+\])?$")
_RE_ELEM = re.compile(r"^(v\d+)\.([bhsd])(\[\d+\])$")


def a64_split_ops(text):
    sp = text.find(" ")
    if sp < 0:
        return text, []
    mn, rest = text[:sp], text[sp + 1:]
    ops, depth, cur = [], 0, ""
    for ch in rest:
        if ch == "[":
            depth += 1
        elif ch == "]":
            depth -= 1
        if ch == "," and depth == 0:
            ops.append(cur.strip())
            cur = ""
        else:
            cur += ch
    if cur.strip():
        ops.append(cur.strip())
    return mn, ops


def a64_near_misses(emit_text):
    """List of (tag, text): every register operand one size class off, every pair of different operands swapped."""
    mn, ops = a64_split_ops(emit_text)
    out = []

    def join(o):
        return mn + (" " + ", ".join(o) if o else "")

    for i, op in enumerate(ops):
        m = _RE_SCALAR.match(op)
        if m:
            for nk in _A64_SCALAR[m.group(1)]:
                o = list(ops)
                o[i] = nk + m.group(2)
                out.append(("nm=size:op%d:%s>%s" % (i, m.group(1), nk), join(o)))
            continue
        if op in ("wzr", "xzr", "wsp", "sp"):
            o = list(ops)
            o[i] = {"wzr": "xzr", "xzr": "wzr", "wsp": "sp", "sp": "wsp"}[op]
            out.append(("nm=size:op%d:%s>%s" % (i, op, o[i]), join(o)))
            continue
        m = _RE_VEC.match(op)
        if m:
            for na in _A64_ARR.get(m.group(2), ()):
                o = list(ops)
                o[i] = "%s.%s%s" % (m.group(1), na, m.group(3) or "")
                out.append(("nm=size:op%d:%s>%s" % (i, m.group(2), na), join(o)))
            continue
        m = _RE_ELEM.match(op)
        if m:
            for nk in _A64_SCALAR[m.group(2)]:
                if nk in "bhsd":
                    o = list(ops)
                    o[i] = "%s.%s%s" % (m.group(1), nk, m.group(3))
                    out.append(("nm=size:op%d:%s>%s" % (i, m.group(2), nk), join(o)))
    for i in range(len(ops)):
        for j in range(i + 1, len(ops)):
            if ops[i] != ops[j]:
                o = list(ops)
                o[i], o[j] = o[j], o[i]
                out.append(("nm=swap:op%d<>op%d" % (i, j), join(o)))
    # one operand dropped / one operand repeated at the end (wrong operand count)
    if ops:
        out.append(("nm=count:drop-last", join(ops[:-1])))
        if len(ops) < 6:
            out.append(("nm=count:repeat-last", join(ops + [ops[-1]])))
    return out


def a64_dev_class(tag):
    if tag.startswith("nm="):
        return tag.split(":")[0]
    return tag


# ---------------------------------------------------------------------------------------------------------------------
# vendored implemented-forms lists
# ---------------------------------------------------------------------------------------------------------------------
def list_path(arch):
    return os.path.join(REF, "implemented_%s.txt" % arch)


def line_of(mode, name, sig):
    return "%s\t%s\t%s" % (mode, name, sig if sig else "-")


def load_implemented(arch):
    """Returns set of (mode:str, mnemonic, signature) or None when the list does not exist."""
    p = list_path(arch)
    if not os.path.exists(p):
        return None
    out = set()
    with open(p) as f:
        for l in f:
            l = l.rstrip("\n")
            if not l or l.startswith("#"):
                continue
            c = l.split("\t")
            if len(c) == 3:
                out.add((c[0], c[1], "" if c[2] == "-" else c[2]))
    return out


def write_implemented(arch, lines, header):
    os.makedirs(REF, exist_ok=True)
    with open(list_path(arch), "w") as f:
        for h in header:
            f.write("# " + h + "\n")
        for mode, name, sig in sorted(lines):
            f.write(line_of(mode, name, sig) + "\n")
