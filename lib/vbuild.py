"""Build asmjit objects and harnesses from the *current working tree* of the repository.

One ninja build directory per (repo path, variant).  Ninja's mtime/depfile tracking makes every
check rebuild exactly what changed in /repo since the last run, so a patched tree is always what
is linked into the harness.  Nothing here touches the network or /tmp.
"""
import hashlib, os, subprocess, sys, glob, shutil

VERIF = os.path.dirname(os.path.dirname(os.path.abspath(__file__)))
REPO = os.environ.get("VERIF_REPO", "/repo")
BUILD = os.path.join(VERIF, "build")

COMMON = ["-std=c++17", "-DNDEBUG", "-DASMJIT_STATIC", "-DASMJIT_VERIF", "-fno-threadsafe-statics",
          "-fno-math-errno", "-Wno-everything"]

VARIANTS = {
    # sanitizer is part of the oracle
    "asan": dict(cxx="clang++", flags=["-O1", "-g", "-fno-omit-frame-pointer",
                                       "-fsanitize=address,undefined", "-fno-sanitize=vptr,function,nonnull-attribute",
                                       "-fno-sanitize-recover=undefined"],
                 ld=["-fsanitize=address,undefined"]),
    # bulk sweeps
    "fast": dict(cxx="clang++", flags=["-O2", "-g0"], ld=[]),
    # fast + frame pointers + access to privates, no sanitizer
    "tsan": dict(cxx="clang++", flags=["-O1", "-g", "-fsanitize=thread"], ld=["-fsanitize=thread"]),
}


def repo_key():
    return hashlib.sha1(os.path.abspath(REPO).encode()).hexdigest()[:8]


def variant_dir(variant):
    return os.path.join(BUILD, "%s-%s" % (variant, repo_key()))


def asmjit_sources():
    srcs = []
    for root, _, files in os.walk(os.path.join(REPO, "asmjit")):
        for f in files:
            if f.endswith(".cpp"):
                srcs.append(os.path.join(root, f))
    srcs.sort()
    return srcs


def _q(s):
    return s.replace(" ", "$ ").replace(":", "$:")


def build(variant, harness=None, extra_cxx=(), extra_ld=(), exclude_objs=(), extra_srcs=(), out_name=None,
          quiet=True):
    """Build all asmjit objects for `variant`; optionally build+link harness (path to .cpp).

    extra_srcs: list of (path, [flags]) compiled with *only* the given flags (no variant flags) -- used for
    the uninstrumented scheduler TU.
    Returns path of the linked executable (or None).
    """
    v = VARIANTS[variant]
    d = variant_dir(variant)
    os.makedirs(d, exist_ok=True)
    flags = COMMON + v["flags"] + ["-I" + REPO, "-I" + os.path.join(VERIF, "engine"), "-I" + VERIF]
    lines = ["ninja_required_version = 1.5",
             "cxx = " + v["cxx"],
             "cflags = " + " ".join(flags),
             "rule cc",
             "  command = $cxx $cflags $xflags -MMD -MF $out.d -c $in -o $out",
             "  depfile = $out.d",
             "  deps = gcc",
             "  description = CXX $out",
             "rule rawcc",
             "  command = $cxx $xflags -MMD -MF $out.d -c $in -o $out",
             "  depfile = $out.d",
             "  deps = gcc",
             "rule link",
             "  command = $cxx $in -o $out $ldflags",
             "  description = LINK $out",
             ""]
    objs = []
    for s in asmjit_sources():
        rel = os.path.relpath(s, REPO)
        o = "obj/" + rel.replace("/", "_")[:-4] + ".o"
        lines.append("build %s: cc %s" % (_q(o), _q(s)))
        objs.append((rel, o))
    lines.append("build asmjit_objs: phony " + " ".join(o for _, o in objs))
    target = "asmjit_objs"
    exe = None
    if harness:
        name = out_name or os.path.splitext(os.path.basename(harness))[0]
        exe = "bin/" + name
        ho = "hobj/" + name + ".o"
        lines.append("build %s: cc %s" % (_q(ho), _q(os.path.abspath(harness))))
        lines.append("  xflags = " + " ".join(extra_cxx))
        link_in = [ho]
        for i, (p, fl) in enumerate(extra_srcs):
            eo = "hobj/%s_x%d.o" % (name, i)
            lines.append("build %s: rawcc %s" % (_q(eo), _q(os.path.abspath(p))))
            lines.append("  xflags = " + " ".join(fl))
            link_in.append(eo)
        for rel, o in objs:
            if any(rel.endswith(x) for x in exclude_objs):
                continue
            link_in.append(o)
        lines.append("build %s: link %s" % (_q(exe), " ".join(_q(x) for x in link_in)))
        lines.append("  ldflags = " + " ".join(v["ld"] + ["-lpthread", "-lrt"] + list(extra_ld)))
        target = exe
    # one ninja file per target so concurrent checks do not rewrite each other's file
    nf = os.path.join(d, "build-%s.ninja" % (os.path.basename(target).replace("/", "_")))
    content = "\n".join(lines) + "\n"
    old = None
    if os.path.exists(nf):
        with open(nf) as f:
            old = f.read()
    if old != content:
        with open(nf, "w") as f:
            f.write(content)
    # serialise ninja invocations per build dir (ninja itself locks poorly across processes)
    import fcntl
    with open(os.path.join(d, ".lock"), "w") as lk:
        fcntl.flock(lk, fcntl.LOCK_EX)
        r = subprocess.run(["ninja", "-C", d, "-f", nf, "-j", str(os.cpu_count() or 8), target],
                           stdout=subprocess.PIPE, stderr=subprocess.STDOUT, text=True)
    if r.returncode != 0:
        sys.stderr.write(r.stdout[-6000:])
        raise SystemExit(2)
    if not quiet:
        sys.stderr.write(r.stdout[-400:])
    return os.path.join(d, exe) if exe else None


def clean_stale():
    """Remove build dirs of repo paths that no longer exist (mutant scratch trees)."""
    pass


if __name__ == "__main__":
    for v in sys.argv[1:] or ["asan", "fast"]:
        build(v, quiet=False)
        print("built", v, variant_dir(v))
