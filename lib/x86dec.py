"""Field decoder for x86 / x86-64 instruction bytes driven by the ISA database ("the encoding rules of the
database" leg of C01).

check(case, bytes, candidate_forms) decides whether there EXISTS a database form of the requested mnemonic
 - whose operand signature admits the requested operands, and
 - whose encoding rules (prefix kind, pp, map, W, L, opcode byte, /digit, operand->field roles, disp8*N,
   immediate size) are all met by the byte string, with every field that influences what the CPU executes
   holding the value the requested operands imply, and
 - whose total length equals the number of bytes appended.

Everything expected comes from the database record and the request; field positions, ModRM/SIB/displacement
rules, the 16-bit addressing table, the EVEX disp8*N table (SDM vol.2 tables 2-34/2-35) and prefix layouts are
written down from the Intel SDM vol.2 chapter 2 here - nothing is read from asmjit.

Don't-care rules (so that the leg demands no more than the property): WIG/LIG fields, a redundant REX / VEX3 /
EVEX-instead-of-VEX (that is simply another candidate form), [b] vs [b+0] vs disp32 of the same value, SIB-less
vs SIB-with-no-index, base/index exchange at scale 1 where the default segment is the same, default-segment
overrides that equal the default (and es/cs/ss/ds in 64-bit mode), L'L under {sae}.
"""

from lib import x86cases as X

OPT = X.OPT

LEGACY_PREFIXES = {0xF0, 0xF2, 0xF3, 0x2E, 0x36, 0x3E, 0x26, 0x64, 0x65, 0x66, 0x67}
SEG_PREFIX = {0x26: 1, 0x2E: 2, 0x36: 3, 0x3E: 4, 0x64: 5, 0x65: 6}
MAP_NUM = {"0F": 1, "0F38": 2, "0F3A": 3, "MAP4": 4, "MAP5": 5, "MAP6": 6, "MAP7": 7, "MAP8": 8, "MAP9": 9, "MAPA": 10}
PP_NUM = {"": 0, "NP": 0, "66": 1, "F3": 2, "F2": 3}

# 16-bit addressing, SDM vol.2 table 2-1: rm -> (base, index) register numbers
MOD16 = {0: (3, 6), 1: (3, 7), 2: (5, 6), 3: (5, 7), 4: (6, None), 5: (7, None), 6: (5, None), 7: (3, None)}

# ---------------------------------------------------------------------------------------------------------------
# Database errata: records whose encoding text contradicts the architecture manuals.  Each entry patches the parsed
# record before it is used, and says why.  (Without them the db leg would raise an alarm on correct bytes.)
# key: (name, signature, opcodeString)
# ---------------------------------------------------------------------------------------------------------------
DB_ERRATA = {
    # SDM: LEA r16,m = 66 8D /r (operand-size prefix); the record writes 67 (address-size) instead
    ("lea", "67 8D /r"): dict(pp="66", _67h=False,
                              why="SDM vol.2 LEA: '8D /r LEA r16,m' takes the operand-size prefix 66, not 67"),
    ("shrd", "66 0F AC /r ib"): dict(pp="", why="SDM SHRD r/m,r,imm8 = 0F AC /r ib; 66 only in the 16-bit member (group rule)"),
    ("fsqrt", "D9 FE"): dict(byte="FA", why="SDM FSQRT = D9 FA (D9 FE is FSIN)"),
    ("vmovupd", "VEX.Lxy.NP.0F.WIG 10 /r"): dict(pp="66", why="SDM VMOVUPD = VEX.66.0F 10"),
    ("vmovupd", "VEX.Lxy.NP.0F.WIG 11 /r"): dict(pp="66", why="SDM VMOVUPD = VEX.66.0F 11"),
    ("vmovups", "VEX.Lxy.66.0F.WIG 10 /r"): dict(pp="NP", why="SDM VMOVUPS = VEX.0F 10 (no pp)"),
    ("vmovups", "VEX.Lxy.66.0F.WIG 11 /r"): dict(pp="NP", why="SDM VMOVUPS = VEX.0F 11 (no pp)"),
    ("vmovntps", "EVEX.xyz.66.0F.W0 2B /r"): dict(pp="NP", why="SDM VMOVNTPS = EVEX.0F.W0 2B (66 is VMOVNTPD)"),
    ("movsd", "F2 0F 11 /r"): dict(add_reg={0: "xmm"}, why="SDM MOVSD xmm1/m64, xmm2 = F2 0F 11 /r (the record lists m64 only)"),
    ("movss", "F3 0F 11 /r"): dict(add_reg={0: "xmm"}, why="SDM MOVSS xmm2/m32, xmm1 = F3 0F 11 /r (the record lists m32 only)"),
    ("vandnps", "EVEX.xyz.66.W0 55 /r"): dict(pp="NP", mm="0F", why="SDM VANDNPS = EVEX.0F.W0 55 (record lacks the map, 66 is VANDNPD)"),
}


class Verdict(object):
    __slots__ = ("status", "clause", "detail")

    def __init__(self, status, clause="", detail=""):
        self.status, self.clause, self.detail = status, clause, detail

    def __repr__(self):
        return "Verdict(%s,%s,%s)" % (self.status, self.clause, self.detail)


class Mismatch(Exception):
    def __init__(self, clause, detail, weight=0):
        Exception.__init__(self, detail)
        self.clause, self.detail, self.weight = clause, detail, weight


class Inconclusive(Exception):
    pass


# ---------------------------------------------------------------------------------------------------------------
# form preparation (cached on the form dict)
# ---------------------------------------------------------------------------------------------------------------
def _prep(f):
    p = f.get("_dec")
    if p is not None:
        return p
    op = dict(f["opcode"])
    er = DB_ERRATA.get((f["name"], f["opcodeString"]))
    if er:
        for k, v in er.items():
            if k == "add_reg":
                for oi, kind_ in v.items():
                    o_ = f["operands"][oi]
                    if not any(a[0] == "reg" for a in o_["alts"]):
                        o_["alts"] = [("reg", kind_)] + list(o_["alts"])
            elif k != "why":
                op[k] = v
    # isa_x86.md, "Grouping": a legacy-encoded record of an rv/mv group takes the 66 prefix in its 16-bit member and
    # REX.W in its 64-bit member; ry/my takes REX.W in its 64-bit member (x86.js applies this only to EVEX 'Pv/Wv')
    if f["prefix"] in ("", "3DNOW") and f["groupPattern"] in ("rv", "ry"):
        gi = f["groupIndex"]
        if f["groupPattern"] == "rv":
            if gi == 0 and "66" not in op["pp"]:
                op["pp"] = "66" + (op["pp"] if op["pp"] != "NP" else "")
            if gi == 2 and not op["w"]:
                op["w"] = "W1"
        elif gi == 1 and not op["w"]:
            op["w"] = "W1"
    toks0 = f["opcodeString"].split()
    if f["prefix"] == "" and len(toks0) == 2 and toks0[0] in ("D8", "D9", "DA", "DB", "DC", "DD", "DE", "DF") and \
            len(toks0[1]) == 2 and all(c in "0123456789ABCDEF" for c in toks0[1]) and not er:
        # "D9 F2" / "D9 F3": x86.js takes the second byte of these x87 records for a mandatory prefix
        op["mm"], op["byte"], op["pp"] = toks0[0], toks0[1], ""
    p = dict(op=op)
    # opcode byte(s)
    byte = int(op["byte"], 16) if op["byte"] else None
    mod, modr, modrm = op["mod"], op["modr"], op["modrm"]
    p["modrm_opcode"] = None
    if f["prefix"] in ("", "3DNOW") and mod == "11" and modr.isdigit() and modrm.isdigit() and byte is not None and \
            byte == (0xC0 | int(modr) << 3 | int(modrm)):
        # "0F AE E8" style record: x86.js stores the second byte both as opcode byte and as ModRM; the real opcode
        # byte is the hex token before it
        toks = [t for t in f["opcodeString"].split() if len(t) == 2 and all(c in "0123456789ABCDEF" for c in t)]
        if len(toks) >= 2 and int(toks[-1], 16) == byte:
            prev = toks[-2]
            mm = op["mm"]
            if mm.endswith(prev) and mm in ("0F", "0F38", "0F3A", "0F01"):
                # the token before is part of the escape (0F 01 C8): mm="0F01" form; opcode byte stays, no modrm
                p["modrm_opcode"] = None
            else:
                p["modrm_opcode"] = byte
                byte = int(prev, 16)
    p["byte"] = byte
    # a record whose encoding scheme names ModRM roles (R / M letters) has a ModRM byte even when its opcode text
    # lacks "/r" (the EVEX gather/scatter records do)
    p["has_modrm"] = bool(mod or modr or modrm) or (f["encoding"] not in ("OP", "NONE") and any(c in f["encoding"] for c in "RM"))
    # roles
    ops = f["operands"]
    roles = [None] * len(ops)
    enc = f["encoding"]
    elig = []
    for i, o in enumerate(ops):
        if o["implicit"]:
            continue
        a = o["alts"]
        if not a:
            continue
        if a[0][0] in ("imm", "one", "rel", "dfv"):
            roles[i] = "I" if a[0][0] in ("imm", "one") else ("J" if a[0][0] == "rel" else None)
            continue
        if a[0][0] == "consec":
            roles[i] = "C"
            continue
        kinds = [x[0] for x in a]
        if kinds == ["fixed"]:
            roles[i] = "F"
            continue
        if "mem" in kinds:
            flavor = a[kinds.index("mem")][2]
            if flavor == "moff":
                roles[i] = "A"
                continue
            if flavor == "regonly":
                roles[i] = "X"
                continue
        elig.append(i)
    letters = enc.replace("_", "") if enc not in ("OP", "NONE") else ""
    if letters and len(letters) == len(elig) + 1 and "V" in letters:
        letters = letters.replace("V", "", 1)       # two-operand record carrying the three-operand scheme name
    if letters and len(letters) == len(elig):
        lt = list(letters)
        memcap = [any(x[0] == "mem" for x in ops[i]["alts"]) for i in elig]
        memonly = [all(x[0] == "mem" for x in ops[i]["alts"]) for i in elig]
        # the r/m operand is by definition the one that can be memory; a /digit takes the ModRM.reg field
        if "M" in lt and "R" in lt:
            ri_, mi_ = lt.index("R"), lt.index("M")
            if memcap[ri_] and not memcap[mi_]:
                lt[ri_], lt[mi_] = "M", "R"
        if "R" in lt and "M" not in lt and modr.isdigit():
            lt[lt.index("R")] = "M"
        letters = "".join(lt)
    if letters and len(letters) == len(elig):
        for i, l in zip(elig, letters):
            roles[i] = l
    else:
        # unlettered forms (OP/NONE) or a letter count that does not fit the operand list: the r/m operand is by
        # definition the one that can be memory; +r forms put their register into the opcode byte
        rest = []
        for i in elig:
            kinds = [x[0] for x in ops[i]["alts"]]
            if "mem" in kinds and p["has_modrm"]:
                roles[i] = "M"
            else:
                rest.append(i)
        if op["ri"]:
            if rest:
                roles[rest.pop(0)] = "O"
        have_m = "M" in roles
        order = ["R", "V"] if have_m else ["M", "R", "V"]
        if letters and not have_m and "M" not in letters:
            order = list(letters)
        if not p["has_modrm"]:
            order = []
        for i in rest:
            if order:
                roles[i] = order.pop(0)
            else:
                roles[i] = "?"
    p["roles"] = roles
    # immediates (bits) in operand order; is4 forms carry the S register in bits 7:4 of the single imm byte
    imms = []
    for i, o in enumerate(ops):
        if roles[i] == "I" and o["alts"][0][0] == "imm":
            imms.append((i, o["alts"][0][1], o["alts"][0][2]))
    # byte order of several immediates = order of the ib/iw/id tokens in the opcode text (lcall: "9A id iw" for
    # operands segment:imm16, offset:imm32)
    tsz = [{"ib": 8, "iw": 16, "id": 32, "iq": 64}.get(t) for t in f["opcodeString"].split() if t in ("ib", "iw", "id", "iq")]
    if len(imms) >= 2 and len(tsz) == len(imms) and sorted(tsz) == sorted(x[1] for x in imms) and tsz != [x[1] for x in imms]:
        pool = list(imms)
        imms = []
        for z in tsz:
            for x in pool:
                if x[1] == z:
                    imms.append(x)
                    pool.remove(x)
                    break
    p["imms"] = imms
    p["is4"] = "S" in roles
    # operand size (for sign-extended immediates)
    osz = 0
    for o in ops:
        if o["implicit"]:
            continue
        for a in o["alts"]:
            if a[0] == "reg" and a[1] in ("r8", "r16", "r32", "r64"):
                osz = osz or X.KIND_BITS[a[1]]
            elif a[0] == "fixed" and a[1] in ("r8", "r8hi", "r16", "r32", "r64"):
                osz = osz or X.KIND_BITS[a[1]]
            elif a[0] == "mem" and a[1] in (1, 2, 4, 8):
                osz = osz or a[1] * 8
        if osz:
            break
    p["opsize"] = osz
    f["_dec"] = p
    return p


# ---------------------------------------------------------------------------------------------------------------
# operand binding: request <-> form operands
# ---------------------------------------------------------------------------------------------------------------
def _admits(o, alt, r):
    t = r[0]
    a = alt[0]
    if t == "r":
        if a == "reg":
            return alt[1] == r[1] or (alt[1] == "r8" and r[1] == "r8hi")
        if a == "fixed":
            return alt[1] == r[1] and alt[2] == r[2]
        if a == "consec":
            return alt[1] == r[1]
        return False
    if t == "m":
        if a != "mem":
            return False
        m = r[1]
        size, flavor = alt[1], alt[2]
        if m.bcst:
            if not (o["bcstSize"] and o["bcstSize"] > 0 and o["memSize"] > 0):
                return False
            return m.size * 8 == o["bcstSize"] and m.bcst * o["bcstSize"] == o["memSize"]
        if flavor == "vsib":
            return m.index is not None and m.index[0] == o["vsibReg"]
        if m.index is not None and m.index[0] in ("xmm", "ymm", "zmm"):
            return False
        if flavor == "moff":
            if not (m.base == "abs" or m.base is None) or m.index is not None:
                return False
        return size == 0 or m.size == 0 or m.size == size
    if t == "i":
        return a in ("imm", "one") and (a == "imm" or r[1] == 1)
    if t == "l":
        return a == "rel"
    return False


def bind(f, case):
    """Returns list (per form operand) of the requested operand or None (implicit operand not given), or None
    when the request does not fit the form."""
    ops = f["operands"]
    req = case.ops
    expl = [i for i, o in enumerate(ops) if not o["implicit"]]
    for idxs in ((expl,) if len(expl) == len(ops) else (expl, list(range(len(ops))))):
        if len(idxs) != len(req):
            continue
        out = [None] * len(ops)
        ok = True
        for i, r in zip(idxs, req):
            o = ops[i]
            if not any(_admits(o, a, r) for a in o["alts"]):
                ok = False
                break
            out[i] = r
        if ok:
            return out
    return None


# ---------------------------------------------------------------------------------------------------------------
# byte-level parsing
# ---------------------------------------------------------------------------------------------------------------
class Fields(object):
    __slots__ = ("legacy", "seg", "p66", "p67", "pF2", "pF3", "pF0", "rex", "W", "R", "X", "B", "R2", "V2", "vvvv", "L", "pp",
                 "map", "z", "b", "aaa", "kind", "pos", "fwait")


def parse_prefixes(b, mode, want_kind, want_fwait):
    """Parses legacy prefixes and the REX / VEX / XOP / EVEX prefix expected for a form of prefix kind
    `want_kind` ('' legacy).  Returns Fields; raises Mismatch when the bytes do not have that shape."""
    F = Fields()
    F.legacy = []
    F.seg = 0
    F.p66 = F.p67 = F.pF2 = F.pF3 = F.pF0 = False
    F.rex = None
    F.W = F.R = F.X = F.B = F.R2 = F.V2 = 0
    F.vvvv = 0
    F.L = 0
    F.pp = 0
    F.map = 0
    F.z = F.b = F.aaa = 0
    F.kind = ""
    F.fwait = False
    n = len(b)
    pos = 0
    if want_fwait:
        # FWAIT (9B) is an instruction of its own: prefixes of the following x87 instruction must come AFTER it
        if pos < n and b[pos] == 0x9B:
            F.fwait = True
            pos += 1
        else:
            raise Mismatch("field-mismatch:fwait-position", "the record starts with 9B (FWAIT) but byte 0 is %02x: prefixes in "
                           "front of FWAIT belong to FWAIT, not to the x87 instruction" % (b[0] if n else 0), 1)
    while pos < n and b[pos] in LEGACY_PREFIXES:
        c = b[pos]
        F.legacy.append(c)
        if c in SEG_PREFIX:
            F.seg = SEG_PREFIX[c]
        elif c == 0x66:
            F.p66 = True
        elif c == 0x67:
            F.p67 = True
        elif c == 0xF2:
            F.pF2 = True
        elif c == 0xF3:
            F.pF3 = True
        elif c == 0xF0:
            F.pF0 = True
        pos += 1
    if pos >= n:
        raise Mismatch("length", "only prefixes")
    c = b[pos]
    if want_kind in ("", "3DNOW"):
        if mode == 64 and 0x40 <= c <= 0x4F:
            F.rex = c
            F.W, F.R, F.X, F.B = (c >> 3) & 1, (c >> 2) & 1, (c >> 1) & 1, c & 1
            pos += 1
        F.kind = ""
    elif want_kind in ("VEX", "XOP"):
        if want_kind == "VEX" and c == 0xC5:
            if pos + 1 >= n:
                raise Mismatch("length", "truncated VEX2")
            p1 = b[pos + 1]
            if mode == 32 and (p1 & 0xC0) != 0xC0:
                raise Mismatch("field-mismatch:prefix-kind", "C5 is LDS here")
            F.R = ((p1 >> 7) & 1) ^ 1
            F.vvvv = ((p1 >> 3) & 15) ^ 15
            F.L = (p1 >> 2) & 1
            F.pp = p1 & 3
            F.map = 1
            F.W = None      # VEX2 has no W bit (acts as W0 / ignored)
            pos += 2
            F.kind = "VEX"
        elif c == (0xC4 if want_kind == "VEX" else 0x8F):
            if pos + 2 >= n:
                raise Mismatch("length", "truncated VEX3/XOP")
            p1, p2 = b[pos + 1], b[pos + 2]
            if want_kind == "VEX" and mode == 32 and (p1 & 0xC0) != 0xC0:
                raise Mismatch("field-mismatch:prefix-kind", "C4 is LES here")
            if want_kind == "XOP" and (p1 & 0x1F) < 8:
                raise Mismatch("field-mismatch:prefix-kind", "8F with map<8 is POP")
            F.R = ((p1 >> 7) & 1) ^ 1
            F.X = ((p1 >> 6) & 1) ^ 1
            F.B = ((p1 >> 5) & 1) ^ 1
            F.map = p1 & 0x1F
            F.W = (p2 >> 7) & 1
            F.vvvv = ((p2 >> 3) & 15) ^ 15
            F.L = (p2 >> 2) & 1
            F.pp = p2 & 3
            pos += 3
            F.kind = want_kind
        else:
            raise Mismatch("field-mismatch:prefix-kind", "expected a %s prefix, found byte %02x" % (want_kind, c))
        if F.p66 or F.pF2 or F.pF3 or F.pF0:
            raise Mismatch("field-mismatch:legacy-prefix-with-vex", "66/F2/F3/F0 in front of VEX/XOP is #UD")
    elif want_kind == "EVEX":
        if c != 0x62:
            raise Mismatch("field-mismatch:prefix-kind", "expected EVEX (62), found byte %02x" % c)
        if pos + 3 >= n:
            raise Mismatch("length", "truncated EVEX")
        p0, p1, p2 = b[pos + 1], b[pos + 2], b[pos + 3]
        if mode == 32 and (p0 & 0xC0) != 0xC0:
            raise Mismatch("field-mismatch:prefix-kind", "62 is BOUND here")
        if p0 & 0x08:
            raise Mismatch("field-mismatch:evex-reserved", "EVEX P0 bit 3 set (APX B4 / reserved)")
        if not (p1 & 0x04):
            raise Mismatch("field-mismatch:evex-reserved", "EVEX P1 bit 2 clear (reserved, must be 1)")
        F.R = ((p0 >> 7) & 1) ^ 1
        F.X = ((p0 >> 6) & 1) ^ 1
        F.B = ((p0 >> 5) & 1) ^ 1
        F.R2 = ((p0 >> 4) & 1) ^ 1
        F.map = p0 & 7
        F.W = (p1 >> 7) & 1
        F.vvvv = ((p1 >> 3) & 15) ^ 15
        F.pp = p1 & 3
        F.z = (p2 >> 7) & 1
        F.L = (p2 >> 5) & 3
        F.b = (p2 >> 4) & 1
        F.V2 = ((p2 >> 3) & 1) ^ 1
        F.aaa = p2 & 7
        pos += 4
        F.kind = "EVEX"
        if F.p66 or F.pF2 or F.pF3 or F.pF0:
            raise Mismatch("field-mismatch:legacy-prefix-with-evex", "66/F2/F3/F0 in front of EVEX is #UD")
    else:
        raise Inconclusive("prefix kind %s not handled" % want_kind)
    F.pos = pos
    return F


class EA(object):
    """Decoded ModRM memory operand."""
    __slots__ = ("asz", "base", "index", "scale", "disp", "rip", "has_sib", "disp_size")


def parse_modrm(b, pos, mode, F, vsib, n_disp8):
    """Returns (mod, reg, rm, EA or None, new pos).  n_disp8: callable giving the disp8 scale (EVEX) once mod/rm
    are known (needs the b bit only)."""
    n = len(b)
    if pos >= n:
        raise Mismatch("length", "ModRM byte missing")
    m = b[pos]
    pos += 1
    mod, reg, rm = m >> 6, (m >> 3) & 7, m & 7
    if mod == 3:
        return mod, reg, rm, None, pos
    ea = EA()
    ea.rip = False
    ea.has_sib = False
    ea.base = ea.index = None
    ea.scale = 1
    ea.disp = 0
    ea.disp_size = 0
    asz = mode
    if F.p67:
        asz = 32 if mode == 64 else 16
    ea.asz = asz
    if asz == 16:
        base, index = MOD16[rm]
        ea.base, ea.index = base, index
        if mod == 0 and rm == 6:
            ea.base = None
            ea.disp_size = 2
        elif mod == 1:
            ea.disp_size = 1
        elif mod == 2:
            ea.disp_size = 2
    else:
        if rm == 4:
            if pos >= n:
                raise Mismatch("length", "SIB byte missing")
            s = b[pos]
            pos += 1
            ea.has_sib = True
            ss, idx, bs = s >> 6, (s >> 3) & 7, s & 7
            ea.scale = 1 << ss
            index = idx | (F.X << 3)
            if vsib:
                index |= F.V2 << 4
                ea.index = index
            elif index != 4:
                ea.index = index
            else:
                ea.scale = 1
            if bs == 5 and mod == 0:
                ea.base = None
                ea.disp_size = 4
            else:
                ea.base = bs | (F.B << 3)
        elif rm == 5 and mod == 0:
            ea.disp_size = 4
            if mode == 64:
                ea.rip = True
        else:
            ea.base = rm | (F.B << 3)
        if mod == 1:
            ea.disp_size = 1
        elif mod == 2:
            ea.disp_size = 4
    if ea.disp_size:
        if pos + ea.disp_size > n:
            raise Mismatch("length", "displacement truncated")
        v = int.from_bytes(b[pos:pos + ea.disp_size], "little", signed=True)
        pos += ea.disp_size
        if ea.disp_size == 1:
            v *= n_disp8()
        ea.disp = v
    return mod, reg, rm, ea, pos


# ---------------------------------------------------------------------------------------------------------------
# EVEX disp8*N (SDM vol.2 2.7.5, tables 2-34 and 2-35)
# ---------------------------------------------------------------------------------------------------------------
def disp8_scale(f, F, mem_form_op):
    """N for the memory operand of EVEX form f given the decoded prefix fields (b, W, L'L).  The SDM tables amount
    to "N = size of the memory access"; a record whose tuple type contradicts its own memory operand size is
    inconsistent and makes the leg inconclusive for disp8 cases."""
    n = _disp8_scale(f, F, mem_form_op)
    msz = mem_form_op["memSize"] if mem_form_op["memSize"] and mem_form_op["memSize"] > 0 else 0
    if not F.b and msz and not mem_form_op["vsibReg"] and n * 8 != msz:
        raise Inconclusive("tuple type '%s' gives disp8*%d but the record's memory operand is m%d" % (f["tupleType"], n, msz))
    return n


def _disp8_scale(f, F, mem_form_op):
    tt = f["tupleType"]
    vl = 128 << F.L if F.L < 3 else None
    W = F.W
    if vl is None:
        raise Mismatch("field-mismatch:evex-ll", "EVEX.L'L = 11 with a memory operand")
    esz = f["elementSize"] if f["elementSize"] and f["elementSize"] > 0 else 0
    msz = mem_form_op["memSize"] if mem_form_op["memSize"] and mem_form_op["memSize"] > 0 else 0
    if tt in ("fv", "hv", "qv"):
        if F.b:
            e = esz or (64 if W else 32)
            return e // 8
        return vl // {"fv": 8, "hv": 16, "qv": 32}[tt]
    if tt in ("fvm", "fm"):
        return vl // 8
    if tt == "hvm":
        return vl // 16
    if tt == "qvm":
        return vl // 32
    if tt == "ovm":
        return vl // 64
    if tt == "m128":
        return 16
    if tt == "movddup":
        return {128: 8, 256: 32, 512: 64}[vl]
    if tt in ("t1s", "t1"):
        if mem_form_op["vsibReg"]:
            return 8 if W else 4
        if msz in (8, 16, 32, 64):
            # input size 8 -> 1, 16 -> 2, 32 -> 4, 64 -> 8
            return msz // 8
        raise Inconclusive("tuple1-scalar record without element size (memory operand m%d)" % msz)
    if tt == "t1f":
        if msz in (32, 64):
            return msz // 8
        raise Inconclusive("t1f without a 32/64-bit memory operand")
    if tt == "t2":
        return 16 if W else 8
    if tt == "t4":
        return 32 if W else 16
    if tt == "t8":
        return 32
    raise Inconclusive("no disp8*N rule for tuple type '%s'" % tt)


# ---------------------------------------------------------------------------------------------------------------
# comparisons
# ---------------------------------------------------------------------------------------------------------------
def _expect_reg(role, r, num, F, mode, what):
    """requested register r = ('r',kind,id) against the decoded field number."""
    kind, rid = r[1], r[2]
    clause = "operand-mismatch:reg:" + role.lower()
    if kind == "r8hi":
        if F.kind != "" or F.rex is not None:
            raise Mismatch("operand-mismatch:reg:high-byte-with-rex", "%s: %s requested but a REX/VEX prefix is present (the field then means spl..dil)" % (what, X.reg_name(kind, rid)))
        exp = rid + 4
        if rid > 3:
            exp = -1
    elif kind == "r8":
        exp = rid
        if 4 <= rid <= 7 and F.kind == "" and F.rex is None:
            raise Mismatch("operand-mismatch:reg:low-byte-without-rex", "%s: %s requested but there is no REX prefix (the field then means ah..bh)" % (what, X.reg_name(kind, rid)))
    elif kind == "sreg":
        exp = rid - 1
        if not (1 <= rid <= 6):
            exp = -1
    else:
        exp = rid
    if exp != num:
        raise Mismatch(clause, "%s: requested %s (id %d), the %s field holds %d" % (
            what, X.reg_name(kind, rid) or ("%s#%d" % (kind, rid)), rid, role, num))


def _default_seg(base, asz):
    # SDM vol.1 3.7.4: SS for addresses based on (E/R)SP/(E/R)BP, DS otherwise
    return 3 if base in (4, 5) else 4


def _eff_seg(seg, base, mode, asz):
    s = seg if seg else _default_seg(base, asz)
    if mode == 64 and s in (1, 2, 3, 4):
        return 0
    return s


def _wrap(v, bits):
    v &= (1 << bits) - 1
    return v


_RELOCATED = False


def _compare_mem(m, ea, F, mode, L, case, what, result_bits=64):
    """requested Mem m against the decoded EA.  result_bits < 64: only that many low bits of the address are
    observable (LEA into a narrower register)."""
    asz = ea.asz
    # --- requested address size
    req_asz = None
    for r in (m.base, m.index):
        if isinstance(r, tuple) and r[0] in ("r16", "r32", "r64"):
            k = X.KIND_BITS[r[0]]
            if req_asz is not None and req_asz != k:
                raise Mismatch("operand-mismatch:mem:mixed-address-size", "%s: base and index registers of different width accepted" % what)
            req_asz = k
    if isinstance(m.base, tuple) and m.base[0] in ("rip", "label"):
        req_asz = 64 if mode == 64 else 32
    if req_asz is not None and req_asz != asz:
        raise Mismatch("operand-mismatch:mem:address-size", what + ": requested %d-bit addressing, bytes use %d-bit" % (req_asz, asz))
    # --- base / index / scale
    rb = m.base
    if rb == "abs":
        rb = None
    if isinstance(rb, tuple) and rb[0] in ("rip", "label"):
        if rb[0] == "rip" and mode == 32:
            # asmjit emulates [rip+d] in 32-bit mode by an absolute address that a kRelToAbs relocation fills in:
            # faithful once relocated; without a relocation there is no such address form
            if not _RELOCATED:
                raise Mismatch("operand-mismatch:mem:rip", what + ": rip-relative address accepted in 32-bit mode without a relocation")
            if ea.base is not None or ea.index is not None or m.index is not None:
                raise Mismatch("operand-mismatch:mem:base-index", what + ": relocated [rip+d] must be a plain absolute address")
            if _eff_seg(m.seg, None, mode, asz) != _eff_seg(F.seg, None, mode, asz):
                raise Mismatch("operand-mismatch:mem:segment", what + ": requested segment %s, bytes carry segment prefix %s" % (
                    X._SEG[m.seg] if m.seg < 7 else m.seg, X._SEG[F.seg]))
            return
        if not ea.rip:
            raise Mismatch("operand-mismatch:mem:rip", what + ": requested rip-relative, bytes are not")
        if m.index is not None:
            raise Mismatch("operand-mismatch:mem:rip", what + ": rip-relative with index accepted")
        if rb[0] == "rip":
            exp = m.disp
        else:
            back = _label_back(case, rb[1])
            if back is None:
                raise Inconclusive("label not bound")
            exp = back + m.disp - L
        if _wrap(exp, 32) != _wrap(ea.disp, 32) or not (-(1 << 31) <= exp < (1 << 31)):
            raise Mismatch("operand-mismatch:mem:disp", what + ": rip-relative displacement %d expected, %d encoded" % (exp, ea.disp))
        dbase = None
    elif _RELOCATED and (rb is None) and m.index is None:
        # absolute address completed by a relocation: rip-relative or absolute form, value unknown here
        if ea.base is not None or ea.index is not None:
            raise Mismatch("operand-mismatch:mem:base-index", what + ": absolute address requested, bytes use registers")
        dbase = None
    else:
        if ea.rip:
            raise Mismatch("operand-mismatch:mem:rip", what + ": bytes are rip-relative, the request is not")
        want_b = rb[1] if rb is not None else None
        want_i = m.index[1] if m.index is not None else None
        want_s = (1 << m.shift) if m.index is not None else 1
        got = (ea.base, ea.index, ea.scale if ea.index is not None else 1)
        ok = got == (want_b, want_i, want_s)
        vs = m.index is not None and m.index[0] in ("xmm", "ymm", "zmm")
        if not ok and not vs:
            # equivalent forms: index*1 <-> base, base/index exchange at scale 1 (same default segment only)
            def segclass(b):
                return 3 if b in (4, 5) else 4
            alts = []
            if want_i is not None and want_s == 1 and want_b is None:
                alts.append((want_i, None, 1, None, want_i))
            if want_i is None and want_b is not None:
                alts.append((None, want_b, 1, want_b, None))
            if want_i is not None and want_b is not None and want_s == 1:
                alts.append((want_i, want_b, 1, want_b, want_i))
            for ab, ai, asc, ob, nb in alts:
                if got == (ab, ai, asc):
                    if mode == 64 or m.seg or segclass(ob) == segclass(nb) or asz == 16:
                        ok = True
                        want_b = ab
        if not ok:
            raise Mismatch("operand-mismatch:mem:base-index", what + ": requested base %s index %s scale %d, bytes have base %s index %s scale %d" % (
                rb, m.index, want_s, ea.base, ea.index, got[2]))
        # --- displacement / absolute address
        if rb is None and m.index is None:
            A = m.disp & 0xFFFFFFFFFFFFFFFF
            if asz == 64:
                enc = ea.disp & 0xFFFFFFFFFFFFFFFF
            else:
                enc = ea.disp & ((1 << asz) - 1)
            if mode == 32:
                A &= 0xFFFFFFFF
            if result_bits < 64:
                A &= (1 << result_bits) - 1
                enc &= (1 << result_bits) - 1
            if enc != A:
                raise Mismatch("operand-mismatch:mem:absolute-address", what + ": requested absolute address %#x, bytes address %#x (%d-bit addressing)" % (A, enc, asz))
        else:
            if _wrap(m.disp, asz) != _wrap(ea.disp, asz):
                raise Mismatch("operand-mismatch:mem:disp", what + ": requested displacement %d, bytes encode %d" % (m.disp, ea.disp))
        dbase = ea.base
    # --- segment
    want_base_for_seg = rb[1] if isinstance(rb, tuple) and rb[0] in ("r16", "r32", "r64") else None
    if asz == 16:
        # default segment by table row: rows with BP use SS
        want_base_for_seg = 5 if (5 in ((rb[1] if isinstance(rb, tuple) else None), (m.index[1] if m.index else None))) else 0
        dbase = 5 if (ea.base == 5 or ea.index == 5) else 0
    if _eff_seg(m.seg, want_base_for_seg, mode, asz) != _eff_seg(F.seg, dbase, mode, asz):
        raise Mismatch("operand-mismatch:mem:segment", what + ": requested segment %s, bytes carry segment prefix %s" % (
            X._SEG[m.seg] if m.seg < 7 else m.seg, X._SEG[F.seg]))


def _label_back(case, n):
    """Offset of label n relative to the instruction start when bound before it, or ('fwd', k) after it."""
    back = 0
    for p in reversed(case.pre):
        if p.startswith("pad="):
            back += int(p[4:])
        elif p == "bind=%d" % n:
            return -back
    return None


def _label_target(case, n, L):
    b = _label_back(case, n)
    if b is not None:
        return b
    fwd = 0
    for p in case.post:
        if p.startswith("pad="):
            fwd += int(p[4:])
        elif p == "bind=%d" % n:
            return L + fwd
    return None


def _imm_ok(v, field, bits, sign, opsize):
    """Does the encoded `field` (unsigned, `bits` wide) denote the requested value v?"""
    mask = (1 << bits) - 1
    if sign == "signed":
        s = field - (1 << bits) if field >> (bits - 1) else field
        sizes = [opsize] if opsize else [16, 32, 64]
        for osz in sizes:
            osz = max(osz, bits)
            if (s - v) % (1 << osz) == 0 and -(1 << (osz - 1)) <= v < (1 << osz):
                return True
        return False
    if (v & mask) != field:
        return False
    return -(1 << (bits - 1)) <= v < (1 << bits)


# ---------------------------------------------------------------------------------------------------------------
# one candidate
# ---------------------------------------------------------------------------------------------------------------
def _check_form(f, case, b, bound, stage):
    mode = case.mode
    p = _prep(f)
    op = p["op"]
    L = len(b)
    kind = f["prefix"]
    if kind == "REX2":
        raise Inconclusive("REX2 form")
    pp = op["pp"]
    want_fwait = pp == "9B"
    F = parse_prefixes(b, mode, kind, want_fwait)
    pos = F.pos
    opts = case.opts
    stage[0] = 1
    # ---- escape bytes / map
    mm = op["mm"]
    if kind in ("", "3DNOW"):
        esc = {"": [], "0F": [0x0F], "0F38": [0x0F, 0x38], "0F3A": [0x0F, 0x3A], "0F01": [0x0F, 0x01]}.get(mm)
        if esc is None:
            if len(mm) == 2:
                esc = [int(mm, 16)]          # x87: D8..DF escape
            else:
                raise Inconclusive("map %s" % mm)
        if kind == "3DNOW":
            esc = [0x0F, 0x0F]
        for e in esc:
            if pos >= L or b[pos] != e:
                raise Mismatch("field-mismatch:opcode-map", "escape byte %02x expected at offset %d in %s" % (e, pos, b.hex()))
            pos += 1
    else:
        if MAP_NUM.get(mm) != F.map:
            raise Mismatch("field-mismatch:opcode-map", "map %s expected, prefix says %d" % (mm, F.map))
    stage[0] = 2
    # ---- mandatory prefix
    rep_f3 = bool(opts & (OPT["rep"] | OPT["xrelease"]))
    rep_f2 = bool(opts & (OPT["repne"] | OPT["xacquire"]))
    if kind in ("", "3DNOW"):
        want66 = "66" in pp
        wantF2 = pp.endswith("F2")
        wantF3 = pp.endswith("F3")
        if F.p66 != want66:
            raise Mismatch("field-mismatch:66-prefix", "operand-size prefix 66 %s but the record says pp='%s'" % ("present" if F.p66 else "missing", pp))
        if F.pF2 != (wantF2 or rep_f2):
            raise Mismatch("field-mismatch:f2-prefix", "F2 %s (record pp='%s', requested options %#x)" % ("present" if F.pF2 else "missing", pp, opts))
        if F.pF3 != (wantF3 or rep_f3):
            raise Mismatch("field-mismatch:f3-prefix", "F3 %s (record pp='%s', requested options %#x)" % ("present" if F.pF3 else "missing", pp, opts))
        if (rep_f2 or rep_f3) and not f["prefixes"]:
            raise Mismatch("field-mismatch:rep-prefix", "rep/repne/xacquire/xrelease accepted on a form that lists no such prefix")
    else:
        if PP_NUM.get(pp, 0) != F.pp:
            raise Mismatch("field-mismatch:pp", "pp %s expected, prefix has %d" % (pp or "NP", F.pp))
    amd_cr8 = False
    if mode == 32 and F.pF0 and f["name"] == "mov" and not (opts & OPT["lock"]):
        # AMD64 APM vol.3 (MOV CRn, AltMovCr8): outside 64-bit mode the LOCK prefix stands for the 4th bit of the
        # control register number ("LOCK MOV CR0" = CR8), the same registers REX.R reaches in 64-bit mode
        amd_cr8 = any(r is not None and r[0] == "r" and r[1] == "creg" and 8 <= r[2] <= 15 for r in bound)
    if F.pF0 != bool(opts & OPT["lock"]) and not amd_cr8:
        raise Mismatch("field-mismatch:lock-prefix", "LOCK prefix %s" % ("present but not requested" if F.pF0 else "requested but missing"))
    if (opts & OPT["lock"]) and not any(x in f["prefixes"] for x in ("lock", "ilock")):
        raise Mismatch("field-mismatch:lock-prefix", "LOCK accepted on a form that does not list it")
    stage[0] = 3
    # ---- W
    w = op["w"]
    if kind in ("", "3DNOW"):
        if w == "W1" and F.W != 1:
            lea_zx = (f["name"] == "lea" and len(bound) == 2 and bound[1] is not None and bound[1][0] == "m" and
                      bound[1][1].base in (None, "abs") and bound[1][1].index is None and 0 <= bound[1][1].disp < (1 << 32))
            # xchg rax,rax == nop;  lea r64,[abs < 2^32] == lea r32,[abs] (the 32-bit result is zero-extended)
            if not (f["name"] == "xchg" and all(r == ("r", "r64", 0) for r in bound if r is not None)) and not lea_zx:
                raise Mismatch("field-mismatch:rex.w", "REX.W required by the record, not set")
        if w != "W1" and w != "WIG" and F.W == 1:
            raise Mismatch("field-mismatch:rex.w", "REX.W set but the record (%s) has no REX.W" % f["opcodeString"])
    else:
        if w == "W1" and F.W != 1:
            raise Mismatch("field-mismatch:w", "W1 expected")
        if w == "W0" and F.W not in (0, None):
            raise Mismatch("field-mismatch:w", "W0 expected")
    stage[0] = 4
    # ---- opcode byte
    if pos >= L:
        raise Mismatch("length", "opcode byte missing")
    ob = b[pos]
    pos += 1
    oreg = None
    if op["ri"]:
        if (ob & 0xF8) != (p["byte"] & 0xF8):
            raise Mismatch("field-mismatch:opcode", "opcode %02x+r expected, found %02x" % (p["byte"], ob))
        oreg = (ob & 7) | (F.B << 3)
    elif kind == "3DNOW":
        pos -= 1            # the 3DNow! opcode is the suffix byte after the operands
    elif ob != p["byte"]:
        raise Mismatch("field-mismatch:opcode", "opcode %02x expected, found %02x" % (p["byte"], ob))
    stage[0] = 5
    # ---- which requested operand is the memory operand; is the ModRM form register or memory
    roles = p["roles"]
    ops = f["operands"]
    mem_req = None
    mem_fo = None
    for i, r in enumerate(bound):
        if r is not None and r[0] == "m" and roles[i] == "M":
            mem_req, mem_fo = r[1], ops[i]
    mod = reg = rm = None
    ea = None
    if p["has_modrm"] or kind == "3DNOW":
        vsib = bool(f["vsibReg"])

        def n8():
            if kind != "EVEX":
                return 1
            if mem_fo is None:
                raise Inconclusive("memory form without a memory operand in the record")
            return disp8_scale(f, F, mem_fo)
        mod, reg, rm, ea, pos = parse_modrm(b, pos, mode, F, vsib, n8)
        if p["modrm_opcode"] is not None:
            if (0xC0 | reg << 3 | rm) != p["modrm_opcode"] or mod != 3:
                raise Mismatch("field-mismatch:modrm-opcode", "second opcode byte %02x expected" % p["modrm_opcode"])
        else:
            if op["mod"] == "11" and mod != 3:
                raise Mismatch("field-mismatch:modrm.mod", "register form (mod=11) required")
            if op["mod"] == "!(11)" and mod == 3:
                raise Mismatch("field-mismatch:modrm.mod", "memory form required")
            if op["modr"].isdigit() and reg != int(op["modr"]):
                raise Mismatch("field-mismatch:modrm.reg", "/%s expected, ModRM.reg is %d" % (op["modr"], reg))
            if op["modrm"].isdigit() and rm != int(op["modrm"]):
                raise Mismatch("field-mismatch:modrm.rm", "ModRM.rm %s expected" % op["modrm"])
    if (ea is not None) != (mem_req is not None):
        if mem_req is not None:
            raise Mismatch("operand-mismatch:rm", "memory operand requested, ModRM encodes a register")
        if not any(r is not None and r[0] == "m" for r in bound):
            raise Mismatch("operand-mismatch:rm", "ModRM encodes memory, a register operand was requested")
    stage[0] = 6
    # ---- address-size prefix
    if F.p67 and ea is None:
        has_implicit_mem = any(roles[i] in ("X", "A") for i in range(len(ops))) or any(o["implicit"] and o["mem"] for o in ops)
        if not op["_67h"] and not has_implicit_mem:
            # no address to size: harmless for the CPU, nothing to compare
            pass
    if op["_67h"] and not F.p67:
        raise Mismatch("field-mismatch:67-prefix", "the record requires the address-size prefix 67")
    # ---- L
    l = op["l"]
    bcst_req = mem_req.bcst if mem_req is not None else 0
    er_req = bool(opts & OPT["er"])
    sae_req = bool(opts & OPT["sae"])
    if kind in ("VEX", "XOP", "EVEX"):
        want_l = None
        if l == "128":
            want_l = 0
        elif l == "256":
            want_l = 1
        elif l == "512":
            want_l = 2
        elif l in ("xy", "xyz"):
            want_l = f["groupIndex"]
        if kind == "EVEX" and F.b and ea is None:
            # static rounding / SAE: L'L is the rounding control, not a length
            if er_req:
                rc = {0: 0, OPT["rd"]: 1, OPT["ru"]: 2, OPT["rz"]: 3}[opts & OPT["rz"]]
                if F.L != rc:
                    raise Mismatch("field-mismatch:evex-rc", "rounding mode %d requested, EVEX.L'L is %d" % (rc, F.L))
        elif want_l is not None and F.L != want_l:
            raise Mismatch("field-mismatch:l", "vector length L=%d expected (%s), prefix has %d" % (want_l, l, F.L))
    # ---- EVEX decorations
    if kind == "EVEX":
        kreq = case.extra[1] if (case.extra is not None and case.extra[0] == "k") else 0
        if case.extra is not None and case.extra[0] != "k":
            raise Mismatch("field-mismatch:extra-reg", "non-mask extra register accepted on an EVEX form")
        if F.aaa != kreq:
            raise Mismatch("field-mismatch:evex-aaa", "mask k%d requested, EVEX.aaa is %d" % (kreq, F.aaa))
        if kreq and not f["kmask"]:
            raise Mismatch("field-mismatch:evex-aaa", "masking accepted on a form without {k}")
        zreq = 1 if opts & OPT["z"] else 0
        if F.z != zreq:
            raise Mismatch("field-mismatch:evex-z", "zeroing %s, EVEX.z is %d" % ("requested" if zreq else "not requested", F.z))
        if zreq and not f["zmask"]:
            raise Mismatch("field-mismatch:evex-z", "{z} accepted on a form without zeroing")
        want_b = 1 if (bcst_req or er_req or sae_req) else 0
        if F.b != want_b:
            raise Mismatch("field-mismatch:evex-b", "EVEX.b is %d, request implies %d (broadcast %s, er %s, sae %s)" % (F.b, want_b, bcst_req, er_req, sae_req))
        if (er_req or sae_req) and ea is not None:
            raise Mismatch("field-mismatch:evex-b", "{er}/{sae} accepted with a memory operand")
        if er_req and not f["er"]:
            raise Mismatch("field-mismatch:evex-b", "{er} accepted on a form without embedded rounding")
        if sae_req and not f["sae"]:
            raise Mismatch("field-mismatch:evex-b", "{sae} accepted on a form without it")
    else:
        if case.extra is not None and case.extra[0] == "k":
            raise Mismatch("field-mismatch:mask", "mask register accepted on a non-EVEX form")
        if opts & (OPT["z"] | OPT["er"] | OPT["sae"]):
            raise Mismatch("field-mismatch:decoration", "{z}/{er}/{sae} accepted on a non-EVEX form")
        if bcst_req:
            raise Mismatch("field-mismatch:broadcast", "broadcast accepted on a non-EVEX form")
    stage[0] = 7
    # ---- operands
    used_v = False
    imm_ops = []
    is4_reg = None
    for i, r in enumerate(bound):
        role = roles[i]
        o = ops[i]
        if r is None:
            continue
        what = "op%d" % i
        if role == "R":
            if r[0] != "r":
                raise Mismatch("operand-mismatch:kind", what + ": non-register in ModRM.reg role")
            num = reg | (F.R << 3)
            if kind == "EVEX":
                num |= F.R2 << 4
            if amd_cr8 and r[1] == "creg":
                num |= 8
            _expect_reg("ModRM.reg", r, num, F, mode, what)
        elif role == "M":
            if r[0] == "r":
                if ea is not None:
                    raise Mismatch("operand-mismatch:kind", what + ": register requested, ModRM encodes memory")
                num = rm | (F.B << 3)
                if kind == "EVEX" and r[1] in ("xmm", "ymm", "zmm"):
                    num |= F.X << 4
                _expect_reg("ModRM.rm", r, num, F, mode, what)
            elif r[0] == "m":
                if ea is None:
                    raise Mismatch("operand-mismatch:kind", what + ": memory requested, ModRM encodes a register")
                rb = 64
                if f["name"] == "lea" and bound[0] is not None and bound[0][0] == "r":
                    rb = X.KIND_BITS.get(bound[0][1], 64)
                    if rb == 64 and kind == "" and F.W != 1:
                        rb = 32
                _compare_mem(r[1], ea, F, mode, L, case, what, rb)
            else:
                raise Mismatch("operand-mismatch:kind", what + ": bad operand in r/m role")
        elif role == "V":
            if r[0] != "r":
                raise Mismatch("operand-mismatch:kind", what + ": non-register in vvvv role")
            if kind not in ("VEX", "XOP", "EVEX"):
                raise Inconclusive("V role on a legacy form")
            num = F.vvvv | ((F.V2 << 4) if kind == "EVEX" else 0)
            if mode == 32:
                num &= 7 | (num & 0x10)
            _expect_reg("vvvv", r, num, F, mode, what)
            used_v = True
        elif role == "S":
            if r[0] != "r":
                raise Mismatch("operand-mismatch:kind", what + ": non-register in is4 role")
            is4_reg = (r, what)
        elif role == "O":
            if r[0] != "r":
                raise Mismatch("operand-mismatch:kind", what + ": non-register in opcode+r role")
            _expect_reg("opcode+r", r, oreg, F, mode, what)
        elif role == "F":
            a = o["alts"][0]
            if r != ("r", a[1], a[2]):
                raise Mismatch("operand-mismatch:kind", what + ": fixed register %s expected" % o["data"])
        elif role == "C":
            lead = None
            for j in range(i - 1, -1, -1):
                if bound[j] is not None and bound[j][0] == "r":
                    lead = bound[j]
                    break
            if lead is None or r[2] != lead[2] + o["alts"][0][2]:
                raise Mismatch("operand-mismatch:kind", what + ": register pair not consecutive")
        elif role == "I":
            imm_ops.append((i, r))
        elif role == "J":
            pass
        elif role == "A":
            pass
        elif role == "X":
            # implicit address operand (string instructions ...): fixed base register, segment and address size
            m = r[1]
            rn = o["memRegOnly"]
            if rn in X.Z_REGS:
                want_id = X.Z_REGS[rn]
                base = m.base
                if not (isinstance(base, tuple) and base[0] in ("r16", "r32", "r64") and base[1] == want_id and m.index is None and m.disp == 0):
                    raise Mismatch("operand-mismatch:mem:implicit-address", what + ": implicit address must be [%s], %r accepted" % (rn, m))
                asz = mode if not F.p67 else (32 if mode == 64 else 16)
                if X.KIND_BITS[base[0]] != asz:
                    raise Mismatch("operand-mismatch:mem:address-size", "%s: %s requested, bytes use %d-bit addressing" % (what, X.reg_name(*base), asz))
                fixed_seg = o["memSegment"] == "es"
                if fixed_seg:
                    if m.seg not in (0, 1):
                        raise Mismatch("operand-mismatch:mem:segment-es-fixed", what + ": es:[%s] cannot be overridden, segment %d accepted" % (rn, m.seg))
                else:
                    if _eff_seg(m.seg, None, mode, asz) != _eff_seg(F.seg, None, mode, asz):
                        raise Mismatch("operand-mismatch:mem:segment", what + ": segment %s requested, prefix %s present" % (X._SEG[m.seg], X._SEG[F.seg]))
            elif rn in ("r32", "r64"):
                # movdir64b / enqcmd: the destination address is held by the register in ModRM.reg, its width is
                # the address size of the instruction
                base = m.base
                if not (isinstance(base, tuple) and base[0] in ("r16", "r32", "r64") and m.index is None and m.disp == 0):
                    raise Mismatch("operand-mismatch:mem:implicit-address", what + ": destination must be a plain [register], %r accepted" % (m,))
                asz = mode if not F.p67 else (32 if mode == 64 else 16)
                if X.KIND_BITS[base[0]] != asz:
                    raise Mismatch("operand-mismatch:mem:address-size", "%s: %s requested, bytes use %d-bit addressing" % (what, X.reg_name(*base), asz))
                if reg is None:
                    raise Inconclusive("register-addressed operand without ModRM")
                if op["modr"].isdigit():
                    # /digit occupies ModRM.reg: the address register is ModRM.rm with mod=11 (umonitor)
                    if mod != 3:
                        raise Mismatch("field-mismatch:modrm.mod", "register form (mod=11) required")
                    _expect_reg("ModRM.rm", ("r", base[0], base[1]), rm | (F.B << 3), F, mode, what)
                else:
                    _expect_reg("ModRM.reg", ("r", base[0], base[1]), reg | (F.R << 3), F, mode, what)
                if o["memSegment"] == "es":
                    # movdir64b / enqcmd destination: always ES
                    if m.seg not in (0, 1):
                        raise Mismatch("operand-mismatch:mem:segment-es-fixed", what + ": es:[reg] cannot be overridden, segment %d accepted" % m.seg)
                else:
                    # umonitor: ds:[reg], an ordinary overridable data segment
                    if _eff_seg(m.seg, None, mode, asz) != _eff_seg(F.seg, None, mode, asz):
                        raise Mismatch("operand-mismatch:mem:segment", what + ": segment %s requested, prefix %s present" % (X._SEG[m.seg], X._SEG[F.seg]))
            else:
                raise Inconclusive("implicit address operand %s" % rn)
        elif role is None:
            pass
        else:
            raise Inconclusive("no role for operand %d (%s)" % (i, o["data"]))
    if kind in ("VEX", "XOP", "EVEX") and not used_v:
        if F.vvvv != 0 and not (mode == 32 and (F.vvvv & 7) == 0):
            raise Mismatch("field-mismatch:vvvv", "vvvv must be 1111b when unused, decoded register %d" % F.vvvv)
        if kind == "EVEX" and F.V2 and not f["vsibReg"]:
            raise Mismatch("field-mismatch:evex-v'", "EVEX.V' must be 1 when unused")
    if kind == "EVEX":
        # R' / X extension bits on operands that cannot use them
        for i, r in enumerate(bound):
            if r is None or r[0] != "r":
                continue
            if roles[i] == "R" and r[1] not in ("xmm", "ymm", "zmm") and F.R2:
                raise Mismatch("field-mismatch:evex-r'", "EVEX.R' set with a %s register in ModRM.reg" % r[1])
    stage[0] = 8
    # ---- moffs
    for i, r in enumerate(bound):
        if roles[i] == "A" and r is not None:
            asz = mode if not F.p67 else (32 if mode == 64 else 16)
            nb = asz // 8
            if pos + nb > L:
                raise Mismatch("length", "moffs truncated")
            v = int.from_bytes(b[pos:pos + nb], "little")
            pos += nb
            m = r[1]
            A = m.disp & ((1 << 64) - 1)
            if mode == 32:
                A &= 0xFFFFFFFF
            if v != A and not _RELOCATED:
                raise Mismatch("operand-mismatch:mem:absolute-address", "op%d: " % i + "moffs %#x expected, %#x encoded (%d-bit)" % (A, v, asz))
            if _eff_seg(m.seg, None, mode, asz) != _eff_seg(F.seg, None, mode, asz):
                raise Mismatch("operand-mismatch:mem:segment", "op%d: " % i + "segment mismatch on moffs")
    # ---- relative displacement
    for i, r in enumerate(bound):
        if roles[i] == "J" and r is not None:
            nb = f["rel"] or (ops[i]["rel"] // 8)
            if pos + nb > L:
                raise Mismatch("length", "rel%d truncated" % (nb * 8))
            v = int.from_bytes(b[pos:pos + nb], "little", signed=True)
            pos += nb
            t = _label_target(case, r[1], L)
            if t is None:
                raise Inconclusive("unbound label")
            if v != t - L:
                raise Mismatch("operand-mismatch:rel", "op%d: " % i + "rel%d %d expected (target %+d from start, length %d), %d encoded" % (nb * 8, t - L, t, L, v))
    stage[0] = 9
    # ---- immediates
    if p["is4"]:
        if pos >= L:
            raise Mismatch("length", "is4 byte missing")
        v = b[pos]
        pos += 1
        r, what = is4_reg if is4_reg else (None, None)
        if r is not None:
            num = v >> 4
            if mode == 32:
                num &= 7
            _expect_reg("imm8[7:4]", r, num, F, mode, what)
        lo = v & 15
        i4 = [x for x in imm_ops if ops[x[0]]["alts"][0][0] == "imm" and ops[x[0]]["alts"][0][1] == 4]
        if i4:
            if (i4[0][1][1] & 15) != lo or not (-8 <= i4[0][1][1] < 16):
                raise Mismatch("operand-mismatch:imm", "op%d: " % i4[0][0] + "imm4 %d requested, %d encoded" % (i4[0][1][1], lo))
    else:
        total = 0
        order = [x[0] for x in p["imms"]]
        imm_ops.sort(key=lambda x: order.index(x[0]) if x[0] in order else 99)
        for i, r in imm_ops:
            a = ops[i]["alts"][0]
            if a[0] == "one":
                if r[1] != 1:
                    raise Mismatch("operand-mismatch:imm", "op%d: " % i + "constant 1 expected")
                continue
            bits, sign = a[1], a[2]
            nb = bits // 8
            if nb == 0:
                raise Inconclusive("imm%d outside is4" % bits)
            if pos + nb > L:
                raise Mismatch("length", "imm%d truncated" % bits)
            v = int.from_bytes(b[pos:pos + nb], "little")
            pos += nb
            total += bits
            osz = p["opsize"] or ((16 if F.p66 else (64 if mode == 64 else 32)) if kind == "" else 0)
            if not _imm_ok(r[1], v, bits, sign, osz if sign == "signed" else 0):
                raise Mismatch("operand-mismatch:imm", "op%d: " % i + "immediate %d requested, imm%d field holds %#x (%s)" % (r[1], bits, v, sign))
        if f["imm"] and total != f["imm"] and not any(ops[i]["alts"][0][0] == "one" for i, r in imm_ops):
            raise Inconclusive("record immediate bits %d != operand immediates %d" % (f["imm"], total))
    # ---- 3DNow! suffix
    if kind == "3DNOW":
        if pos >= L or b[pos] != p["byte"]:
            raise Mismatch("field-mismatch:opcode", "3DNow! suffix %02x expected" % p["byte"])
        pos += 1
    if pos != L:
        raise Mismatch("length", "the record accounts for %d bytes, %d were appended (%s)" % (pos, L, b.hex()), 2)
    return True


_ID_LIMIT_64 = {"r8": 16, "r8hi": 4, "r16": 16, "r32": 16, "r64": 16, "xmm": 32, "ymm": 32, "zmm": 32, "mm": 8, "k": 8,
                "tmm": 8, "st": 8, "creg": 16, "dreg": 16, "bnd": 4, "rip": 1}
_ID_LIMIT_32 = {"r8": 4, "r8hi": 4, "r16": 8, "r32": 8, "r64": 0, "xmm": 8, "ymm": 8, "zmm": 8, "mm": 8, "k": 8,
                "tmm": 8, "st": 8, "creg": 16, "dreg": 8, "bnd": 4, "rip": 1}


def unencodable_ids(case):
    """Registers of the request that do not exist in the mode (without APX): (list of descriptions)."""
    lim = _ID_LIMIT_64 if case.mode == 64 else _ID_LIMIT_32
    bad = []

    def chk(kind, rid, where):
        if kind == "sreg":
            if not (1 <= rid <= 6):
                bad.append("%s %s#%d" % (where, kind, rid))
        elif kind in lim and rid >= lim[kind]:
            bad.append("%s %s#%d" % (where, kind, rid))
    for i, o in enumerate(case.ops):
        if o[0] == "r":
            chk(o[1], o[2], "op%d" % i)
        elif o[0] == "m":
            m = o[1]
            for r, w in ((m.base, "base"), (m.index, "index")):
                if isinstance(r, tuple) and r[0] not in ("label",):
                    chk(r[0], r[1], "op%d %s" % (i, w))
    if case.extra is not None:
        chk(case.extra[0], case.extra[1], "extra")
    return bad


def _hi_vec(case):
    for o in case.ops:
        if o[0] == "r" and o[1] in ("xmm", "ymm", "zmm") and 16 <= o[2] < 32:
            return True
        if o[0] == "m" and o[1].index is not None and o[1].index[0] in ("xmm", "ymm", "zmm") and 16 <= o[1].index[1] < 32:
            return True
    return False


def check(case, b, cands, relocated=False):
    """relocated=True: the emitter attached a relocation to the instruction (absolute address completed when the code
    is relocated): the address field of an absolute memory operand / moffs is then not compared, everything else is.
    Verdict for one accepted case.  cands: all database forms of the mnemonic.  A failing verdict for a request
    that names a register which cannot be encoded at all is filed under one clause of its own
    (accepted-unencodable:*): the root cause is the acceptance, whatever field shows the damage."""
    global _RELOCATED
    _RELOCATED = relocated
    try:
        v = _check(case, b, cands)
    finally:
        _RELOCATED = False
    if v.status == "fail":
        bad = unencodable_ids(case)
        if bad:
            return Verdict("fail", "accepted-unencodable:register-id", "%s does not exist in %d-bit mode; %s" % (", ".join(bad), case.mode, v.detail))
        if _hi_vec(case) and not any(f["prefix"] == "EVEX" and not f["apx"] and bind(f, case) is not None for f in cands):
            return Verdict("fail", "accepted-unencodable:vec16-31-without-evex-form",
                           "vector register 16..31 accepted for an instruction form that has no EVEX encoding; " + v.detail)
    return v


def _check(case, b, cands):
    mode = case.mode
    tried = 0
    best = None
    inconc = None
    for f in cands:
        if mode not in f["modes"]:
            continue
        if f["apx"] and (f["prefix"] != "EVEX" or f["opcode"]["mm"] == "MAP4" or f["opcode"]["nd"] or f["opcode"]["nf"] or
                         any(o["data"] == "dfv" for o in f["operands"])):
            continue        # REX2 / EVEX map 4 / NDD / NF / dfv: outside the decoder (and outside this asmjit)
        _prep(f)
        bound = bind(f, case)
        if bound is None:
            continue
        tried += 1
        stage = [0]
        try:
            _check_form(f, case, b, bound, stage)
            return Verdict("pass", "", f["sig"])
        except Mismatch as e:
            # keep the mismatch of the candidate that got furthest (then prefer the form the case was generated from)
            score = (stage[0], 1 if f["idx"] == case.form else 0, e.weight)
            if best is None or score > best[0]:
                best = (score, e, f)
        except Inconclusive as e:
            inconc = "%s [%s]" % (e, f["sig"])
        except (IndexError, KeyError, ValueError, TypeError) as e:
            inconc = "decoder error %r on form %s" % (e, f["sig"])
    if inconc is not None:
        return Verdict("inconclusive", "", inconc)
    if best is not None:
        e, f = best[1], best[2]
        return Verdict("fail", e.clause, "%s (record '%s' %s)" % (e.detail, f["sig"], f["opcodeString"]))
    if tried == 0:
        return Verdict("fail", "operand-mismatch:no-form", "no database form of '%s' admits the accepted operands in %d-bit mode" % (case.name, mode))
    return Verdict("inconclusive", "", "no verdict")
