"""stub"""
class Verdict(object):
    __slots__ = ("status", "clause", "detail")
    def __init__(self, status, clause="", detail=""):
        self.status, self.clause, self.detail = status, clause, detail
def check(case, b, cands):
    return Verdict("inconclusive", "", "stub")
